(* C09 extension: summary statistics of a sample list as a reader observes it, and the correspondence cases
   for quantile / median_pdf / values_at_sigma / errors_at_sigma (binary64 bit for bit, exact rationals exactly). *)
From Coq Require Import List String Bool Arith PeanoNat.
Import ListNotations.
From PAFC09 Require Import Model Quantile.

(* ---------------------------------------------------------------- statistics of what a reader observes *)
Section Observed.
  Context {V : Type}.
  Context (add sub mul div : V -> V -> V) (leb ltb eqb : V -> V -> bool) (isnan : V -> bool) (zero one c99 half : V).
  Context (gtb : V -> V -> bool).
  (* levels (1 - erf(sigma / sqrt 2)) / 2 and their complements for sigma = 1, 3; unconverged_sample_size *)
  Context (q1lo q1hi q3lo q3hi : V) (ucs : nat).
  (* np.argsort per parameter column *)
  Context (arrange : nat -> list (V * V) -> list (V * V)).

  (* max_log_likelihood(as_instance=False): the parameter list of the first sample of maximal log-likelihood *)
  Definition best_of (pl : list (list V)) (ll : list V) : list V :=
    match argmax_first gtb ll with Some i => nth i pl [] | None => [] end.

  Definition stats_observed (o : observed V) : stats V :=
    match o with
    | (pl, ll, _, w) =>
        stats_of add sub mul div leb ltb eqb isnan zero one c99 half arrange ucs pl w (best_of pl ll) q1lo q1hi q3lo q3hi
    end.

  (* the statistics of a sample list read against a model (tps, Ws) *)
  Definition sample_stats (tps : list path) (Ws : list (path * nat)) (S : list (sample V)) : res (stats V) :=
    res_bind (observe tps Ws S) (fun o => Ok (stats_observed o)).
End Observed.

(* ================================================================ correspondence cases *)
From Coq Require Import QArith.
From Coq Require Import Floats.PrimFloat.
From PAFCommon Require Import PyFloat.
Open Scope list_scope.

Definition qres_eqb {A} (e : A -> A -> bool) (a b : qres A) : bool :=
  match a, b with
  | QOk x, QOk y => e x y
  | QIndexErr, QIndexErr => true
  | QValueErr, QValueErr => true
  | _, _ => false
  end.

Definition perm_ok (n : nat) (perm : list nat) : bool := list_eqb Nat.eqb (sort_nat perm) (seq 0 n).
Definition arrange_by {A} (d : A) (perm : list nat) (l : list A) : list A := map (fun i => nth i l d) perm.
Fixpoint sorted_by {A} (leb : A -> A -> bool) (l : list A) : bool :=
  match l with
  | a :: ((b :: _) as r) => leb a b && sorted_by leb r
  | _ => true
  end.

(* sign of a zero is not compared where numpy's SIMD min / max decide it *)
Definition fsame (a b : float) : bool := fbits_eqb a b || (PrimFloat.eqb a 0%float && PrimFloat.eqb b 0%float).
Definition fpair_eqb (e : float -> float -> bool) (a b : list float * list float) : bool :=
  list_eqb e (fst a) (fst b) && list_eqb e (snd a) (snd b).

Definition Qlist_eqb (a b : list Q) : bool := list_eqb Qeq_bool a b.
Definition has_ties (xs : list Q) : bool :=
  let s := map fst (q_sort (combine xs xs)) in negb (sorted_by (fun a b => negb (Qle_bool b a)) s).

Inductive case2 :=
(* quantile(x, q, weights)[0] for each level q; perm = np.argsort(x) *)
| CQuantF (xs ws : list float) (perm : list nat) (qs : list float) (outs : list (qres float))
(* the same call on inputs for which every binary64 operation is exact, as rationals *)
| CQuantQ (xs ws : list Q) (perm : list nat) (qs : list Q) (outs : list (qres Q))
(* SamplesPDF over the rows: perms = np.argsort of every parameter column *)
| CStats (pl : list (list float)) (ll w : list float) (perms : list (list nat)) (ucs : nat)
         (q1lo q1hi q3lo q3hi : float)
         (best : list float) (median : qres (list float))
         (v1 e1 v3 e3 : qres (list float * list float)).

Definition check_case2 (c : case2) : bool :=
  match c with
  | CQuantF xs ws perm qs outs =>
      let s := arrange_by (0%float, 0%float) perm (combine xs ws) in
      perm_ok (List.length xs) perm
      && sorted_by PrimFloat.leb (map fst s)
      && list_eqb (qres_eqb fbits_eqb) (map (f_quantile_sorted s) qs) outs
  | CQuantQ xs ws perm qs outs =>
      let l := combine xs ws in
      let s := arrange_by (0%Q, 0%Q) perm l in
      perm_ok (List.length xs) perm
      && sorted_by Qle_bool (map fst s)
      && list_eqb (qres_eqb Qeq_bool) (map (q_quantile_sorted s) qs) outs
      (* without ties the arrangement is the stable sort: the function the theorems speak about *)
      && (has_ties xs || list_eqb (qres_eqb Qeq_bool) (map (q_quantile l) qs) outs)
  | CStats pl ll w perms ucs q1lo q1hi q3lo q3hi best median v1 e1 v3 e3 =>
      let arrange := fun k l => arrange_by (0%float, 0%float) (nth k perms []) l in
      let cols := columns 0%float pl in
      let conv := pdf_converged PrimFloat.ltb 0x1.fae147ae147aep-1%float w in
      let e := if conv then fbits_eqb else fsame in
      let st := stats_observed PrimFloat.add PrimFloat.sub PrimFloat.mul PrimFloat.div PrimFloat.leb PrimFloat.ltb
                               PrimFloat.eqb fnan 0%float 1%float 0x1.fae147ae147aep-1%float 0.5%float fgtb
                               q1lo q1hi q3lo q3hi ucs arrange (pl, ll, ll, w) in
      Nat.eqb (List.length perms) (List.length cols)
      && forallb (fun kc => perm_ok (List.length pl) (fst kc)
                            && sorted_by PrimFloat.leb (arrange_by 0%float (fst kc) (snd kc))) (combine perms cols)
      && flist_eqb (best_of fgtb pl ll) best
      && qres_eqb flist_eqb (st_median st) median
      && qres_eqb (fpair_eqb e) (st_v1 st) v1 && qres_eqb (fpair_eqb e) (st_e1 st) e1
      && qres_eqb (fpair_eqb e) (st_v3 st) v3 && qres_eqb (fpair_eqb e) (st_e3 st) e3
  end.
