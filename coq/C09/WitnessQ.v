(* C09 extension: non-vacuity witnesses of the summary-statistics theorems. *)
From Coq Require Import List String Bool Arith Permutation Sorted.
Import ListNotations.
From Coq Require Import QArith Lqa.
From PAFC09 Require Import Model Lib Proofs1 Proofs2 Proofs3 Proofs4 Proofs5 Proofs6 Proofs8 Witness
     Quantile Stats ProofsQ1 ProofsQ2 ProofsQ3.
Open Scope list_scope.
Open Scope Q_scope.

(* three samples given out of order; the sample of largest value carries half of the weight *)
Definition wl : list (Q * Q) := [(3, 2); (1, 1); (2, 1)].

Example wl_weights_ok : weights_ok wl.
Proof. repeat constructor; simpl; lra. Qed.
Example wl_trunc_total : trunc_total (q_sort wl) == 2.
Proof. vm_compute. reflexivity. Qed.
Example wl_trunc_positive : 0 < trunc_total (q_sort wl).
Proof. vm_compute. reflexivity. Qed.
Example wl_sorted : q_sort wl = [(1, 1); (2, 1); (3, 2)].
Proof. vm_compute. reflexivity. Qed.
Example wl_distinct : values_distinct wl.
Proof.
  intros p p' Hp Hp' E. simpl in Hp, Hp'.
  destruct Hp as [<-|[<-|[<-|[]]]]; destruct Hp' as [<-|[<-|[<-|[]]]]; try reflexivity; simpl in E; exfalso; revert E; vm_compute; discriminate.
Qed.
(* the median is an exact hit of a breakpoint; the 1/4 and 3/4 levels are interpolated *)
Example wl_median : qres_equiv (q_quantile wl (1 # 2)) (QOk 2).
Proof. vm_compute. reflexivity. Qed.
Example wl_quartiles : qres_equiv (q_quantile wl (1 # 4)) (QOk (3 # 2)) /\ qres_equiv (q_quantile wl (3 # 4)) (QOk (5 # 2)).
Proof. split; vm_compute; reflexivity. Qed.
Example wl_extremes : qres_equiv (q_quantile wl 0) (QOk 1) /\ qres_equiv (q_quantile wl 1) (QOk 3).
Proof. split; vm_compute; reflexivity. Qed.
Example wl_lower_step : qres_equiv (q_quantile_lower wl (3 # 4)) (QOk 2).
Proof. vm_compute. reflexivity. Qed.
(* the conclusions of the bracket / monotonicity theorems on this input *)
Example wl_bracket : exists r a b, q_quantile wl (3 # 4) = QOk r /\ adjacent_or_last (map fst (q_sort wl)) a b /\
                                   In a (map fst wl) /\ In b (map fst wl) /\ a <= r <= b.
Proof. apply quantile_bracket; [exact wl_weights_ok | exact wl_trunc_positive | lra | lra]. Qed.
Example wl_permuted : q_quantile wl (3 # 4) = q_quantile [(1, 1); (2, 1); (3, 2)] (3 # 4).
Proof.
  apply quantile_permutation; [|exact wl_distinct].
  change wl with ([(3, 2)] ++ [(1, 1); (2, 1)]). apply (Permutation_app_comm [(3, 2)] [(1, 1); (2, 1)]).
Qed.
(* errors: fewer than two samples, level outside [0, 1] *)
Example one_sample_index_error : q_quantile [(5, 1)] (1 # 2) = QIndexErr.
Proof. reflexivity. Qed.
Example level_value_error : q_quantile wl (3 # 2) = QValueErr.
Proof. reflexivity. Qed.
(* the sorted arrangement numpy may give for tied values, both orders satisfy the hypotheses *)
Example tied_sorted_both : StronglySorted vle [(1, 1); (1, 4); (2, 1)] /\ StronglySorted vle [(1, 4); (1, 1); (2, 1)].
Proof. split; repeat constructor; unfold vle; simpl; lra. Qed.

(* statistics over Q of a two-parameter sample set (three rows, weights 1/4 1/4 1/2: converged) *)
Definition q_stats := stats_observed (V := Q) Qplus Qminus Qmult Qdiv Qle_bool Qltb Qeq_bool qnan 0 1 (99 # 100) (1 # 2)
                                     (fun a b => Qltb b a) (1 # 8) (7 # 8) (1 # 64) (63 # 64) 100%nat
                                     (fun _ l => q_sort l).
Definition q_obs : observed Q := ([[1; 10]; [2; 30]; [3; 20]], [-(5); -(1); -(3)], [0; 0; 0], [1 # 4; 1 # 4; 1 # 2]).
Example q_stats_median : qres_eqb (list_eqb Qeq_bool) (st_median (q_stats q_obs)) (QOk [2; 45 # 2]) = true.
Proof. vm_compute. reflexivity. Qed.
Example q_stats_errors_1sigma :
  qres_eqb (fun a b => list_eqb Qeq_bool (fst a) (fst b) && list_eqb Qeq_bool (snd a) (snd b))
           (st_e1 (q_stats q_obs)) (QOk ([2 - (5 # 4); (45 # 2) - (55 # 4)], [(11 # 4) - 2; (225 # 8) - (45 # 2)])) = true.
Proof. vm_compute. reflexivity. Qed.

(* the hypotheses of C09_stats_survive_csv / _db are satisfiable (mixed-depth model, two samples, V = nat) *)
Example stats_survive_mixed :
  let SS := sample_stats Nat.add Nat.sub Nat.mul Nat.div Nat.leb Nat.ltb Nat.eqb (fun _ => false) 0%nat 1%nat 99%nat 50%nat
                         ngtb 16%nat 84%nat 1%nat 99%nat 100%nat (fun _ l => l)
                         (tuple_paths [] t_mixed) (sorted_walk t_mixed) in
  res_bind (csv_roundtrip_pos nid nid Nat.add true (tuple_paths [] t_mixed) (sorted_walk t_mixed) (from_lists true (sorted_walk t_mixed) rows2)) SS
  = SS (from_lists true (sorted_walk t_mixed) rows2)
  /\ res_bind (db_roundtrip true (from_lists true (sorted_walk t_mixed) rows2)) SS = SS (from_lists true (sorted_walk t_mixed) rows2).
Proof.
  cbv zeta. split.
  - apply (stats_survive_csv Nat.add Nat.sub Nat.mul Nat.div Nat.leb Nat.ltb Nat.eqb (fun _ => false) 0%nat 1%nat 99%nat 50%nat
                             ngtb 16%nat 84%nat 1%nat 99%nat 100%nat (fun _ l => l) nid nid (fun v => eq_refl) t_mixed rows2
                             wf_mixed (fun _ => inj_mixed) rows2_ok_mixed).
  - apply (stats_survive_db Nat.add Nat.sub Nat.mul Nat.div Nat.leb Nat.ltb Nat.eqb (fun _ => false) 0%nat 1%nat 99%nat 50%nat
                            ngtb 16%nat 84%nat 1%nat 99%nat 100%nat (fun _ l => l) t_mixed rows2 wf_mixed rows2_ok_mixed).
Qed.
