(* C09 extension: the weighted quantile over exact rationals -- breakpoints of a sorted sample list, np.interp,
   sorting, the theorems about quantile(x, q, weights). *)
From Coq Require Import List Bool Arith Lia Permutation Sorted.
Import ListNotations.
From Coq Require Import QArith Lqa.
From PAFC09 Require Import Quantile ProofsQ1.
Open Scope Q_scope.

(* ---------------------------------------------------------------- running sums *)
Fixpoint nondec_from (a : Q) (l : list Q) : Prop :=
  match l with [] => True | b :: r => a <= b /\ nondec_from b r end.

Definition q_csum := csum (X := Q) Qplus.
Definition q_cdf_raw := cdf_raw (X := Q) Qplus.

Lemma csum_nondec : forall ws acc, Forall (fun w => 0 <= w) ws -> nondec_from acc (q_csum acc ws).
Proof.
  induction ws as [|w r IH]; intros acc Hw; [exact I|].
  destruct r as [|w' r']; [exact I|].
  change (q_csum acc (w :: w' :: r')) with ((acc + w) :: q_csum (acc + w) (w' :: r')).
  inversion Hw as [|? ? H0 Hr]; subst. split; [lra | now apply IH].
Qed.

Lemma csum_length : forall ws acc, List.length (q_csum acc ws) = pred (List.length ws).
Proof.
  induction ws as [|w r IH]; intros acc; [reflexivity|].
  destruct r as [|w' r']; [reflexivity|].
  change (q_csum acc (w :: w' :: r')) with ((acc + w) :: q_csum (acc + w) (w' :: r')).
  change (List.length ((acc + w) :: q_csum (acc + w) (w' :: r'))) with (S (List.length (q_csum (acc + w) (w' :: r')))).
  rewrite IH. reflexivity.
Qed.

Lemma cdf_raw_length : forall ws, List.length (q_cdf_raw ws) = pred (List.length ws).
Proof.
  intros [|w [|w' r]]; [reflexivity | reflexivity |].
  change (q_cdf_raw (w :: w' :: r)) with (w :: q_csum w (w' :: r)).
  change (List.length (w :: q_csum w (w' :: r))) with (S (List.length (q_csum w (w' :: r)))).
  rewrite csum_length. reflexivity.
Qed.

Lemma div_le : forall a b C, 0 < C -> a <= b -> a / C <= b / C.
Proof.
  intros a b C HC Hab. unfold Qdiv. apply Qmult_le_compat_r; [assumption|].
  apply Qlt_le_weak, Qinv_lt_0_compat. assumption.
Qed.

Lemma map_div_nondec : forall C l a, 0 < C -> nondec_from a l -> nondec_from (a / C) (map (fun c => c / C) l).
Proof.
  intros C l. induction l as [|b r IH]; intros a HC H; [exact I|].
  destruct H as [Hab Hr]. split; [now apply div_le | now apply IH].
Qed.

Lemma combine_mono2 : forall xs ys a b, nondec_from a xs -> nondec_from b ys -> mono2 (combine (a :: xs) (b :: ys)).
Proof.
  induction xs as [|x xs IH]; intros ys a b Hx Hy.
  - simpl. constructor.
  - destruct ys as [|y ys]; [simpl; constructor|].
    destruct Hx as [Hax Hx]. destruct Hy as [Hby Hy].
    change (combine (a :: x :: xs) (b :: y :: ys)) with ((a, b) :: combine (x :: xs) (y :: ys)).
    specialize (IH ys x y Hx Hy).
    change (combine (x :: xs) (y :: ys)) with ((x, y) :: combine xs ys) in *.
    constructor; assumption.
Qed.

Lemma map_snd_combine : forall (b a : list Q), (List.length b <= List.length a)%nat -> map snd (combine a b) = b.
Proof.
  induction b as [|y b IH]; intros a H.
  - destruct a; reflexivity.
  - destruct a as [|x a]; [simpl in H; lia|]. simpl. f_equal. apply IH. simpl in H. lia.
Qed.

(* ---------------------------------------------------------------- sorted sample lists *)
Definition vle (p p' : Q * Q) : Prop := fst p <= fst p'.
Definition weights_ok (l : list (Q * Q)) : Prop := Forall (fun p => 0 <= snd p) l.

(* the weight that enters the normalisation: every sample but the one of largest value *)
Definition trunc_total (s : list (Q * Q)) : Q :=
  match q_cdf_raw (map snd s) with [] => 0 | c0 :: cr => last cr c0 end.

Lemma ssorted_nondec : forall r p, StronglySorted vle (p :: r) -> nondec_from (fst p) (map fst r).
Proof.
  induction r as [|x r IH]; intros p H; [exact I|].
  inversion H as [|? ? Hs Hf]; subst. inversion Hf as [|? ? Hpx Hfr]; subst.
  split; [exact Hpx | now apply IH].
Qed.

Lemma points_ok : forall s, StronglySorted vle s -> weights_ok s -> 0 < trunc_total s ->
  exists x0 rest, q_points s = Some ((0, x0) :: rest) /\ mono2 ((0, x0) :: rest) /\ map snd ((0, x0) :: rest) = map fst s.
Proof.
  intros s Hs Hw HC. unfold trunc_total in HC. unfold q_points, points.
  change (cdf_raw Qplus (map snd s)) with (q_cdf_raw (map snd s)).
  pose proof (cdf_raw_length (map snd s)) as HL.
  destruct (q_cdf_raw (map snd s)) as [|c0 cr] eqn:E; [exfalso; lra|].
  set (C := last cr c0) in *.
  destruct s as [|[x0 w0] s']; [discriminate E|].
  destruct s' as [|[x1 w1] s'']; [discriminate E|].
  exists x0. eexists. split; [reflexivity|].
  assert (Hnd : nondec_from 0 (c0 :: cr)).
  { rewrite <- E. change (q_cdf_raw (map snd ((x0, w0) :: (x1, w1) :: s'')))
      with (w0 :: q_csum w0 (w1 :: map snd s'')).
    inversion Hw as [|? ? H0 Hw']; subst. simpl in H0. split; [exact H0|].
    apply csum_nondec. change (w1 :: map snd s'') with (map snd ((x1, w1) :: s'')).
    apply Forall_map. exact Hw'. }
  assert (Hxp : nondec_from 0 (map (fun c => c / C) (c0 :: cr))).
  { destruct Hnd as [H0 Hr]. split.
    - apply Qle_shift_div_l; [exact HC | lra].
    - apply map_div_nondec; assumption. }
  split.
  - change (map fst ((x0, w0) :: (x1, w1) :: s'')) with (x0 :: map fst ((x1, w1) :: s'')).
    apply combine_mono2; [exact Hxp|]. exact (ssorted_nondec _ _ Hs).
  - change ((0, x0) :: _) with (combine (0 :: map (fun c => c / C) (c0 :: cr)) (map fst ((x0, w0) :: (x1, w1) :: s''))).
    apply map_snd_combine. simpl List.length in *. rewrite map_length in *. rewrite !map_length. lia.
Qed.

(* ---------------------------------------------------------------- np.interp *)
Lemma Qltb_of_le : forall a b, b <= a -> Qltb a b = false.
Proof. intros a b H. unfold Qltb. apply negb_false_iff. now apply Qle_bool_iff. Qed.

Lemma last_adj : forall (rest : list (Q * Q)) p0, exists l1, map snd (p0 :: rest) = l1 ++ [snd (last rest p0)].
Proof.
  induction rest as [|x r IH]; intros p0.
  - exists []. reflexivity.
  - rewrite last_cons. destruct (IH x) as [l1 H]. exists (snd p0 :: l1).
    change (map snd (p0 :: x :: r)) with (snd p0 :: map snd (x :: r)). rewrite H. reflexivity.
Qed.

Lemma interp_bracket : forall q p0 rest, mono2 (p0 :: rest) -> fst p0 <= q ->
  exists a b, adjacent_or_last (map snd (p0 :: rest)) a b /\ a <= q_interp q (p0 :: rest) <= b.
Proof.
  intros q p0 rest Hm Hq. unfold q_interp, interp. cbv zeta. unfold vw.
  destruct (Qltb (fst (last rest p0)) q) eqn:E1.
  - exists (snd (last rest p0)), (snd (last rest p0)). split.
    + right. split; [reflexivity|]. apply last_adj.
    + split; apply Qle_refl.
  - rewrite (Qltb_of_le _ _ Hq). apply go_bracket; assumption.
Qed.

Lemma interp_mono : forall q1 q2 p0 rest, mono2 (p0 :: rest) -> fst p0 <= q1 -> q1 <= q2 ->
  q_interp q1 (p0 :: rest) <= q_interp q2 (p0 :: rest).
Proof.
  intros q1 q2 p0 rest Hm H1 H12. unfold q_interp, interp. cbv zeta. unfold vw.
  assert (H2 : fst p0 <= q2) by lra.
  destruct (Qltb (fst (last rest p0)) q1) eqn:E1; destruct (Qltb (fst (last rest p0)) q2) eqn:E2.
  - apply Qle_refl.
  - apply Qltb_true in E1. apply Qltb_false in E2. exfalso. lra.
  - rewrite (Qltb_of_le _ _ H1). apply go_upper; assumption.
  - rewrite (Qltb_of_le _ _ H1), (Qltb_of_le _ _ H2). apply go_mono; assumption.
Qed.

(* ---------------------------------------------------------------- quantile on any sorted arrangement *)
Lemma level_ok : forall q, 0 <= q -> q <= 1 -> Qltb q 0 || Qltb 1 q = false.
Proof. intros q H0 H1. rewrite (Qltb_of_le _ _ H0), (Qltb_of_le _ _ H1). reflexivity. Qed.

Lemma quantile_sorted_bracket : forall s q,
  StronglySorted vle s -> weights_ok s -> 0 < trunc_total s -> 0 <= q -> q <= 1 ->
  exists r a b, q_quantile_sorted s q = QOk r /\ adjacent_or_last (map fst s) a b /\ a <= r <= b.
Proof.
  intros s q Hs Hw HC H0 H1.
  destruct (points_ok s Hs Hw HC) as [x0 [rest [Hp [Hm Hv]]]].
  unfold q_quantile_sorted, quantile_sorted. rewrite (level_ok q H0 H1).
  change (points Qplus Qdiv 0 s) with (q_points s). rewrite Hp.
  destruct (interp_bracket q (0, x0) rest Hm H0) as [a [b [Hadj Hab]]].
  exists (q_interp q ((0, x0) :: rest)), a, b. split; [reflexivity|]. rewrite <- Hv. split; assumption.
Qed.

Lemma quantile_sorted_mono : forall s q1 q2 r1 r2,
  StronglySorted vle s -> weights_ok s -> 0 < trunc_total s -> 0 <= q1 -> q1 <= q2 -> q2 <= 1 ->
  q_quantile_sorted s q1 = QOk r1 -> q_quantile_sorted s q2 = QOk r2 -> r1 <= r2.
Proof.
  intros s q1 q2 r1 r2 Hs Hw HC H0 H12 H1 E1 E2.
  destruct (points_ok s Hs Hw HC) as [x0 [rest [Hp [Hm Hv]]]].
  unfold q_quantile_sorted, quantile_sorted in E1, E2.
  rewrite level_ok in E1 by lra. rewrite level_ok in E2 by lra.
  change (points Qplus Qdiv 0 s) with (q_points s) in E1, E2. rewrite Hp in E1, E2.
  injection E1 as <-. injection E2 as <-. apply interp_mono; assumption.
Qed.

(* ---------------------------------------------------------------- the stable sort is one sorted arrangement *)
Lemma insert_perm : forall p l, Permutation (p :: l) (q_insert p l).
Proof.
  intros p l. induction l as [|y r IH]; simpl; [apply Permutation_refl|].
  unfold q_insert, insert_x in *. fold (insert_x (X := Q) Qle_bool) in *.
  destruct (Qle_bool (fst p) (fst y)); [apply Permutation_refl|].
  eapply Permutation_trans; [apply perm_swap|]. apply perm_skip. exact IH.
Qed.

Lemma sort_perm : forall l, Permutation l (q_sort l).
Proof.
  induction l as [|p l IH]; [apply Permutation_refl|].
  change (q_sort (p :: l)) with (q_insert p (q_sort l)).
  eapply Permutation_trans; [apply perm_skip, IH | apply insert_perm].
Qed.

Lemma insert_sorted : forall p l, StronglySorted vle l -> StronglySorted vle (q_insert p l).
Proof.
  intros p l H. induction H as [|y r Hs IH Hf]; simpl.
  - constructor; constructor.
  - unfold q_insert, insert_x in *. fold (insert_x (X := Q) Qle_bool) in *.
    destruct (Qle_bool (fst p) (fst y)) eqn:E.
    + apply Qle_bool_iff in E. constructor; [constructor; assumption|].
      constructor; [exact E|]. eapply Forall_impl; [|exact Hf].
      intros a Ha. unfold vle in *. lra.
    + apply Qle_bool_false in E. constructor; [exact IH|].
      eapply Permutation_Forall; [apply (insert_perm p r)|].
      constructor; [unfold vle; lra | exact Hf].
Qed.

Lemma sort_sorted : forall l, StronglySorted vle (q_sort l).
Proof.
  induction l as [|p l IH]; [constructor|].
  change (q_sort (p :: l)) with (q_insert p (q_sort l)). now apply insert_sorted.
Qed.

Lemma sort_weights : forall l, weights_ok l -> weights_ok (q_sort l).
Proof. intros l H. eapply Permutation_Forall; [apply sort_perm | exact H]. Qed.

Lemma adjacent_in : forall l a b, adjacent_or_last l a b -> In a l /\ In b l.
Proof.
  intros l a b [[l1 [l2 H]] | [E [l1 H]]]; subst.
  - split; apply in_or_app; right; [left; reflexivity | right; left; reflexivity].
  - split; apply in_or_app; right; left; reflexivity.
Qed.

(* quantile(x, q, weights): between two adjacent sorted sample values, both of which ARE sample values *)
Lemma quantile_bracket : forall l q,
  weights_ok l -> 0 < trunc_total (q_sort l) -> 0 <= q -> q <= 1 ->
  exists r a b, q_quantile l q = QOk r /\ adjacent_or_last (map fst (q_sort l)) a b /\
                In a (map fst l) /\ In b (map fst l) /\ a <= r <= b.
Proof.
  intros l q Hw HC H0 H1.
  destruct (quantile_sorted_bracket (q_sort l) q (sort_sorted l) (sort_weights l Hw) HC H0 H1)
    as [r [a [b [E [Hadj Hab]]]]].
  exists r, a, b. split; [exact E|]. split; [exact Hadj|].
  destruct (adjacent_in _ _ _ Hadj) as [Ha Hb].
  assert (HP : Permutation (map fst (q_sort l)) (map fst l)) by (apply Permutation_map, Permutation_sym, sort_perm).
  split; [eapply Permutation_in; eassumption|]. split; [eapply Permutation_in; eassumption | exact Hab].
Qed.

Lemma quantile_mono : forall l q1 q2 r1 r2,
  weights_ok l -> 0 < trunc_total (q_sort l) -> 0 <= q1 -> q1 <= q2 -> q2 <= 1 ->
  q_quantile l q1 = QOk r1 -> q_quantile l q2 = QOk r2 -> r1 <= r2.
Proof.
  intros l q1 q2 r1 r2 Hw HC. apply quantile_sorted_mono; [apply sort_sorted | now apply sort_weights | exact HC].
Qed.

(* lower(sigma) <= median <= upper(sigma) for every pair of levels around 1/2 *)
Lemma lower_median_upper : forall l qlo qhi lo m hi,
  weights_ok l -> 0 < trunc_total (q_sort l) -> 0 <= qlo -> qlo <= 1 # 2 -> 1 # 2 <= qhi -> qhi <= 1 ->
  q_quantile l qlo = QOk lo -> q_quantile l (1 # 2) = QOk m -> q_quantile l qhi = QOk hi ->
  lo <= m <= hi.
Proof.
  intros l qlo qhi lo m hi Hw HC H0 H1 H2 H3 E1 E2 E3. split.
  - eapply (quantile_mono l qlo (1 # 2)); eauto. lra.
  - eapply (quantile_mono l (1 # 2) qhi); eauto. lra.
Qed.

(* ---------------------------------------------------------------- order of the samples *)
(* samples of equal value are the same sample: then the sorted arrangement is unique *)
Definition values_distinct (l : list (Q * Q)) : Prop :=
  forall p p', In p l -> In p' l -> fst p == fst p' -> p = p'.

Lemma sorted_perm_unique : forall s s', StronglySorted vle s -> StronglySorted vle s' -> Permutation s s' ->
  values_distinct s -> s = s'.
Proof.
  induction s as [|a r IH]; intros s' Hs Hs' HP Hd.
  - apply Permutation_nil in HP. now subst.
  - destruct s' as [|b r']; [apply Permutation_sym, Permutation_nil in HP; discriminate|].
    assert (Hab : a = b).
    { assert (Ha : In a (b :: r')) by (eapply Permutation_in; [exact HP | left; reflexivity]).
      assert (Hb : In b (a :: r)) by (eapply Permutation_in; [apply Permutation_sym, HP | left; reflexivity]).
      destruct Ha as [Ha | Ha]; [now subst|]. destruct Hb as [Hb | Hb]; [now subst|].
      inversion Hs as [|? ? _ Hfa]; subst. inversion Hs' as [|? ? _ Hfb]; subst.
      rewrite Forall_forall in Hfa, Hfb. specialize (Hfa b Hb). specialize (Hfb a Ha). unfold vle in *.
      apply Hd; [left; reflexivity | right; exact Hb | lra]. }
    subst b. f_equal. apply IH.
    + inversion Hs; assumption.
    + inversion Hs'; assumption.
    + eapply Permutation_cons_inv; exact HP.
    + intros p p' Hp Hp'. apply Hd; right; assumption.
Qed.

Lemma quantile_permutation : forall l l' q, Permutation l l' -> values_distinct l -> q_quantile l q = q_quantile l' q.
Proof.
  intros l l' q HP Hd. unfold q_quantile, quantile.
  change (sort_x Qle_bool l) with (q_sort l). change (sort_x Qle_bool l') with (q_sort l').
  rewrite (sorted_perm_unique (q_sort l) (q_sort l')); [reflexivity | apply sort_sorted | apply sort_sorted | |].
  - eapply Permutation_trans; [apply Permutation_sym, sort_perm|].
    eapply Permutation_trans; [exact HP | apply sort_perm].
  - intros p p' Hp Hp'. apply Hd; eapply Permutation_in; try eassumption; apply Permutation_sym, sort_perm.
Qed.

(* equality of results up to the value of the rational *)
Definition qres_equiv (a b : qres Q) : Prop :=
  match a, b with
  | QOk x, QOk y => x == y
  | QIndexErr, QIndexErr => True
  | QValueErr, QValueErr => True
  | _, _ => False
  end.

(* with tied values the answer depends on the order in which the samples are given *)
Lemma quantile_permutation_refuted :
  exists l l' q, Permutation l l' /\ weights_ok l /\ 0 < trunc_total (q_sort l) /\ 0 <= q <= 1 /\
                 ~ qres_equiv (q_quantile l q) (q_quantile l' q).
Proof.
  exists [(1, 1); (1, 4); (2, 1)], [(1, 4); (1, 1); (2, 1)], (1 # 2).
  split; [apply perm_swap|]. split; [repeat constructor; simpl; lra|].
  split; [vm_compute; reflexivity|]. split; [lra|]. vm_compute. intro H. discriminate H.
Qed.

(* a sample of weight zero is NOT ignored: its value is an ordinate of the interpolation *)
Lemma quantile_zero_weight_refuted :
  exists l p q, snd p == 0 /\ weights_ok (p :: l) /\ 0 < trunc_total (q_sort l) /\ 0 < trunc_total (q_sort (p :: l)) /\
                0 <= q <= 1 /\ ~ qres_equiv (q_quantile (p :: l) q) (q_quantile l q).
Proof.
  exists [(0, 1); (2, 1)], (1, 0), (1 # 2).
  split; [reflexivity|]. split; [repeat constructor; simpl; lra|].
  split; [vm_compute; reflexivity|]. split; [vm_compute; reflexivity|]. split; [lra|].
  vm_compute. intro H. discriminate H.
Qed.

(* ---------------------------------------------------------------- weight on each side of the median *)
Definition weight_where (f : Q -> bool) (l : list (Q * Q)) : Q :=
  fold_right (fun p acc => if f (fst p) then snd p + acc else acc) 0 l.
Definition weight_le (l : list (Q * Q)) (v : Q) : Q := weight_where (fun x => Qle_bool x v) l.
Definition weight_ge (l : list (Q * Q)) (v : Q) : Q := weight_where (fun x => Qle_bool v x) l.
Definition total_weight (l : list (Q * Q)) : Q := weight_where (fun _ => true) l.

(* "at least half of the weight lies at or below the median": false, the weight of the largest sample is left out *)
Lemma median_half_below_refuted :
  exists l m, weights_ok l /\ 0 < trunc_total (q_sort l) /\ q_quantile l (1 # 2) = QOk m /\
              ~ total_weight l * (1 # 2) <= weight_le l m.
Proof.
  exists [(1, 1); (2, 1); (3, 8)]. eexists. split; [repeat constructor; simpl; lra|].
  split; [vm_compute; reflexivity|]. split; [vm_compute; reflexivity|].
  vm_compute. intro H. apply H. reflexivity.
Qed.

(* "at least half of the weight lies at or above the median": false when the median is interpolated *)
Lemma median_half_above_refuted :
  exists l m, weights_ok l /\ 0 < trunc_total (q_sort l) /\ q_quantile l (1 # 2) = QOk m /\
              ~ total_weight l * (1 # 2) <= weight_ge l m.
Proof.
  exists [(0, 3); (1, 1); (2, 1)]. eexists. split; [repeat constructor; simpl; lra|].
  split; [vm_compute; reflexivity|]. split; [vm_compute; reflexivity|].
  vm_compute. intro H. apply H. reflexivity.
Qed.
