(* C09 proofs, part 6: database storage of any uniformly keyed sample list (minimised lists, samples reloaded
   from samples.csv = the directory scraper), names of tuple-free models, value per path for a model whose priors
   were re-created (other creation ranks), statements over model trees. *)
From Coq Require Import List String Ascii Bool Arith PeanoNat Lia Permutation.
From PAFC09 Require Import Model Lib Proofs1 Proofs2 Proofs3 Proofs4 Proofs5.
Import ListNotations.
Open Scope string_scope.
Open Scope list_scope.

Lemma combine_fst_snd {A B} (l : list (A * B)) : combine (map fst l) (map snd l) = l.
Proof. induction l as [|[a b] l IH]; simpl; [reflexivity|]. rewrite IH. reflexivity. Qed.

Section General.
  Context {V : Type}.
  Notation sample := (sample V).

  (* EfficientSamples is lossless on every list whose samples share one key list that Sample.__init__ leaves alone *)
  Theorem db_roundtrip_general (fx : bool) (keys : list key) (S : list sample) :
    NoDup keys ->
    (forall s, In s S -> map fst (s_kw s) = keys) ->
    (forall vals : list V, List.length vals = List.length keys -> sample_init fx (combine keys vals) = combine keys vals) ->
    db_roundtrip fx S = Ok S.
  Proof.
    intros NDk HK HI. unfold db_roundtrip, eff_of.
    set (keys0 := match S with [] => [] | s :: _ => map fst (s_kw s) end).
    assert (Hkeys : S <> [] -> keys0 = keys).
    { unfold keys0. destruct S as [|s S']; [congruence|]. intros _. apply HK. left. reflexivity. }
    assert (Hkw : forall s, In s S -> s_kw s = combine keys (map snd (s_kw s))).
    { intros s Hs. rewrite <- (HK s Hs). symmetry. apply combine_fst_snd. }
    assert (Hvals : traverse (fun s => traverse (fun k => match assoc key_eq_dec k (s_kw s) with Some v => Ok v | None => KeyErr end) keys0) S
                    = Ok (map (fun s => map snd (s_kw s)) S)).
    { apply traverse_map_ok. intros s Hs.
      assert (Hne : S <> []) by (intro N; rewrite N in Hs; contradiction).
      rewrite (Hkeys Hne).
      assert (Hlen : List.length keys = List.length (map snd (s_kw s))) by (rewrite map_length, <- (HK s Hs), map_length; reflexivity).
      pose proof (assoc_combine_all keys (map snd (s_kw s)) NDk Hlen) as E.
      rewrite <- (Hkw s Hs) in E. exact E. }
    rewrite Hvals. simpl. f_equal. unfold eff_samples. simpl.
    rewrite zip4_map by (rewrite map_length; reflexivity).
    rewrite combine_map_self, !map_map. simpl.
    rewrite <- (map_id S) at 2. apply map_ext_in. intros s Hs.
    assert (Hne : S <> []) by (intro N; rewrite N in Hs; contradiction).
    rewrite (Hkeys Hne).
    assert (HL : List.length (map snd (s_kw s)) = List.length keys) by (rewrite map_length, <- (HK s Hs), map_length; reflexivity).
    rewrite (dict_of_list_nodup key_eq_dec) by (rewrite map_fst_combine; [exact NDk|lia]).
    rewrite (HI _ HL). rewrite <- (Hkw s Hs). destruct s. reflexivity.
  Qed.

  Lemma minimise_incl (add : V -> V -> V) (gtb : V -> V -> bool) (S : list sample) (s : sample) :
    In s (minimise add gtb S) -> In s S.
  Proof.
    unfold minimise. intro H. apply in_flat_map in H. destruct H as [i [_ H]].
    destruct (nth_error S i) as [x|] eqn:E; [|contradiction].
    destruct H as [H|[]]. subst. eapply nth_error_In; eauto.
  Qed.

  Section Shape.
    Variable Ws : list (path * nat).
    Hypothesis SO : shape_ok Ws.
    Let ND : NoDup (map fst Ws) := proj1 SO.

    (* default database storage (save_all_samples = False): the minimised list comes back unchanged *)
    Theorem db_roundtrip_minimised (fx : bool) (add : V -> V -> V) (gtb : V -> V -> bool) (rows : list (srow V)) :
      rows_ok Ws rows ->
      db_roundtrip fx (minimise add gtb (from_lists fx Ws rows)) = Ok (minimise add gtb (from_lists fx Ws rows)).
    Proof.
      intro HR. apply db_roundtrip_general with (keys := map KTup (unique_paths Ws)).
      - apply NoDup_map_KTup. apply unique_paths_nodup. exact ND.
      - intros s Hs. apply minimise_incl in Hs. unfold from_lists in Hs. apply in_map_iff in Hs.
        destruct Hs as [r [E Hr]]. subst s. rewrite (from_row_kw Ws ND fx r (HR r Hr)).
        apply map_fst_combine. rewrite map_length, unique_paths_length. symmetry. apply HR. exact Hr.
      - intros vals HL. apply sample_init_tup.
        + apply tup_keys.
        + rewrite map_fst_combine; [apply NoDup_map_KTup; apply unique_paths_nodup; exact ND|symmetry; exact HL].
    Qed.

    (* the directory scraper: samples reloaded from samples.csv (fixed key handling) are stored losslessly *)
    Theorem db_roundtrip_reloaded (rows : list (srow V)) :
      rows_ok Ws rows ->
      db_roundtrip true (map (reloaded Ws true) rows) = Ok (map (reloaded Ws true) rows).
    Proof.
      intro HR.
      assert (HlenU : List.length (unique_paths Ws) = List.length (pids Ws)) by apply unique_paths_length.
      destruct (forallb (fun p => negb (contains_dot (join_dot p))) (unique_paths Ws)) eqn:EF.
      - (* every unique path is a single name: string keys *)
        assert (Hnd : forall p, In p (unique_paths Ws) -> contains_dot (join_dot p) = false).
        { intros p Hp. rewrite forallb_forall in EF. apply negb_true_iff. apply EF. exact Hp. }
        apply db_roundtrip_general with (keys := map (fun p => KStr (join_dot p)) (unique_paths Ws)).
        + apply (skeys_nodup Ws SO).
        + intros s Hs. apply in_map_iff in Hs. destruct Hs as [r [E Hr]]. subst s. unfold reloaded. simpl.
          rewrite (init_keeps_strings Ws SO true _ (HR r Hr) Hnd).
          apply map_fst_combine. rewrite map_length. etransitivity; [apply unique_paths_length|symmetry; apply HR; exact Hr].
        + intros vals HL. apply (init_keeps_strings Ws SO true); [|exact Hnd].
          rewrite map_length in HL. rewrite HL. apply unique_paths_length.
      - (* some unique path is nested: every key becomes a tuple *)
        assert (Hex : exists p, In p (unique_paths Ws) /\ contains_dot (join_dot p) = true).
        { apply Bool.not_true_iff_false in EF. rewrite forallb_forall in EF.
          destruct (existsb (fun p => contains_dot (join_dot p)) (unique_paths Ws)) eqn:EE.
          - apply existsb_exists in EE. exact EE.
          - exfalso. apply EF. intros p Hp. apply negb_true_iff. rewrite existsb_false_iff in EE. apply EE. exact Hp. }
        destruct Hex as [p0 [Hp0 Hd0]].
        assert (Hmode : forall vals : list V, List.length vals = List.length (pids Ws) ->
                  forall p, In p (unique_paths Ws) ->
                  contains_dot (join_dot p) || (true && existsb (fun kv : key * V => key_is_path (fst kv))
                     (combine (map (fun p => KStr (join_dot p)) (unique_paths Ws)) vals)) = true).
        { intros vals HL p _. apply orb_true_iff. right. simpl. apply existsb_exists.
          assert (Hin : In (KStr (join_dot p0)) (map fst (combine (map (fun p => KStr (join_dot p)) (unique_paths Ws)) vals))).
          { rewrite map_fst_combine by (rewrite map_length, HL; apply unique_paths_length). apply (in_map (fun p => KStr (join_dot p))). exact Hp0. }
          apply in_map_iff in Hin. destruct Hin as [[k v] [E Hkv]]. simpl in E. subst k.
          exists (KStr (join_dot p0), v). split; [exact Hkv|exact Hd0]. }
        apply db_roundtrip_general with (keys := map KTup (unique_paths Ws)).
        + apply NoDup_map_KTup. apply unique_paths_nodup. exact ND.
        + intros s Hs. apply in_map_iff in Hs. destruct Hs as [r [E Hr]]. subst s. unfold reloaded. simpl.
          rewrite (init_to_tuples Ws SO true _ (HR r Hr) (Hmode _ (HR r Hr))).
          apply map_fst_combine. rewrite map_length. etransitivity; [apply unique_paths_length|symmetry; apply HR; exact Hr].
        + intros vals HL. apply sample_init_tup.
          * apply tup_keys.
          * rewrite map_fst_combine; [apply NoDup_map_KTup; apply unique_paths_nodup; exact ND|symmetry; exact HL].
    Qed.

    (* a model without tuple priors: names are the dotted paths, different priors never share one *)
    Lemma names_injective_no_tuples : names_injective [] Ws.
    Proof.
      intros p q i j Hp Hq E. unfold name_of, path_modifier in E. simpl in E.
      destruct (proj2 SO p i Hp) as [Hp1 Hp2]. destruct (proj2 SO q j Hq) as [Hq1 Hq2].
      assert (p = q) by (apply join_inj; assumption). subst q.
      exact (walk_functional Ws ND p i j Hp Hq).
    Qed.

    (* ------------------------------------------------------------ value per path, reader's model re-created *)
    (* Ws' = the same paths with other prior identities (model.json / database round trip of the model): two paths
       share a prior in Ws' iff they do in Ws.  A sample keyed by Ws's unique paths gives, for the group of any
       prior j of Ws', the value the row holds for the prior i of Ws that lives at the same paths. *)
    Definition same_sharing (Ws' : list (path * nat)) : Prop :=
      forall p q, (exists i, In (p, i) Ws /\ In (q, i) Ws) <-> (exists j, In (p, j) Ws' /\ In (q, j) Ws').

    Theorem value_per_path_recreated (Ws' : list (path * nat)) (vals : list V) (p : path) (i j : nat) (v : V) :
      NoDup (map fst Ws') -> same_sharing Ws' ->
      List.length vals = List.length (pids Ws) ->
      In (p, i) Ws -> In (p, j) Ws' ->
      In (i, v) (combine (pids Ws) vals) ->
      lookup_group (combine (map KTup (unique_paths Ws)) vals) (map KTup (group j Ws')) = Ok v.
    Proof.
      intros ND' HS HL Hpi Hpj Hiv.
      assert (Hi : In i (pids Ws)) by (eapply in_combine_l; eauto).
      assert (EU : map KTup (unique_paths Ws) = map (fun i => KTup (upath i Ws)) (pids Ws))
        by (unfold unique_paths; rewrite map_map; reflexivity).
      assert (NDkw : NoDup (map fst (combine (map KTup (unique_paths Ws)) vals))) by (apply tup_kw_nodup; assumption).
      apply lookup_group_spec.
      - intros k v' Hk Ha. apply in_map_iff in Hk. destruct Hk as [q [Ek Hq]]. subst k.
        apply assoc_some_in in Ha. rewrite EU, combine_map_l in Ha. apply in_map_iff in Ha.
        destruct Ha as [[i' w] [E Hi'w]]. simpl in E. injection E as Eq Ev. subst v'.
        assert (Hi' : In i' (pids Ws)) by (eapply in_combine_l; eauto).
        (* q = upath i' lives with prior i' in Ws and with prior j in Ws', like p: same prior in Ws *)
        assert (Hq' : In (q, j) Ws') by (apply group_in; exact Hq).
        destruct (proj2 (HS p q) (ex_intro _ j (conj Hpj Hq'))) as [i0 [H1 H2]].
        assert (i0 = i) by exact (walk_functional Ws ND p i0 i H1 Hpi). subst i0.
        assert (Hqi' : In (q, i') Ws) by (rewrite <- Eq; apply upath_in_walk; exact Hi').
        assert (i' = i) by exact (walk_functional Ws ND q i' i Hqi' H2). subst i'.
        exact (in_combine_fun (pids Ws) vals i w v (pids_nodup Ws) Hi'w Hiv).
      - exists (KTup (upath i Ws)). split.
        + apply in_map. apply group_in.
          destruct (proj1 (HS p (upath i Ws)) (ex_intro _ i (conj Hpi (upath_in_walk Ws i Hi)))) as [j0 [H1 H2]].
          assert (j0 = j) by exact (walk_functional Ws' ND' p j0 j H1 Hpj). subst j0. exact H2.
        + rewrite (assoc_in key_eq_dec _ v); [discriminate|exact NDkw|].
          rewrite EU, combine_map_l. apply in_map_iff. exists (i, v). split; [reflexivity|exact Hiv].
    Qed.
  End Shape.
End General.

(* ------------------------------------------------------------------ statements over model trees *)
Section Trees.
  Context {V cell : Type} (fmt : V -> cell) (parse : cell -> V) (add : V -> V -> V) (is_zero : V -> bool).
  Hypothesis roundtrip : forall v, parse (fmt v) = v.

  (* every shape a fit accepts, samples.csv, code as it is now *)
  Theorem tree_csv (t : node) (rows : list (srow V)) :
    wf_root t ->
    no_reserved (sorted_walk t) ->
    (all_flat (sorted_walk t) -> names_injective (tuple_paths [] t) (sorted_walk t)) ->
    rows_ok (sorted_walk t) rows ->
    res_bind (csv_roundtrip fmt parse add true (tuple_paths [] t) (sorted_walk t) (from_lists true (sorted_walk t) rows))
             (observe (tuple_paths [] t) (sorted_walk t)) = Ok (expected rows).
  Proof.
    intros Hwf HR HI HRo.
    apply (csv_fixed fmt parse add roundtrip (sorted_walk t) (tuple_paths [] t) (wf_shape_ok t Hwf) rows); assumption.
  Qed.

  (* ... summary JSON (both persisted samples are from_row samples), code as it is now: no guard at all on values *)
  Theorem tree_summary (t : node) (r : srow V) :
    wf_root t ->
    (all_flat (sorted_walk t) -> names_injective (tuple_paths [] t) (sorted_walk t)) ->
    List.length (r_params r) = List.length (pids (sorted_walk t)) ->
    let s := json_roundtrip fmt parse is_zero true false (from_row true (sorted_walk t) r) in
    param_list (tuple_paths [] t) (sorted_walk t) s = Ok (r_params r) /\ s_ll s = r_ll r /\ s_lp s = r_lp r /\ s_w s = r_w r.
  Proof.
    intros Hwf HI HL.
    apply (json_fixed fmt parse is_zero roundtrip (sorted_walk t) (tuple_paths [] t) (wf_shape_ok t Hwf) r); assumption.
  Qed.

  (* ... database rows: all samples, the default minimised list, and a scraped directory *)
  Theorem tree_db (t : node) (gtb : V -> V -> bool) (rows : list (srow V)) :
    wf_root t -> rows_ok (sorted_walk t) rows ->
    let S := from_lists true (sorted_walk t) rows in
    db_roundtrip true S = Ok S
    /\ db_roundtrip true (minimise add gtb S) = Ok (minimise add gtb S)
    /\ db_roundtrip true (map (reloaded (sorted_walk t) true) rows) = Ok (map (reloaded (sorted_walk t) true) rows).
  Proof.
    intros Hwf HRo. cbv zeta. pose proof (wf_shape_ok t Hwf) as SO. split; [|split].
    - apply db_roundtrip_exact; [exact (proj1 SO)|exact HRo].
    - apply db_roundtrip_minimised; assumption.
    - apply db_roundtrip_reloaded; assumption.
  Qed.
End Trees.
