(* C09 extension: the weighted quantile over exact rationals -- one segment, the walk over the breakpoints. *)
From Coq Require Import List Bool Arith Lia.
Import ListNotations.
From Coq Require Import QArith Lqa.
From PAFC09 Require Import Quantile.
Open Scope Q_scope.

Definition q_seg := seg (X := Q) Qplus Qminus Qmult Qdiv Qeq_bool qnan.
Definition q_go := interp_go (X := Q) Qplus Qminus Qmult Qdiv Qle_bool Qeq_bool qnan.

(* both coordinates non-decreasing along the list of breakpoints *)
Inductive mono2 : list (Q * Q) -> Prop :=
| m2_nil : mono2 []
| m2_one p : mono2 [p]
| m2_cons p p' r : fst p <= fst p' -> snd p <= snd p' -> mono2 (p' :: r) -> mono2 (p :: p' :: r).

Lemma mono2_tail : forall p r, mono2 (p :: r) -> mono2 r.
Proof. intros p r H. inversion H; subst; [constructor | assumption]. Qed.

Lemma Qle_bool_false : forall a b, Qle_bool a b = false -> b < a.
Proof.
  intros a b H. apply Qnot_le_lt. intro Hle. apply Qle_bool_iff in Hle. congruence.
Qed.

Lemma Qltb_true : forall a b, Qltb a b = true -> a < b.
Proof. unfold Qltb. intros a b H. apply negb_true_iff in H. now apply Qle_bool_false. Qed.

Lemma Qltb_false : forall a b, Qltb a b = false -> b <= a.
Proof. unfold Qltb. intros a b H. apply negb_false_iff in H. now apply Qle_bool_iff. Qed.

Lemma slope_facts : forall h d : Q, 0 < d -> 0 <= h -> 0 <= h / d /\ (h / d) * d == h.
Proof.
  intros h d Hd Hh. split.
  - apply Qle_shift_div_l; [assumption | lra].
  - field. intro E. rewrite E in Hd. now apply Qlt_irrefl in Hd.
Qed.

(* the value of one segment: exact linear interpolation *)
Lemma seg_val : forall q tj xj tj1 xj1,
  q_seg q (tj, xj) (tj1, xj1) == xj + (xj1 - xj) / (tj1 - tj) * (q - tj).
Proof.
  intros. unfold q_seg, seg. destruct (Qeq_bool tj q) eqn:E.
  - apply Qeq_bool_iff in E. set (k := (xj1 - xj) / (tj1 - tj)).
    assert (Hz : q - tj == 0) by lra. rewrite Hz. ring.
  - unfold qnan. ring.
Qed.

Lemma seg_bounds : forall q tj xj tj1 xj1,
  tj <= q -> q < tj1 -> xj <= xj1 -> xj <= q_seg q (tj, xj) (tj1, xj1) <= xj1.
Proof.
  intros q tj xj tj1 xj1 H1 H2 H3. rewrite seg_val.
  destruct (slope_facts (xj1 - xj) (tj1 - tj)) as [Hk Hkd]; [lra | lra |].
  set (k := (xj1 - xj) / (tj1 - tj)) in *. split; nra.
Qed.

Lemma seg_mono : forall q1 q2 tj xj tj1 xj1,
  tj <= q1 -> q1 <= q2 -> q2 < tj1 -> xj <= xj1 ->
  q_seg q1 (tj, xj) (tj1, xj1) <= q_seg q2 (tj, xj) (tj1, xj1).
Proof.
  intros q1 q2 tj xj tj1 xj1 H1 H2 H3 H4. rewrite !seg_val.
  destruct (slope_facts (xj1 - xj) (tj1 - tj)) as [Hk Hkd]; [lra | lra |].
  set (k := (xj1 - xj) / (tj1 - tj)) in *. nra.
Qed.

(* ---------------------------------------------------------------- the walk *)
Lemma go_lower : forall q rest p, mono2 (p :: rest) -> fst p <= q -> snd p <= q_go q p rest.
Proof.
  intros q rest. induction rest as [|p' rest IH]; intros p Hm Hq; simpl.
  - apply Qle_refl.
  - inversion Hm as [| |a b r Hf Hs Hm']; subst.
    destruct (Qle_bool (fst p') q) eqn:E.
    + apply Qle_bool_iff in E. eapply Qle_trans; [exact Hs | now apply IH].
    + apply Qle_bool_false in E. destruct p as [tj xj], p' as [tj1 xj1]; simpl in *.
      now apply seg_bounds.
Qed.

Lemma last_cons : forall (A : Type) (x : A) (r : list A) (d : A), last (x :: r) d = last r x.
Proof.
  intros A x r. revert x. induction r as [|a r IH]; intros x d; [reflexivity|].
  change (last (x :: a :: r) d) with (last (a :: r) d). rewrite (IH a d), (IH a x). reflexivity.
Qed.

Lemma mono2_last_ge : forall rest p, mono2 (p :: rest) -> snd p <= snd (last rest p).
Proof.
  induction rest as [|x r IH]; intros p Hm; simpl last.
  - apply Qle_refl.
  - inversion Hm as [| |a b r' Hf Hs Hm']; subst.
    change (match r with [] => x | _ :: _ => last r p end) with (last (x :: r) p).
    rewrite last_cons. eapply Qle_trans; [exact Hs | now apply IH].
Qed.

Lemma go_upper : forall q rest p, mono2 (p :: rest) -> fst p <= q -> q_go q p rest <= snd (last rest p).
Proof.
  intros q rest. induction rest as [|p' rest IH]; intros p Hm Hq.
  - simpl. apply Qle_refl.
  - inversion Hm as [| |a b r Hf Hs Hm']; subst.
    rewrite last_cons. simpl q_go. unfold q_go in *. simpl. destruct (Qle_bool (fst p') q) eqn:E.
    + apply Qle_bool_iff in E. now apply IH.
    + apply Qle_bool_false in E. pose proof (mono2_last_ge rest p' Hm') as Hle.
      destruct p as [tj xj], p' as [tj1 xj1]; simpl in *.
      eapply Qle_trans; [|exact Hle]. now apply seg_bounds.
Qed.

(* monotone in the level *)
Lemma go_mono : forall q1 q2 rest p, mono2 (p :: rest) -> fst p <= q1 -> q1 <= q2 ->
  q_go q1 p rest <= q_go q2 p rest.
Proof.
  intros q1 q2 rest. induction rest as [|p' rest IH]; intros p Hm H1 H12; simpl.
  - apply Qle_refl.
  - inversion Hm as [| |a b r Hf Hs Hm']; subst.
    destruct (Qle_bool (fst p') q1) eqn:E1; destruct (Qle_bool (fst p') q2) eqn:E2.
    + apply Qle_bool_iff in E1. now apply IH.
    + apply Qle_bool_iff in E1. apply Qle_bool_false in E2. exfalso. lra.
    + apply Qle_bool_false in E1. apply Qle_bool_iff in E2.
      eapply Qle_trans; [| apply go_lower; assumption].
      destruct p as [tj xj], p' as [tj1 xj1]; simpl in *. now apply seg_bounds.
    + apply Qle_bool_false in E1. apply Qle_bool_false in E2.
      destruct p as [tj xj], p' as [tj1 xj1]; simpl in *. apply seg_mono; assumption || lra.
Qed.

(* the result lies between two ADJACENT ordinates (or is the last one) *)
Definition adjacent_or_last (l : list Q) (a b : Q) : Prop :=
  (exists l1 l2, l = l1 ++ a :: b :: l2) \/ (a = b /\ exists l1, l = l1 ++ [a]).

Lemma adjacent_cons : forall x l a b, adjacent_or_last l a b -> adjacent_or_last (x :: l) a b.
Proof.
  intros x l a b [[l1 [l2 H]] | [E [l1 H]]]; subst.
  - left. exists (x :: l1), l2. reflexivity.
  - right. split; [reflexivity|]. exists (x :: l1). reflexivity.
Qed.

Lemma go_bracket : forall q rest p, mono2 (p :: rest) -> fst p <= q ->
  exists a b, adjacent_or_last (map snd (p :: rest)) a b /\ a <= q_go q p rest <= b.
Proof.
  intros q rest. induction rest as [|p' rest IH]; intros p Hm Hq.
  - exists (snd p), (snd p). split.
    + right. split; [reflexivity|]. exists []. reflexivity.
    + simpl. split; apply Qle_refl.
  - inversion Hm as [| |a0 b0 r Hf Hs Hm']; subst. simpl.
    destruct (Qle_bool (fst p') q) eqn:E.
    + apply Qle_bool_iff in E. destruct (IH p' Hm' E) as [a [b [Hadj Hab]]].
      exists a, b. split; [|exact Hab]. apply (adjacent_cons (snd p)) in Hadj. exact Hadj.
    + apply Qle_bool_false in E. exists (snd p), (snd p'). split.
      * left. exists [], (map snd rest). reflexivity.
      * destruct p as [tj xj], p' as [tj1 xj1]; simpl in *. now apply seg_bounds.
Qed.
