(* C09 proofs, part 4: consequences of equal observables (best fit, statistics) and well-formed model trees. *)
From Coq Require Import List String Ascii Bool Arith PeanoNat Lia Permutation.
From PAFC09 Require Import Model Lib Proofs1 Proofs2.
Import ListNotations.
Open Scope string_scope.
Open Scope list_scope.

Section Consequences.
  Context {V : Type} (gtb : V -> V -> bool).
  Variable Ws : list (path * nat).
  Variable tps : list path.

  Lemma traverse_nth {A B} (f : A -> res B) (l : list A) (ys : list B) (i : nat) :
    traverse f l = Ok ys ->
    match nth_error l i with
    | Some x => exists y, nth_error ys i = Some y /\ f x = Ok y
    | None => nth_error ys i = None
    end.
  Proof.
    intro H. apply traverse_ok_Forall2 in H. revert i. induction H as [|x y l ys Hxy _ IH]; intros [|i]; simpl; auto.
    - exists y. auto.
    - apply IH.
  Qed.

  (* the best-fit vector is a function of the observables *)
  Definition best_of (o : observed V) : res (list V) :=
    match o with
    | (pl, lls, _, _) =>
        match argmax_first gtb lls with
        | Some i => match nth_error pl i with Some v => Ok v | None => OtherErr end
        | None => OtherErr
        end
    end.

  Lemma best_vector_observed (S : list (sample V)) (o : observed V) :
    observe tps Ws S = Ok o -> best_vector gtb tps Ws S = best_of o.
  Proof.
    unfold observe. destruct (param_lists tps Ws S) as [pl| |] eqn:E; simpl; try discriminate.
    intro H. inversion H; subst o. clear H. unfold best_vector, max_ll_sample, best_of.
    destruct (argmax_first gtb (map s_ll S)) as [i|]; [|reflexivity].
    assert (Hn := traverse_nth _ _ _ i E).
    destruct (nth_error S i) as [s|].
    - destruct Hn as [y [H1 H2]]. rewrite H1. exact H2.
    - rewrite Hn. reflexivity.
  Qed.

  Theorem same_observed_same_best (S1 S2 : list (sample V)) (o : observed V) :
    observe tps Ws S1 = Ok o -> observe tps Ws S2 = Ok o ->
    best_vector gtb tps Ws S1 = best_vector gtb tps Ws S2.
  Proof. intros H1 H2. rewrite (best_vector_observed S1 o H1), (best_vector_observed S2 o H2). reflexivity. Qed.

  (* medians, errors, any statistic computed from parameter columns, likelihoods, priors and weights *)
  Theorem same_observed_same_statistic {A} (stat : observed V -> A) (S1 S2 : list (sample V)) (o : observed V) :
    observe tps Ws S1 = Ok o -> observe tps Ws S2 = Ok o ->
    res_bind (observe tps Ws S1) (fun x => Ok (stat x)) = res_bind (observe tps Ws S2) (fun x => Ok (stat x)).
  Proof. intros H1 H2. rewrite H1, H2. reflexivity. Qed.
End Consequences.

(* ------------------------------------------------------------------ well-formed trees give well-formed walks *)
Section NodeInd.
  Variable P : node -> Prop.
  Hypothesis HP : forall i, P (NPrior i).
  Hypothesis HC : P NConst.
  Hypothesis HT : forall ms, Forall (fun nc => P (snd nc)) ms -> P (NTuple ms).
  Hypothesis HG : forall ms, Forall (fun nc => P (snd nc)) ms -> P (NGroup ms).

  Fixpoint node_ind2 (n : node) : P n :=
    match n with
    | NPrior i => HP i
    | NConst => HC
    | NTuple ms =>
        HT ms ((fix go (l : list (string * node)) : Forall (fun nc => P (snd nc)) l :=
                  match l with
                  | [] => Forall_nil _
                  | nc :: r => Forall_cons nc (node_ind2 (snd nc)) (go r)
                  end) ms)
    | NGroup ms =>
        HG ms ((fix go (l : list (string * node)) : Forall (fun nc => P (snd nc)) l :=
                  match l with
                  | [] => Forall_nil _
                  | nc :: r => Forall_cons nc (node_ind2 (snd nc)) (go r)
                  end) ms)
    end.
End NodeInd.

(* attribute names of one node are distinct, non-empty-path, "."-free strings; the root is a Model or Collection *)
Fixpoint wf (n : node) : Prop :=
  match n with
  | NPrior _ | NConst => True
  | NTuple ms | NGroup ms =>
      NoDup (map fst ms) /\ Forall dotfree (map fst ms)
      /\ (fix all (l : list (string * node)) : Prop := match l with [] => True | nc :: r => wf (snd nc) /\ all r end) ms
  end.
Definition wf_root (n : node) : Prop :=
  match n with NGroup _ => wf n | _ => False end.

Definition children (n : node) : list (string * node) :=
  match n with NTuple ms | NGroup ms => ms | _ => [] end.

Lemma walk_tuple (pre : path) (ms : list (string * node)) :
  walk pre (NTuple ms) = flat_map (fun nc => walk (pre ++ [fst nc]) (snd nc)) ms.
Proof. simpl. induction ms as [|[nm c] r IH]; simpl; [reflexivity|]. rewrite <- IH. reflexivity. Qed.

Lemma walk_group (pre : path) (ms : list (string * node)) :
  walk pre (NGroup ms) = flat_map (fun nc => walk (pre ++ [fst nc]) (snd nc)) ms.
Proof. simpl. induction ms as [|[nm c] r IH]; simpl; [reflexivity|]. rewrite <- IH. reflexivity. Qed.

Lemma wf_children (ms : list (string * node)) :
  (fix all (l : list (string * node)) : Prop := match l with [] => True | nc :: r => wf (snd nc) /\ all r end) ms
  <-> Forall (fun nc => wf (snd nc)) ms.
Proof.
  induction ms as [|nc r IH]; simpl.
  - split; intro; [constructor|exact I].
  - split.
    + intros [H1 H2]. constructor; [exact H1|apply IH; exact H2].
    + intro H. inversion H; subst. split; [assumption|apply IH; assumption].
Qed.

(* every path produced below [pre] extends [pre] by "."-free names *)
Lemma walk_prefix (n : node) : forall pre p i,
  wf n -> In (p, i) (walk pre n) -> exists s, p = pre ++ s /\ Forall dotfree s.
Proof.
  induction n as [j| |ms IH|ms IH] using node_ind2; intros pre p i Hwf Hin.
  - simpl in Hin. destruct Hin as [E|[]]. inversion E; subst. exists []. rewrite app_nil_r. split; [reflexivity|constructor].
  - simpl in Hin. contradiction.
  - rewrite walk_tuple in Hin.
    destruct Hwf as [_ [Hdf Hall]]. apply wf_children in Hall.
    apply in_flat_map in Hin. destruct Hin as [[nm c] [Hnc Hin]]. simpl in Hin.
    rewrite Forall_forall in IH, Hall, Hdf.
    destruct (IH (nm, c) Hnc (pre ++ [nm]) p i (Hall (nm, c) Hnc) Hin) as [s [E Hs]].
    exists (nm :: s). split; [rewrite E, <- app_assoc; reflexivity|].
    constructor; [apply Hdf; apply in_map_iff; exists (nm, c); auto|exact Hs].
  - rewrite walk_group in Hin.
    destruct Hwf as [_ [Hdf Hall]]. apply wf_children in Hall.
    apply in_flat_map in Hin. destruct Hin as [[nm c] [Hnc Hin]]. simpl in Hin.
    rewrite Forall_forall in IH, Hall, Hdf.
    destruct (IH (nm, c) Hnc (pre ++ [nm]) p i (Hall (nm, c) Hnc) Hin) as [s [E Hs]].
    exists (nm :: s). split; [rewrite E, <- app_assoc; reflexivity|].
    constructor; [apply Hdf; apply in_map_iff; exists (nm, c); auto|exact Hs].
Qed.

Lemma NoDup_flat_map_paths (pre : path) (ms : list (string * node)) :
  NoDup (map fst ms) ->
  (forall nc, In nc ms -> NoDup (map fst (walk (pre ++ [fst nc]) (snd nc)))) ->
  (forall nc p i, In nc ms -> In (p, i) (walk (pre ++ [fst nc]) (snd nc)) -> exists s, p = pre ++ fst nc :: s) ->
  NoDup (map fst (flat_map (fun nc => walk (pre ++ [fst nc]) (snd nc)) ms)).
Proof.
  induction ms as [|[nm c] r IH]; simpl; intros NDn Hnd Hpre; [constructor|].
  inversion NDn as [|? ? Hn NDr]; subst.
  rewrite map_app. apply NoDup_app_intro.
  - apply (Hnd (nm, c)). left. reflexivity.
  - apply IH; [exact NDr| |].
    + intros. apply Hnd. right. assumption.
    + intros nc p i Hin. apply Hpre. right. assumption.
  - intros p H2 H1.
    apply in_map_iff in H1. destruct H1 as [[p1 i1] [E1 H1]]. simpl in E1. subst p1.
    apply in_map_iff in H2. destruct H2 as [[p2 i2] [E2 H2]]. simpl in E2. subst p2.
    apply in_flat_map in H2. destruct H2 as [[nm' c'] [Hnc' H2]].
    destruct (Hpre (nm, c) p i1 (or_introl eq_refl) H1) as [s1 E1].
    destruct (Hpre (nm', c') p i2 (or_intror Hnc') H2) as [s2 E2].
    simpl in *. rewrite E1 in E2. apply app_inv_head in E2. inversion E2; subst nm'.
    apply Hn. apply in_map_iff. exists (nm, c'). split; [reflexivity|exact Hnc'].
Qed.

Lemma walk_nodup (n : node) : forall pre, wf n -> NoDup (map fst (walk pre n)).
Proof.
  induction n as [j| |ms IH|ms IH] using node_ind2; intros pre Hwf.
  - simpl. constructor; [intros []|constructor].
  - simpl. constructor.
  - rewrite walk_tuple.
    destruct Hwf as [NDn [Hdf Hall]]. apply wf_children in Hall. rewrite Forall_forall in IH, Hall.
    apply NoDup_flat_map_paths; [exact NDn| |].
    + intros nc Hnc. apply IH; [exact Hnc|apply Hall; exact Hnc].
    + intros nc p i Hnc Hin. destruct (walk_prefix (snd nc) (pre ++ [fst nc]) p i (Hall nc Hnc) Hin) as [s [E _]].
      exists s. rewrite E, <- app_assoc. reflexivity.
  - rewrite walk_group.
    destruct Hwf as [NDn [Hdf Hall]]. apply wf_children in Hall. rewrite Forall_forall in IH, Hall.
    apply NoDup_flat_map_paths; [exact NDn| |].
    + intros nc Hnc. apply IH; [exact Hnc|apply Hall; exact Hnc].
    + intros nc p i Hnc Hin. destruct (walk_prefix (snd nc) (pre ++ [fst nc]) p i (Hall nc Hnc) Hin) as [s [E _]].
      exists s. rewrite E, <- app_assoc. reflexivity.
Qed.

Theorem wf_shape_ok (t : node) : wf_root t -> shape_ok (sorted_walk t).
Proof.
  intro Hr. destruct t as [i| |ms|ms]; simpl in Hr; try contradiction.
  split.
  - unfold sorted_walk. apply sort_pid_nodup. apply walk_nodup. exact Hr.
  - intros p i Hin. unfold sorted_walk in Hin. apply (proj1 (sort_pid_in _ _)) in Hin.
    rewrite walk_group in Hin.
    destruct Hr as [_ [Hdf Hall]]. apply wf_children in Hall. rewrite Forall_forall in Hall, Hdf.
    apply in_flat_map in Hin. destruct Hin as [[nm c] [Hnc Hin]]. simpl in Hin.
    destruct (walk_prefix c [nm] p i (Hall (nm, c) Hnc) Hin) as [s [E Hs]].
    subst p. split; [discriminate|].
    constructor; [apply Hdf; apply in_map_iff; exists (nm, c); auto|exact Hs].
Qed.
