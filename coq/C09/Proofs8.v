(* C09 proofs, part 8: samples.csv read by position (proposed_fixes/C09-table-columns-by-position.diff):
   the round trip needs no guard on parameter names. *)
From Coq Require Import List String Ascii Bool Arith PeanoNat Lia.
From PAFC09 Require Import Model Lib Proofs1 Proofs2 Proofs3 Proofs4.
Import ListNotations.
Open Scope string_scope.
Open Scope list_scope.

Lemma combine_app_r_longer {A B} (a : list A) (b1 b2 : list B) :
  List.length a = List.length b1 -> combine a (b1 ++ b2) = combine a b1.
Proof.
  revert b1. induction a as [|x a IH]; intros [|y b1] H; simpl in *; try discriminate; [reflexivity|].
  f_equal. apply IH. lia.
Qed.

Section Positional.
  Context {V cell : Type} (fmt : V -> cell) (parse : cell -> V) (add : V -> V -> V).
  Hypothesis roundtrip : forall v, parse (fmt v) = v.
  Variable Ws : list (path * nat).
  Variable tps : list path.
  Hypothesis SO : shape_ok Ws.

  Lemma load_row_pos (fx : bool) (r : srow V) :
    List.length (r_params r) = List.length (pids Ws) ->
    csv_load_row_pos parse fx (csv_headers Ws)
      (map fmt (r_params r ++ [r_ll r; r_lp r; add (r_ll r) (r_lp r); r_w r])) = Ok (reloaded Ws fx r).
  Proof.
    intro HL. unfold csv_load_row_pos, csv_headers.
    set (HU := map join_dot (unique_paths Ws)).
    assert (HlenU : List.length HU = List.length (r_params r)).
    { unfold HU. rewrite map_length. etransitivity; [apply unique_paths_length|symmetry; exact HL]. }
    assert (Hn : List.length (HU ++ reserved4) - 4 = List.length HU) by (rewrite app_length; simpl; lia).
    rewrite Hn.
    assert (E1 : skipn (List.length HU) (HU ++ reserved4) = reserved4).
    { rewrite skipn_app, Nat.sub_diag, skipn_all. reflexivity. }
    rewrite E1. destruct (list_eq_dec string_dec reserved4 reserved4) as [_|N]; [|congruence].
    rewrite (parse_fmt_map fmt parse roundtrip).
    set (tail := [r_ll r; r_lp r; add (r_ll r) (r_lp r); r_w r]).
    assert (E2 : firstn (List.length (HU ++ reserved4)) (r_params r ++ tail) = r_params r ++ tail).
    { apply firstn_all2. rewrite !app_length. simpl. lia. }
    rewrite E2.
    assert (E3 : skipn (List.length HU) (r_params r ++ tail) = tail).
    { rewrite HlenU, skipn_app, Nat.sub_diag, skipn_all. reflexivity. }
    rewrite E3. unfold tail. cbv iota.
    assert (E4 : firstn (List.length HU) (HU ++ reserved4) = HU).
    { rewrite firstn_app, Nat.sub_diag, firstn_all. simpl. apply app_nil_r. }
    rewrite E4. rewrite combine_app_r_longer by exact HlenU.
    rewrite (dict_of_list_nodup string_dec).
    2:{ rewrite map_fst_combine by exact HlenU. exact (headers_nodup Ws SO). }
    unfold reloaded, HU. f_equal. f_equal. rewrite !combine_map_l, map_map. reflexivity.
  Qed.

  Theorem csv_roundtrip_pos_reloaded (fx : bool) (rows : list (srow V)) :
    rows_ok Ws rows ->
    csv_roundtrip_pos fmt parse add fx tps Ws (from_lists fx Ws rows) = Ok (map (reloaded Ws fx) rows).
  Proof.
    intro HRo. unfold csv_roundtrip_pos, csv_save, from_lists.
    rewrite traverse_map.
    rewrite (traverse_map_ok _ (fun r => map fmt (r_params r ++ [r_ll r; r_lp r; add (r_ll r) (r_lp r); r_w r]))).
    - simpl. unfold csv_load_pos. simpl. rewrite traverse_map.
      apply traverse_map_ok. intros r Hr. apply load_row_pos. apply HRo. exact Hr.
    - intros r Hr. apply (save_row fmt add Ws tps SO). apply HRo. exact Hr.
  Qed.

  (* no guard on parameter names any more *)
  Theorem csv_pos_fixed (rows : list (srow V)) :
    rows_ok Ws rows -> (all_flat Ws -> names_injective tps Ws) ->
    res_bind (csv_roundtrip_pos fmt parse add true tps Ws (from_lists true Ws rows)) (observe tps Ws) = Ok (expected rows).
  Proof.
    intros HRo HI. rewrite csv_roundtrip_pos_reloaded by assumption. simpl.
    apply observe_reloaded. intros r Hr. apply reloaded_read_fixed; [exact SO|apply HRo; exact Hr|exact HI].
  Qed.
End Positional.

Theorem tree_csv_by_position {V cell : Type} (fmt : V -> cell) (parse : cell -> V) (add : V -> V -> V) :
  (forall v, parse (fmt v) = v) ->
  forall (t : node) (rows : list (srow V)),
    wf_root t ->
    (all_flat (sorted_walk t) -> names_injective (tuple_paths [] t) (sorted_walk t)) ->
    rows_ok (sorted_walk t) rows ->
    res_bind (csv_roundtrip_pos fmt parse add true (tuple_paths [] t) (sorted_walk t) (from_lists true (sorted_walk t) rows))
             (observe (tuple_paths [] t) (sorted_walk t)) = Ok (expected rows).
Proof.
  intros RT t rows Hwf HI HRo.
  apply (csv_pos_fixed fmt parse add RT (sorted_walk t) (tuple_paths [] t) (wf_shape_ok t Hwf) rows); assumption.
Qed.
