(* C09 proofs, part 3: the samples.csv table and the summary JSON form. *)
From Coq Require Import List String Ascii Bool Arith PeanoNat Lia Permutation.
From PAFC09 Require Import Model Lib Proofs1 Proofs2.
Import ListNotations.
Open Scope string_scope.
Open Scope list_scope.

Lemma filter_all_true {A} (f : A -> bool) (l : list A) : (forall x, In x l -> f x = true) -> filter f l = l.
Proof.
  induction l as [|x l IH]; simpl; intro H; [reflexivity|].
  rewrite (H x (or_introl eq_refl)). f_equal. apply IH. intros. apply H. right. assumption.
Qed.

Lemma filter_all_false {A} (f : A -> bool) (l : list A) : (forall x, In x l -> f x = false) -> filter f l = [].
Proof.
  induction l as [|x l IH]; simpl; intro H; [reflexivity|].
  rewrite (H x (or_introl eq_refl)). apply IH. intros. apply H. right. assumption.
Qed.

Lemma existsb_false_iff {A} (f : A -> bool) (l : list A) : existsb f l = false <-> forall x, In x l -> f x = false.
Proof.
  induction l as [|x l IH]; simpl.
  - split; [intros _ y []|reflexivity].
  - rewrite orb_false_iff, IH. split.
    + intros [H1 H2] y [E|Hy]; [subst; exact H1|apply H2; exact Hy].
    + intro H. split; [apply H; left; reflexivity|intros y Hy; apply H; right; exact Hy].
Qed.

Section Text.
  Context {V cell : Type} (fmt : V -> cell) (parse : cell -> V) (add : V -> V -> V) (is_zero : V -> bool).
  Hypothesis roundtrip : forall v, parse (fmt v) = v.
  Notation sample := (sample V).

  Variable Ws : list (path * nat).
  Variable tps : list path.
  Hypothesis SO : shape_ok Ws.
  Let ND : NoDup (map fst Ws) := proj1 SO.
  Let NM : names_ok Ws := proj2 SO.
  Let U := unique_paths Ws.
  Let skey (p : path) : key := KStr (join_dot p).

  Lemma parse_fmt_map (l : list V) : map parse (map fmt l) = l.
  Proof. rewrite map_map. rewrite <- (map_id l) at 2. apply map_ext. exact roundtrip. Qed.

  Lemma U_names (p : path) : In p U -> p <> [] /\ Forall dotfree p.
  Proof. apply unique_path_names. exact NM. Qed.

  Lemma headers_nodup : NoDup (map join_dot U).
  Proof.
    apply NoDup_map_inj; [|apply unique_paths_nodup; exact ND].
    intros p q Hp Hq E. destruct (U_names p Hp), (U_names q Hq). apply join_inj; assumption.
  Qed.

  Lemma skeys_nodup : NoDup (map skey U).
  Proof.
    unfold skey. rewrite <- (map_map join_dot KStr). apply NoDup_map_inj; [|exact headers_nodup].
    intros x y _ _ E. inversion E. reflexivity.
  Qed.

  Lemma len_U : List.length U = List.length (pids Ws).
  Proof. apply unique_paths_length. Qed.

  (* ---------------------------------------------------------------- Sample.__init__ on the reloaded (string) keys *)
  Lemma norm_map (mode : bool) (vals : list V) :
    map (fun kv : key * V => (norm_key mode (fst kv), snd kv)) (combine (map skey U) vals)
    = combine (map (fun p => norm_key mode (skey p)) U) vals.
  Proof. rewrite !combine_map_l, map_map. reflexivity. Qed.

  Lemma norm_path (mode : bool) (p : path) :
    In p U -> contains_dot (join_dot p) || mode = true -> norm_key mode (skey p) = KTup p.
  Proof.
    intros Hp H. unfold skey. simpl. rewrite H. destruct (U_names p Hp) as [Hne Hdf].
    rewrite split_join by assumption. reflexivity.
  Qed.

  Lemma init_to_tuples (fx : bool) (vals : list V) :
    List.length vals = List.length (pids Ws) ->
    (forall p, In p U -> contains_dot (join_dot p) || (fx && existsb (fun kv : key * V => key_is_path (fst kv)) (combine (map skey U) vals)) = true) ->
    sample_init fx (combine (map skey U) vals) = combine (map KTup U) vals.
  Proof.
    intros HL H. unfold sample_init. rewrite norm_map.
    rewrite (map_ext_in _ KTup).
    - apply dict_of_list_nodup. apply tup_kw_nodup; assumption.
    - intros p Hp. apply norm_path; [exact Hp|apply H; exact Hp].
  Qed.

  Lemma init_keeps_strings (fx : bool) (vals : list V) :
    List.length vals = List.length (pids Ws) ->
    (forall p, In p U -> contains_dot (join_dot p) = false) ->
    sample_init fx (combine (map skey U) vals) = combine (map skey U) vals.
  Proof.
    intros HL H. unfold sample_init.
    assert (Hex : existsb (fun kv : key * V => key_is_path (fst kv)) (combine (map skey U) vals) = false).
    { apply existsb_false_iff. intros [k v] Hin. simpl. apply in_combine_l in Hin.
      apply in_map_iff in Hin. destruct Hin as [p [E Hp]]. subst k. simpl. apply H. exact Hp. }
    rewrite Hex, andb_false_r. rewrite norm_map.
    rewrite (map_ext_in _ skey).
    - apply dict_of_list_nodup. rewrite map_fst_combine; [exact skeys_nodup|]. rewrite map_length, len_U. lia.
    - intros p Hp. unfold skey. simpl. rewrite (H p Hp). reflexivity.
  Qed.

  Lemma flat_no_dot : all_flat Ws -> forall p, In p U -> contains_dot (join_dot p) = false.
  Proof.
    intros HF p Hp. specialize (HF p Hp). destruct (U_names p Hp) as [_ Hdf].
    destruct p as [|a [|b r]]; simpl in HF; try discriminate.
    apply contains_dot_join_single. inversion Hdf. assumption.
  Qed.

  Lemma no_dot_flat : (forall p, In p U -> contains_dot (join_dot p) = false) -> all_flat Ws.
  Proof.
    intros H p Hp. specialize (H p Hp). destruct (U_names p Hp) as [Hne _].
    destruct p as [|a [|b r]]; [congruence|reflexivity|].
    rewrite contains_dot_join_nested in H; [discriminate|simpl; lia].
  Qed.

  (* what a reader gets from a sample carrying the reloaded keys *)
  Definition reloaded (fx : bool) (r : srow V) : sample :=
    mkSample (r_ll r) (r_lp r) (r_w r) (sample_init fx (combine (map skey U) (r_params r))).

  Lemma reloaded_nested (fx : bool) (r : srow V) :
    List.length (r_params r) = List.length (pids Ws) -> all_nested Ws -> reloaded fx r = from_row fx Ws r.
  Proof.
    intros HL HN. rewrite from_row_eq by assumption. unfold reloaded. f_equal.
    apply init_to_tuples; [exact HL|]. intros p Hp. rewrite contains_dot_join_nested; [reflexivity|apply HN; exact Hp].
  Qed.

  Lemma reloaded_read_uniform (r : srow V) :
    List.length (r_params r) = List.length (pids Ws) -> uniform_depth Ws -> (all_flat Ws -> names_injective tps Ws) ->
    param_list tps Ws (reloaded false r) = Ok (r_params r).
  Proof.
    intros HL [HN|HF] HI.
    - rewrite reloaded_nested by assumption. apply param_list_from_row; assumption.
    - unfold reloaded. rewrite init_keeps_strings; [|exact HL|apply flat_no_dot; exact HF].
      apply param_list_str_kw; try assumption. apply HI. exact HF.
  Qed.

  Lemma reloaded_read_fixed (r : srow V) :
    List.length (r_params r) = List.length (pids Ws) -> (all_flat Ws -> names_injective tps Ws) ->
    param_list tps Ws (reloaded true r) = Ok (r_params r).
  Proof.
    intros HL HI. unfold reloaded.
    destruct (existsb (fun kv : key * V => key_is_path (fst kv)) (combine (map skey U) (r_params r))) eqn:Ex.
    - rewrite init_to_tuples; [apply param_list_tup_kw; assumption|exact HL|].
      intros p _. rewrite Ex. apply orb_true_r.
    - assert (Hnd : forall p, In p U -> contains_dot (join_dot p) = false).
      { intros p Hp. rewrite existsb_false_iff in Ex.
        assert (Hlen : List.length (map skey U) = List.length (r_params r)) by (rewrite map_length; unfold U; rewrite unique_paths_length; lia).
        assert (Hin : In (skey p) (map fst (combine (map skey U) (r_params r)))).
        { rewrite map_fst_combine by exact Hlen. apply in_map. exact Hp. }
        apply in_map_iff in Hin. destruct Hin as [[k v] [E Hkv]]. simpl in E. subst k.
        apply (Ex (skey p, v) Hkv). }
      rewrite init_keeps_strings by assumption.
      apply param_list_str_kw; try assumption; [apply no_dot_flat; exact Hnd|apply HI; apply no_dot_flat; exact Hnd].
  Qed.

  (* ---------------------------------------------------------------- one row of samples.csv *)
  Lemma in_headers_not_reserved (s : string) : no_reserved Ws -> In s not_kwargs -> ~ In s (map join_dot U).
  Proof.
    intros HR Hs HI. apply in_map_iff in HI. destruct HI as [p [E Hp]]. subst s. exact (HR p Hp Hs).
  Qed.

  Lemma load_row (fx : bool) (r : srow V) :
    no_reserved Ws -> List.length (r_params r) = List.length (pids Ws) ->
    csv_load_row parse fx (csv_headers Ws)
      (map fmt (r_params r ++ [r_ll r; r_lp r; add (r_ll r) (r_lp r); r_w r])) = Ok (reloaded fx r).
  Proof.
    intros HR HL. unfold csv_load_row, csv_headers. fold U.
    rewrite parse_fmt_map.
    set (tail := [r_ll r; r_lp r; add (r_ll r) (r_lp r); r_w r]).
    assert (HlenU : List.length (map join_dot U) = List.length (r_params r)) by (rewrite map_length; unfold U; rewrite unique_paths_length; lia).
    rewrite combine_app by exact HlenU.
    set (d1 := combine (map join_dot U) (r_params r)).
    set (d2 := combine reserved4 tail).
    assert (Hfst1 : map fst d1 = map join_dot U) by (apply map_fst_combine; exact HlenU).
    assert (Hres : forall s, In s not_kwargs -> ~ In s (map fst d1)).
    { intros s Hs. rewrite Hfst1. apply in_headers_not_reserved; assumption. }
    assert (NDd : NoDup (map fst (d1 ++ d2))).
    { rewrite map_app, Hfst1. apply NoDup_app_intro.
      - exact headers_nodup.
      - unfold d2, reserved4, tail. simpl. repeat constructor; simpl; intuition discriminate.
      - intros s H1 H2. apply (in_headers_not_reserved s HR); [|exact H2].
        unfold d2, reserved4, tail in H1. simpl in H1. unfold not_kwargs. simpl. intuition. }
    rewrite (dict_of_list_nodup string_dec) by exact NDd.
    assert (Hself : mem string_dec "self" (map fst (d1 ++ d2)) = false).
    { apply mem_false_iff. rewrite map_app. intro HI. apply in_app_or in HI. destruct HI as [HI|HI].
      - apply (Hres "self"); [unfold not_kwargs; simpl; auto|exact HI].
      - unfold d2, reserved4, tail in HI. simpl in HI. intuition discriminate. }
    assert (Hkw : mem string_dec "kwargs" (map fst (d1 ++ d2)) = false).
    { apply mem_false_iff. rewrite map_app. intro HI. apply in_app_or in HI. destruct HI as [HI|HI].
      - apply (Hres "kwargs"); [unfold not_kwargs; simpl; auto 10|exact HI].
      - unfold d2, reserved4, tail in HI. simpl in HI. intuition discriminate. }
    rewrite Hself, Hkw. simpl orb. cbv iota.
    rewrite !(assoc_app_notin string_dec) by (apply Hres; unfold not_kwargs; simpl; auto 10).
    unfold d2, reserved4, tail.
    change (assoc string_dec "log_likelihood" (combine ["log_likelihood"; "log_prior"; "log_posterior"; "weight"]
              [r_ll r; r_lp r; add (r_ll r) (r_lp r); r_w r])) with (Some (r_ll r)).
    change (assoc string_dec "log_prior" (combine ["log_likelihood"; "log_prior"; "log_posterior"; "weight"]
              [r_ll r; r_lp r; add (r_ll r) (r_lp r); r_w r])) with (Some (r_lp r)).
    change (assoc string_dec "weight" (combine ["log_likelihood"; "log_prior"; "log_posterior"; "weight"]
              [r_ll r; r_lp r; add (r_ll r) (r_lp r); r_w r])) with (Some (r_w r)).
    cbv iota. f_equal. unfold reloaded. f_equal. f_equal.
    rewrite filter_app.
    rewrite (filter_all_true _ d1).
    - rewrite filter_all_false.
      + rewrite app_nil_r. unfold d1, skey. rewrite !combine_map_l, map_map. reflexivity.
      + intros [h v] Hin. simpl in Hin.
        destruct Hin as [E|[E|[E|[E|[]]]]]; inversion E; subst; reflexivity.
    - intros [h v] Hin. simpl. apply negb_true_iff. apply mem_false_iff. intro Hn.
      apply (Hres h Hn). apply in_map_iff. exists (h, v). split; [reflexivity|exact Hin].
  Qed.

  Lemma save_row (fx : bool) (r : srow V) :
    List.length (r_params r) = List.length (pids Ws) ->
    csv_row fmt add tps Ws (from_row fx Ws r)
    = Ok (map fmt (r_params r ++ [r_ll r; r_lp r; add (r_ll r) (r_lp r); r_w r])).
  Proof.
    intro HL. unfold csv_row. rewrite param_list_from_row by assumption. reflexivity.
  Qed.

  Lemma res_bind_traverse {A B C} (f : A -> res B) (g : B -> res C) (h : A -> C) (l : list A) (ys : list B) :
    traverse f l = Ok ys -> Forall2 (fun x y => g y = Ok (h x)) l ys -> traverse g ys = Ok (map h l).
  Proof.
    intros _ H. apply traverse_Forall2. induction H; simpl; constructor; assumption.
  Qed.

  (* the whole table: what csv_roundtrip returns *)
  Theorem csv_roundtrip_reloaded (fx : bool) (rows : list (srow V)) :
    no_reserved Ws -> rows_ok Ws rows ->
    csv_roundtrip fmt parse add fx tps Ws (from_lists fx Ws rows) = Ok (map (reloaded fx) rows).
  Proof.
    intros HR HRo. unfold csv_roundtrip, csv_save, from_lists.
    rewrite traverse_map.
    rewrite (traverse_map_ok _ (fun r => map fmt (r_params r ++ [r_ll r; r_lp r; add (r_ll r) (r_lp r); r_w r]))).
    - simpl. unfold csv_load. simpl. rewrite traverse_map.
      apply traverse_map_ok. intros r Hr. apply load_row; [exact HR|apply HRo; exact Hr].
    - intros r Hr. apply save_row. apply HRo. exact Hr.
  Qed.

  Lemma observe_reloaded (fx : bool) (rows : list (srow V)) :
    (forall r, In r rows -> param_list tps Ws (reloaded fx r) = Ok (r_params r)) ->
    observe tps Ws (map (reloaded fx) rows) = Ok (expected rows).
  Proof.
    intro H. apply observe_of. apply Forall2_map_l. apply Forall2_same.
    intros r Hr. split; [apply H; exact Hr|]. auto.
  Qed.

  Theorem csv_nested_exact (fx : bool) (rows : list (srow V)) :
    rows_ok Ws rows -> all_nested Ws ->
    csv_roundtrip fmt parse add fx tps Ws (from_lists fx Ws rows) = Ok (from_lists fx Ws rows).
  Proof.
    intros HRo HN. rewrite csv_roundtrip_reloaded; [|apply nested_no_reserved; exact HN|exact HRo].
    f_equal. unfold from_lists. apply map_ext_in. intros r Hr. apply reloaded_nested; [apply HRo; exact Hr|exact HN].
  Qed.

  Theorem csv_partial (rows : list (srow V)) :
    rows_ok Ws rows -> uniform_depth Ws -> no_reserved Ws -> (all_flat Ws -> names_injective tps Ws) ->
    res_bind (csv_roundtrip fmt parse add false tps Ws (from_lists false Ws rows)) (observe tps Ws) = Ok (expected rows).
  Proof.
    intros HRo HU HR HI. rewrite csv_roundtrip_reloaded by assumption. simpl.
    apply observe_reloaded. intros r Hr. apply reloaded_read_uniform; [apply HRo; exact Hr|exact HU|exact HI].
  Qed.

  Theorem csv_fixed (rows : list (srow V)) :
    rows_ok Ws rows -> no_reserved Ws -> (all_flat Ws -> names_injective tps Ws) ->
    res_bind (csv_roundtrip fmt parse add true tps Ws (from_lists true Ws rows)) (observe tps Ws) = Ok (expected rows).
  Proof.
    intros HRo HR HI. rewrite csv_roundtrip_reloaded by assumption. simpl.
    apply observe_reloaded. intros r Hr. apply reloaded_read_fixed; [apply HRo; exact Hr|exact HI].
  Qed.

  (* ---------------------------------------------------------------- summary JSON *)
  Definition no_zero (drop0 : bool) (r : srow V) : Prop :=
    drop0 = true -> forall v, In v (r_params r) -> is_zero v = false.

  Theorem json_roundtrip_reloaded (fx drop0 : bool) (r : srow V) :
    List.length (r_params r) = List.length (pids Ws) -> no_zero drop0 r ->
    json_roundtrip fmt parse is_zero fx drop0 (from_row fx Ws r) = reloaded fx r.
  Proof.
    intros HL HZ. unfold json_roundtrip, json_save, json_load.
    rewrite from_row_kw by assumption. simpl s_ll. simpl s_lp. simpl s_w.
    rewrite !roundtrip. unfold reloaded. f_equal. f_equal.
    assert (HlenU : List.length (map join_dot U) = List.length (r_params r)) by (rewrite map_length; unfold U; rewrite unique_paths_length; lia).
    assert (E1 : map (fun kv : key * V => (key_str (fst kv), fmt (snd kv))) (combine (map KTup (unique_paths Ws)) (r_params r))
                 = combine (map join_dot U) (map fmt (r_params r))).
    { fold U. clear. generalize (r_params r) as vals. induction U as [|p l IH]; intros [|v vals]; simpl; try reflexivity.
      f_equal. apply IH. }
    rewrite E1.
    rewrite (dict_of_list_nodup string_dec).
    2:{ rewrite map_fst_combine; [exact headers_nodup|]. rewrite (map_length fmt). exact HlenU. }
    assert (E2 : map (fun hv : string * cell => (fst hv, parse (snd hv))) (combine (map join_dot U) (map fmt (r_params r)))
                 = combine (map join_dot U) (r_params r)).
    { clear -roundtrip. generalize (r_params r) as vals. induction (map join_dot U) as [|h l IH]; intros [|v vals]; simpl; try reflexivity.
      rewrite roundtrip. f_equal. apply IH. }
    rewrite E2.
    rewrite filter_all_true.
    - unfold skey. rewrite !combine_map_l, map_map. reflexivity.
    - intros [h v] Hin. simpl. apply negb_true_iff. destruct drop0; [|reflexivity]. simpl.
      apply HZ; [reflexivity|]. eapply in_combine_r; eauto.
  Qed.

  Theorem json_partial (drop0 : bool) (r : srow V) :
    List.length (r_params r) = List.length (pids Ws) -> no_zero drop0 r -> uniform_depth Ws -> (all_flat Ws -> names_injective tps Ws) ->
    let s := json_roundtrip fmt parse is_zero false drop0 (from_row false Ws r) in
    param_list tps Ws s = Ok (r_params r) /\ s_ll s = r_ll r /\ s_lp s = r_lp r /\ s_w s = r_w r.
  Proof.
    intros HL HZ HU HI. cbv zeta. rewrite json_roundtrip_reloaded by assumption.
    split; [apply reloaded_read_uniform; assumption|]. auto.
  Qed.

  Theorem json_fixed (r : srow V) :
    List.length (r_params r) = List.length (pids Ws) -> (all_flat Ws -> names_injective tps Ws) ->
    let s := json_roundtrip fmt parse is_zero true false (from_row true Ws r) in
    param_list tps Ws s = Ok (r_params r) /\ s_ll s = r_ll r /\ s_lp s = r_lp r /\ s_w s = r_w r.
  Proof.
    intros HL HI. cbv zeta. rewrite json_roundtrip_reloaded; [|exact HL|intro H; discriminate].
    split; [apply reloaded_read_fixed; assumption|]. auto.
  Qed.
End Text.
