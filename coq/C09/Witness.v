(* C09 witnesses: refutations of the full statements on the faithful model (by vm_compute)
   and non-vacuity of the hypotheses used in Props.v. *)
From Coq Require Import List String Ascii Bool Arith PeanoNat Lia.
From PAFC09 Require Import Model Lib Proofs1 Proofs2 Proofs3 Proofs4 Proofs5 Proofs6.
Import ListNotations.
Open Scope string_scope.
Open Scope list_scope.

(* values are natural numbers here; text = the value itself; "zero" = 0 *)
Definition nid (x : nat) : nat := x.
Definition nzero (x : nat) : bool := Nat.eqb x 0.
Definition ngtb (a b : nat) : bool := Nat.ltb b a.

(* ------------------------------------------------------------------ shapes *)
(* af.Collection(g=af.Model(cls with argument a), x=prior) *)
Definition t_mixed : node := NGroup [("g", NGroup [("a", NPrior 0)]); ("x", NPrior 1)].
(* af.Model(cls with a tuple argument pos and a float argument s) *)
Definition t_tuple_model : node := NGroup [("pos", NTuple [("pos_0", NPrior 0); ("pos_1", NPrior 1)]); ("s", NPrior 2)].
(* af.Model(cls with arguments weight, centre) *)
Definition t_reserved : node := NGroup [("weight", NPrior 0); ("centre", NPrior 1)].
(* nested with a shared prior and creation order different from attribute order *)
Definition t_nested : node :=
  NGroup [("g", NGroup [("a", NPrior 2); ("b", NPrior 0)]); ("h", NGroup [("a", NPrior 0); ("c", NPrior 1)])].
Definition t_flat : node := NGroup [("a", NPrior 1); ("b", NPrior 0)].

Ltac solve_wf := simpl; repeat split; repeat constructor; simpl; intuition discriminate.

Example wf_mixed : wf_root t_mixed. Proof. solve_wf. Qed.
Example wf_tuple_model : wf_root t_tuple_model. Proof. solve_wf. Qed.
Example wf_reserved : wf_root t_reserved. Proof. solve_wf. Qed.
Example wf_nested : wf_root t_nested. Proof. solve_wf. Qed.
Example wf_flat : wf_root t_flat. Proof. solve_wf. Qed.

Ltac solve_inj :=
  let p := fresh in let q := fresh in let i := fresh in let j := fresh in
  let H1 := fresh in let H2 := fresh in let E := fresh in
  intros p q i j H1 H2 E; vm_compute in H1, H2;
  repeat (destruct H1 as [H1|H1]; [|try contradiction]);
  repeat (destruct H2 as [H2|H2]; [|try contradiction]);
  try contradiction;
  inversion H1; inversion H2; subst; try reflexivity; vm_compute in E; discriminate.

Example inj_mixed : names_injective (tuple_paths [] t_mixed) (sorted_walk t_mixed).
Proof.
  intros p q i j H1 H2 E. vm_compute in H1, H2.
  destruct H1 as [H1|[H1|[]]]; destruct H2 as [H2|[H2|[]]]; inversion H1; inversion H2; subst; try reflexivity;
    vm_compute in E; discriminate.
Qed.

Example inj_tuple_model : names_injective (tuple_paths [] t_tuple_model) (sorted_walk t_tuple_model).
Proof.
  intros p q i j H1 H2 E. vm_compute in H1, H2.
  destruct H1 as [H1|[H1|[H1|[]]]]; destruct H2 as [H2|[H2|[H2|[]]]]; inversion H1; inversion H2; subst; try reflexivity;
    vm_compute in E; discriminate.
Qed.

Example inj_reserved : names_injective [] (sorted_walk t_reserved).
Proof.
  intros p q i j H1 H2 E. vm_compute in H1, H2.
  destruct H1 as [H1|[H1|[]]]; destruct H2 as [H2|[H2|[]]]; inversion H1; inversion H2; subst; try reflexivity;
    vm_compute in E; discriminate.
Qed.

Example inj_flat : names_injective [] (sorted_walk t_flat).
Proof.
  intros p q i j H1 H2 E. vm_compute in H1, H2.
  destruct H1 as [H1|[H1|[]]]; destruct H2 as [H2|[H2|[]]]; inversion H1; inversion H2; subst; try reflexivity;
    vm_compute in E; discriminate.
Qed.

Example nested_is_nested : all_nested (sorted_walk t_nested).
Proof. intros p H. vm_compute in H. destruct H as [H|[H|[H|[]]]]; subst; simpl; lia. Qed.
Example flat_is_flat : all_flat (sorted_walk t_flat).
Proof. intros p H. vm_compute in H. destruct H as [H|[H|[]]]; subst; reflexivity. Qed.
Example flat_no_reserved : no_reserved (sorted_walk t_flat).
Proof. intros p H. vm_compute in H. destruct H as [H|[H|[]]]; subst; vm_compute; intuition discriminate. Qed.
Example mixed_no_reserved : no_reserved (sorted_walk t_mixed).
Proof. intros p H. vm_compute in H. destruct H as [H|[H|[]]]; subst; vm_compute; intuition discriminate. Qed.
Example tuple_model_no_reserved : no_reserved (sorted_walk t_tuple_model).
Proof. intros p H. vm_compute in H. destruct H as [H|[H|[H|[]]]]; subst; vm_compute; intuition discriminate. Qed.
Example reserved_is_flat : uniform_depth (sorted_walk t_reserved).
Proof. right. intros p H. vm_compute in H. destruct H as [H|[H|[]]]; subst; reflexivity. Qed.

Definition rows2 : list (srow nat) := [([7; 8], 1, 2, 3); ([9; 10], 5, 6, 4)].
Definition rows3 : list (srow nat) := [([7; 8; 9], 1, 2, 3)].

Example rows2_ok_mixed : rows_ok (sorted_walk t_mixed) rows2.
Proof. intros r H. simpl in H. destruct H as [H|[H|[]]]; subst; reflexivity. Qed.
Example rows2_ok_reserved : rows_ok (sorted_walk t_reserved) rows2.
Proof. intros r H. simpl in H. destruct H as [H|[H|[]]]; subst; reflexivity. Qed.
Example rows3_ok_tuple_model : rows_ok (sorted_walk t_tuple_model) rows3.
Proof. intros r H. simpl in H. destruct H as [H|[]]; subst; reflexivity. Qed.

(* the executable model on the witnesses *)
Example mixed_reload_fails :
  res_bind (csv_roundtrip nid nid Nat.add false (tuple_paths [] t_mixed) (sorted_walk t_mixed)
              (from_lists false (sorted_walk t_mixed) rows2))
           (observe (tuple_paths [] t_mixed) (sorted_walk t_mixed)) = KeyErr.
Proof. vm_compute. reflexivity. Qed.

Example tuple_model_reload_fails :
  res_bind (csv_roundtrip nid nid Nat.add false (tuple_paths [] t_tuple_model) (sorted_walk t_tuple_model)
              (from_lists false (sorted_walk t_tuple_model) rows3))
           (observe (tuple_paths [] t_tuple_model) (sorted_walk t_tuple_model)) = KeyErr.
Proof. vm_compute. reflexivity. Qed.

Example mixed_reload_ok_after_fix :
  res_bind (csv_roundtrip nid nid Nat.add true (tuple_paths [] t_mixed) (sorted_walk t_mixed)
              (from_lists true (sorted_walk t_mixed) rows2))
           (observe (tuple_paths [] t_mixed) (sorted_walk t_mixed)) = Ok (expected rows2).
Proof. vm_compute. reflexivity. Qed.

Example reserved_reload_fails (fx : bool) :
  res_bind (csv_roundtrip nid nid Nat.add fx [] (sorted_walk t_reserved) (from_lists fx (sorted_walk t_reserved) rows2))
           (observe [] (sorted_walk t_reserved)) = KeyErr.
Proof. destruct fx; vm_compute; reflexivity. Qed.

Example nested_roundtrip_exact :
  csv_roundtrip nid nid Nat.add false [] (sorted_walk t_nested)
    (from_lists false (sorted_walk t_nested) [([7; 8; 9], 1, 2, 3); ([4; 5; 6], 3, 2, 1)])
  = Ok (from_lists false (sorted_walk t_nested) [([7; 8; 9], 1, 2, 3); ([4; 5; 6], 3, 2, 1)]).
Proof. vm_compute. reflexivity. Qed.

Example nested_unique_paths : unique_paths (sorted_walk t_nested) = [["h"; "a"]; ["h"; "c"]; ["g"; "a"]].
Proof. vm_compute. reflexivity. Qed.

Example zero_value_dropped :
  param_list [] (sorted_walk t_nested)
    (json_roundtrip nid nid nzero true true (from_row true (sorted_walk t_nested) ([7; 0; 9], 1, 2, 3))) = KeyErr.
Proof. vm_compute. reflexivity. Qed.

Example zero_value_kept_after_fix :
  param_list [] (sorted_walk t_nested)
    (json_roundtrip nid nid nzero true false (from_row true (sorted_walk t_nested) ([7; 0; 9], 1, 2, 3))) = Ok [7; 0; 9].
Proof. vm_compute. reflexivity. Qed.

(* ------------------------------------------------------------------ refutations of the full statements *)
(* pinned Sample.__init__: a model mixing single-name and nested paths cannot be read back
   (the witness even satisfies no_reserved) *)
Lemma csv_refuted_mixed_depth : ~ csv_claim false no_reserved.
Proof.
  intro H.
  specialize (H nat nat nid nid Nat.add (fun v => eq_refl) (sorted_walk t_mixed) (tuple_paths [] t_mixed) rows2
                (wf_shape_ok t_mixed wf_mixed) (fun _ => inj_mixed) mixed_no_reserved rows2_ok_mixed).
  rewrite mixed_reload_fails in H. discriminate.
Qed.

(* ... and so does the most common shape: one Model with a tuple argument and a float argument *)
Lemma csv_refuted_tuple_model : ~ csv_claim false no_reserved.
Proof.
  intro H.
  specialize (H nat nat nid nid Nat.add (fun v => eq_refl) (sorted_walk t_tuple_model) (tuple_paths [] t_tuple_model) rows3
                (wf_shape_ok t_tuple_model wf_tuple_model) (fun _ => inj_tuple_model) tuple_model_no_reserved rows3_ok_tuple_model).
  rewrite tuple_model_reload_fails in H. discriminate.
Qed.

(* both variants: a top-level parameter named like a reserved column is lost (uniform depth does not help) *)
Lemma csv_refuted_reserved (fx : bool) : ~ csv_claim fx uniform_depth.
Proof.
  intro H.
  specialize (H nat nat nid nid Nat.add (fun v => eq_refl) (sorted_walk t_reserved) [] rows2
                (wf_shape_ok t_reserved wf_reserved) (fun _ => inj_reserved) reserved_is_flat rows2_ok_reserved).
  rewrite reserved_reload_fails in H. discriminate.
Qed.

(* summary JSON, pinned code: mixed depth fails even when no value is zero *)
Lemma summary_refuted_mixed_depth : ~ summary_claim false false (fun _ => True).
Proof.
  intro H.
  specialize (H nat nat nid nid nzero (fun v => eq_refl) (sorted_walk t_mixed) (tuple_paths [] t_mixed) ([7; 8], 1, 2, 3)
                (wf_shape_ok t_mixed wf_mixed) (fun _ => inj_mixed) I eq_refl).
  assert (HZ : no_zero nzero false ([7; 8], 1, 2, 3)) by (intro N; discriminate).
  destruct (H HZ) as [H1 _]. vm_compute in H1. discriminate.
Qed.

(* summary JSON: with the falsy filter a zero-valued parameter is lost whatever the key handling
   (the claim is stated WITHOUT the no_zero hypothesis to be refutable: guard True, drop0 = true, value 0) *)
Lemma summary_refuted_zero (fx : bool) :
  exists (Ws : list (path * nat)) (r : srow nat),
    shape_ok Ws /\ all_nested Ws /\ List.length (r_params r) = List.length (pids Ws) /\
    param_list [] Ws (json_roundtrip nid nid nzero fx true (from_row fx Ws r)) <> Ok (r_params r).
Proof.
  exists (sorted_walk t_nested), ([7; 0; 9], 1, 2, 3).
  split; [exact (wf_shape_ok t_nested wf_nested)|]. split; [exact nested_is_nested|]. split; [reflexivity|].
  destruct fx; vm_compute; discriminate.
Qed.


(* ------------------------------------------------------------------ non-vacuity of the corollaries' hypotheses *)
Definition nested_rows : list (srow nat) := [([7; 8; 9], 1, 2, 3); ([4; 5; 6], 3, 2, 1)].

Example nested_observed_in_memory :
  observe [] (sorted_walk t_nested) (from_lists false (sorted_walk t_nested) nested_rows) = Ok (expected nested_rows).
Proof. vm_compute. reflexivity. Qed.

Example nested_observed_after_csv :
  res_bind (csv_roundtrip nid nid Nat.add false [] (sorted_walk t_nested) (from_lists false (sorted_walk t_nested) nested_rows))
           (observe [] (sorted_walk t_nested)) = Ok (expected nested_rows).
Proof. vm_compute. reflexivity. Qed.

Example nested_best_vector :
  best_vector ngtb [] (sorted_walk t_nested) (from_lists false (sorted_walk t_nested) nested_rows) = Ok [4; 5; 6].
Proof. vm_compute. reflexivity. Qed.

Example nested_minimise_two :
  List.length (minimise Nat.add ngtb (from_lists false (sorted_walk t_nested) [([7; 8; 9], 1, 9, 3); ([4; 5; 6], 3, 2, 1)])) = 2.
Proof. vm_compute. reflexivity. Qed.

Example flat_roundtrip_by_names :
  res_bind (csv_roundtrip nid nid Nat.add false [] (sorted_walk t_flat) (from_lists false (sorted_walk t_flat) rows2))
           (observe [] (sorted_walk t_flat)) = Ok (expected rows2).
Proof. vm_compute. reflexivity. Qed.

Example db_roundtrip_mixed :
  db_roundtrip false (from_lists false (sorted_walk t_mixed) rows2) = Ok (from_lists false (sorted_walk t_mixed) rows2).
Proof. vm_compute. reflexivity. Qed.

(* ------------------------------------------------------------------ non-vacuity: re-created model, tree statements *)
(* t_nested with the creation ranks a model.json round trip gives (attribute order) *)
Definition t_nested_recreated : node :=
  NGroup [("g", NGroup [("a", NPrior 0); ("b", NPrior 1)]); ("h", NGroup [("a", NPrior 1); ("c", NPrior 2)])].

Example recreated_same_sharing : same_sharing (sorted_walk t_nested) (sorted_walk t_nested_recreated).
Proof.
  intros p q. vm_compute. split; intros [k [H1 H2]];
    repeat (destruct H1 as [H1|H1]; [inversion H1; subst; clear H1|]); try contradiction;
    repeat (destruct H2 as [H2|H2]; [inversion H2; subst; clear H2|]); try contradiction;
    try discriminate;
    first [exists 0; split; simpl; tauto | exists 1; split; simpl; tauto | exists 2; split; simpl; tauto].
Qed.

Example recreated_value_per_path :
  lookup_group (combine (map KTup (unique_paths (sorted_walk t_nested))) [7; 8; 9])
               (map KTup (group 0 (sorted_walk t_nested_recreated))) = Ok 9.
Proof. vm_compute. reflexivity. Qed.

Example mixed_tree_roundtrip_now :
  res_bind (csv_roundtrip nid nid Nat.add true (tuple_paths [] t_tuple_model) (sorted_walk t_tuple_model)
              (from_lists true (sorted_walk t_tuple_model) rows3))
           (observe (tuple_paths [] t_tuple_model) (sorted_walk t_tuple_model)) = Ok (expected rows3).
Proof. vm_compute. reflexivity. Qed.

Example flat_scraped_keys_are_strings :
  map (fun s => map fst (s_kw s)) (map (reloaded (sorted_walk t_flat) true) rows2) = [[KStr "b"; KStr "a"]; [KStr "b"; KStr "a"]].
Proof. vm_compute. reflexivity. Qed.

Example json_history_latest :
  get_json "samples_summary" (run_json [("samples_summary", 1); ("samples_info", 2); ("samples_summary", 3); ("samples_info", 4)]) = Some 3
  /\ json_count "samples_summary" (run_json [("samples_summary", 1); ("samples_info", 2); ("samples_summary", 3)]) = 1.
Proof. vm_compute. split; reflexivity. Qed.

(* save, load, save something newer, load again through the same store: the second load returns the second table; a
   store that kept the first loaded table would return [("samples", Some 1); ("samples", Some 1); ...] *)
Example store_history_latest :
  run_store [] [SSave "samples" 1; SSave "summary" 10; SLoad "samples"; SLoad "info"; SSave "samples" 2; SLoad "samples";
                SLoad "summary"; SSave "summary" 20; SLoad "samples"; SLoad "summary"]
  = [("samples", Some 1); ("info", None); ("samples", Some 2); ("summary", Some 10); ("samples", Some 2); ("summary", Some 20)].
Proof. vm_compute. reflexivity. Qed.

Example store_history_last_save_nonvacuous :
  assoc string_dec "samples" (rev (saves_of [SSave "samples" 1; SLoad "samples"; SSave "samples" 2])) = Some 2
  /\ filter is_save [SSave "samples" 1; SLoad "samples"; SSave "samples" 2] = [SSave "samples" 1; SSave "samples" 2].
Proof. vm_compute. split; reflexivity. Qed.

Example reserved_reload_ok_by_position :
  res_bind (csv_roundtrip_pos nid nid Nat.add true [] (sorted_walk t_reserved) (from_lists true (sorted_walk t_reserved) rows2))
           (observe [] (sorted_walk t_reserved)) = Ok (expected rows2).
Proof. vm_compute. reflexivity. Qed.
