(* C09 extension: summary statistics of a sample set.

   Executable model of autofit/non_linear/samples/pdf.py
     quantile(x, q, weights)      the weighted quantile copied from corner.py:
         idx = np.argsort(x); sw = weights[idx]
         cdf = np.cumsum(sw)[:-1]; cdf /= cdf[-1]; cdf = np.append(0, cdf)
         return np.interp(q, cdf, x[idx])
       i.e. the sorted values x_0 <= ... <= x_{n-1} are the ordinates of a piecewise linear function whose
       abscissae are t_0 = 0, t_k = (w_0 + ... + w_{k-1}) / (w_0 + ... + w_{n-2}): the weight of the sample
       with the largest value never enters, and between two breakpoints the result is INTERPOLATED.
     numpy's arr_interp / binary_search_with_guess (numpy/_core/src/multiarray/compiled_base.c): index of the
       last breakpoint <= q, exact hit returns the ordinate, otherwise slope * (q - t_j) + x_j with the two
       NaN fall-backs.
     SamplesPDF.pdf_converged, median_pdf, values_at_sigma, errors_at_sigma (lower/upper).

   The algorithm is written ONCE over an abstract number type X with its operations; it is instantiated with
   exact rationals Q (theorems: the C09_quantile and C09_stats families of Props.v) and with binary64 PrimFloat (bit-for-bit
   correspondence with the running code).  np.argsort is not stable (SIMD sort): which of several samples with
   equal value comes first is not determined by the code.  [quantile_sorted] takes ANY sorted arrangement,
   [quantile] uses the stable insertion sort, the correspondence feeds the permutation numpy produced. *)
From Coq Require Import List Bool Arith.
Import ListNotations.

Inductive qres (X : Type) := QOk (x : X) | QIndexErr | QValueErr.
Arguments QOk {X} x.
Arguments QIndexErr {X}.
Arguments QValueErr {X}.

Fixpoint qtraverse {A B} (f : A -> qres B) (l : list A) : qres (list B) :=
  match l with
  | [] => QOk []
  | x :: r => match f x with
              | QOk y => match qtraverse f r with QOk ys => QOk (y :: ys) | QIndexErr => QIndexErr | QValueErr => QValueErr end
              | QIndexErr => QIndexErr
              | QValueErr => QValueErr
              end
  end.

Definition qbind {A B} (r : qres A) (f : A -> qres B) : qres B :=
  match r with QOk a => f a | QIndexErr => QIndexErr | QValueErr => QValueErr end.

Section Quantile.
  Context {X : Type}.
  Context (add sub mul div : X -> X -> X) (leb ltb eqb : X -> X -> bool) (isnan : X -> bool) (zero one : X).

  (* a sample of one parameter: (value, weight) *)
  Definition vw := (X * X)%type.

  (* one admissible np.argsort: stable insertion sort by value *)
  Fixpoint insert_x (p : vw) (l : list vw) : list vw :=
    match l with
    | [] => [p]
    | y :: r => if leb (fst p) (fst y) then p :: l else y :: insert_x p r
    end.
  Definition sort_x (l : list vw) : list vw := fold_right insert_x [] l.

  (* np.cumsum(sw)[:-1]: running sums of all weights but the last one; the first entry is the first weight itself *)
  Fixpoint csum (acc : X) (ws : list X) : list X :=
    match ws with
    | [] => []
    | [_] => []
    | w :: r => let a := add acc w in a :: csum a r
    end.
  Definition cdf_raw (ws : list X) : list X :=
    match ws with
    | [] => []
    | [_] => []
    | w :: r => w :: csum w r
    end.

  (* one segment of np.interp: (tj, xj) is the last breakpoint <= q, (tj1, xj1) the next one *)
  Definition seg (q : X) (p p' : vw) : X :=
    let (tj, xj) := p in
    let (tj1, xj1) := p' in
    if eqb tj q then xj else
    let slope := div (sub xj1 xj) (sub tj1 tj) in
    let r := add (mul slope (sub q tj)) xj in
    if isnan r then
      let r2 := add (mul slope (sub q tj1)) xj1 in
      if isnan r2 && eqb xj xj1 then xj else r2
    else r.

  (* binary_search_with_guess on a sorted array = linear scan: walk while the next breakpoint is <= q *)
  Fixpoint interp_go (q : X) (p : vw) (rest : list vw) : X :=
    match rest with
    | [] => snd p
    | p' :: rest' => if leb (fst p') q then interp_go q p' rest' else seg q p p'
    end.

  (* np.interp(q, xp, fp), points = zip(xp, fp), left = fp[0], right = fp[-1] *)
  Definition interp (q : X) (pts : list vw) : X :=
    match pts with
    | [] => zero
    | p0 :: rest =>
        let pl := last rest p0 in
        if ltb (fst pl) q then snd pl
        else if ltb q (fst p0) then snd p0
        else interp_go q p0 rest
    end.

  (* breakpoints of a sorted sample list *)
  Definition points (s : list vw) : option (list vw) :=
    match cdf_raw (map snd s) with
    | [] => None
    | c0 :: cr =>
        let C := last cr c0 in
        Some (combine (zero :: map (fun c => div c C) (c0 :: cr)) (map fst s))
    end.

  (* quantile(x, q, weights)[0] on samples already arranged by np.argsort *)
  Definition quantile_sorted (s : list vw) (q : X) : qres X :=
    if ltb q zero || ltb one q then QValueErr
    else match points s with
         | None => QIndexErr
         | Some pts => QOk (interp q pts)
         end.

  Definition quantile (l : list vw) (q : X) : qres X := quantile_sorted (sort_x l) q.

  (* the lower end of the bracket: the sorted value at the last breakpoint <= q (the "step" quantile) *)
  Fixpoint lower_go (q : X) (p : vw) (rest : list vw) : X :=
    match rest with
    | [] => snd p
    | p' :: rest' => if leb (fst p') q then lower_go q p' rest' else snd p
    end.
  Definition quantile_lower (l : list vw) (q : X) : qres X :=
    if ltb q zero || ltb one q then QValueErr
    else match points (sort_x l) with
         | Some (p0 :: rest) => QOk (lower_go q p0 rest)
         | _ => QIndexErr
         end.

  (* ------------------------------------------------------------ SamplesPDF *)
  Context (c99 half : X).

  Definition max_list (w0 : X) (r : list X) : X := fold_left (fun a b => if ltb a b then b else a) r w0.
  Definition min_list (w0 : X) (r : list X) : X := fold_left (fun a b => if ltb b a then b else a) r w0.

  (* pdf_converged: not (np.max(weight_list) > 0.99) *)
  Definition pdf_converged (ws : list X) : bool :=
    match ws with [] => true | w :: r => negb (ltb c99 (max_list w r)) end.

  (* np.asarray(parameter_lists).T *)
  Definition ncols (pl : list (list X)) : nat := match pl with [] => 0 | r :: _ => List.length r end.
  Definition column (pl : list (list X)) (k : nat) : list X := map (fun r => nth k r zero) pl.
  Definition columns (pl : list (list X)) : list (list X) := map (column pl) (seq 0 (ncols pl)).

  (* how np.argsort arranged each column: a function from the column to its sorted (value, weight) list *)
  Context (arrange : nat -> list vw -> list vw).

  Definition col_quantile (ws : list X) (q : X) (kc : nat * list X) : qres X :=
    quantile_sorted (arrange (fst kc) (combine (snd kc) ws)) q.
  Definition quantiles (pl : list (list X)) (ws : list X) (q : X) : qres (list X) :=
    qtraverse (col_quantile ws q) (combine (seq 0 (ncols pl)) (columns pl)).

  (* median_pdf(as_instance=False); best = max_log_likelihood(as_instance=False) *)
  Definition median_pdf (pl : list (list X)) (ws : list X) (best : list X) : qres (list X) :=
    if pdf_converged ws then quantiles pl ws half else QOk best.

  (* values_at_sigma: qlo = (1 - erf(sigma / sqrt 2)) / 2, qhi = 1 - qlo are inputs (libm); ucs = unconverged_sample_size *)
  Definition last_rows (ucs : nat) (pl : list (list X)) : list (list X) :=
    skipn (List.length pl - Nat.min (List.length pl) ucs) pl.
  Definition col_min (c : list X) : X := match c with [] => zero | x :: r => min_list x r end.
  Definition col_max (c : list X) : X := match c with [] => zero | x :: r => max_list x r end.
  Definition values_at (ucs : nat) (pl : list (list X)) (ws : list X) (qlo qhi : X) : qres (list X * list X) :=
    if pdf_converged ws then
      qbind (quantiles pl ws qlo) (fun lo => qbind (quantiles pl ws qhi) (fun hi => QOk (lo, hi)))
    else
      let cs := columns (last_rows ucs pl) in
      QOk (map col_min cs, map col_max cs).

  Fixpoint map2 (f : X -> X -> X) (a b : list X) : list X :=
    match a, b with x :: a', y :: b' => f x y :: map2 f a' b' | _, _ => [] end.

  (* errors_at_sigma: (median - lower, upper - median) *)
  Definition errors_at (ucs : nat) (pl : list (list X)) (ws : list X) (best : list X) (qlo qhi : X)
    : qres (list X * list X) :=
    qbind (values_at ucs pl ws qlo qhi) (fun v =>
      qbind (median_pdf pl ws best) (fun med =>
        QOk (map2 (fun m l => sub m l) med (fst v), map2 (fun u m => sub u m) (snd v) med))).

  (* everything the summary derives from (parameter lists, weights, best-fit vector) *)
  Record stats := mkStats { st_median : qres (list X);
                            st_v1 : qres (list X * list X); st_e1 : qres (list X * list X);
                            st_v3 : qres (list X * list X); st_e3 : qres (list X * list X) }.
  Definition stats_of (ucs : nat) (pl : list (list X)) (ws : list X) (best : list X) (q1lo q1hi q3lo q3hi : X) : stats :=
    mkStats (median_pdf pl ws best)
            (values_at ucs pl ws q1lo q1hi) (errors_at ucs pl ws best q1lo q1hi)
            (values_at ucs pl ws q3lo q3hi) (errors_at ucs pl ws best q3lo q3hi).
End Quantile.

Arguments stats X : clear implicits.

(* ================================================================ exact rationals *)
From Coq Require Import QArith.

Definition Qltb (a b : Q) : bool := negb (Qle_bool b a).
Definition qnan (_ : Q) : bool := false.
Definition q_insert := insert_x (X := Q) Qle_bool.
Definition q_sort := sort_x (X := Q) Qle_bool.
Definition q_points := points (X := Q) Qplus Qdiv 0%Q.
Definition q_interp := interp (X := Q) Qplus Qminus Qmult Qdiv Qle_bool Qltb Qeq_bool qnan 0%Q.
Definition q_quantile_sorted := quantile_sorted (X := Q) Qplus Qminus Qmult Qdiv Qle_bool Qltb Qeq_bool qnan 0%Q 1%Q.
Definition q_quantile := quantile (X := Q) Qplus Qminus Qmult Qdiv Qle_bool Qltb Qeq_bool qnan 0%Q 1%Q.
Definition q_quantile_lower := quantile_lower (X := Q) Qplus Qdiv Qle_bool Qltb 0%Q 1%Q.

(* ================================================================ binary64 *)
From Coq Require Import Floats.PrimFloat.
From PAFCommon Require Import PyFloat.

Definition fnan (x : float) : bool := negb (PrimFloat.eqb x x).
Definition f_quantile_sorted :=
  quantile_sorted (X := float) PrimFloat.add PrimFloat.sub PrimFloat.mul PrimFloat.div
                  PrimFloat.leb PrimFloat.ltb PrimFloat.eqb fnan 0%float 1%float.
Definition f_stats_of :=
  stats_of (X := float) PrimFloat.add PrimFloat.sub PrimFloat.mul PrimFloat.div
           PrimFloat.leb PrimFloat.ltb PrimFloat.eqb fnan 0%float 1%float 0x1.fae147ae147aep-1%float 0.5%float.
