(* Which variant of Sample.__init__ the code in /repo implements.
   false = pinned code (keys normalised one by one: dotted str -> tuple, undotted str stays str)
   true  = after proposed_fixes/C09-mixed-depth-keys.diff (if any key is a path, every str key becomes a tuple)
   The theorems of Props.v cover both variants; only the correspondence (check_case) reads this flag.
   When the fix is applied to /repo set this to true and drop the "mixed-depth" entry of known_findings/C09.json. *)
Definition code_is_fixed : bool := true.

(* The "dict" branch of ModelObject.from_dict drops entries whose value is falsy (0.0):
   true = pinned code, false = after proposed_fixes/C08-dict-falsy-constant.diff (removes the filter). *)
Definition dict_drops_zero : bool := false.

(* samples_from_iterator reads a table ending with the four reserved columns by position:
   false = before, true = since /repo commit b5615dc (proposed_fixes/C09-table-columns-by-position.diff); C09_tree_csv is the theorem *)
Definition table_reads_by_position : bool := true.
