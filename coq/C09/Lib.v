(* C09 library lemmas: "."-split/join on strings, insertion-ordered dicts, traverse. *)
From Coq Require Import List String Ascii Bool Arith PeanoNat Lia Permutation.
From PAFC09 Require Import Model.
Import ListNotations.
Open Scope string_scope.
Open Scope list_scope.

(* ------------------------------------------------------------------ strings *)
Definition dotfree (s : string) : Prop := contains_dot s = false.

Lemma split_dot_nonempty (s : string) : split_dot s <> [].
Proof.
  induction s as [|c r IH]; simpl; [discriminate|].
  destruct (Ascii.eqb c dot); [discriminate|].
  destruct (split_dot r); discriminate.
Qed.

Lemma contains_dot_app (a b : string) : contains_dot (a ++ b)%string = contains_dot a || contains_dot b.
Proof.
  induction a as [|c r IH]; simpl; [reflexivity|].
  destruct (Ascii.eqb c dot); [reflexivity|exact IH].
Qed.

Lemma contains_dot_cons_dot (s : string) : contains_dot (String dot s) = true.
Proof. reflexivity. Qed.

Lemma split_dot_dotfree (a : string) : dotfree a -> split_dot a = [a].
Proof.
  unfold dotfree. induction a as [|c r IH]; simpl; [reflexivity|].
  destruct (Ascii.eqb c dot); [discriminate|].
  intro H. rewrite (IH H). reflexivity.
Qed.

Lemma split_dot_app (a s : string) : dotfree a -> split_dot (a ++ String dot s)%string = a :: split_dot s.
Proof.
  unfold dotfree. induction a as [|c r IH]; simpl.
  - intros _. reflexivity.
  - destruct (Ascii.eqb c dot); [discriminate|].
    intro H. rewrite (IH H). reflexivity.
Qed.

Lemma split_join (p : list string) : p <> [] -> Forall dotfree p -> split_dot (join_dot p) = p.
Proof.
  induction p as [|a r IH]; [congruence|].
  intros _ HF. inversion HF as [|x l Ha Hr]; subst.
  destruct r as [|b r'].
  - simpl. apply split_dot_dotfree; assumption.
  - change (join_dot (a :: b :: r')) with (a ++ String dot (join_dot (b :: r')))%string.
    rewrite split_dot_app by assumption.
    rewrite IH; [reflexivity|discriminate|assumption].
Qed.

Lemma contains_dot_join_single (a : string) : dotfree a -> contains_dot (join_dot [a]) = false.
Proof. simpl. auto. Qed.

Lemma contains_dot_join_nested (p : list string) : 2 <= List.length p -> contains_dot (join_dot p) = true.
Proof.
  destruct p as [|a [|b r]]; simpl List.length; try lia. intros _.
  change (join_dot (a :: b :: r)) with (a ++ String dot (join_dot (b :: r)))%string.
  rewrite contains_dot_app, contains_dot_cons_dot. apply orb_true_r.
Qed.

Lemma join_inj (p q : list string) :
  p <> [] -> q <> [] -> Forall dotfree p -> Forall dotfree q -> join_dot p = join_dot q -> p = q.
Proof.
  intros Hp Hq Fp Fq E. rewrite <- (split_join p Hp Fp), <- (split_join q Hq Fq), E. reflexivity.
Qed.

(* ------------------------------------------------------------------ lists *)
Lemma map_fst_combine {A B} (a : list A) (b : list B) : List.length a = List.length b -> map fst (combine a b) = a.
Proof.
  revert b. induction a as [|x a IH]; intros [|y b] H; simpl in *; try discriminate; [reflexivity|].
  f_equal. apply IH. lia.
Qed.

Lemma map_snd_combine {A B} (a : list A) (b : list B) : List.length a = List.length b -> map snd (combine a b) = b.
Proof.
  revert b. induction a as [|x a IH]; intros [|y b] H; simpl in *; try discriminate; [reflexivity|].
  f_equal. apply IH. lia.
Qed.

Lemma combine_map_l {A B C} (f : A -> C) (a : list A) (b : list B) :
  combine (map f a) b = map (fun xy => (f (fst xy), snd xy)) (combine a b).
Proof.
  revert b. induction a as [|x a IH]; intros [|y b]; simpl; try reflexivity. f_equal. apply IH.
Qed.

Lemma combine_app {A B} (a1 a2 : list A) (b1 b2 : list B) :
  List.length a1 = List.length b1 -> combine (a1 ++ a2) (b1 ++ b2) = combine a1 b1 ++ combine a2 b2.
Proof.
  revert b1. induction a1 as [|x a IH]; intros [|y b] H; simpl in *; try discriminate; [reflexivity|].
  f_equal. apply IH. lia.
Qed.

Lemma in_combine_fun {A B} (a : list A) (b : list B) (x : A) (y y' : B) :
  NoDup a -> In (x, y) (combine a b) -> In (x, y') (combine a b) -> y = y'.
Proof.
  revert b. induction a as [|z a IH]; intros [|w b] ND H1 H2; simpl in *; try contradiction.
  inversion ND as [|? ? Hn ND']; subst.
  destruct H1 as [H1|H1], H2 as [H2|H2].
  - congruence.
  - inversion H1; subst. exfalso. apply Hn. eapply in_combine_l; eauto.
  - inversion H2; subst. exfalso. apply Hn. eapply in_combine_l; eauto.
  - eapply IH; eauto.
Qed.

Lemma Forall2_combine {A B} (P : A -> B -> Prop) (a : list A) (b : list B) :
  List.length a = List.length b -> (forall x y, In (x, y) (combine a b) -> P x y) -> Forall2 P a b.
Proof.
  revert b. induction a as [|x a IH]; intros [|y b] H HP; simpl in *; try discriminate; constructor.
  - apply HP. left. reflexivity.
  - apply IH; [lia|]. intros. apply HP. right. assumption.
Qed.

Lemma NoDup_app_intro {A} (a b : list A) :
  NoDup a -> NoDup b -> (forall x, In x b -> In x a -> False) -> NoDup (a ++ b).
Proof.
  induction a as [|x a IH]; simpl; intros Ha Hb Hd; [exact Hb|].
  inversion Ha as [|? ? Hn Ha']; subst. constructor.
  - intro HI. apply in_app_or in HI. destruct HI as [HI|HI]; [contradiction|]. apply (Hd x HI). left. reflexivity.
  - apply IH; [exact Ha'|exact Hb|]. intros y Hy1 Hy2. apply (Hd y Hy1). right. exact Hy2.
Qed.

(* ------------------------------------------------------------------ traverse *)
Lemma traverse_Forall2 {A B} (f : A -> res B) (l : list A) (ys : list B) :
  Forall2 (fun x y => f x = Ok y) l ys -> traverse f l = Ok ys.
Proof.
  induction 1 as [|x y l ys Hxy _ IH]; simpl; [reflexivity|]. rewrite Hxy, IH. reflexivity.
Qed.

Lemma traverse_ok_Forall2 {A B} (f : A -> res B) (l : list A) (ys : list B) :
  traverse f l = Ok ys -> Forall2 (fun x y => f x = Ok y) l ys.
Proof.
  revert ys. induction l as [|x l IH]; simpl; intros ys H.
  - inversion H. constructor.
  - destruct (f x) eqn:E; try discriminate.
    destruct (traverse f l) eqn:E'; try discriminate.
    inversion H; subst. constructor; [assumption|]. apply IH. reflexivity.
Qed.

Lemma traverse_map_ok {A B} (f : A -> res B) (g : A -> B) (l : list A) :
  (forall x, In x l -> f x = Ok (g x)) -> traverse f l = Ok (map g l).
Proof.
  induction l as [|x l IH]; simpl; intro H; [reflexivity|].
  rewrite (H x (or_introl eq_refl)), IH; [reflexivity|]. intros. apply H. right. assumption.
Qed.

Lemma traverse_ext {A B} (f g : A -> res B) (l : list A) :
  (forall x, In x l -> f x = g x) -> traverse f l = traverse g l.
Proof.
  induction l as [|x l IH]; simpl; intro H; [reflexivity|].
  rewrite (H x (or_introl eq_refl)), IH; [reflexivity|]. intros. apply H. right. assumption.
Qed.

Lemma traverse_map {A B C} (f : B -> res C) (g : A -> B) (l : list A) :
  traverse f (map g l) = traverse (fun x => f (g x)) l.
Proof. induction l as [|x l IH]; simpl; [reflexivity|]. rewrite IH. reflexivity. Qed.

(* ------------------------------------------------------------------ dicts *)
Section DictLemmas.
  Context {K V : Type} (Keq : forall a b : K, {a = b} + {a <> b}).

  Lemma dict_set_notin (k : K) (v : V) (d : list (K * V)) :
    ~ In k (map fst d) -> dict_set Keq k v d = d ++ [(k, v)].
  Proof.
    induction d as [|[k' v'] d IH]; simpl; intro H; [reflexivity|].
    destruct (Keq k k') as [E|N]; [exfalso; apply H; left; symmetry; exact E|].
    f_equal. apply IH. intro HI. apply H. right. exact HI.
  Qed.

  Lemma dict_fold_nodup (l d : list (K * V)) :
    NoDup (map fst (d ++ l)) ->
    fold_left (fun d kv => dict_set Keq (fst kv) (snd kv) d) l d = d ++ l.
  Proof.
    revert d. induction l as [|[k v] l IH]; intros d ND; simpl.
    - rewrite app_nil_r. reflexivity.
    - rewrite dict_set_notin.
      + rewrite IH; rewrite <- app_assoc; simpl; [reflexivity|exact ND].
      + rewrite map_app in ND. simpl in ND. apply NoDup_remove_2 in ND.
        intro HI. apply ND. apply in_or_app. left. exact HI.
  Qed.

  Lemma dict_of_list_nodup (l : list (K * V)) : NoDup (map fst l) -> dict_of_list Keq l = l.
  Proof. intro ND. unfold dict_of_list. rewrite dict_fold_nodup; [reflexivity|exact ND]. Qed.

  Lemma assoc_in (k : K) (v : V) (d : list (K * V)) :
    NoDup (map fst d) -> In (k, v) d -> assoc Keq k d = Some v.
  Proof.
    induction d as [|[k' v'] d IH]; simpl; intros ND H; [contradiction|].
    inversion ND as [|? ? Hn ND']; subst.
    destruct H as [H|H].
    - inversion H; subst. destruct (Keq k k); [reflexivity|congruence].
    - destruct (Keq k k') as [E|N].
      + subst. exfalso. apply Hn. apply in_map_iff. exists (k', v). split; [reflexivity|exact H].
      + apply IH; assumption.
  Qed.

  Lemma assoc_some_in (k : K) (v : V) (d : list (K * V)) : assoc Keq k d = Some v -> In (k, v) d.
  Proof.
    induction d as [|[k' v'] d IH]; simpl; [discriminate|].
    destruct (Keq k k') as [E|N]; intro H.
    - inversion H; subst. left. reflexivity.
    - right. apply IH. exact H.
  Qed.

  Lemma assoc_notin (k : K) (d : list (K * V)) : ~ In k (map fst d) -> assoc Keq k d = None.
  Proof.
    induction d as [|[k' v'] d IH]; simpl; intro H; [reflexivity|].
    destruct (Keq k k') as [E|N]; [exfalso; apply H; left; symmetry; exact E|].
    apply IH. intro HI. apply H. right. exact HI.
  Qed.

  Lemma assoc_app_notin (k : K) (d1 d2 : list (K * V)) :
    ~ In k (map fst d1) -> assoc Keq k (d1 ++ d2) = assoc Keq k d2.
  Proof.
    induction d1 as [|[k' v'] d IH]; simpl; intro H; [reflexivity|].
    destruct (Keq k k') as [E|N]; [exfalso; apply H; left; symmetry; exact E|].
    apply IH. intro HI. apply H. right. exact HI.
  Qed.

  Lemma mem_true_iff (k : K) (l : list K) : mem Keq k l = true <-> In k l.
  Proof. unfold mem. destruct (in_dec Keq k l); split; intro; try assumption; try reflexivity; try discriminate; contradiction. Qed.

  Lemma mem_false_iff (k : K) (l : list K) : mem Keq k l = false <-> ~ In k l.
  Proof. unfold mem. destruct (in_dec Keq k l); split; intro; try assumption; try reflexivity; try discriminate; contradiction. Qed.
End DictLemmas.
