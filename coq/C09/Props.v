From Coq Require Import List String.
From PAFC09 Require Import Model.
Import ListNotations.
Theorem C09_placeholder : split_dot "a.b" = ["a"; "b"]%string.
Proof. exact eq_refl. Qed.
