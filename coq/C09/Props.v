(* C09 property theorems: statements only, each closed by `exact`.
   Ws = the id-sorted walk (path, prior identity) of any model; tps = its tuple-prior paths; rows = the samples
   handed to Sample.from_lists; fx / drop0 select the pinned code (false / true) or the proposed fixes. *)
From Coq Require Import List String Bool Arith.
From PAFC09 Require Import Model Lib Proofs1 Proofs2 Proofs3 Proofs4 Proofs5 Witness.
Import ListNotations.

(* every well-formed model tree (distinct "."-free attribute names per node, any nesting, sharing, tuples,
   constants, any creation order) yields a walk that satisfies the hypotheses used below *)
Theorem C09_shapes : forall t : node, wf_root t -> shape_ok (sorted_walk t).
Proof. exact wf_shape_ok. Qed.

(* samples in memory hold exactly the given rows: value per parameter, log-likelihood, log-prior, weight, in order *)
Theorem C09_memory : forall (fx : bool) (V : Type) (Ws : list (path * nat)) (tps : list path) (rows : list (srow V)),
  shape_ok Ws -> rows_ok Ws rows -> observe tps Ws (from_lists fx Ws rows) = Ok (expected rows).
Proof. exact memory_claim. Qed.

(* database rows (EfficientSamples): the reloaded sample list IS the persisted list -- every shape, both variants *)
Theorem C09_roundtrip_db : forall (fx : bool) (V : Type) (Ws : list (path * nat)) (rows : list (srow V)),
  shape_ok Ws -> rows_ok Ws rows -> db_roundtrip fx (from_lists fx Ws rows) = Ok (from_lists fx Ws rows).
Proof. exact db_claim. Qed.

(* samples.csv, full statement for the pinned code: REFUTED (mixed single-name / nested paths; also one Model
   holding a tuple argument and a float argument) *)
Theorem C09_loadable_refuted : ~ csv_claim false no_reserved.
Proof. exact csv_refuted_mixed_depth. Qed.

(* samples.csv, both variants: a top-level parameter named like a reserved column is lost: REFUTED *)
Theorem C09_reserved_name_refuted : forall fx : bool, ~ csv_claim fx uniform_depth.
Proof. exact csv_refuted_reserved. Qed.

(* samples.csv, pinned code, under the guards excluding the two findings: same observables, loading succeeds *)
Theorem C09_roundtrip_csv_partial : csv_claim false (fun Ws => uniform_depth Ws /\ no_reserved Ws).
Proof. exact csv_partial_claim. Qed.

(* ... and when every parameter is nested the reloaded list is identical to the persisted one *)
Theorem C09_roundtrip_csv_nested : forall (fx : bool) (V cell : Type) (fmt : V -> cell) (parse : cell -> V) (add : V -> V -> V),
  (forall v, parse (fmt v) = v) ->
  forall (Ws : list (path * nat)) (tps : list path) (rows : list (srow V)),
    shape_ok Ws -> all_nested Ws -> rows_ok Ws rows ->
    csv_roundtrip fmt parse add fx tps Ws (from_lists fx Ws rows) = Ok (from_lists fx Ws rows).
Proof. exact csv_nested_claim. Qed.

(* samples.csv after the proposed key fix: every path depth *)
Theorem C09_roundtrip_csv_fixed : csv_claim true no_reserved.
Proof. exact csv_fixed_claim. Qed.

(* summary JSON (max-likelihood / median sample): pinned key handling fails on mixed depth: REFUTED *)
Theorem C09_summary_refuted : ~ summary_claim false false (fun _ => True).
Proof. exact summary_refuted_mixed_depth. Qed.

(* summary JSON: the falsy-value filter loses a parameter equal to 0.0 whatever the key handling: REFUTED *)
Theorem C09_summary_zero_refuted : forall fx : bool,
  exists (Ws : list (path * nat)) (r : srow nat),
    shape_ok Ws /\ all_nested Ws /\ List.length (r_params r) = List.length (pids Ws) /\
    param_list [] Ws (json_roundtrip nid nid nzero fx true (from_row fx Ws r)) <> Ok (r_params r).
Proof. exact summary_refuted_zero. Qed.

(* summary JSON under the guards (uniform depth; no zero value when the filter is present) *)
Theorem C09_summary_partial : forall drop0 : bool, summary_claim false drop0 uniform_depth.
Proof. exact summary_partial_claim. Qed.

(* summary JSON after the key fix: every depth (no zero value when the filter is present; none needed after both fixes) *)
Theorem C09_summary_fixed : forall drop0 : bool, summary_claim true drop0 (fun _ => True).
Proof. exact summary_fixed_claim. Qed.

(* therefore: equal observables give the same best-fit vector ... *)
Theorem C09_best_fit : forall (V : Type) (gtb : V -> V -> bool) (Ws : list (path * nat)) (tps : list path)
                              (S1 S2 : list (sample V)) (o : observed V),
  observe tps Ws S1 = Ok o -> observe tps Ws S2 = Ok o -> best_vector gtb tps Ws S1 = best_vector gtb tps Ws S2.
Proof. exact @same_observed_same_best. Qed.

(* ... and the same value of any statistic of the columns (medians, errors at any sigma) *)
Theorem C09_statistics : forall (V : Type) (Ws : list (path * nat)) (tps : list path) (A : Type) (stat : observed V -> A)
                                (S1 S2 : list (sample V)) (o : observed V),
  observe tps Ws S1 = Ok o -> observe tps Ws S2 = Ok o ->
  res_bind (observe tps Ws S1) (fun x => Ok (stat x)) = res_bind (observe tps Ws S2) (fun x => Ok (stat x)).
Proof. exact @same_observed_same_statistic. Qed.

(* the minimised sample list stored by default in the database keeps the best-fit sample *)
Theorem C09_minimise_keeps_best : forall (V : Type) (add : V -> V -> V) (gtb : V -> V -> bool) (S : list (sample V)) (s : sample V),
  max_ll_sample gtb S = Some s -> In s (minimise add gtb S).
Proof. exact @minimise_keeps_best. Qed.

Print Assumptions C09_shapes.
Print Assumptions C09_roundtrip_db.
Print Assumptions C09_roundtrip_csv_partial.
Print Assumptions C09_roundtrip_csv_fixed.
Print Assumptions C09_loadable_refuted.
Print Assumptions C09_summary_fixed.
