(* C09 property theorems: statements only, each closed by `exact`.
   Ws = the id-sorted walk (path, prior identity) of any model; tps = its tuple-prior paths; rows = the samples
   handed to Sample.from_lists; fx / drop0 select the pinned code (false / true) or the proposed fixes. *)
From Coq Require Import List String Bool Arith.
From PAFC09 Require Import Model Lib Proofs1 Proofs2 Proofs3 Proofs4 Proofs5 Proofs6 Proofs7 Proofs8 Witness.
Import ListNotations.

(* every well-formed model tree (distinct "."-free attribute names per node, any nesting, sharing, tuples,
   constants, any creation order) yields a walk that satisfies the hypotheses used below *)
Theorem C09_shapes : forall t : node, wf_root t -> shape_ok (sorted_walk t).
Proof. exact wf_shape_ok. Qed.

(* samples in memory hold exactly the given rows: value per parameter, log-likelihood, log-prior, weight, in order *)
Theorem C09_memory : forall (fx : bool) (V : Type) (Ws : list (path * nat)) (tps : list path) (rows : list (srow V)),
  shape_ok Ws -> rows_ok Ws rows -> observe tps Ws (from_lists fx Ws rows) = Ok (expected rows).
Proof. exact memory_claim. Qed.

(* database rows (EfficientSamples): the reloaded sample list IS the persisted list -- every shape, both variants *)
Theorem C09_roundtrip_db : forall (fx : bool) (V : Type) (Ws : list (path * nat)) (rows : list (srow V)),
  shape_ok Ws -> rows_ok Ws rows -> db_roundtrip fx (from_lists fx Ws rows) = Ok (from_lists fx Ws rows).
Proof. exact db_claim. Qed.

(* samples.csv, full statement for the pinned code: REFUTED (mixed single-name / nested paths; also one Model
   holding a tuple argument and a float argument) *)
Theorem C09_loadable_legacy_refuted : ~ csv_claim false no_reserved.
Proof. exact csv_refuted_mixed_depth. Qed.

(* history: samples.csv read through a per-row dict (before b5615dc), both key variants: a top-level parameter named like a
   reserved column is lost: REFUTED for that reader *)
Theorem C09_reserved_name_legacy_refuted : forall fx : bool, ~ csv_claim fx uniform_depth.
Proof. exact csv_refuted_reserved. Qed.

(* samples.csv, pinned code, under the guards excluding the two findings: same observables, loading succeeds *)
Theorem C09_roundtrip_csv_legacy_partial : csv_claim false (fun Ws => uniform_depth Ws /\ no_reserved Ws).
Proof. exact csv_partial_claim. Qed.

(* ... and when every parameter is nested the reloaded list is identical to the persisted one *)
Theorem C09_roundtrip_csv_nested : forall (fx : bool) (V cell : Type) (fmt : V -> cell) (parse : cell -> V) (add : V -> V -> V),
  (forall v, parse (fmt v) = v) ->
  forall (Ws : list (path * nat)) (tps : list path) (rows : list (srow V)),
    shape_ok Ws -> all_nested Ws -> rows_ok Ws rows ->
    csv_roundtrip fmt parse add fx tps Ws (from_lists fx Ws rows) = Ok (from_lists fx Ws rows).
Proof. exact csv_nested_claim. Qed.

(* samples.csv after the proposed key fix: every path depth *)
Theorem C09_roundtrip_csv_legacy_reader : csv_claim true no_reserved.
Proof. exact csv_fixed_claim. Qed.

(* summary JSON (max-likelihood / median sample): pinned key handling fails on mixed depth: REFUTED *)
Theorem C09_summary_legacy_refuted : ~ summary_claim false false (fun _ => True).
Proof. exact summary_refuted_mixed_depth. Qed.

(* summary JSON: the falsy-value filter loses a parameter equal to 0.0 whatever the key handling: REFUTED *)
Theorem C09_summary_zero_legacy_refuted : forall fx : bool,
  exists (Ws : list (path * nat)) (r : srow nat),
    shape_ok Ws /\ all_nested Ws /\ List.length (r_params r) = List.length (pids Ws) /\
    param_list [] Ws (json_roundtrip nid nid nzero fx true (from_row fx Ws r)) <> Ok (r_params r).
Proof. exact summary_refuted_zero. Qed.

(* summary JSON under the guards (uniform depth; no zero value when the filter is present) *)
Theorem C09_summary_legacy_partial : forall drop0 : bool, summary_claim false drop0 uniform_depth.
Proof. exact summary_partial_claim. Qed.

(* summary JSON after the key fix: every depth (no zero value when the filter is present; none needed after both fixes) *)
Theorem C09_summary_fixed : forall drop0 : bool, summary_claim true drop0 (fun _ => True).
Proof. exact summary_fixed_claim. Qed.

(* therefore: equal observables give the same best-fit vector ... *)
Theorem C09_best_fit : forall (V : Type) (gtb : V -> V -> bool) (Ws : list (path * nat)) (tps : list path)
                              (S1 S2 : list (sample V)) (o : observed V),
  observe tps Ws S1 = Ok o -> observe tps Ws S2 = Ok o -> best_vector gtb tps Ws S1 = best_vector gtb tps Ws S2.
Proof. exact @same_observed_same_best. Qed.

(* the minimised sample list stored by default in the database keeps the best-fit sample *)
Theorem C09_minimise_keeps_best : forall (V : Type) (add : V -> V -> V) (gtb : V -> V -> bool) (S : list (sample V)) (s : sample V),
  max_ll_sample gtb S = Some s -> In s (minimise add gtb S).
Proof. exact @minimise_keeps_best. Qed.

(* ---------------------------------------------------------------- the code as it is now (both fixes applied), over model trees *)
(* history (reader before b5615dc): every well-formed tree, samples.csv: same value per parameter, log-likelihood, log-prior, weight in order; loading succeeds.
   Only guards: no top-level parameter named like a reserved column (finding), and -- only for models whose unique paths
   are all single names -- distinct names (automatic without tuple priors, C09_names_no_tuples) *)
Theorem C09_tree_csv_legacy_reader : forall (V cell : Type) (fmt : V -> cell) (parse : cell -> V) (add : V -> V -> V),
  (forall v, parse (fmt v) = v) ->
  forall (t : node) (rows : list (srow V)),
    wf_root t -> no_reserved (sorted_walk t) ->
    (all_flat (sorted_walk t) -> names_injective (tuple_paths [] t) (sorted_walk t)) ->
    rows_ok (sorted_walk t) rows ->
    res_bind (csv_roundtrip fmt parse add true (tuple_paths [] t) (sorted_walk t) (from_lists true (sorted_walk t) rows))
             (observe (tuple_paths [] t) (sorted_walk t)) = Ok (expected rows).
Proof. exact @tree_csv. Qed.

Theorem C09_tree_summary : forall (V cell : Type) (fmt : V -> cell) (parse : cell -> V) (is_zero : V -> bool),
  (forall v, parse (fmt v) = v) ->
  forall (t : node) (r : srow V),
    wf_root t -> (all_flat (sorted_walk t) -> names_injective (tuple_paths [] t) (sorted_walk t)) ->
    List.length (r_params r) = List.length (pids (sorted_walk t)) ->
    let s := json_roundtrip fmt parse is_zero true false (from_row true (sorted_walk t) r) in
    param_list (tuple_paths [] t) (sorted_walk t) s = Ok (r_params r) /\ s_ll s = r_ll r /\ s_lp s = r_lp r /\ s_w s = r_w r.
Proof. exact @tree_summary. Qed.

(* database rows, every tree, no guard: all samples, the default minimised list, a scraped directory (reloaded samples) *)
Theorem C09_tree_db : forall (V : Type) (add : V -> V -> V) (t : node) (gtb : V -> V -> bool) (rows : list (srow V)),
  wf_root t -> rows_ok (sorted_walk t) rows ->
  let S := from_lists true (sorted_walk t) rows in
  db_roundtrip true S = Ok S
  /\ db_roundtrip true (minimise add gtb S) = Ok (minimise add gtb S)
  /\ db_roundtrip true (map (reloaded (sorted_walk t) true) rows) = Ok (map (reloaded (sorted_walk t) true) rows).
Proof. exact @tree_db. Qed.

(* EfficientSamples is lossless on any sample list with one shared key list that Sample.__init__ leaves alone *)
Theorem C09_roundtrip_db_general : forall (V : Type) (fx : bool) (keys : list key) (S : list (sample V)),
  NoDup keys -> (forall s, In s S -> map fst (s_kw s) = keys) ->
  (forall vals : list V, List.length vals = List.length keys -> sample_init fx (combine keys vals) = combine keys vals) ->
  db_roundtrip fx S = Ok S.
Proof. exact @db_roundtrip_general. Qed.

(* models without tuple priors: distinct priors have distinct names *)
Theorem C09_names_no_tuples : forall Ws : list (path * nat), shape_ok Ws -> names_injective [] Ws.
Proof. exact names_injective_no_tuples. Qed.

(* value per path when the reader's model was re-created (same paths and sharing, other prior identities / order):
   the group of prior j of the reader's model yields the value the row holds for the prior living at the same path *)
Theorem C09_value_per_path_recreated : forall (V : Type) (Ws : list (path * nat)), shape_ok Ws ->
  forall (Ws' : list (path * nat)) (vals : list V) (p : path) (i j : nat) (v : V),
    NoDup (map fst Ws') -> same_sharing Ws Ws' -> List.length vals = List.length (pids Ws) ->
    In (p, i) Ws -> In (p, j) Ws' -> In (i, v) (combine (pids Ws) vals) ->
    lookup_group (combine (map KTup (unique_paths Ws)) vals) (map KTup (group j Ws')) = Ok v.
Proof. exact @value_per_path_recreated. Qed.

(* named json rows of a database fit (samples_summary, samples_info, ...): for EVERY history of saves the value read
   back under a name is the value of the LAST save under that name, and exactly one row carries each saved name *)
Theorem C09_json_latest_wins : forall (A : Type) (h : list (string * A)) (k : string),
  get_json k (run_json h) = assoc string_dec k (rev h).
Proof. exact @json_latest_wins. Qed.

Theorem C09_json_one_row : forall (A : Type) (h : list (string * A)) (k : string),
  json_count k (run_json h) = if in_dec string_dec k (map fst h) then 1 else 0.
Proof. exact @json_one_row. Qed.

(* ================================================================ HEADLINE, the code as it is now (b5615dc: samples.csv is
   read by position; 9e9d176 key handling; 04fca50 dict filter): every well-formed tree, every sample list, NO guard on
   parameter names: same value per parameter, log-likelihood, log-prior, weight in order; loading succeeds.
   (names of different priors must differ only for models whose unique paths are all single names, C09_names_no_tuples) *)
Theorem C09_tree_csv : forall (V cell : Type) (fmt : V -> cell) (parse : cell -> V) (add : V -> V -> V),
  (forall v, parse (fmt v) = v) ->
  forall (t : node) (rows : list (srow V)),
    wf_root t ->
    (all_flat (sorted_walk t) -> names_injective (tuple_paths [] t) (sorted_walk t)) ->
    rows_ok (sorted_walk t) rows ->
    res_bind (csv_roundtrip_pos fmt parse add true (tuple_paths [] t) (sorted_walk t) (from_lists true (sorted_walk t) rows))
             (observe (tuple_paths [] t) (sorted_walk t)) = Ok (expected rows).
Proof. exact @tree_csv_by_position. Qed.

(* the same over any id-sorted walk with distinct paths *)
Theorem C09_roundtrip_csv : forall (V cell : Type) (fmt : V -> cell) (parse : cell -> V) (add : V -> V -> V),
  (forall v, parse (fmt v) = v) ->
  forall (Ws : list (path * nat)) (tps : list path), shape_ok Ws ->
  forall rows : list (srow V), rows_ok Ws rows -> (all_flat Ws -> names_injective tps Ws) ->
    res_bind (csv_roundtrip_pos fmt parse add true tps Ws (from_lists true Ws rows)) (observe tps Ws) = Ok (expected rows).
Proof. exact @csv_pos_fixed. Qed.

Print Assumptions C09_shapes.
Print Assumptions C09_roundtrip_db.
Print Assumptions C09_roundtrip_csv_legacy_partial.
Print Assumptions C09_roundtrip_csv_legacy_reader.
Print Assumptions C09_loadable_legacy_refuted.
Print Assumptions C09_summary_fixed.
Print Assumptions C09_tree_csv_legacy_reader.
Print Assumptions C09_tree_db.
Print Assumptions C09_value_per_path_recreated.
Print Assumptions C09_json_latest_wins.
Print Assumptions C09_tree_csv.
Print Assumptions C09_roundtrip_csv.
