(* C09 property theorems: statements only, each closed by `exact`.
   Ws = the id-sorted walk (path, prior identity) of any model; tps = its tuple-prior paths; rows = the samples
   handed to Sample.from_lists; fx / drop0 select the pinned code (false / true) or the proposed fixes. *)
From Coq Require Import List String Bool Arith.
From PAFC09 Require Import Model Lib Proofs1 Proofs2 Proofs3 Proofs4 Proofs5 Proofs6 Proofs7 Proofs8 Witness.
From Coq Require Import QArith Permutation Sorted.
From PAFC09 Require Import Quantile Stats ProofsQ1 ProofsQ2 ProofsQ3.
Import ListNotations.
Open Scope list_scope.
Open Scope nat_scope.

(* every well-formed model tree (distinct "."-free attribute names per node, any nesting, sharing, tuples,
   constants, any creation order) yields a walk that satisfies the hypotheses used below *)
Theorem C09_shapes : forall t : node, wf_root t -> shape_ok (sorted_walk t).
Proof. exact wf_shape_ok. Qed.

(* samples in memory hold exactly the given rows: value per parameter, log-likelihood, log-prior, weight, in order *)
Theorem C09_memory : forall (fx : bool) (V : Type) (Ws : list (path * nat)) (tps : list path) (rows : list (srow V)),
  shape_ok Ws -> rows_ok Ws rows -> observe tps Ws (from_lists fx Ws rows) = Ok (expected rows).
Proof. exact memory_claim. Qed.

(* database rows (EfficientSamples): the reloaded sample list IS the persisted list -- every shape, both variants *)
Theorem C09_roundtrip_db : forall (fx : bool) (V : Type) (Ws : list (path * nat)) (rows : list (srow V)),
  shape_ok Ws -> rows_ok Ws rows -> db_roundtrip fx (from_lists fx Ws rows) = Ok (from_lists fx Ws rows).
Proof. exact db_claim. Qed.

(* samples.csv, full statement for the pinned code: REFUTED (mixed single-name / nested paths; also one Model
   holding a tuple argument and a float argument) *)
Theorem C09_loadable_legacy_refuted : ~ csv_claim false no_reserved.
Proof. exact csv_refuted_mixed_depth. Qed.

(* history: samples.csv read through a per-row dict (before b5615dc), both key variants: a top-level parameter named like a
   reserved column is lost: REFUTED for that reader *)
Theorem C09_reserved_name_legacy_refuted : forall fx : bool, ~ csv_claim fx uniform_depth.
Proof. exact csv_refuted_reserved. Qed.

(* samples.csv, pinned code, under the guards excluding the two findings: same observables, loading succeeds *)
Theorem C09_roundtrip_csv_legacy_partial : csv_claim false (fun Ws => uniform_depth Ws /\ no_reserved Ws).
Proof. exact csv_partial_claim. Qed.

(* ... and when every parameter is nested the reloaded list is identical to the persisted one *)
Theorem C09_roundtrip_csv_nested : forall (fx : bool) (V cell : Type) (fmt : V -> cell) (parse : cell -> V) (add : V -> V -> V),
  (forall v, parse (fmt v) = v) ->
  forall (Ws : list (path * nat)) (tps : list path) (rows : list (srow V)),
    shape_ok Ws -> all_nested Ws -> rows_ok Ws rows ->
    csv_roundtrip fmt parse add fx tps Ws (from_lists fx Ws rows) = Ok (from_lists fx Ws rows).
Proof. exact csv_nested_claim. Qed.

(* samples.csv after the proposed key fix: every path depth *)
Theorem C09_roundtrip_csv_legacy_reader : csv_claim true no_reserved.
Proof. exact csv_fixed_claim. Qed.

(* summary JSON (max-likelihood / median sample): pinned key handling fails on mixed depth: REFUTED *)
Theorem C09_summary_legacy_refuted : ~ summary_claim false false (fun _ => True).
Proof. exact summary_refuted_mixed_depth. Qed.

(* summary JSON: the falsy-value filter loses a parameter equal to 0.0 whatever the key handling: REFUTED *)
Theorem C09_summary_zero_legacy_refuted : forall fx : bool,
  exists (Ws : list (path * nat)) (r : srow nat),
    shape_ok Ws /\ all_nested Ws /\ List.length (r_params r) = List.length (pids Ws) /\
    param_list [] Ws (json_roundtrip nid nid nzero fx true (from_row fx Ws r)) <> Ok (r_params r).
Proof. exact summary_refuted_zero. Qed.

(* summary JSON under the guards (uniform depth; no zero value when the filter is present) *)
Theorem C09_summary_legacy_partial : forall drop0 : bool, summary_claim false drop0 uniform_depth.
Proof. exact summary_partial_claim. Qed.

(* summary JSON after the key fix: every depth (no zero value when the filter is present; none needed after both fixes) *)
Theorem C09_summary_fixed : forall drop0 : bool, summary_claim true drop0 (fun _ => True).
Proof. exact summary_fixed_claim. Qed.

(* therefore: equal observables give the same best-fit vector ... *)
Theorem C09_best_fit : forall (V : Type) (gtb : V -> V -> bool) (Ws : list (path * nat)) (tps : list path)
                              (S1 S2 : list (sample V)) (o : observed V),
  observe tps Ws S1 = Ok o -> observe tps Ws S2 = Ok o -> best_vector gtb tps Ws S1 = best_vector gtb tps Ws S2.
Proof. exact @same_observed_same_best. Qed.

(* the minimised sample list stored by default in the database keeps the best-fit sample *)
Theorem C09_minimise_keeps_best : forall (V : Type) (add : V -> V -> V) (gtb : V -> V -> bool) (S : list (sample V)) (s : sample V),
  max_ll_sample gtb S = Some s -> In s (minimise add gtb S).
Proof. exact @minimise_keeps_best. Qed.

(* ---------------------------------------------------------------- the code as it is now (both fixes applied), over model trees *)
(* history (reader before b5615dc): every well-formed tree, samples.csv: same value per parameter, log-likelihood, log-prior, weight in order; loading succeeds.
   Only guards: no top-level parameter named like a reserved column (finding), and -- only for models whose unique paths
   are all single names -- distinct names (automatic without tuple priors, C09_names_no_tuples) *)
Theorem C09_tree_csv_legacy_reader : forall (V cell : Type) (fmt : V -> cell) (parse : cell -> V) (add : V -> V -> V),
  (forall v, parse (fmt v) = v) ->
  forall (t : node) (rows : list (srow V)),
    wf_root t -> no_reserved (sorted_walk t) ->
    (all_flat (sorted_walk t) -> names_injective (tuple_paths [] t) (sorted_walk t)) ->
    rows_ok (sorted_walk t) rows ->
    res_bind (csv_roundtrip fmt parse add true (tuple_paths [] t) (sorted_walk t) (from_lists true (sorted_walk t) rows))
             (observe (tuple_paths [] t) (sorted_walk t)) = Ok (expected rows).
Proof. exact @tree_csv. Qed.

Theorem C09_tree_summary : forall (V cell : Type) (fmt : V -> cell) (parse : cell -> V) (is_zero : V -> bool),
  (forall v, parse (fmt v) = v) ->
  forall (t : node) (r : srow V),
    wf_root t -> (all_flat (sorted_walk t) -> names_injective (tuple_paths [] t) (sorted_walk t)) ->
    List.length (r_params r) = List.length (pids (sorted_walk t)) ->
    let s := json_roundtrip fmt parse is_zero true false (from_row true (sorted_walk t) r) in
    param_list (tuple_paths [] t) (sorted_walk t) s = Ok (r_params r) /\ s_ll s = r_ll r /\ s_lp s = r_lp r /\ s_w s = r_w r.
Proof. exact @tree_summary. Qed.

(* database rows, every tree, no guard: all samples, the default minimised list, a scraped directory (reloaded samples) *)
Theorem C09_tree_db : forall (V : Type) (add : V -> V -> V) (t : node) (gtb : V -> V -> bool) (rows : list (srow V)),
  wf_root t -> rows_ok (sorted_walk t) rows ->
  let S := from_lists true (sorted_walk t) rows in
  db_roundtrip true S = Ok S
  /\ db_roundtrip true (minimise add gtb S) = Ok (minimise add gtb S)
  /\ db_roundtrip true (map (reloaded (sorted_walk t) true) rows) = Ok (map (reloaded (sorted_walk t) true) rows).
Proof. exact @tree_db. Qed.

(* EfficientSamples is lossless on any sample list with one shared key list that Sample.__init__ leaves alone *)
Theorem C09_roundtrip_db_general : forall (V : Type) (fx : bool) (keys : list key) (S : list (sample V)),
  NoDup keys -> (forall s, In s S -> map fst (s_kw s) = keys) ->
  (forall vals : list V, List.length vals = List.length keys -> sample_init fx (combine keys vals) = combine keys vals) ->
  db_roundtrip fx S = Ok S.
Proof. exact @db_roundtrip_general. Qed.

(* models without tuple priors: distinct priors have distinct names *)
Theorem C09_names_no_tuples : forall Ws : list (path * nat), shape_ok Ws -> names_injective [] Ws.
Proof. exact names_injective_no_tuples. Qed.

(* value per path when the reader's model was re-created (same paths and sharing, other prior identities / order):
   the group of prior j of the reader's model yields the value the row holds for the prior living at the same path *)
Theorem C09_value_per_path_recreated : forall (V : Type) (Ws : list (path * nat)), shape_ok Ws ->
  forall (Ws' : list (path * nat)) (vals : list V) (p : path) (i j : nat) (v : V),
    NoDup (map fst Ws') -> same_sharing Ws Ws' -> List.length vals = List.length (pids Ws) ->
    In (p, i) Ws -> In (p, j) Ws' -> In (i, v) (combine (pids Ws) vals) ->
    lookup_group (combine (map KTup (unique_paths Ws)) vals) (map KTup (group j Ws')) = Ok v.
Proof. exact @value_per_path_recreated. Qed.

(* named json rows of a database fit (samples_summary, samples_info, ...): for EVERY history of saves the value read
   back under a name is the value of the LAST save under that name, and exactly one row carries each saved name *)
Theorem C09_json_latest_wins : forall (A : Type) (h : list (string * A)) (k : string),
  get_json k (run_json h) = assoc string_dec k (rev h).
Proof. exact @json_latest_wins. Qed.

Theorem C09_json_one_row : forall (A : Type) (h : list (string * A)) (k : string),
  json_count k (run_json h) = if in_dec string_dec k (map fst h) then 1 else 0.
Proof. exact @json_one_row. Qed.

(* ================================================================ HEADLINE, the code as it is now (b5615dc: samples.csv is
   read by position; 9e9d176 key handling; 04fca50 dict filter): every well-formed tree, every sample list, NO guard on
   parameter names: same value per parameter, log-likelihood, log-prior, weight in order; loading succeeds.
   (names of different priors must differ only for models whose unique paths are all single names, C09_names_no_tuples) *)
Theorem C09_tree_csv : forall (V cell : Type) (fmt : V -> cell) (parse : cell -> V) (add : V -> V -> V),
  (forall v, parse (fmt v) = v) ->
  forall (t : node) (rows : list (srow V)),
    wf_root t ->
    (all_flat (sorted_walk t) -> names_injective (tuple_paths [] t) (sorted_walk t)) ->
    rows_ok (sorted_walk t) rows ->
    res_bind (csv_roundtrip_pos fmt parse add true (tuple_paths [] t) (sorted_walk t) (from_lists true (sorted_walk t) rows))
             (observe (tuple_paths [] t) (sorted_walk t)) = Ok (expected rows).
Proof. exact @tree_csv_by_position. Qed.

(* the same over any id-sorted walk with distinct paths *)
Theorem C09_roundtrip_csv : forall (V cell : Type) (fmt : V -> cell) (parse : cell -> V) (add : V -> V -> V),
  (forall v, parse (fmt v) = v) ->
  forall (Ws : list (path * nat)) (tps : list path), shape_ok Ws ->
  forall rows : list (srow V), rows_ok Ws rows -> (all_flat Ws -> names_injective tps Ws) ->
    res_bind (csv_roundtrip_pos fmt parse add true tps Ws (from_lists true Ws rows)) (observe tps Ws) = Ok (expected rows).
Proof. exact @csv_pos_fixed. Qed.

(* ================================================================ summary statistics (Quantile.v, Stats.v)
   q_quantile l q = quantile(x, q, weights)[0] of pdf.py over exact rationals, l = the (value, weight) pairs of one parameter
   in sample order; q_quantile_sorted s q = the same on ANY arrangement s that np.argsort may produce (sorted by value,
   ties in any order).  trunc_total s = the weight of all samples but the last one of s (the normalisation of the code:
   the weight of the sample of largest value is left out; it must be positive or numpy divides by zero). *)

(* the quantile lies between two ADJACENT sorted sample values (the code interpolates); both are sample values *)
Theorem C09_quantile_between_adjacent : forall (l : list (Q * Q)) (q : Q),
  weights_ok l -> (0 < trunc_total (q_sort l))%Q -> (0 <= q)%Q -> (q <= 1)%Q ->
  exists r a b, q_quantile l q = QOk r /\ adjacent_or_last (map fst (q_sort l)) a b /\
                In a (map fst l) /\ In b (map fst l) /\ (a <= r <= b)%Q.
Proof. exact quantile_bracket. Qed.

Theorem C09_quantile_any_argsort_between_adjacent : forall (s : list (Q * Q)) (q : Q),
  StronglySorted vle s -> weights_ok s -> (0 < trunc_total s)%Q -> (0 <= q)%Q -> (q <= 1)%Q ->
  exists r a b, q_quantile_sorted s q = QOk r /\ adjacent_or_last (map fst s) a b /\ (a <= r <= b)%Q.
Proof. exact quantile_sorted_bracket. Qed.

(* monotone in the level *)
Theorem C09_quantile_monotone : forall (l : list (Q * Q)) (q1 q2 r1 r2 : Q),
  weights_ok l -> (0 < trunc_total (q_sort l))%Q -> (0 <= q1)%Q -> (q1 <= q2)%Q -> (q2 <= 1)%Q ->
  q_quantile l q1 = QOk r1 -> q_quantile l q2 = QOk r2 -> (r1 <= r2)%Q.
Proof. exact quantile_mono. Qed.

Theorem C09_quantile_any_argsort_monotone : forall (s : list (Q * Q)) (q1 q2 r1 r2 : Q),
  StronglySorted vle s -> weights_ok s -> (0 < trunc_total s)%Q -> (0 <= q1)%Q -> (q1 <= q2)%Q -> (q2 <= 1)%Q ->
  q_quantile_sorted s q1 = QOk r1 -> q_quantile_sorted s q2 = QOk r2 -> (r1 <= r2)%Q.
Proof. exact quantile_sorted_mono. Qed.

(* values_at_sigma / median_pdf: lower(sigma) <= median <= upper(sigma) for every pair of levels around 1/2 *)
Theorem C09_stats_lower_median_upper : forall (l : list (Q * Q)) (qlo qhi lo m hi : Q),
  weights_ok l -> (0 < trunc_total (q_sort l))%Q -> (0 <= qlo)%Q -> (qlo <= 1 # 2)%Q -> (1 # 2 <= qhi)%Q -> (qhi <= 1)%Q ->
  q_quantile l qlo = QOk lo -> q_quantile l (1 # 2) = QOk m -> q_quantile l qhi = QOk hi -> (lo <= m <= hi)%Q.
Proof. exact lower_median_upper. Qed.

(* order of the samples: irrelevant when samples of equal value are equal samples ... *)
Theorem C09_quantile_permutation_partial : forall (l l' : list (Q * Q)) (q : Q),
  Permutation l l' -> values_distinct l -> q_quantile l q = q_quantile l' q.
Proof. exact quantile_permutation. Qed.

(* ... but with tied values the answer depends on the order in which the samples are given: full statement REFUTED *)
Theorem C09_quantile_permutation_refuted :
  exists (l l' : list (Q * Q)) (q : Q), Permutation l l' /\ weights_ok l /\ (0 < trunc_total (q_sort l))%Q /\ (0 <= q <= 1)%Q /\
                 ~ qres_equiv (q_quantile l q) (q_quantile l' q).
Proof. exact quantile_permutation_refuted. Qed.

(* a sample of weight zero is not ignored (its value is an ordinate of the interpolation): REFUTED *)
Theorem C09_quantile_zero_weight_refuted :
  exists (l : list (Q * Q)) (p : Q * Q) (q : Q), (snd p == 0)%Q /\ weights_ok (p :: l) /\ (0 < trunc_total (q_sort l))%Q /\
                (0 < trunc_total (q_sort (p :: l)))%Q /\ (0 <= q <= 1)%Q /\ ~ qres_equiv (q_quantile (p :: l) q) (q_quantile l q).
Proof. exact quantile_zero_weight_refuted. Qed.

(* "the median has at least half of the weight on each side": REFUTED on both sides (largest sample's weight left out;
   interpolation) *)
Theorem C09_median_half_weight_below_refuted :
  exists (l : list (Q * Q)) (m : Q), weights_ok l /\ (0 < trunc_total (q_sort l))%Q /\ q_quantile l (1 # 2) = QOk m /\
              ~ (total_weight l * (1 # 2) <= weight_le l m)%Q.
Proof. exact median_half_below_refuted. Qed.

Theorem C09_median_half_weight_above_refuted :
  exists (l : list (Q * Q)) (m : Q), weights_ok l /\ (0 < trunc_total (q_sort l))%Q /\ q_quantile l (1 # 2) = QOk m /\
              ~ (total_weight l * (1 # 2) <= weight_ge l m)%Q.
Proof. exact median_half_above_refuted. Qed.

(* summary statistics survive persistence: equal observed (parameter, log-likelihood, weight) lists, equal statistics ... *)
Theorem C09_stats_same_observed : forall (V : Type) (add sub mul div : V -> V -> V) (leb ltb eqb : V -> V -> bool) (isnan : V -> bool)
    (zero one c99 half : V) (gtb : V -> V -> bool) (q1lo q1hi q3lo q3hi : V) (ucs : nat) (arrange : nat -> list (V * V) -> list (V * V))
    (tps : list path) (Ws : list (path * nat)) (S1 S2 : list (sample V)),
  observe tps Ws S1 = observe tps Ws S2 ->
  sample_stats add sub mul div leb ltb eqb isnan zero one c99 half gtb q1lo q1hi q3lo q3hi ucs arrange tps Ws S1
  = sample_stats add sub mul div leb ltb eqb isnan zero one c99 half gtb q1lo q1hi q3lo q3hi ucs arrange tps Ws S2.
Proof. exact @stats_same_observed. Qed.

(* ... hence median_pdf, values_at_sigma and errors_at_sigma (1 and 3 sigma) of the samples reloaded from samples.csv are
   those of the samples in memory, for every well-formed model tree, every sample list and every arithmetic (Q, binary64) *)
Theorem C09_stats_survive_csv : forall (V : Type) (add sub mul div : V -> V -> V) (leb ltb eqb : V -> V -> bool) (isnan : V -> bool)
    (zero one c99 half : V) (gtb : V -> V -> bool) (q1lo q1hi q3lo q3hi : V) (ucs : nat) (arrange : nat -> list (V * V) -> list (V * V))
    (cell : Type) (fmt : V -> cell) (parse : cell -> V),
  (forall v, parse (fmt v) = v) ->
  forall (t : node) (rows : list (srow V)),
    wf_root t ->
    (all_flat (sorted_walk t) -> names_injective (tuple_paths [] t) (sorted_walk t)) ->
    rows_ok (sorted_walk t) rows ->
    res_bind (csv_roundtrip_pos fmt parse add true (tuple_paths [] t) (sorted_walk t) (from_lists true (sorted_walk t) rows))
             (sample_stats add sub mul div leb ltb eqb isnan zero one c99 half gtb q1lo q1hi q3lo q3hi ucs arrange
                           (tuple_paths [] t) (sorted_walk t))
    = sample_stats add sub mul div leb ltb eqb isnan zero one c99 half gtb q1lo q1hi q3lo q3hi ucs arrange
                   (tuple_paths [] t) (sorted_walk t) (from_lists true (sorted_walk t) rows)
    /\ sample_stats add sub mul div leb ltb eqb isnan zero one c99 half gtb q1lo q1hi q3lo q3hi ucs arrange
                    (tuple_paths [] t) (sorted_walk t) (from_lists true (sorted_walk t) rows)
       = Ok (stats_observed add sub mul div leb ltb eqb isnan zero one c99 half gtb q1lo q1hi q3lo q3hi ucs arrange (expected rows)).
Proof. exact @stats_survive_csv. Qed.

(* ... and of the samples reloaded from database rows (all samples, or the default minimised list) *)
Theorem C09_stats_survive_db : forall (V : Type) (add sub mul div : V -> V -> V) (leb ltb eqb : V -> V -> bool) (isnan : V -> bool)
    (zero one c99 half : V) (gtb : V -> V -> bool) (q1lo q1hi q3lo q3hi : V) (ucs : nat) (arrange : nat -> list (V * V) -> list (V * V))
    (t : node) (rows : list (srow V)),
  wf_root t -> rows_ok (sorted_walk t) rows ->
  let S := from_lists true (sorted_walk t) rows in
  let SS := sample_stats add sub mul div leb ltb eqb isnan zero one c99 half gtb q1lo q1hi q3lo q3hi ucs arrange
                         (tuple_paths [] t) (sorted_walk t) in
  res_bind (db_roundtrip true S) SS = SS S
  /\ res_bind (db_roundtrip true (minimise add gtb S)) SS = SS (minimise add gtb S).
Proof. exact @stats_survive_db. Qed.

(* the same for ANY quantity computed from what a reader observes (max_log_likelihood vector, covariance, log-evidence
   estimates from weights, ...) *)
Theorem C09_derived_survive_csv : forall (V A : Type) (F : observed V -> A) (cell : Type) (fmt : V -> cell) (parse : cell -> V)
    (add : V -> V -> V),
  (forall v, parse (fmt v) = v) ->
  forall (t : node) (rows : list (srow V)),
    wf_root t ->
    (all_flat (sorted_walk t) -> names_injective (tuple_paths [] t) (sorted_walk t)) ->
    rows_ok (sorted_walk t) rows ->
    res_bind (csv_roundtrip_pos fmt parse add true (tuple_paths [] t) (sorted_walk t) (from_lists true (sorted_walk t) rows))
             (derived F (tuple_paths [] t) (sorted_walk t))
    = derived F (tuple_paths [] t) (sorted_walk t) (from_lists true (sorted_walk t) rows)
    /\ derived F (tuple_paths [] t) (sorted_walk t) (from_lists true (sorted_walk t) rows) = Ok (F (expected rows)).
Proof. exact @derived_survive_csv. Qed.


Print Assumptions C09_shapes.
Print Assumptions C09_roundtrip_db.
Print Assumptions C09_roundtrip_csv_legacy_partial.
Print Assumptions C09_roundtrip_csv_legacy_reader.
Print Assumptions C09_loadable_legacy_refuted.
Print Assumptions C09_summary_fixed.
Print Assumptions C09_tree_csv_legacy_reader.
Print Assumptions C09_tree_db.
Print Assumptions C09_value_per_path_recreated.
Print Assumptions C09_json_latest_wins.
Print Assumptions C09_tree_csv.
Print Assumptions C09_roundtrip_csv.
Print Assumptions C09_quantile_between_adjacent.
Print Assumptions C09_quantile_any_argsort_between_adjacent.
Print Assumptions C09_quantile_monotone.
Print Assumptions C09_quantile_any_argsort_monotone.
Print Assumptions C09_stats_lower_median_upper.
Print Assumptions C09_quantile_permutation_partial.
Print Assumptions C09_quantile_permutation_refuted.
Print Assumptions C09_quantile_zero_weight_refuted.
Print Assumptions C09_median_half_weight_below_refuted.
Print Assumptions C09_median_half_weight_above_refuted.
Print Assumptions C09_stats_same_observed.
Print Assumptions C09_stats_survive_csv.
Print Assumptions C09_stats_survive_db.
Print Assumptions C09_derived_survive_csv.
