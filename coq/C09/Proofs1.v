(* C09 proofs, part 1: model queries over an id-sorted walk and the parameter lookup. *)
From Coq Require Import List String Ascii Bool Arith PeanoNat Lia Permutation.
From PAFC09 Require Import Model Lib.
Import ListNotations.
Open Scope string_scope.
Open Scope list_scope.

(* ------------------------------------------------------------------ sort *)
Lemma insert_pid_perm (x : path * nat) (l : list (path * nat)) : Permutation (insert_pid x l) (x :: l).
Proof.
  induction l as [|y r IH]; simpl; [apply Permutation_refl|].
  destruct (Nat.leb (snd x) (snd y)); [apply Permutation_refl|].
  eapply Permutation_trans; [apply perm_skip; exact IH|apply perm_swap].
Qed.

Lemma sort_pid_perm (l : list (path * nat)) : Permutation (sort_pid l) l.
Proof.
  induction l as [|x l IH]; simpl; [apply Permutation_refl|].
  eapply Permutation_trans; [apply insert_pid_perm|apply perm_skip; exact IH].
Qed.

Lemma sort_pid_nodup (l : list (path * nat)) : NoDup (map fst l) -> NoDup (map fst (sort_pid l)).
Proof.
  intro H. eapply Permutation_NoDup; [|exact H].
  apply Permutation_map. apply Permutation_sym. apply sort_pid_perm.
Qed.

Lemma sort_pid_in (l : list (path * nat)) (e : path * nat) : In e (sort_pid l) <-> In e l.
Proof.
  split; apply Permutation_in; [apply sort_pid_perm|apply Permutation_sym; apply sort_pid_perm].
Qed.

(* ------------------------------------------------------------------ pids / group / upath *)
Section Shape.
  Variable Ws : list (path * nat).

  Lemma pids_nodup : NoDup (pids Ws).
  Proof. unfold pids. apply NoDup_rev. apply NoDup_nodup. Qed.

  Lemma pids_in (i : nat) : In i (pids Ws) <-> In i (map snd Ws).
  Proof.
    unfold pids. rewrite <- in_rev, nodup_In, <- in_rev. reflexivity.
  Qed.

  Lemma group_in (p : path) (i : nat) : In p (group i Ws) <-> In (p, i) Ws.
  Proof.
    unfold group. rewrite in_map_iff. split.
    - intros [[q j] [E H]]. simpl in E. subst q. apply filter_In in H. destruct H as [H1 H2].
      simpl in H2. apply Nat.eqb_eq in H2. subst. exact H1.
    - intro H. exists (p, i). split; [reflexivity|]. apply filter_In. split; [exact H|].
      simpl. apply Nat.eqb_refl.
  Qed.

  Lemma group_nonempty (i : nat) : In i (pids Ws) -> group i Ws <> [].
  Proof.
    intro H. apply pids_in in H. apply in_map_iff in H. destruct H as [[p j] [E H]]. simpl in E. subst j.
    intro N. assert (HI : In p (group i Ws)) by (apply group_in; exact H). rewrite N in HI. contradiction.
  Qed.

  Lemma last_in {A} (l : list A) (d : A) : l <> [] -> In (last l d) l.
  Proof.
    induction l as [|x l IH]; [congruence|]. intros _. destruct l as [|y l].
    - left. reflexivity.
    - right. apply IH. discriminate.
  Qed.

  Lemma upath_in_group (i : nat) : In i (pids Ws) -> In (upath i Ws) (group i Ws).
  Proof. intro H. unfold upath. apply last_in. apply group_nonempty. exact H. Qed.

  Lemma upath_in_walk (i : nat) : In i (pids Ws) -> In (upath i Ws, i) Ws.
  Proof. intro H. apply group_in. apply upath_in_group. exact H. Qed.

  Hypothesis ND : NoDup (map fst Ws).

  Lemma walk_functional (p : path) (i j : nat) : In (p, i) Ws -> In (p, j) Ws -> i = j.
  Proof.
    clear -ND. induction Ws as [|[q k] l IH]; simpl in *; [contradiction|].
    inversion ND as [|? ? Hn ND']; subst. intros [H1|H1] [H2|H2].
    - congruence.
    - inversion H1; subst. exfalso. apply Hn. apply in_map_iff. exists (p, j). split; [reflexivity|exact H2].
    - inversion H2; subst. exfalso. apply Hn. apply in_map_iff. exists (p, i). split; [reflexivity|exact H1].
    - apply IH; assumption.
  Qed.

  Lemma group_disjoint (p : path) (i j : nat) : In p (group i Ws) -> In p (group j Ws) -> i = j.
  Proof. intros H1 H2. apply group_in in H1. apply group_in in H2. eapply walk_functional; eauto. Qed.

  Lemma upath_inj (i j : nat) : In i (pids Ws) -> In j (pids Ws) -> upath i Ws = upath j Ws -> i = j.
  Proof.
    intros Hi Hj E. eapply group_disjoint; [apply upath_in_group; exact Hi|].
    rewrite E. apply upath_in_group. exact Hj.
  Qed.

  Lemma unique_paths_nodup : NoDup (unique_paths Ws).
  Proof.
    unfold unique_paths. assert (H := pids_nodup).
    assert (Hall : forall i, In i (pids Ws) -> In i (pids Ws)) by auto.
    revert H Hall. generalize (pids Ws) at 1 2 4 as l.
    induction l as [|i l IH]; simpl; intros ND' Hall; [constructor|].
    inversion ND' as [|? ? Hn ND'']; subst. constructor.
    - intro HI. apply in_map_iff in HI. destruct HI as [j [E Hj]].
      assert (j = i) by (apply upath_inj; [apply Hall; right; exact Hj|apply Hall; left; reflexivity|exact E]).
      subst. contradiction.
    - apply IH; [exact ND''|]. intros. apply Hall. right. assumption.
  Qed.

  Lemma unique_paths_length : List.length (unique_paths Ws) = List.length (pids Ws).
  Proof. unfold unique_paths. apply map_length. Qed.

  Lemma unique_path_in_walk (p : path) : In p (unique_paths Ws) -> exists i, In i (pids Ws) /\ p = upath i Ws /\ In (p, i) Ws.
  Proof.
    unfold unique_paths. intro H. apply in_map_iff in H. destruct H as [i [E Hi]].
    exists i. split; [exact Hi|]. split; [symmetry; exact E|]. subst p. apply upath_in_walk. exact Hi.
  Qed.
End Shape.

(* ------------------------------------------------------------------ lookup *)
Section Lookup.
  Context {V : Type}.

  Lemma lookup_group_spec (kw : list (key * V)) (g : list key) (v : V) :
    (forall k v', In k g -> assoc key_eq_dec k kw = Some v' -> v' = v) ->
    (exists k, In k g /\ assoc key_eq_dec k kw <> None) ->
    lookup_group kw g = Ok v.
  Proof.
    induction g as [|k g IH]; intros Hall [k0 [Hin Hne]]; [contradiction|].
    simpl. destruct (assoc key_eq_dec k kw) as [v'|] eqn:E.
    - f_equal. apply (Hall k v'); [left; reflexivity|exact E].
    - apply IH.
      + intros k1 v1 H1 H2. apply (Hall k1 v1); [right; exact H1|exact H2].
      + destruct Hin as [Hin|Hin]; [subst; congruence|]. exists k0. split; assumption.
  Qed.

  (* ids: the priors in column order; kwkey i: the key under which the sample stores prior i;
     grp i: the keys the reader tries for prior i *)
  Lemma lookup_groups_ok (ids : list nat) (kwkey : nat -> key) (grp : nat -> list key) (vals : list V) :
    List.length vals = List.length ids -> NoDup ids ->
    (forall i, In i ids -> In (kwkey i) (grp i)) ->
    (forall i j, In i ids -> In j ids -> In (kwkey j) (grp i) -> i = j) ->
    lookup_groups (combine (map kwkey ids) vals) (map grp ids) = Ok vals.
  Proof.
    intros Hlen NDi Hex Huniq.
    set (kw := combine (map kwkey ids) vals).
    assert (NDk : NoDup (map kwkey ids)).
    { clear -NDi Hex Huniq.
      assert (Hsub : forall i, In i ids -> In i ids) by auto.
      revert NDi Hsub. generalize ids at 1 2 4 as l. induction l as [|i l IH]; simpl; intros ND Hsub; [constructor|].
      inversion ND as [|? ? Hn ND']; subst. constructor.
      - intro HI. apply in_map_iff in HI. destruct HI as [j [E Hj]].
        assert (i = j).
        { apply Huniq; [apply Hsub; left; reflexivity|apply Hsub; right; exact Hj|].
          rewrite E. apply Hex. apply Hsub. left. reflexivity. }
        subst. contradiction.
      - apply IH; [exact ND'|]. intros. apply Hsub. right. assumption. }
    assert (NDkw : NoDup (map fst kw)).
    { unfold kw. rewrite map_fst_combine; [exact NDk|]. rewrite map_length. lia. }
    unfold lookup_groups. rewrite traverse_map. apply traverse_Forall2.
    apply Forall2_combine; [lia|]. intros i v Hiv.
    assert (Hi : In i ids) by (eapply in_combine_l; eauto).
    assert (Hkv : In (kwkey i, v) kw).
    { unfold kw. rewrite combine_map_l. apply in_map_iff. exists (i, v). split; [reflexivity|exact Hiv]. }
    apply lookup_group_spec.
    - intros k v' Hk Ha. apply assoc_some_in in Ha. unfold kw in Ha. rewrite combine_map_l in Ha.
      apply in_map_iff in Ha. destruct Ha as [[j w] [E Hjw]]. simpl in E. injection E as Ek Ev. subst k v'.
      assert (Hj : In j ids) by (eapply in_combine_l; eauto).
      assert (i = j) by (apply Huniq; assumption). subst j.
      exact (in_combine_fun ids vals i w v NDi Hjw Hiv).
    - exists (kwkey i). split; [apply Hex; exact Hi|].
      rewrite (assoc_in key_eq_dec _ v); [discriminate|exact NDkw|exact Hkv].
  Qed.
End Lookup.
