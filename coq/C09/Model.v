(* C09 model: samples survive persistence and reload.

   Executable Gallina model of
     autofit/non_linear/samples/sample.py     Sample.__init__, is_path_kwargs, parameter_lists_for_paths,
                                              from_lists, dict, samples_from_iterator
     autofit/non_linear/samples/samples.py    Samples._headers/_rows/parameter_lists, max_log_likelihood_sample,
                                              max_log_posterior_index, minimise
     autofit/non_linear/samples/efficient.py  EfficientSamples (database storage)
     autofit/mapper/prior_model/abstract.py   path_priors_tuples, unique_prior_paths, all_paths, all_names,
                                              TuplePathModifier
   The model is generic in the value type V (Section variables fmt/parse = text of a float and float(text),
   add = float addition); the correspondence instantiates V with binary64.

   [fx : bool] selects the variant of Sample.__init__: false = the code as pinned, true = the code after
   proposed_fixes/C09-mixed-depth-keys.diff.  Variant.v says which one the correspondence uses. *)
From Coq Require Import List String Ascii Bool Arith PeanoNat.
Import ListNotations.
Open Scope string_scope.
Open Scope list_scope.

(* ---------------------------------------------------------------- results *)
Inductive res (A : Type) := Ok (a : A) | KeyErr | OtherErr.
Arguments Ok {A} a.
Arguments KeyErr {A}.
Arguments OtherErr {A}.

Definition res_bind {A B} (r : res A) (f : A -> res B) : res B :=
  match r with Ok a => f a | KeyErr => KeyErr | OtherErr => OtherErr end.

Fixpoint traverse {A B} (f : A -> res B) (l : list A) : res (list B) :=
  match l with
  | [] => Ok []
  | x :: r => match f x with
              | Ok y => match traverse f r with Ok ys => Ok (y :: ys) | KeyErr => KeyErr | OtherErr => OtherErr end
              | KeyErr => KeyErr
              | OtherErr => OtherErr
              end
  end.

(* ---------------------------------------------------------------- strings: "." join / split *)
Definition dot : ascii := "."%char.

Fixpoint contains_dot (s : string) : bool :=
  match s with
  | EmptyString => false
  | String c r => if Ascii.eqb c dot then true else contains_dot r
  end.

(* Python str.split("."): always a non-empty list *)
Fixpoint split_dot (s : string) : list string :=
  match s with
  | EmptyString => [EmptyString]
  | String c r =>
      if Ascii.eqb c dot then EmptyString :: split_dot r
      else match split_dot r with
           | [] => [String c EmptyString]
           | h :: t => String c h :: t
           end
  end.

(* Python ".".join(path) *)
Fixpoint join_dot (p : list string) : string :=
  match p with
  | [] => EmptyString
  | [a] => a
  | a :: r => a ++ String dot (join_dot r)
  end.

(* ---------------------------------------------------------------- keys and dicts *)
Definition path := list string.
Inductive key := KStr (s : string) | KTup (p : path).

Definition path_eq_dec : forall a b : path, {a = b} + {a <> b} := list_eq_dec string_dec.
Definition key_eq_dec : forall a b : key, {a = b} + {a <> b}.
Proof. decide equality; [apply string_dec | apply path_eq_dec]. Defined.

Section Dict.
  Context {K V : Type} (Keq : forall a b : K, {a = b} + {a <> b}).

  Fixpoint assoc (k : K) (d : list (K * V)) : option V :=
    match d with
    | [] => None
    | (k', v) :: r => if Keq k k' then Some v else assoc k r
    end.

  (* d[k] = v : an existing key keeps its position, a new key is appended *)
  Fixpoint dict_set (k : K) (v : V) (d : list (K * V)) : list (K * V) :=
    match d with
    | [] => [(k, v)]
    | (k', v') :: r => if Keq k k' then (k', v) :: r else (k', v') :: dict_set k v r
    end.

  (* {k: v for k, v in l} / dict(l) *)
  Definition dict_of_list (l : list (K * V)) : list (K * V) :=
    fold_left (fun d kv => dict_set (fst kv) (snd kv) d) l [].

  Definition mem (k : K) (l : list K) : bool := if in_dec Keq k l then true else false.
End Dict.

(* ---------------------------------------------------------------- model shapes *)
(* attrs = __dict__ order without underscore keys.  NConst = anything that holds no prior. *)
Inductive node :=
| NPrior (pid : nat)
| NConst
| NTuple (ms : list (string * node))     (* TuplePrior *)
| NGroup (ms : list (string * node)).    (* Model or Collection *)

(* path_instance_tuples_for_class(Prior): depth first, attribute order *)
Fixpoint walk (pre : path) (n : node) : list (path * nat) :=
  match n with
  | NPrior i => [(pre, i)]
  | NConst => []
  | NTuple ms =>
      (fix go (l : list (string * node)) : list (path * nat) :=
         match l with [] => [] | (nm, c) :: r => walk (pre ++ [nm]) c ++ go r end) ms
  | NGroup ms =>
      (fix go (l : list (string * node)) : list (path * nat) :=
         match l with [] => [] | (nm, c) :: r => walk (pre ++ [nm]) c ++ go r end) ms
  end.

(* path_instance_tuples_for_class(TuplePrior): paths only *)
Fixpoint tuple_paths (pre : path) (n : node) : list path :=
  match n with
  | NTuple _ => [pre]
  | NGroup ms =>
      (fix go (l : list (string * node)) : list path :=
         match l with [] => [] | (nm, c) :: r => tuple_paths (pre ++ [nm]) c ++ go r end) ms
  | _ => []
  end.

(* sorted(..., key=id): stable insertion sort *)
Fixpoint insert_pid (x : path * nat) (l : list (path * nat)) : list (path * nat) :=
  match l with
  | [] => [x]
  | y :: r => if Nat.leb (snd x) (snd y) then x :: l else y :: insert_pid x r
  end.
Definition sort_pid (l : list (path * nat)) : list (path * nat) := fold_right insert_pid [] l.

(* path_priors_tuples *)
Definition sorted_walk (n : node) : list (path * nat) := sort_pid (walk [] n).

(* The functions below take the id-sorted walk Ws.  Dicts keyed by prior keep the position of the first
   occurrence; on an id-sorted list that is id order, so the code's final sorted(..., key=id) is the identity
   (checked against the implementation by the CShape correspondence cases). *)
Definition pids (Ws : list (path * nat)) : list nat := rev (nodup Nat.eq_dec (rev (map snd Ws))).
Definition group (i : nat) (Ws : list (path * nat)) : list path :=
  map fst (filter (fun e => Nat.eqb (snd e) i) Ws).
(* unique_path_prior_tuples: {prior: item}: last item per prior *)
Definition upath (i : nat) (Ws : list (path * nat)) : path := last (group i Ws) [].
Definition unique_paths (Ws : list (path * nat)) : list path := map (fun i => upath i Ws) (pids Ws).
Definition all_paths (Ws : list (path * nat)) : list (list path) := map (fun i => group i Ws) (pids Ws).

(* TuplePathModifier.__call__ ; tps = None is tps = [] *)
Definition path_modifier (tps : list path) (p : path) : path :=
  if mem path_eq_dec (removelast p) tps then removelast (removelast p) ++ [last p ""] else p.
Definition name_of (tps : list path) (p : path) : string := join_dot (path_modifier tps p).
Definition all_names (tps : list path) (Ws : list (path * nat)) : list (list string) :=
  map (fun i => map (name_of tps) (group i Ws)) (pids Ws).

(* ---------------------------------------------------------------- samples *)
Section Samples.
  Context {V : Type}.

  Record sample := mkSample { s_ll : V; s_lp : V; s_w : V; s_kw : list (key * V) }.

  (* Sample.__init__: kwargs keys.  fx = false: a str key containing "." becomes a tuple, any other key stays.
     fx = true (proposed fix): if any key is a path (tuple or dotted str) every str key becomes a tuple. *)
  Definition key_is_path (k : key) : bool := match k with KTup _ => true | KStr s => contains_dot s end.
  Definition norm_key (all_paths_mode : bool) (k : key) : key :=
    match k with
    | KTup p => KTup p
    | KStr s => if contains_dot s || all_paths_mode then KTup (split_dot s) else KStr s
    end.
  Definition sample_init (fx : bool) (kw : list (key * V)) : list (key * V) :=
    let mode := fx && existsb (fun kv => key_is_path (fst kv)) kw in
    dict_of_list key_eq_dec (map (fun kv => (norm_key mode (fst kv), snd kv)) kw).

  (* is_path_kwargs: type of the FIRST key *)
  Definition is_path_kwargs (kw : list (key * V)) : bool :=
    match kw with (KTup _, _) :: _ => true | _ => false end.

  (* parameter_lists_for_paths *)
  Fixpoint lookup_group (kw : list (key * V)) (g : list key) : res V :=
    match g with
    | [] => KeyErr
    | k :: r => match assoc key_eq_dec k kw with Some v => Ok v | None => lookup_group kw r end
    end.
  Definition lookup_groups (kw : list (key * V)) (gs : list (list key)) : res (list V) :=
    traverse (lookup_group kw) gs.

  (* Samples.parameter_lists for one sample: self.paths if sample.is_path_kwargs else self.names *)
  Definition groups_for (tps : list path) (Ws : list (path * nat)) (kw : list (key * V)) : list (list key) :=
    if is_path_kwargs kw then map (map KTup) (all_paths Ws) else map (map KStr) (all_names tps Ws).
  Definition param_list (tps : list path) (Ws : list (path * nat)) (s : sample) : res (list V) :=
    lookup_groups (s_kw s) (groups_for tps Ws (s_kw s)).
  Definition param_lists (tps : list path) (Ws : list (path * nat)) (S : list sample) : res (list (list V)) :=
    traverse (param_list tps Ws) S.

  (* Sample.from_lists: one row = (params, ll, lp, w) *)
  Definition srow := (list V * V * V * V)%type.
  Definition r_params (r : srow) : list V := fst (fst (fst r)).
  Definition r_ll (r : srow) : V := snd (fst (fst r)).
  Definition r_lp (r : srow) : V := snd (fst r).
  Definition r_w (r : srow) : V := snd r.
  Definition from_row (fx : bool) (Ws : list (path * nat)) (r : srow) : sample :=
    mkSample (r_ll r) (r_lp r) (r_w r)
      (sample_init fx (dict_of_list key_eq_dec (combine (map KTup (unique_paths Ws)) (r_params r)))).
  Definition from_lists (fx : bool) (Ws : list (path * nat)) (rows : list srow) : list sample :=
    map (from_row fx Ws) rows.

  (* -------------------------------------------------------------- CSV table *)
  Context {cell : Type} (fmt : V -> cell) (parse : cell -> V) (add : V -> V -> V).

  Definition reserved4 : list string := ["log_likelihood"; "log_prior"; "log_posterior"; "weight"].
  (* inspect.getfullargspec(Sample.__init__).args | {"log_posterior"} *)
  Definition not_kwargs : list string := ["self"; "log_likelihood"; "log_prior"; "weight"; "kwargs"; "log_posterior"].

  Definition csv_headers (Ws : list (path * nat)) : list string := map join_dot (unique_paths Ws) ++ reserved4.
  Definition csv_row (tps : list path) (Ws : list (path * nat)) (s : sample) : res (list cell) :=
    res_bind (param_list tps Ws s)
      (fun pl => Ok (map fmt (pl ++ [s_ll s; s_lp s; add (s_ll s) (s_lp s); s_w s]))).
  Definition csv_save (tps : list path) (Ws : list (path * nat)) (S : list sample) : res (list string * list (list cell)) :=
    res_bind (traverse (csv_row tps Ws) S) (fun rows => Ok (csv_headers Ws, rows)).

  (* samples_from_iterator: d = {header: float(value)}; the reserved columns become constructor arguments, the rest kwargs *)
  Definition csv_load_row (fx : bool) (headers : list string) (cells : list cell) : res sample :=
    let d := dict_of_list string_dec (combine headers (map parse cells)) in
    if mem string_dec "self" (map fst d) || mem string_dec "kwargs" (map fst d) then OtherErr else
    match assoc string_dec "log_likelihood" d, assoc string_dec "log_prior" d, assoc string_dec "weight" d with
    | Some ll, Some lp, Some w =>
        Ok (mkSample ll lp w
              (sample_init fx (map (fun hv => (KStr (fst hv), snd hv))
                                   (filter (fun hv => negb (mem string_dec (fst hv) not_kwargs)) d))))
    | _, _, _ => OtherErr
    end.
  Definition csv_load (fx : bool) (t : list string * list (list cell)) : res (list sample) :=
    traverse (csv_load_row fx (fst t)) (snd t).

  (* samples_from_iterator after proposed_fixes/C09-table-columns-by-position.diff: a table whose header ends with the four
     reserved columns is read by position (values[:len-4] zipped with headers[:-4]; the last four cells are
     ll, lp, posterior, weight); any other table as before *)
  Definition csv_load_row_pos (fx : bool) (headers : list string) (cells : list cell) : res sample :=
    let n := List.length headers in
    if list_eq_dec string_dec (skipn (n - 4) headers) reserved4 then
      let vals := map parse cells in
      match skipn (n - 4) (firstn n vals) with
      | [ll; lp; _; w] =>
          Ok (mkSample ll lp w
                (sample_init fx (map (fun hv => (KStr (fst hv), snd hv))
                                     (dict_of_list string_dec (combine (firstn (n - 4) headers) vals)))))
      | _ => OtherErr
      end
    else csv_load_row fx headers cells.
  Definition csv_load_pos (fx : bool) (t : list string * list (list cell)) : res (list sample) :=
    traverse (csv_load_row_pos fx (fst t)) (snd t).

  (* -------------------------------------------------------------- summary JSON (Sample.dict / from_dict) *)
  Definition key_str (k : key) : string := match k with KStr s => s | KTup p => join_dot p end.
  Definition json_save (s : sample) : (cell * cell * cell * list (string * cell)) :=
    (fmt (s_ll s), fmt (s_lp s), fmt (s_w s),
     dict_of_list string_dec (map (fun kv => (key_str (fst kv), fmt (snd kv))) (s_kw s))).
  (* The "dict" branch of ModelObject.from_dict (registered as the parser of {"type": "dict"}) keeps an entry only
     `if value`: a parameter whose value is 0.0 or -0.0 is dropped.  drop0 = true is the pinned code,
     drop0 = false the code after proposed_fixes/C08-dict-falsy-constant.diff.  is_zero v <-> v == 0.0 *)
  Context (is_zero : V -> bool).
  Definition json_load (fx drop0 : bool) (j : cell * cell * cell * list (string * cell)) : sample :=
    match j with
    | (ll, lp, w, kw) =>
        mkSample (parse ll) (parse lp) (parse w)
          (sample_init fx (map (fun hv => (KStr (fst hv), snd hv))
                               (filter (fun hv => negb (drop0 && is_zero (snd hv)))
                                       (map (fun hv => (fst hv, parse (snd hv))) kw))))
    end.

  (* -------------------------------------------------------------- EfficientSamples (database) *)
  Record eff := mkEff { e_keys : list key; e_values : list (list V); e_ll : list V; e_lp : list V; e_w : list V }.

  Definition eff_of (S : list sample) : res eff :=
    let keys := match S with [] => [] | s :: _ => map fst (s_kw s) end in
    res_bind
      (traverse (fun s => traverse (fun k => match assoc key_eq_dec k (s_kw s) with Some v => Ok v | None => KeyErr end) keys) S)
      (fun vals => Ok (mkEff keys vals (map s_ll S) (map s_lp S) (map s_w S))).

  Fixpoint zip4 (a b c : list V) (d : list (list V)) : list (V * V * V * list V) :=
    match a, b, c, d with
    | x :: a', y :: b', z :: c', u :: d' => (x, y, z, u) :: zip4 a' b' c' d'
    | _, _, _, _ => []
    end.
  Definition eff_samples (fx : bool) (e : eff) : list sample :=
    map (fun q => match q with (ll, lp, w, vals) =>
                    mkSample ll lp w (sample_init fx (dict_of_list key_eq_dec (combine (e_keys e) vals))) end)
        (zip4 (e_ll e) (e_lp e) (e_w e) (e_values e)).

  (* -------------------------------------------------------------- best fit, minimise *)
  Context (gtb : V -> V -> bool).

  (* first strict maximum: `if best is None or x > best` / np.argmax (no NaN) *)
  Fixpoint argmax_from (best : V) (besti i : nat) (l : list V) : nat :=
    match l with
    | [] => besti
    | x :: r => if gtb x best then argmax_from x i (S i) r else argmax_from best besti (S i) r
    end.
  Definition argmax_first (l : list V) : option nat :=
    match l with [] => None | x :: r => Some (argmax_from x 0 1 r) end.

  Definition max_ll_sample (S : list sample) : option sample :=
    match argmax_first (map s_ll S) with Some i => nth_error S i | None => None end.

  (* max_log_likelihood(as_instance=False) *)
  Definition best_vector (tps : list path) (Ws : list (path * nat)) (S : list sample) : res (list V) :=
    match max_ll_sample S with Some s => param_list tps Ws s | None => OtherErr end.

  (* Samples.minimise: list({max_ll_sample, max_log_posterior_sample}); set order is unspecified *)
  Definition minimise_idx (S : list sample) : list nat :=
    match argmax_first (map s_ll S), argmax_first (map (fun s => add (s_ll s) (s_lp s)) S) with
    | Some a, Some b => if Nat.eqb a b then [a] else [a; b]
    | _, _ => []
    end.
  Definition minimise (S : list sample) : list sample :=
    flat_map (fun i => match nth_error S i with Some s => [s] | None => [] end) (minimise_idx S).

  (* -------------------------------------------------------------- round trips: what a reader observes *)
  Definition observed := (list (list V) * list V * list V * list V)%type.   (* parameter lists, ll, lp, w *)
  Definition observe (tps : list path) (Ws : list (path * nat)) (S : list sample) : res observed :=
    res_bind (param_lists tps Ws S) (fun pl => Ok (pl, map s_ll S, map s_lp S, map s_w S)).
  Definition expected (rows : list srow) : observed :=
    (map r_params rows, map r_ll rows, map r_lp rows, map r_w rows).

  Definition csv_roundtrip (fx : bool) (tps : list path) (Ws : list (path * nat)) (S : list sample) : res (list sample) :=
    res_bind (csv_save tps Ws S) (csv_load fx).
  Definition csv_roundtrip_pos (fx : bool) (tps : list path) (Ws : list (path * nat)) (S : list sample) : res (list sample) :=
    res_bind (csv_save tps Ws S) (csv_load_pos fx).
  Definition db_roundtrip (fx : bool) (S : list sample) : res (list sample) :=
    res_bind (eff_of S) (fun e => Ok (eff_samples fx e)).
  Definition json_roundtrip (fx drop0 : bool) (s : sample) : sample := json_load fx drop0 (json_save s).
End Samples.

Arguments sample V : clear implicits.
Arguments srow V : clear implicits.
Arguments eff V : clear implicits.
Arguments observed V : clear implicits.

(* ================================================================ named json rows of a database fit *)
(* Fit.set_json: drop the row(s) with this name, append a new one; Fit.get_json: first row with the name *)
Section Jsons.
  Context {A : Type}.
  Definition set_json (k : string) (v : A) (l : list (string * A)) : list (string * A) :=
    filter (fun p => negb (String.eqb (fst p) k)) l ++ [(k, v)].
  Definition get_json (k : string) (l : list (string * A)) : option A := assoc string_dec k l.
  (* a fit's rows after a history of saves (commits / expiry / re-querying do not change the rows) *)
  Definition run_json (h : list (string * A)) : list (string * A) :=
    fold_left (fun l kv => set_json (fst kv) (snd kv) l) h [].
  Definition json_count (k : string) (l : list (string * A)) : nat :=
    List.length (filter (fun p => String.eqb (fst p) k) l).
End Jsons.

(* ================================================================ one store object used several times *)
(* One paths object (DirectoryPaths: files samples.csv / samples_info.json / samples_summary.json; DatabasePaths: the
   samples row and the named json rows of one Fit) over ANY history of saves and loads through that same object.  The
   state of the store is the named values last written; a load reads the store and leaves it as it is (in particular
   the object keeps nothing from an earlier load).  [run_store] gives what every load of the history returns. *)
Section Store.
  Context {A : Type}.
  Inductive sop : Type := SSave (k : string) (v : A) | SLoad (k : string).
  Fixpoint run_store (l : list (string * A)) (h : list sop) : list (string * option A) :=
    match h with
    | [] => []
    | SSave k v :: h' => run_store (set_json k v l) h'
    | SLoad k :: h' => (k, get_json k l) :: run_store l h'
    end.
  (* the statement: every load returns the value of the last save under its name that precedes it in the history
     (which is also what a fresh reader of the same store gets) *)
  Fixpoint spec_store (past : list (string * A)) (h : list sop) : list (string * option A) :=
    match h with
    | [] => []
    | SSave k v :: h' => spec_store (past ++ [(k, v)]) h'
    | SLoad k :: h' => (k, assoc string_dec k (rev past)) :: spec_store past h'
    end.
  Definition is_save (o : sop) : bool := match o with SSave _ _ => true | SLoad _ => false end.
  Definition saves_of (h : list sop) : list (string * A) :=
    flat_map (fun o => match o with SSave k v => [(k, v)] | SLoad _ => [] end) h.
End Store.
Arguments sop A : clear implicits.

(* ================================================================ correspondence cases (binary64) *)
From Coq Require Import Floats.PrimFloat.
From PAFCommon Require Import PyFloat.
From PAFC09 Require Import Variant.

Definition fsample := sample float.
Definition fid (x : float) : float := x.
Definition fgtb (a b : float) : bool := PrimFloat.ltb b a.
Definition fzero (a : float) : bool := PrimFloat.eqb a 0%float.

Fixpoint list_eqb {A} (eqb : A -> A -> bool) (a b : list A) : bool :=
  match a, b with
  | [], [] => true
  | x :: a', y :: b' => eqb x y && list_eqb eqb a' b'
  | _, _ => false
  end.
Definition res_eqb {A} (eqb : A -> A -> bool) (a b : res A) : bool :=
  match a, b with
  | Ok x, Ok y => eqb x y
  | KeyErr, KeyErr => true
  | OtherErr, OtherErr => true
  | _, _ => false
  end.
Definition key_eqb (a b : key) : bool := if key_eq_dec a b then true else false.
Definition path_eqb (a b : path) : bool := if path_eq_dec a b then true else false.
Definition kv_eqb (a b : key * float) : bool := key_eqb (fst a) (fst b) && fbits_eqb (snd a) (snd b).
Definition sample_eqb (a b : fsample) : bool :=
  fbits_eqb (s_ll a) (s_ll b) && fbits_eqb (s_lp a) (s_lp b) && fbits_eqb (s_w a) (s_w b)
  && list_eqb kv_eqb (s_kw a) (s_kw b).
Definition pn_eqb (a b : path * nat) : bool := path_eqb (fst a) (fst b) && Nat.eqb (snd a) (snd b).

Definition fx := code_is_fixed.
Definition f_csv_load (t : list string * list (list float)) : res (list fsample) :=
  if table_reads_by_position then csv_load_pos fid fx t else csv_load fid fx t.
Definition f_csv_roundtrip (tps : list path) (Ws : list (path * nat)) (S : list fsample) : res (list fsample) :=
  res_bind (csv_save fid PrimFloat.add tps Ws S) f_csv_load.
Definition f_from_lists (t : node) (rows : list (srow float)) : list fsample := from_lists fx (sorted_walk t) rows.
Definition f_param_lists (t : node) (S : list fsample) := param_lists (tuple_paths [] t) (sorted_walk t) S.
Definition f_best (t : node) (S : list fsample) := best_vector fgtb (tuple_paths [] t) (sorted_walk t) S.

(* what a reader of a loaded sample list sees: the samples, the parameter lists, the best-fit vector *)
Definition view_eqb (t : node) (model : res (list fsample))
           (loaded : res (list fsample)) (pl : res (list (list float))) (best : res (list float)) : bool :=
  res_eqb (list_eqb sample_eqb) model loaded
  && match model with
     | Ok sl => res_eqb (list_eqb flist_eqb) (f_param_lists t sl) pl && res_eqb flist_eqb (f_best t sl) best
     | _ => true
     end.

Inductive case :=
(* model queries: path_priors_tuples (paths + creation rank), unique_prior_paths, all_paths, all_names, tuple prior paths *)
| CShape (t : node) (ws : list (path * nat)) (u : list path) (ap : list (list path)) (an : list (list string)) (tps : list path)
(* samples.csv written by save_samples and read back (DirectoryPaths.samples / SearchOutput.samples) *)
| CCsv (t : node) (rows : list (srow float))
       (loaded : res (list fsample)) (pl : res (list (list float))) (best : res (list float))
(* an existing samples.csv (header, cells as read by an independent reader) loaded against a model whose
   priors were re-created (aggregator: model.json), t carries the re-created priors' creation ranks *)
| CLoadCsv (t : node) (headers : list string) (cells : list (list float))
       (loaded : res (list fsample)) (pl : res (list (list float))) (best : res (list float))
(* samples_summary.json: max-likelihood sample and median sample (median vector supplied by numpy) *)
| CSummary (t : node) (rows : list (srow float)) (median : list float)
           (lmax : fsample) (vmax : res (list float)) (lmed : fsample) (vmed : res (list float))
(* one persisted sample of a samples_summary.json (read with the json module only: key strings and values) loaded
   against the model t (same model, or re-created from model.json / the database) *)
| CJsonLoad (t : node) (ll lp w : float) (kw : list (string * float)) (loaded : fsample) (vec : res (list float))
(* a resumed fit: samples.csv loaded, written again and loaded again *)
| CResave (t : node) (rows : list (srow float))
       (loaded : res (list fsample)) (pl : res (list (list float))) (best : res (list float))
(* a directory scraped into a database: samples.csv loaded, stored through EfficientSamples, loaded again *)
| CScrape (t : node) (headers : list string) (cells : list (list float))
       (loaded : res (list fsample)) (pl : res (list (list float))) (best : res (list float))
(* Fit.set_json history (name, token) and, per queried name, what get_json returned and how many rows carry the name *)
| CJsonHist (h : list (string * nat)) (obs : list (string * option nat * nat))
(* one paths object over a history of saves (named tables of binary64 cells: the samples table, the best-fit vector of
   the summary, the samples_info numbers) and loads; obs = what every load of the history returned, in order *)
| CStore (h : list (sop (list (list float)))) (obs : list (string * option (list (list float))))
(* database rows through EfficientSamples; mini = save_all_samples is False; midx = indices kept by minimise (sorted) *)
| CDb (t : node) (rows : list (srow float)) (mini : bool) (midx : list nat)
      (loaded : res (list fsample)) (pl : res (list (list float))) (best : res (list float)).

Fixpoint insert_nat (x : nat) (l : list nat) : list nat :=
  match l with [] => [x] | y :: r => if Nat.leb x y then x :: l else y :: insert_nat x r end.
Definition sort_nat (l : list nat) : list nat := fold_right insert_nat [] l.

Definition check_case (c : case) : bool :=
  match c with
  | CShape t ws u ap an tps =>
      let Ws := sorted_walk t in
      list_eqb pn_eqb Ws ws
      && list_eqb path_eqb (unique_paths Ws) u
      && list_eqb (list_eqb path_eqb) (all_paths Ws) ap
      && list_eqb (list_eqb String.eqb) (all_names (tuple_paths [] t) Ws) an
      && list_eqb path_eqb (tuple_paths [] t) tps
  | CCsv t rows loaded pl best =>
      let S := f_from_lists t rows in
      view_eqb t (f_csv_roundtrip (tuple_paths [] t) (sorted_walk t) S) loaded pl best
  | CLoadCsv t headers cells loaded pl best =>
      view_eqb t (f_csv_load (headers, cells)) loaded pl best
  | CJsonHist h obs =>
      let l := run_json h in
      forallb (fun o => match o with (k, got, n) =>
                 match get_json k l, got with Some a, Some b => Nat.eqb a b | None, None => true | _, _ => false end
                 && Nat.eqb (json_count k l) n end) obs
  | CStore h obs =>
      list_eqb (fun a b => String.eqb (fst a) (fst b)
                           && match snd a, snd b with
                              | Some x, Some y => list_eqb flist_eqb x y
                              | None, None => true
                              | _, _ => false
                              end) (run_store [] h) obs
  | CJsonLoad t ll lp w kw loaded vec =>
      let s := json_load fid fzero fx dict_drops_zero (ll, lp, w, kw) in
      sample_eqb s loaded && res_eqb flist_eqb (param_list (tuple_paths [] t) (sorted_walk t) s) vec
  | CResave t rows loaded pl best =>
      let tps := tuple_paths [] t in
      let Ws := sorted_walk t in
      view_eqb t (res_bind (f_csv_roundtrip tps Ws (f_from_lists t rows)) (f_csv_roundtrip tps Ws)) loaded pl best
  | CScrape t headers cells loaded pl best =>
      (* the scraper first builds Fit(instance=item.instance): the best-fit lookup on the loaded samples must succeed *)
      match f_csv_load (headers, cells) with
      | Ok sl =>
          match f_best t sl with
          | Ok _ => view_eqb t (db_roundtrip fx sl) loaded pl best
          | KeyErr => res_eqb (list_eqb sample_eqb) KeyErr loaded
          | OtherErr => res_eqb (list_eqb sample_eqb) OtherErr loaded
          end
      | KeyErr => res_eqb (list_eqb sample_eqb) KeyErr loaded
      | OtherErr => res_eqb (list_eqb sample_eqb) OtherErr loaded
      end
  | CSummary t rows median lmax vmax lmed vmed =>
      let Ws := sorted_walk t in
      let tps := tuple_paths [] t in
      let S := f_from_lists t rows in
      match max_ll_sample fgtb S with
      | Some m =>
          let m' := json_roundtrip fid fid fzero fx dict_drops_zero m in
          let med := from_row fx Ws (median, s_ll m, s_lp m, s_w m) in
          let med' := json_roundtrip fid fid fzero fx dict_drops_zero med in
          sample_eqb m' lmax && res_eqb flist_eqb (param_list tps Ws m') vmax
          && sample_eqb med' lmed && res_eqb flist_eqb (param_list tps Ws med') vmed
      | None => false
      end
  | CDb t rows mini midx loaded pl best =>
      let S := f_from_lists t rows in
      let P := if mini then minimise PrimFloat.add fgtb S else S in
      (negb mini || list_eqb Nat.eqb (sort_nat (minimise_idx PrimFloat.add fgtb S)) midx)
      && (view_eqb t (db_roundtrip fx P) loaded pl best
          || (mini && view_eqb t (db_roundtrip fx (rev P)) loaded pl best))
  end.
