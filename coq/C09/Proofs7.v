(* C09 proofs, part 7: named json rows of a database fit -- the latest save wins, for every save history. *)
From Coq Require Import List String Ascii Bool Arith PeanoNat Lia.
From PAFC09 Require Import Model Lib.
Import ListNotations.
Open Scope string_scope.
Open Scope list_scope.

Section Jsons.
  Context {A : Type}.

  Lemma assoc_app (k : string) (a b : list (string * A)) :
    assoc string_dec k (a ++ b) = match assoc string_dec k a with Some v => Some v | None => assoc string_dec k b end.
  Proof.
    induction a as [|[k' v'] a IH]; simpl; [reflexivity|].
    destruct (string_dec k k'); [reflexivity|exact IH].
  Qed.

  Lemma assoc_filter_other (k k' : string) (l : list (string * A)) :
    k <> k' -> assoc string_dec k (filter (fun p => negb (String.eqb (fst p) k')) l) = assoc string_dec k l.
  Proof.
    intro N. induction l as [|[k1 v1] l IH]; simpl; [reflexivity|].
    destruct (String.eqb_spec k1 k') as [E|NE]; simpl.
    - subst k1. destruct (string_dec k k'); [contradiction|exact IH].
    - destruct (string_dec k k1); [reflexivity|exact IH].
  Qed.

  Lemma assoc_filter_same (k : string) (l : list (string * A)) :
    assoc string_dec k (filter (fun p => negb (String.eqb (fst p) k)) l) = None.
  Proof.
    induction l as [|[k1 v1] l IH]; simpl; [reflexivity|].
    destruct (String.eqb_spec k1 k) as [E|NE]; simpl; [exact IH|].
    destruct (string_dec k k1); [congruence|exact IH].
  Qed.

  (* one save: the saved name reads back the new value, every other name is untouched *)
  Lemma get_set_json (k k' : string) (v : A) (l : list (string * A)) :
    get_json k (set_json k' v l) = if string_dec k k' then Some v else get_json k l.
  Proof.
    unfold get_json, set_json. rewrite assoc_app. destruct (string_dec k k') as [E|N].
    - subst k'. rewrite assoc_filter_same. simpl. destruct (string_dec k k); [reflexivity|congruence].
    - rewrite (assoc_filter_other k k' l N). destruct (assoc string_dec k l); [reflexivity|].
      simpl. destruct (string_dec k k'); [contradiction|reflexivity].
  Qed.

  Lemma run_json_snoc (h : list (string * A)) (x : string * A) :
    run_json (h ++ [x]) = set_json (fst x) (snd x) (run_json h).
  Proof. unfold run_json. rewrite fold_left_app. reflexivity. Qed.

  (* the value read for a name after ANY history of saves is the value of the LAST save under that name *)
  Theorem json_latest_wins (h : list (string * A)) (k : string) :
    get_json k (run_json h) = assoc string_dec k (rev h).
  Proof.
    induction h as [|[k' v] h IH] using rev_ind; [reflexivity|].
    rewrite run_json_snoc, get_set_json, rev_app_distr. simpl.
    destruct (string_dec k k'); [reflexivity|exact IH].
  Qed.

  Lemma count_filter_other (k k' : string) (l : list (string * A)) :
    k <> k' -> json_count k (filter (fun p => negb (String.eqb (fst p) k')) l) = json_count k l.
  Proof.
    intro N. unfold json_count. induction l as [|[k1 v1] l IH]; simpl; [reflexivity|].
    destruct (String.eqb_spec k1 k') as [E|NE]; simpl.
    - subst k1. destruct (String.eqb_spec k' k); [congruence|exact IH].
    - destruct (String.eqb_spec k1 k); simpl; rewrite IH; reflexivity.
  Qed.

  Lemma count_filter_same (k : string) (l : list (string * A)) :
    json_count k (filter (fun p => negb (String.eqb (fst p) k)) l) = 0.
  Proof.
    unfold json_count. induction l as [|[k1 v1] l IH]; simpl; [reflexivity|].
    destruct (String.eqb_spec k1 k) as [E|NE]; simpl; [exact IH|].
    destruct (String.eqb_spec k1 k); [contradiction|exact IH].
  Qed.

  (* ... and exactly one row carries a name that was ever saved, none otherwise *)
  Theorem json_one_row (h : list (string * A)) (k : string) :
    json_count k (run_json h) = if in_dec string_dec k (map fst h) then 1 else 0.
  Proof.
    induction h as [|[k' v] h IH] using rev_ind; [reflexivity|].
    rewrite run_json_snoc. unfold set_json. simpl fst. simpl snd.
    unfold json_count at 1. rewrite filter_app, app_length. fold (json_count k (filter (fun p => negb (String.eqb (fst p) k')) (run_json h))).
    simpl. destruct (String.eqb_spec k' k) as [E|N].
    - subst k'. rewrite count_filter_same. simpl.
      destruct (in_dec string_dec k (map fst (h ++ [(k, v)]))) as [_|NI]; [reflexivity|].
      exfalso. apply NI. rewrite map_app. apply in_or_app. right. left. reflexivity.
    - rewrite count_filter_other by congruence. rewrite IH. simpl. rewrite Nat.add_0_r.
      destruct (in_dec string_dec k (map fst h)) as [I|NI];
        destruct (in_dec string_dec k (map fst (h ++ [(k', v)]))) as [I'|NI']; try reflexivity.
      + exfalso. apply NI'. rewrite map_app. apply in_or_app. left. exact I.
      + exfalso. rewrite map_app in I'. apply in_app_or in I'. destruct I' as [I'|[E|[]]]; [contradiction|]. simpl in E. congruence.
  Qed.
End Jsons.

(* ---------------------------------------------------------------- one store object, any history of saves and loads *)
Section Store.
  Context {A : Type}.

  (* every load of ANY history of saves and loads through one store returns the value of the last save under its name
     before it -- whatever was loaded or saved earlier through the same object *)
  Theorem store_latest_wins_from (h : list (sop A)) (past : list (string * A)) :
    run_store (run_json past) h = spec_store past h.
  Proof.
    revert past. induction h as [|[k v|k] h IH]; intro past; simpl; [reflexivity| |].
    - rewrite <- IH. rewrite run_json_snoc. reflexivity.
    - rewrite json_latest_wins, IH. reflexivity.
  Qed.

  Theorem store_latest_wins (h : list (sop A)) : run_store [] h = spec_store [] h.
  Proof. exact (store_latest_wins_from h []). Qed.

  Lemma saves_of_app (a b : list (sop A)) : saves_of (a ++ b) = saves_of a ++ saves_of b.
  Proof. unfold saves_of. apply flat_map_app. Qed.

  Lemma spec_store_app (a b : list (sop A)) (past : list (string * A)) :
    spec_store past (a ++ b) = spec_store past a ++ spec_store (past ++ saves_of a) b.
  Proof.
    revert past. induction a as [|[k v|k] a IH]; intro past; simpl.
    - rewrite app_nil_r. reflexivity.
    - rewrite IH, <- app_assoc. reflexivity.
    - rewrite IH. reflexivity.
  Qed.

  (* pointwise form: in a history h1 ++ [load k] ++ h2 the load returns the last value saved under k in h1; the loads
     (and saves) of h1 other than the last save under k do not matter *)
  Theorem store_load_returns_last_save (h1 h2 : list (sop A)) (k : string) :
    run_store [] (h1 ++ SLoad k :: h2)
    = run_store [] h1 ++ (k, assoc string_dec k (rev (saves_of h1))) :: run_store (run_json (saves_of h1)) h2.
  Proof.
    rewrite !store_latest_wins, store_latest_wins_from, spec_store_app. reflexivity.
  Qed.

  (* a load through the used object = a fresh reader of the same store (a reader that never loaded anything) *)
  Theorem store_load_as_fresh_reader (h1 h2 : list (sop A)) (k : string) :
    nth_error (run_store [] (h1 ++ SLoad k :: h2)) (List.length (run_store [] h1))
    = Some (k, get_json k (run_json (saves_of h1))).
  Proof.
    rewrite store_load_returns_last_save, nth_error_app2 by lia.
    rewrite Nat.sub_diag, json_latest_wins. reflexivity.
  Qed.

  (* loads leave the store as it is: dropping every load before a point changes nothing after it *)
  Theorem store_loads_do_not_matter (h1 h2 : list (sop A)) :
    run_store (run_json (saves_of h1)) h2 = run_store (run_json (saves_of (filter is_save h1))) h2.
  Proof.
    f_equal. f_equal. induction h1 as [|[k v|k] h1 IH]; simpl; [reflexivity| |exact IH].
    rewrite IH. reflexivity.
  Qed.
End Store.
