(* C09 proofs, part 5: the property as claims parametrised by a guard on the model shape; minimise. *)
From Coq Require Import List String Ascii Bool Arith PeanoNat Lia.
From PAFC09 Require Import Model Lib Proofs1 Proofs2 Proofs3 Proofs4.
Import ListNotations.
Open Scope string_scope.
Open Scope list_scope.

(* the claims, parametrised by a guard on the model shape *)
Definition csv_claim (fx : bool) (guard : list (path * nat) -> Prop) : Prop :=
  forall (V cell : Type) (fmt : V -> cell) (parse : cell -> V) (add : V -> V -> V),
    (forall v, parse (fmt v) = v) ->
    forall (Ws : list (path * nat)) (tps : list path) (rows : list (srow V)),
      shape_ok Ws -> (all_flat Ws -> names_injective tps Ws) -> guard Ws -> rows_ok Ws rows ->
      res_bind (csv_roundtrip fmt parse add fx tps Ws (from_lists fx Ws rows)) (observe tps Ws) = Ok (expected rows).

Definition summary_claim (fx drop0 : bool) (guard : list (path * nat) -> Prop) : Prop :=
  forall (V cell : Type) (fmt : V -> cell) (parse : cell -> V) (is_zero : V -> bool),
    (forall v, parse (fmt v) = v) ->
    forall (Ws : list (path * nat)) (tps : list path) (r : srow V),
      shape_ok Ws -> (all_flat Ws -> names_injective tps Ws) -> guard Ws -> List.length (r_params r) = List.length (pids Ws) ->
      no_zero is_zero drop0 r ->
      let s := json_roundtrip fmt parse is_zero fx drop0 (from_row fx Ws r) in
      param_list tps Ws s = Ok (r_params r) /\ s_ll s = r_ll r /\ s_lp s = r_lp r /\ s_w s = r_w r.


Lemma csv_partial_claim : csv_claim false (fun Ws => uniform_depth Ws /\ no_reserved Ws).
Proof.
  intros V cell fmt parse add RT Ws tps rows SO HI [HU HR] HRo.
  apply (csv_partial fmt parse add RT Ws tps SO rows); assumption.
Qed.

Lemma csv_fixed_claim : csv_claim true no_reserved.
Proof.
  intros V cell fmt parse add RT Ws tps rows SO HI HR HRo.
  apply (csv_fixed fmt parse add RT Ws tps SO rows); assumption.
Qed.

Lemma csv_nested_claim : forall (fx : bool) (V cell : Type) (fmt : V -> cell) (parse : cell -> V) (add : V -> V -> V),
    (forall v, parse (fmt v) = v) ->
    forall (Ws : list (path * nat)) (tps : list path) (rows : list (srow V)),
      shape_ok Ws -> all_nested Ws -> rows_ok Ws rows ->
      csv_roundtrip fmt parse add fx tps Ws (from_lists fx Ws rows) = Ok (from_lists fx Ws rows).
Proof.
  intros fx V cell fmt parse add RT Ws tps rows SO HN HRo.
  apply (csv_nested_exact fmt parse add RT Ws tps SO fx rows); assumption.
Qed.

Lemma summary_partial_claim (drop0 : bool) : summary_claim false drop0 uniform_depth.
Proof.
  intros V cell fmt parse is_zero RT Ws tps r SO HI HU HL HZ.
  apply (json_partial fmt parse is_zero RT Ws tps SO drop0 r); assumption.
Qed.

Lemma summary_fixed_claim (drop0 : bool) : summary_claim true drop0 (fun _ => True).
Proof.
  intros V cell fmt parse is_zero RT Ws tps r SO HI _ HL HZ. cbv zeta.
  rewrite (json_roundtrip_reloaded fmt parse is_zero RT Ws SO true drop0 r HL HZ).
  split; [apply (reloaded_read_fixed Ws tps SO r HL HI)|]. auto.
Qed.

Lemma db_claim : forall (fx : bool) (V : Type) (Ws : list (path * nat)) (rows : list (srow V)),
    shape_ok Ws -> rows_ok Ws rows -> db_roundtrip fx (from_lists fx Ws rows) = Ok (from_lists fx Ws rows).
Proof. intros fx V Ws rows [ND _] HR. apply db_roundtrip_exact; assumption. Qed.

Lemma memory_claim : forall (fx : bool) (V : Type) (Ws : list (path * nat)) (tps : list path) (rows : list (srow V)),
    shape_ok Ws -> rows_ok Ws rows -> observe tps Ws (from_lists fx Ws rows) = Ok (expected rows).
Proof. intros fx V Ws tps rows [ND _] HR. apply memory_observed; assumption. Qed.

(* ------------------------------------------------------------------ minimise keeps the best-fit sample *)
Section Minimise.
  Context {V : Type} (add : V -> V -> V) (gtb : V -> V -> bool).

  Lemma minimise_keeps_best (S : list (sample V)) (s : sample V) :
    max_ll_sample gtb S = Some s -> In s (minimise add gtb S).
  Proof.
    unfold max_ll_sample, minimise, minimise_idx.
    destruct S as [|s0 S']; [simpl; discriminate|].
    destruct (argmax_first gtb (map s_ll (s0 :: S'))) as [a|] eqn:Ea; [|discriminate].
    destruct (argmax_first gtb (map (fun s1 : sample V => add (s_ll s1) (s_lp s1)) (s0 :: S'))) as [b|] eqn:Eb;
      [|simpl in Eb; discriminate].
    intro Hn. destruct (Nat.eqb a b); simpl; rewrite Hn; simpl; auto.
  Qed.
End Minimise.
