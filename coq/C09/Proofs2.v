(* C09 proofs, part 2: samples built by from_lists, read back in memory, from the database form,
   from the csv table and from the summary JSON. *)
From Coq Require Import List String Ascii Bool Arith PeanoNat Lia Permutation.
From PAFC09 Require Import Model Lib Proofs1.
Import ListNotations.
Open Scope string_scope.
Open Scope list_scope.

(* ------------------------------------------------------------------ hypotheses on a model shape *)
(* attribute names are non-empty paths of "."-free strings *)
Definition names_ok (Ws : list (path * nat)) : Prop :=
  forall p i, In (p, i) Ws -> p <> [] /\ Forall dotfree p.
Definition shape_ok (Ws : list (path * nat)) : Prop := NoDup (map fst Ws) /\ names_ok Ws.
Definition all_nested (Ws : list (path * nat)) : Prop := forall p, In p (unique_paths Ws) -> 2 <= List.length p.
Definition all_flat (Ws : list (path * nat)) : Prop := forall p, In p (unique_paths Ws) -> List.length p = 1.
Definition uniform_depth (Ws : list (path * nat)) : Prop := all_nested Ws \/ all_flat Ws.
(* no parameter is stored under the name of a reserved column / constructor argument *)
Definition no_reserved (Ws : list (path * nat)) : Prop :=
  forall p, In p (unique_paths Ws) -> ~ In (join_dot p) not_kwargs.
(* different priors never share a name (dotted path with the tuple-prior name removed) *)
Definition names_injective (tps : list path) (Ws : list (path * nat)) : Prop :=
  forall p q i j, In (p, i) Ws -> In (q, j) Ws -> name_of tps p = name_of tps q -> i = j.

Lemma unique_path_names (Ws : list (path * nat)) (p : path) :
  names_ok Ws -> In p (unique_paths Ws) -> p <> [] /\ Forall dotfree p.
Proof.
  intros HN H. apply unique_path_in_walk in H. destruct H as [i [_ [_ H]]]. eapply HN; eauto.
Qed.

Lemma not_kwargs_dotfree (s : string) : In s not_kwargs -> contains_dot s = false.
Proof.
  unfold not_kwargs. simpl. intros [H|[H|[H|[H|[H|[H|[]]]]]]]; subst; reflexivity.
Qed.

Lemma nested_no_reserved (Ws : list (path * nat)) : all_nested Ws -> no_reserved Ws.
Proof.
  intros HN p Hp HI. apply not_kwargs_dotfree in HI.
  rewrite (contains_dot_join_nested p (HN p Hp)) in HI. discriminate.
Qed.

Lemma name_of_single (tps : list path) (p : path) : List.length p = 1 -> name_of tps p = join_dot p.
Proof.
  destruct p as [|a [|b r]]; simpl; try discriminate. intros _.
  unfold name_of, path_modifier. simpl. destruct (mem path_eq_dec [] tps); reflexivity.
Qed.

Lemma NoDup_map_inj {A B} (f : A -> B) (l : list A) :
  (forall x y, In x l -> In y l -> f x = f y -> x = y) -> NoDup l -> NoDup (map f l).
Proof.
  induction l as [|x l IH]; simpl; intros Hinj ND; [constructor|].
  inversion ND as [|? ? Hn ND']; subst. constructor.
  - intro HI. apply in_map_iff in HI. destruct HI as [y [E Hy]].
    assert (y = x) by (apply Hinj; [right; exact Hy|left; reflexivity|exact E]). subst. contradiction.
  - apply IH; [|exact ND']. intros. apply Hinj; try (right; assumption). assumption.
Qed.

Lemma NoDup_map_KTup (l : list path) : NoDup l -> NoDup (map KTup l).
Proof. apply NoDup_map_inj. intros x y _ _ E. inversion E. reflexivity. Qed.

Section Samples.
  Context {V : Type}.
  Notation sample := (sample V).

  (* ---------------------------------------------------------------- Sample.__init__ *)
  Lemma sample_init_tup (fx : bool) (kw : list (key * V)) :
    (forall k, In k (map fst kw) -> exists p, k = KTup p) -> NoDup (map fst kw) -> sample_init fx kw = kw.
  Proof.
    intros Ht ND. unfold sample_init.
    set (mode := fx && existsb (fun kv => key_is_path (fst kv)) kw).
    assert (E : map (fun kv : key * V => (norm_key mode (fst kv), snd kv)) kw = kw).
    { rewrite <- (map_id kw) at 2. apply map_ext_in. intros [k v] Hin. simpl.
      destruct (Ht k) as [p Hp]; [apply in_map_iff; exists (k, v); split; [reflexivity|exact Hin]|].
      subst. reflexivity. }
    rewrite E. apply dict_of_list_nodup. exact ND.
  Qed.

  Lemma tup_keys (U : list path) (vals : list V) (k : key) :
    In k (map fst (combine (map KTup U) vals)) -> exists p, k = KTup p.
  Proof.
    intro H. apply in_map_iff in H. destruct H as [[k' v] [E H]]. simpl in E. subst k'.
    apply in_combine_l in H. apply in_map_iff in H. destruct H as [p [E _]]. exists p. symmetry. exact E.
  Qed.

  Section Shape.
    Variable Ws : list (path * nat).
    Variable tps : list path.
    Hypothesis ND : NoDup (map fst Ws).
    Let U := unique_paths Ws.

    Lemma tup_kw_nodup (vals : list V) :
      List.length vals = List.length (pids Ws) -> NoDup (map fst (combine (map KTup U) vals)).
    Proof.
      intro HL. rewrite map_fst_combine.
      - apply NoDup_map_KTup. apply unique_paths_nodup. exact ND.
      - rewrite map_length. unfold U. rewrite unique_paths_length. lia.
    Qed.

    (* Sample.from_lists *)
    Lemma from_row_kw (fx : bool) (r : srow V) :
      List.length (r_params r) = List.length (pids Ws) ->
      s_kw (from_row fx Ws r) = combine (map KTup U) (r_params r).
    Proof.
      intro HL. unfold from_row. simpl.
      rewrite (dict_of_list_nodup key_eq_dec) by (apply tup_kw_nodup; exact HL).
      apply sample_init_tup; [apply tup_keys|apply tup_kw_nodup; exact HL].
    Qed.

    (* reading a sample whose keys are the unique paths as tuples *)
    Lemma param_list_tup_kw (ll lp w : V) (vals : list V) :
      List.length vals = List.length (pids Ws) ->
      param_list tps Ws (mkSample ll lp w (combine (map KTup U) vals)) = Ok vals.
    Proof.
      intro HL. unfold param_list. simpl s_kw.
      assert (EU : map KTup U = map (fun i => KTup (upath i Ws)) (pids Ws)).
      { unfold U, unique_paths. rewrite map_map. reflexivity. }
      rewrite EU. unfold groups_for.
      destruct (pids Ws) as [|i0 l0] eqn:EP.
      - destruct vals; [|discriminate]. simpl. unfold all_names, all_paths. rewrite EP. reflexivity.
      - destruct vals as [|v0 vals']; [discriminate|].
        change (is_path_kwargs (combine (map (fun i => KTup (upath i Ws)) (i0 :: l0)) (v0 :: vals'))) with true.
        cbv iota. unfold all_paths. rewrite EP, map_map. rewrite <- EP in *.
        apply lookup_groups_ok.
        + exact HL.
        + apply pids_nodup.
        + intros i Hi. apply in_map. apply upath_in_group. exact Hi.
        + intros i j Hi Hj H. apply in_map_iff in H. destruct H as [q [E Hq]]. inversion E; subst q.
          eapply group_disjoint; [exact ND|exact Hq|apply upath_in_group; exact Hj].
    Qed.

    (* reading a sample whose keys are plain strings (every unique path has one element): names are tried *)
    Lemma param_list_str_kw (ll lp w : V) (vals : list V) :
      all_flat Ws -> names_injective tps Ws ->
      List.length vals = List.length (pids Ws) ->
      param_list tps Ws (mkSample ll lp w (combine (map (fun p => KStr (join_dot p)) U) vals)) = Ok vals.
    Proof.
      intros HF HI HL. unfold param_list. simpl s_kw.
      assert (EU : map (fun p => KStr (join_dot p)) U = map (fun i => KStr (join_dot (upath i Ws))) (pids Ws)).
      { unfold U, unique_paths. rewrite map_map. reflexivity. }
      rewrite EU. unfold groups_for.
      assert (Hnp : is_path_kwargs (combine (map (fun i => KStr (join_dot (upath i Ws))) (pids Ws)) vals) = false).
      { destruct (pids Ws); [reflexivity|]. destruct vals; reflexivity. }
      rewrite Hnp. unfold all_names. rewrite map_map.
      apply lookup_groups_ok with (grp := fun i => map KStr (map (name_of tps) (group i Ws))).
      - exact HL.
      - apply pids_nodup.
      - intros i Hi. apply in_map. apply in_map_iff. exists (upath i Ws). split.
        + apply name_of_single. apply HF. unfold unique_paths. apply (in_map (fun i => upath i Ws)). exact Hi.
        + apply upath_in_group. exact Hi.
      - intros i j Hi Hj H. apply in_map_iff in H. destruct H as [s [E Hs]]. inversion E; subst s.
        apply in_map_iff in Hs. destruct Hs as [q [Eq Hq]].
        apply (HI q (upath j Ws) i j).
        + apply group_in. exact Hq.
        + apply upath_in_walk. exact Hj.
        + rewrite Eq. symmetry. apply name_of_single. apply HF. unfold unique_paths. apply (in_map (fun i => upath i Ws)). exact Hj.
    Qed.

    (* ---------------------------------------------------------------- in memory *)
    Definition rows_ok (rows : list (srow V)) : Prop :=
      forall r, In r rows -> List.length (r_params r) = List.length (pids Ws).

    Lemma from_row_eq (fx : bool) (r : srow V) :
      List.length (r_params r) = List.length (pids Ws) ->
      from_row fx Ws r = mkSample (r_ll r) (r_lp r) (r_w r) (combine (map KTup U) (r_params r)).
    Proof.
      intro HL. assert (H := from_row_kw fx r HL). unfold from_row in *. simpl in *. rewrite H. reflexivity.
    Qed.

    Lemma param_list_from_row (fx : bool) (r : srow V) :
      List.length (r_params r) = List.length (pids Ws) -> param_list tps Ws (from_row fx Ws r) = Ok (r_params r).
    Proof. intro HL. rewrite from_row_eq by exact HL. apply param_list_tup_kw. exact HL. Qed.

    Lemma observe_of (S : list sample) (rows : list (srow V)) :
      Forall2 (fun s r => param_list tps Ws s = Ok (r_params r) /\ s_ll s = r_ll r /\ s_lp s = r_lp r /\ s_w s = r_w r) S rows ->
      observe tps Ws S = Ok (expected rows).
    Proof.
      intro H. unfold observe, param_lists, expected.
      assert (E : traverse (param_list tps Ws) S = Ok (map r_params rows) /\ map s_ll S = map r_ll rows
                  /\ map s_lp S = map r_lp rows /\ map s_w S = map r_w rows).
      { induction H as [|s r S' rows' Hsr _ IH].
        - simpl. auto.
        - destruct Hsr as [Hp [H1 [H2 H3]]]. destruct IH as [I0 [I1 [I2 I3]]]. simpl.
          rewrite Hp, I0, H1, H2, H3, I1, I2, I3. auto. }
      destruct E as [E0 [E1 [E2 E3]]]. rewrite E0. simpl. rewrite E1, E2, E3. reflexivity.
    Qed.

    Lemma Forall2_map_l {A B C} (P : B -> C -> Prop) (f : A -> B) (l : list A) (m : list C) :
      Forall2 (fun x y => P (f x) y) l m -> Forall2 P (map f l) m.
    Proof. induction 1; simpl; constructor; assumption. Qed.

    Lemma Forall2_same {A} (P : A -> A -> Prop) (l : list A) : (forall x, In x l -> P x x) -> Forall2 P l l.
    Proof.
      induction l as [|x l IH]; intro H; constructor; [apply H; left; reflexivity|].
      apply IH. intros. apply H. right. assumption.
    Qed.

    Theorem memory_observed (fx : bool) (rows : list (srow V)) :
      rows_ok rows -> observe tps Ws (from_lists fx Ws rows) = Ok (expected rows).
    Proof.
      intro HR. apply observe_of. unfold from_lists. apply Forall2_map_l. apply Forall2_same.
      intros r Hr. split; [apply param_list_from_row; apply HR; exact Hr|]. auto.
    Qed.

    (* ---------------------------------------------------------------- database (EfficientSamples) *)
    Lemma zip4_map (S : list sample) (vals : list (list V)) :
      List.length vals = List.length S ->
      zip4 (map s_ll S) (map s_lp S) (map s_w S) vals
      = map (fun sv => (s_ll (fst sv), s_lp (fst sv), s_w (fst sv), snd sv)) (combine S vals).
    Proof.
      revert vals. induction S as [|s S IH]; intros [|v vals] HL; simpl in *; try discriminate; [reflexivity|].
      f_equal. apply IH. lia.
    Qed.

    Lemma combine_map_self {A B} (g : A -> B) (l : list A) : combine l (map g l) = map (fun x => (x, g x)) l.
    Proof. induction l as [|x l IH]; simpl; [reflexivity|]. rewrite IH. reflexivity. Qed.

    Lemma assoc_combine_all (keys : list key) (vals : list V) :
      NoDup keys -> List.length keys = List.length vals ->
      traverse (fun k => match assoc key_eq_dec k (combine keys vals) with Some v => Ok v | None => KeyErr end) keys = Ok vals.
    Proof.
      intros NDk HL. apply traverse_Forall2. apply Forall2_combine; [exact HL|].
      intros k v H. rewrite (assoc_in key_eq_dec k v); [reflexivity| |exact H].
      rewrite map_fst_combine; assumption.
    Qed.

    Theorem db_roundtrip_exact (fx : bool) (rows : list (srow V)) :
      rows_ok rows -> db_roundtrip fx (from_lists fx Ws rows) = Ok (from_lists fx Ws rows).
    Proof.
      intro HR. unfold db_roundtrip, eff_of.
      set (S := from_lists fx Ws rows).
      set (keys := match S with [] => [] | s :: _ => map fst (s_kw s) end).
      assert (HS : forall s, In s S -> exists r, In r rows /\ s = mkSample (r_ll r) (r_lp r) (r_w r) (combine (map KTup U) (r_params r))
                                           /\ List.length (r_params r) = List.length (pids Ws)).
      { intros s Hs. unfold S, from_lists in Hs. apply in_map_iff in Hs. destruct Hs as [r [E Hr]].
        exists r. split; [exact Hr|]. split; [|apply HR; exact Hr]. rewrite <- E. apply from_row_eq. apply HR. exact Hr. }
      assert (HUlen : List.length (map KTup U) = List.length (pids Ws)).
      { rewrite map_length. unfold U. apply unique_paths_length. }
      assert (Hkeys : S <> [] -> keys = map KTup U).
      { unfold keys. destruct S as [|s S'] eqn:ES; [congruence|]. intros _.
        destruct (HS s (or_introl eq_refl)) as [r [_ [E HL]]]. rewrite E. simpl.
        apply map_fst_combine. lia. }
      assert (Hvals : traverse (fun s => traverse (fun k => match assoc key_eq_dec k (s_kw s) with Some v => Ok v | None => KeyErr end) keys) S
                      = Ok (map (fun s => map snd (s_kw s)) S)).
      { apply traverse_map_ok. intros s Hs. destruct (HS s Hs) as [r [_ [E HL]]].
        assert (Hne : S <> []) by (intro N; rewrite N in Hs; contradiction).
        rewrite (Hkeys Hne). rewrite E. simpl s_kw.
        rewrite map_snd_combine by lia.
        apply assoc_combine_all; [|lia].
        apply NoDup_map_KTup. apply unique_paths_nodup. exact ND. }
      rewrite Hvals. simpl. f_equal. unfold eff_samples. simpl.
      rewrite zip4_map by (rewrite map_length; reflexivity).
      rewrite combine_map_self, !map_map. simpl.
      rewrite <- (map_id S) at 2. apply map_ext_in. intros s Hs.
      destruct (HS s Hs) as [r [_ [E HL]]].
      assert (Hne : S <> []) by (intro N; rewrite N in Hs; contradiction).
      rewrite (Hkeys Hne). rewrite E. simpl.
      rewrite map_snd_combine by lia.
      rewrite (dict_of_list_nodup key_eq_dec) by (apply tup_kw_nodup; exact HL).
      rewrite sample_init_tup; [reflexivity|apply tup_keys|apply tup_kw_nodup; exact HL].
    Qed.
  End Shape.
End Samples.
