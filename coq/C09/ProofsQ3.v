(* C09 extension: summary statistics survive persistence -- corollaries of the round-trip theorems.
   Everything that is a function of what a reader observes (parameter lists, log-likelihoods, log-priors, weights)
   is the same after a reload; median_pdf / values_at_sigma / errors_at_sigma are such functions (Stats.v). *)
From Coq Require Import List String Bool Arith.
From PAFC09 Require Import Model Lib Proofs1 Proofs2 Proofs3 Proofs4 Proofs5 Proofs6 Proofs8 Quantile Stats.
Import ListNotations.
Open Scope list_scope.

Lemma res_bind_assoc : forall (A B C : Type) (r : res A) (f : A -> res B) (g : B -> res C),
  res_bind (res_bind r f) g = res_bind r (fun a => res_bind (f a) g).
Proof. intros A B C [a| |] f g; reflexivity. Qed.

Section Derived.
  Context {V A : Type} (F : observed V -> A).

  (* a statistic of a sample list read against a model *)
  Definition derived (tps : list path) (Ws : list (path * nat)) (S : list (sample V)) : res A :=
    res_bind (observe tps Ws S) (fun o => Ok (F o)).

  (* equal observed lists, equal statistic *)
  Lemma derived_same_observed : forall tps Ws (S1 S2 : list (sample V)),
    observe tps Ws S1 = observe tps Ws S2 -> derived tps Ws S1 = derived tps Ws S2.
  Proof. intros tps Ws S1 S2 H. unfold derived. rewrite H. reflexivity. Qed.

  Lemma derived_survive_csv {cell : Type} (fmt : V -> cell) (parse : cell -> V) (add : V -> V -> V) :
    (forall v, parse (fmt v) = v) ->
    forall (t : node) (rows : list (srow V)),
      wf_root t ->
      (all_flat (sorted_walk t) -> names_injective (tuple_paths [] t) (sorted_walk t)) ->
      rows_ok (sorted_walk t) rows ->
      res_bind (csv_roundtrip_pos fmt parse add true (tuple_paths [] t) (sorted_walk t) (from_lists true (sorted_walk t) rows))
               (derived (tuple_paths [] t) (sorted_walk t))
      = derived (tuple_paths [] t) (sorted_walk t) (from_lists true (sorted_walk t) rows)
      /\ derived (tuple_paths [] t) (sorted_walk t) (from_lists true (sorted_walk t) rows) = Ok (F (expected rows)).
  Proof.
    intros RT t rows Hwf HI HRo.
    pose proof (tree_csv_by_position fmt parse add RT t rows Hwf HI HRo) as Hcsv.
    pose proof (memory_claim true V (sorted_walk t) (tuple_paths [] t) rows (wf_shape_ok t Hwf) HRo) as Hmem.
    assert (E : derived (tuple_paths [] t) (sorted_walk t) (from_lists true (sorted_walk t) rows) = Ok (F (expected rows))).
    { unfold derived. rewrite Hmem. reflexivity. }
    split; [|exact E]. rewrite E. unfold derived.
    rewrite <- (res_bind_assoc _ _ _ _ (observe (tuple_paths [] t) (sorted_walk t)) (fun o => Ok (F o))).
    rewrite Hcsv. reflexivity.
  Qed.

  Lemma derived_survive_db (add : V -> V -> V) (gtb : V -> V -> bool) :
    forall (t : node) (rows : list (srow V)),
      wf_root t -> rows_ok (sorted_walk t) rows ->
      let S := from_lists true (sorted_walk t) rows in
      res_bind (db_roundtrip true S) (derived (tuple_paths [] t) (sorted_walk t)) = derived (tuple_paths [] t) (sorted_walk t) S
      /\ res_bind (db_roundtrip true (minimise add gtb S)) (derived (tuple_paths [] t) (sorted_walk t))
         = derived (tuple_paths [] t) (sorted_walk t) (minimise add gtb S).
  Proof.
    intros t rows Hwf HRo. cbv zeta.
    destruct (tree_db add t gtb rows Hwf HRo) as [H1 [H2 _]]. cbv zeta in H1, H2.
    rewrite H1, H2. split; reflexivity.
  Qed.
End Derived.

(* the summary statistics are such a function *)
Section StatsSurvive.
  Context {V : Type}.
  Context (add sub mul div : V -> V -> V) (leb ltb eqb : V -> V -> bool) (isnan : V -> bool) (zero one c99 half : V).
  Context (gtb : V -> V -> bool) (q1lo q1hi q3lo q3hi : V) (ucs : nat) (arrange : nat -> list (V * V) -> list (V * V)).

  Let SS := sample_stats add sub mul div leb ltb eqb isnan zero one c99 half gtb q1lo q1hi q3lo q3hi ucs arrange.
  Let SO := stats_observed add sub mul div leb ltb eqb isnan zero one c99 half gtb q1lo q1hi q3lo q3hi ucs arrange.

  Lemma sample_stats_derived : forall tps Ws S, SS tps Ws S = derived SO tps Ws S.
  Proof. reflexivity. Qed.

  Lemma stats_same_observed : forall tps Ws (S1 S2 : list (sample V)),
    observe tps Ws S1 = observe tps Ws S2 -> SS tps Ws S1 = SS tps Ws S2.
  Proof. intros. rewrite !sample_stats_derived. now apply derived_same_observed. Qed.

  Lemma stats_survive_csv {cell : Type} (fmt : V -> cell) (parse : cell -> V) :
    (forall v, parse (fmt v) = v) ->
    forall (t : node) (rows : list (srow V)),
      wf_root t ->
      (all_flat (sorted_walk t) -> names_injective (tuple_paths [] t) (sorted_walk t)) ->
      rows_ok (sorted_walk t) rows ->
      res_bind (csv_roundtrip_pos fmt parse add true (tuple_paths [] t) (sorted_walk t) (from_lists true (sorted_walk t) rows))
               (SS (tuple_paths [] t) (sorted_walk t))
      = SS (tuple_paths [] t) (sorted_walk t) (from_lists true (sorted_walk t) rows)
      /\ SS (tuple_paths [] t) (sorted_walk t) (from_lists true (sorted_walk t) rows) = Ok (SO (expected rows)).
  Proof. intros RT t rows Hwf HI HRo. exact (derived_survive_csv SO fmt parse add RT t rows Hwf HI HRo). Qed.

  Lemma stats_survive_db :
    forall (t : node) (rows : list (srow V)),
      wf_root t -> rows_ok (sorted_walk t) rows ->
      let S := from_lists true (sorted_walk t) rows in
      res_bind (db_roundtrip true S) (SS (tuple_paths [] t) (sorted_walk t)) = SS (tuple_paths [] t) (sorted_walk t) S
      /\ res_bind (db_roundtrip true (minimise add gtb S)) (SS (tuple_paths [] t) (sorted_walk t))
         = SS (tuple_paths [] t) (sorted_walk t) (minimise add gtb S).
  Proof. intros t rows Hwf HRo. exact (derived_survive_db SO add gtb t rows Hwf HRo). Qed.
End StatsSurvive.
