(* C04: the STATEMENT-LEVEL translations of Gen.v (Fitness_call, FitnessPySwarms_call) instantiated at the
   abstract inputs of the hand-written model (Model.v), so that both can be run side by side
   (correspondence: check_case_gen) and proved equal (ProofsGen.v: Gen_call_eq_model, Gen_ps_call_eq_model).

   Instantiation of the named Section variables of Gen.v -- this table IS the abstraction boundary:
     Obj                       a reference to a caller buffer (PRef b) or a vector value (PVal v)       [pentry]
     Inst                      the instance, flattened to its slot values                              [list V]
     Exc                       the model's exceptions + UnboundLocalError                              [gexn]
     copy_copy o               the value of o at the moment of the call                                 PVal (deref h o)
     self_model_instance_from_vector          Model.instance_from_vector on the buffer's contents
     self_log_likelihood_function / self_analysis_log_likelihood_function      the likelihood L (FitException = LRaise)
     self_model_log_prior_list_from_vector    Model.lp_list: k-th prior on k-th entry
     py_sum / np_isnan / leaves               the fields of `num V` (n_sum, n_isnan, f_like, f_post, f_chi2, p_post, p_fom, p_res)
     self_* configuration                     fl_like, fl_chi2, fl_store, r
     decorator_timeout                        identity   (trusted: lh_timeout_seconds is empty, timeout(None) does not limit)
     batch_of_parameters                      identity on a list of vectors (OCall b = [b], OBatch bs = bs)
     np_asarray                               identity
     np_nan                                   a value nanv with n_isnan nanv = true (hypothesis of the pyswarms theorem)
     exc_UnboundLocalError                    GUnbound (proved unreachable) *)
From Coq Require Import ZArith List Bool PeanoNat.
From Coq Require Import Floats.PrimFloat.
From PAFCommon Require Import PyFloat Lists.
From PAFC04 Require Import PyStmt Gen Model.
Import ListNotations.

Inductive gexn := GE (e : exn) | GUnbound.
Definition is_fit (e : gexn) : bool := match e with GE EFit => true | _ => false end.

Section Inst.
Context {V : Type} (N : num V).
Variables (m : @model V) (L : @lik V) (lp : @lprior V) (fl : flags) (r : V).

Definition deref_obj (h : list (list V)) (o : @pentry V) : list V :=
  match o with PRef b => buf h b | PVal v => v end.
Definition ifv_call (h : list (list V)) (o : @pentry V) : list V + gexn :=
  match instance_from_vector N m (deref_obj h o) with inl i => inl i | inr e => inr (GE e) end.
Definition lik_call (inst : list V) : V + gexn :=
  match L inst with LRet ll _ => inl ll | LRaise => inr (GE EFit) end.

(* Fitness.__call__ as translated from the source *)
Definition gen_fitness_call (h : list (list V)) :
    @pentry V -> hists (@pentry V) V -> result V gexn * hists (@pentry V) V :=
  Fitness_call (V := V) (Obj := @pentry V) (Inst := list V) (Exc := gexn)
    (copy_copy := fun o => PVal (deref_obj h o))
    (decorator_timeout := fun f => f)
    (exc_is_FitException := is_fit)
    (fit_chi2 := f_chi2 N) (fit_likelihood := f_like N) (fit_posterior := f_post N)
    (np_isnan := n_isnan N) (py_sum := n_sum N)
    (self_convert_to_chi_squared := fl_chi2 fl) (self_fom_is_log_likelihood := fl_like fl)
    (self_log_likelihood_function := lik_call)
    (self_model_instance_from_vector := ifv_call h)
    (self_model_log_prior_list_from_vector := fun o => lp_list lp 0 (deref_obj h o))
    (self_resample_figure_of_merit := r) (self_store_history := fl_store fl).

(* FitnessPySwarms.__call__ as translated from the source *)
Definition gen_ps_call (nanv : V) (h : list (list V)) :
    list (@pentry V) -> hists (@pentry V) V -> result (list V) gexn * hists (@pentry V) V :=
  FitnessPySwarms_call (V := V) (Obj := @pentry V) (Inst := list V) (Exc := gexn) (Params := list (@pentry V))
    (batch_of_parameters := fun l => l)
    (copy_copy := fun o => PVal (deref_obj h o))
    (exc_UnboundLocalError := GUnbound)
    (exc_is_FitException := is_fit)
    (np_asarray := fun l => l)
    (np_isnan := n_isnan N) (np_nan := nanv)
    (ps_fom := p_fom N) (ps_posterior := p_post N) (ps_resample := p_res N)
    (py_sum := n_sum N)
    (self_analysis_log_likelihood_function := lik_call)
    (self_model_instance_from_vector := ifv_call h)
    (self_model_log_prior_list_from_vector := fun o => lp_list lp 0 (deref_obj h o))
    (self_resample_figure_of_merit := r) (self_store_history := fl_store fl).

(* the fitness object's two history lists <-> the model's list of pairs *)
Definition hists_of (l : list (@pentry V * V)) : hists (@pentry V) V :=
  {| h_params := map fst l; h_lls := map snd l |}.
Definition hist_of (g : hists (@pentry V) V) : list (@pentry V * V) := combine (h_params g) (h_lls g).

(* what the harness can observe of an exception: AssertionError or "something else" (printed as EFit) *)
Definition exn_of (e : gexn) : exn := match e with GE e => e | GUnbound => EFit end.
Definition res_of (o : result V gexn) : @res V :=
  match o with Ret v => Returned v | Exn e => Escaped (exn_of e) end.
Definition res_list_of (o : result (list V) gexn) : list (@res V) :=
  match o with Ret l => map Returned l | Exn e => [Escaped (exn_of e)] end.

(* one operation, with the call itself taken from the translated source *)
Definition gen_step (st : @state V) (o : @op V) : @state V * list (@res V) :=
  match o with
  | OCall b =>
      let '(out, g) := gen_fitness_call (heap st) (PRef b) (hists_of (hist st)) in
      ({| heap := heap st; hist := hist_of g |}, [res_of out])
  | _ => step N current_impl m L lp fl r st o
  end.

Definition gen_step_ps (nanv : V) (st : @state V) (o : @op V) : @state V * list (@res V) :=
  match o with
  | OCall b =>
      let '(out, g) := gen_ps_call nanv (heap st) [PRef b] (hists_of (hist st)) in
      ({| heap := heap st; hist := hist_of g |}, res_list_of out)
  | OBatch bs =>
      let '(out, g) := gen_ps_call nanv (heap st) (map PRef bs) (hists_of (hist st)) in
      ({| heap := heap st; hist := hist_of g |}, res_list_of out)
  | _ => step_ps N current_impl m L lp fl r st o
  end.

Definition run_gen (nanv : V) (pyswarms : bool) := run_with (if pyswarms then gen_step_ps nanv else gen_step).
End Inst.

(* ---------- correspondence: the translated source, run on the same cases as the hand model ---------- *)
Definition model_run_gen (c : case) :=
  match c with
  | CSeq ps fl r m s tab sumtab heap0 ops _ _ =>
      let '(st, outs) := run_gen (numF sumtab) m (run_script s) (table_lp tab) fl r nan ps
                                 {| heap := heap0; hist := [] |} ops in
      (false, outs, view st)
  | CCtor fl r m s tab sumtab heap0 pbuf ops _ _ _ =>
      match construct (numF sumtab) current_impl m (run_script s) (table_lp tab) fl r impl_ctor_via_call impl_ctor_history_late
                      (fresh0 heap0) pbuf with
      | None => (true, [], [])
      | Some st0 =>
          let '(st, outs) := run_gen (numF sumtab) m (run_script s) (table_lp tab) fl r nan false st0 ops in
          (false, outs, view st)
      end
  end.
Definition check_case_gen (c : case) : bool :=
  match c with
  | CSeq _ _ _ _ _ _ _ _ _ obs_out obs_hist =>
      let '(_, outs, h) := model_run_gen c in
      list_eqb (list_eqb res_eqb) outs obs_out && hist_eqb h obs_hist
  | CCtor _ _ _ _ _ _ _ _ _ obs_raised obs_out obs_hist =>
      let '(raised, outs, h) := model_run_gen c in
      Bool.eqb raised obs_raised && list_eqb (list_eqb res_eqb) outs obs_out && hist_eqb h obs_hist
  end.
(* both at once: the hand-written model and the translated source against the observables *)
Definition check_case_both (c : case) : bool := check_case c && check_case_gen c.
