(* C04 model: the figure of merit handed to a search (Fitness.__call__, FitnessPySwarms.__call__).
   Executable definitions only; proofs are in Proofs.v.

   The arithmetic leaves (likelihood / posterior / chi-squared conversion / pyswarms resample value)
   and the five implementation traits (does the history keep the caller's buffer by reference, is the
   chi-squared conversion performed in place, does the pyswarms fitness record a history, are the history
   lists created only after the constructor's sanity evaluation, does that evaluation go through __call__) are
   REGENERATED from /repo into Gen.v on every run; everything here is written over an abstract
   number type so that the same definitions run bit-exactly on binary64 (correspondence) and on
   exact rationals (theorems about the meaning of the formulas). *)
From Coq Require Import ZArith QArith List Bool PeanoNat.
From Coq Require Import Floats.PrimFloat.
From PAFCommon Require Import PyFloat Lists.
From PAFC04 Require Import Gen.
Import ListNotations.

(* ---------- numbers ---------- *)
Record num (V : Type) : Type := {
  n_zero : V;                      (* default of out-of-range reads; never observable *)
  n_sum : list V -> V;             (* the interpreter's builtin sum() on a list of numbers (external: CPython 3.12
                                      sums exact floats with Neumaier compensation, numpy scalars naively) *)
  n_leb : V -> V -> bool;          (* <= of limit checks and non-strict assertions *)
  n_ltb : V -> V -> bool;          (* <  of strict assertions *)
  n_isnan : V -> bool;             (* np.isnan *)
  f_like : V -> V;                 (* Gen: figure_of_merit = log_likelihood *)
  f_post : V -> V -> V;            (* Gen: log_likelihood + sum(log_prior_list) *)
  f_chi2 : V -> V;                 (* Gen: figure_of_merit *= -2.0 *)
  p_post : V -> V -> V;            (* Gen (pyswarms): log_likelihood + sum(log_prior) *)
  p_fom : V -> V;                  (* Gen (pyswarms): -2.0 * log_posterior *)
  p_res : V -> V                   (* Gen (pyswarms): -2.0 * self.resample_figure_of_merit *)
}.
Arguments n_zero {V}. Arguments n_sum {V}. Arguments n_leb {V}. Arguments n_ltb {V}.
Arguments n_isnan {V}. Arguments f_like {V}. Arguments f_post {V}. Arguments f_chi2 {V}.
Arguments p_post {V}. Arguments p_fom {V}. Arguments p_res {V}.

(* builtin sum() as a finite oracle table computed by the driver with the interpreter's own sum()
   on the log-prior terms obtained directly from the prior objects; a missing entry is nan *)
Fixpoint lookup_sum (t : list (list float * float)) (l : list float) : float :=
  match t with
  | [] => nan
  | (k, y) :: r => if flist_eqb k l then y else lookup_sum r l
  end.

Definition numF (sumtab : list (list float * float)) : num float := {|
  n_zero := 0%float; n_sum := lookup_sum sumtab; n_leb := PrimFloat.leb; n_ltb := PrimFloat.ltb;
  n_isnan := fun x => negb (PrimFloat.eqb x x);
  f_like := fit_likelihood_F; f_post := fit_posterior_F; f_chi2 := fit_chi2_F;
  p_post := ps_posterior_F; p_fom := ps_fom_F; p_res := ps_resample_F |}.

Definition numQ : num Q := {|
  n_zero := 0%Q; n_sum := fun l => fold_left Qplus l 0%Q; n_leb := Qle_bool; n_ltb := fun a b => negb (Qle_bool b a);
  n_isnan := fun _ => false;
  f_like := fit_likelihood_Q; f_post := fit_posterior_Q; f_chi2 := fit_chi2_Q;
  p_post := ps_posterior_Q; p_fom := ps_fom_Q; p_res := ps_resample_Q |}.

(* ---------- implementation traits (values come from Gen.v) ---------- *)
Record impl : Type := {
  i_alias : bool;      (* parameters_history_list.append(parameters): the caller's buffer itself *)
  i_inplace : bool;    (* figure_of_merit *= -2.0 mutates the object that is also in the history *)
  i_pshist : bool      (* FitnessPySwarms.__call__ records a history at all *)
}.
Definition current_impl : impl :=
  {| i_alias := impl_alias_params; i_inplace := impl_inplace_chi2; i_pshist := impl_pyswarms_history |}.
(* the code as pinned (all three defects) and the code after the proposed repairs *)
Definition buggy_impl : impl := {| i_alias := true; i_inplace := true; i_pshist := false |}.
Definition repaired_impl : impl := {| i_alias := false; i_inplace := false; i_pshist := true |}.

Section Model.
Context {V : Type} (N : num V).

(* ---------- the model being fitted, flattened ---------- *)
Inductive operand := OPrior (k : nat) | OConst (c : V).
Record assertion := { a_strict : bool; a_l : operand; a_r : operand }.   (* l < r  /  l <= r *)
Record model := {
  m_limits : list (V * V);         (* (lower, upper) of every prior, in id order *)
  m_slots : list operand;          (* what the instance holds at each attribute path *)
  m_asserts : list assertion;      (* every assertion of every level *)
  m_jax : bool                     (* environment, not composition: the process runs with USE_JAX=1, in which
                                      Prior.assert_within_limits returns without checking *)
}.
Definition prior_count (m : model) : nat := length (m_limits m).

Definition arg (vec : list V) (k : nat) : V := nth k vec (n_zero N).
Definition opval (vec : list V) (o : operand) : V :=
  match o with OPrior k => arg vec k | OConst c => c end.

Fixpoint limits_ok (lims : list (V * V)) (vec : list V) : bool :=
  match lims, vec with
  | (lo, hi) :: lims', v :: vec' => n_leb N lo v && n_leb N v hi && limits_ok lims' vec'
  | _, _ => true
  end.
Definition limits_gate (m : model) (vec : list V) : bool := m_jax m || limits_ok (m_limits m) vec.
Definition assert_ok (vec : list V) (a : assertion) : bool :=
  if a_strict a then n_ltb N (opval vec (a_l a)) (opval vec (a_r a))
  else n_leb N (opval vec (a_l a)) (opval vec (a_r a)).
Definition instance (m : model) (vec : list V) : list V := map (opval vec) (m_slots m).

Inductive exn := EAssertionError | EFit.     (* EFit: FitException, which PriorLimitException extends *)

(* AbstractPriorModel.instance_from_vector *)
Definition instance_from_vector (m : model) (vec : list V) : list V + exn :=
  if negb (length vec =? prior_count m) then inr EAssertionError
  else if negb (limits_gate m vec) then inr EFit
  else if negb (forallb (assert_ok vec) (m_asserts m)) then inr EFit
  else inl (instance m vec).

(* ---------- the user's likelihood and the priors' log-prior terms ---------- *)
Inductive lres := LRet (ll : V) (boxed : bool)   (* boxed: returned as a mutable 0-d array *)
               | LRaise.                         (* raises exc.FitException *)
Definition lik := list V -> lres.
Definition lprior := nat -> V -> V.              (* k-th prior (id order) . log_prior_from_value *)

(* AbstractPriorModel.log_prior_list_from_vector: k-th prior with k-th entry *)
Fixpoint lp_list (lp : lprior) (k : nat) (vec : list V) : list V :=
  match vec with [] => [] | v :: r => lp k v :: lp_list lp (S k) r end.
Definition pysum (l : list V) : V := n_sum N l.

Record flags := { fl_like : bool; fl_chi2 : bool; fl_store : bool }.

(* ---------- one evaluation, without the history ---------- *)
Inductive eval_out := EvEsc (e : exn) | EvResample | EvOk (ll : V) (boxed : bool).
Definition evaluate (m : model) (L : lik) (vec : list V) : eval_out :=
  match instance_from_vector m vec with
  | inr EFit => EvResample
  | inr e => EvEsc e
  | inl inst =>
      match L inst with
      | LRaise => EvResample
      | LRet ll b => if n_isnan N ll then EvResample else EvOk ll b
      end
  end.
Definition merit (fl : flags) (lp : lprior) (vec : list V) (ll : V) : V :=
  let f := if fl_like fl then f_like N ll else f_post N ll (pysum (lp_list lp 0 vec)) in
  if fl_chi2 fl then f_chi2 N f else f.

Inductive res := Returned (v : V) | Escaped (e : exn).

(* Fitness.__call__ as a function of the vector alone *)
Definition call_value (m : model) (L : lik) (lp : lprior) (fl : flags) (r : V) (vec : list V) : res :=
  match evaluate m L vec with
  | EvEsc e => Escaped e
  | EvResample => Returned r
  | EvOk ll _ => Returned (merit fl lp vec ll)
  end.

(* ---------- histories: buffers live in a heap, the caller may overwrite them ---------- *)
Inductive pentry := PRef (b : nat) | PVal (v : list V).
Record state := { heap : list (list V); hist : list (pentry * V) }.
Inductive op := OCall (b : nat) | OWrite (b : nat) (v : list V) | OBatch (bs : list nat)
              | OPickle.   (* fitness = pickle.loads(pickle.dumps(fitness)): what a pooled search does with it *)

Fixpoint upd {A} (l : list A) (i : nat) (x : A) : list A :=
  match l, i with
  | [], _ => []
  | _ :: t, O => x :: t
  | h :: t, S j => h :: upd t j x
  end.
Definition buf (h : list (list V)) (b : nat) : list V := nth b h [].

(* pickling copies whatever the history refers to *)
Definition snapshot (h : list (list V)) (e : pentry * V) : pentry * V :=
  (match fst e with PRef b => PVal (buf h b) | PVal v => PVal v end, snd e).
Definition pickled (st : state) : state := {| heap := heap st; hist := map (snapshot (heap st)) (hist st) |}.

Definition stored_ll (I : impl) (fl : flags) (boxed : bool) (ll fom : V) : V :=
  if i_inplace I && boxed && fl_like fl && fl_chi2 fl then fom else ll.

Section Run.
Variables (I : impl) (m : model) (L : lik) (lp : lprior) (fl : flags) (r : V).

(* Fitness.__call__ *)
Definition step (st : state) (o : op) : state * list res :=
  match o with
  | OWrite b v => ({| heap := upd (heap st) b v; hist := hist st |}, [])
  | OCall b =>
      let vec := buf (heap st) b in
      match evaluate m L vec with
      | EvEsc e => (st, [Escaped e])
      | EvResample => (st, [Returned r])
      | EvOk ll boxed =>
          let fom := merit fl lp vec ll in
          let e := if i_alias I then PRef b else PVal vec in
          let h' := if fl_store fl then hist st ++ [(e, stored_ll I fl boxed ll fom)] else hist st in
          ({| heap := heap st; hist := h' |}, [Returned fom])
      end
  | OBatch _ => (st, [])
  | OPickle => (pickled st, [])
  end.

(* FitnessPySwarms.__call__: one particle; None = the exception leaves the whole call *)
Definition ps_particle (vec : list V) : res * option (list V * V) :=
  match instance_from_vector m vec with
  | inr EFit => (Returned (p_res N r), None)
  | inr e => (Escaped e, None)
  | inl inst =>
      match L inst with
      | LRaise => (Returned (p_res N r), None)
      | LRet ll _ =>
          let f := p_fom N (p_post N ll (pysum (lp_list lp 0 vec))) in
          if n_isnan N f then (Returned (p_res N r), None) else (Returned f, Some (vec, ll))
      end
  end.
(* a batch: particles in order; the first escaping exception ends the call and nothing is returned *)
Fixpoint ps_batch (h : list (pentry * V)) (vecs : list (list V)) (acc : list res) : list (pentry * V) * list res :=
  match vecs with
  | [] => (h, rev acc)
  | vec :: rest =>
      match ps_particle vec with
      | (Escaped e, _) => (h, [Escaped e])
      | (x, rec) =>
          let h' := match rec with
                    | Some (v, ll) => if i_pshist I && fl_store fl then h ++ [(PVal v, ll)] else h
                    | None => h
                    end in
          ps_batch h' rest (x :: acc)
      end
  end.
Definition step_ps (st : state) (o : op) : state * list res :=
  match o with
  | OWrite b v => ({| heap := upd (heap st) b v; hist := hist st |}, [])
  | OCall b =>
      let '(h', out) := ps_batch (hist st) [buf (heap st) b] [] in
      ({| heap := heap st; hist := h' |}, out)
  | OBatch bs =>
      let '(h', out) := ps_batch (hist st) (map (buf (heap st)) bs) [] in
      ({| heap := heap st; hist := h' |}, out)
  | OPickle => (pickled st, [])
  end.

Fixpoint run_with (stp : state -> op -> state * list res) (st : state) (ops : list op) : state * list (list res) :=
  match ops with
  | [] => (st, [])
  | o :: rest =>
      let '(st1, out) := stp st o in
      let '(st2, outs) := run_with stp st1 rest in
      (st2, out :: outs)
  end.
Definition run (pyswarms : bool) := run_with (if pyswarms then step_ps else step).

(* Fitness.__init__ given the paths of a resumed fit: check_log_likelihood evaluates the stored best vector
   INSIDE the constructor.
   via_call (the code as first pinned): through __call__, i.e. an ordinary call; `late` = the two history
   lists are created only after that evaluation: a successful evaluation that wants to record itself then
   raises AttributeError (None); otherwise the lists are created afterwards, i.e. empty. *)
Definition construct_via_call (late : bool) (st : state) (pbuf : nat) : option state :=
  let st1 := fst (step st (OCall pbuf)) in
  if late then
    if length (hist st1) =? length (hist st) then Some {| heap := heap st; hist := [] |} else None
  else Some st1.
(* direct (current code): instance_from_vector, then the likelihood itself, compared with the stored log
   likelihood; nothing passes through __call__, so the fitness is untouched.  Anything but a successful
   evaluation leaves the constructor as an exception (FitException / AssertionError escape, or the comparison
   with the stored value fails: SearchException); the stored value is assumed to be that likelihood. *)
Definition construct_direct (st : state) (pbuf : nat) : option state :=
  match evaluate m L (buf (heap st) pbuf) with EvOk _ _ => Some st | _ => None end.
Definition construct (via_call late : bool) (st : state) (pbuf : nat) : option state :=
  if via_call then construct_via_call late st pbuf else construct_direct st pbuf.

(* what a reader of fitness.parameters_history_list / log_likelihood_history_list sees *)
Definition view (st : state) : list (list V * V) :=
  map (fun e => (match fst e with PRef b => buf (heap st) b | PVal v => v end, snd e)) (hist st).
End Run.

(* ---------- specification side: what the history should be ---------- *)
(* the vectors proposed, as they were when proposed (a plain Fitness has no batch interface) *)
Fixpoint trace (pyswarms : bool) (h : list (list V)) (ops : list op) : list (list V) :=
  match ops with
  | [] => []
  | OCall b :: rest => buf h b :: trace pyswarms h rest
  | OWrite b v :: rest => trace pyswarms (upd h b v) rest
  | OBatch bs :: rest => (if pyswarms then map (buf h) bs else []) ++ trace pyswarms h rest
  | OPickle :: rest => trace pyswarms h rest
  end.
Definition success (m : model) (L : lik) (vec : list V) : option (list V * V) :=
  match evaluate m L vec with EvOk ll _ => Some (vec, ll) | _ => None end.
Definition ps_success (m : model) (L : lik) (lp : lprior) (r : V) (vec : list V) : option (list V * V) :=
  snd (ps_particle m L lp r vec).
Fixpoint filter_map {A B} (f : A -> option B) (l : list A) : list B :=
  match l with
  | [] => []
  | x :: t => match f x with Some y => y :: filter_map f t | None => filter_map f t end
  end.
(* "the optional history records exactly the successfully evaluated vectors with their likelihoods, in order" *)
Definition spec_history (m : model) (L : lik) (fl : flags) (calls : list (list V)) : list (list V * V) :=
  if fl_store fl then filter_map (success m L) calls else [].
Definition spec_history_ps (m : model) (L : lik) (lp : lprior) (r : V) (fl : flags) (calls : list (list V)) : list (list V * V) :=
  if fl_store fl then filter_map (ps_success m L lp r) calls else [].
(* the figures of merit the search receives, computed without any history *)
Fixpoint spec_outputs (m : model) (L : lik) (lp : lprior) (fl : flags) (r : V) (h : list (list V)) (ops : list op) : list (list res) :=
  match ops with
  | [] => []
  | OCall b :: rest => [call_value m L lp fl r (buf h b)] :: spec_outputs m L lp fl r h rest
  | OWrite b v :: rest => [] :: spec_outputs m L lp fl r (upd h b v) rest
  | OBatch _ :: rest => [] :: spec_outputs m L lp fl r h rest
  | OPickle :: rest => [] :: spec_outputs m L lp fl r h rest
  end.

(* pyswarms: one figure of merit per particle, in particle order; no flag is consulted *)
Fixpoint spec_outputs_ps (m : model) (L : lik) (lp : lprior) (r : V) (h : list (list V)) (ops : list op) : list (list res) :=
  match ops with
  | [] => []
  | OCall b :: rest => [fst (ps_particle m L lp r (buf h b))] :: spec_outputs_ps m L lp r h rest
  | OWrite b v :: rest => [] :: spec_outputs_ps m L lp r (upd h b v) rest
  | OBatch bs :: rest => map (fun b => fst (ps_particle m L lp r (buf h b))) bs :: spec_outputs_ps m L lp r h rest
  | OPickle :: rest => [] :: spec_outputs_ps m L lp r h rest
  end.

(* guards of the partial theorems *)
Fixpoint writes_to (b : nat) (ops : list op) : bool :=
  match ops with
  | [] => false
  | OWrite b' _ :: rest => (b =? b') || writes_to b rest
  | _ :: rest => writes_to b rest
  end.
Fixpoint no_write_after_call (ops : list op) : bool :=
  match ops with
  | [] => true
  | OCall b :: rest => negb (writes_to b rest) && no_write_after_call rest
  | _ :: rest => no_write_after_call rest
  end.
Definition never_boxed (L : lik) : Prop := forall inst ll b, L inst = LRet ll b -> b = false.
Fixpoint plain_ops (ops : list op) : bool :=
  match ops with
  | [] => true
  | OBatch _ :: _ => false
  | _ :: rest => plain_ops rest
  end.
End Model.

Arguments OPrior {V}. Arguments OConst {V}. Arguments LRet {V}. Arguments LRaise {V}.
Arguments Returned {V}. Arguments Escaped {V}. Arguments PRef {V}. Arguments PVal {V}.
Arguments OCall {V}. Arguments OWrite {V}. Arguments OBatch {V}. Arguments OPickle {V}.
Arguments Build_assertion {V}. Arguments Build_model {V}. Arguments Build_state {V}.
Arguments EvEsc {V}. Arguments EvResample {V}. Arguments EvOk {V}.

(* ====================================================================================== *)
(* Correspondence: concrete binary64 cases printed by the harness with the observables of   *)
(* the running code; check_case runs the model (current_impl) and compares bit for bit.     *)
(* ====================================================================================== *)

(* likelihood script: what the harness's Analysis.log_likelihood_function does with the instance *)
Record lscript := {
  s_bias : float; s_weights : list float;
  s_exc : option (nat * float);       (* raise FitException when slot i > t *)
  s_nan : option (nat * float);       (* return nan when slot i > t *)
  s_boxed : bool
}.
Definition rule_fires (r : option (nat * float)) (vals : list float) : bool :=
  match r with None => false | Some (i, t) => PrimFloat.ltb t (nth i vals 0%float) end.
Definition run_script (s : lscript) (vals : list float) : @lres float :=
  if rule_fires (s_exc s) vals then LRaise
  else if rule_fires (s_nan s) vals then LRet nan (s_boxed s)
  else LRet (fold_left (fun acc wv => (acc + fst wv * snd wv)%float) (combine (s_weights s) vals) (s_bias s))
            (s_boxed s).

(* oracle table of prior.log_prior_from_value computed by the harness on the prior objects:
   row k = [(value, log prior)]; a missing entry is nan (and shows up as a disagreement) *)
Fixpoint lookup_f (t : list (float * float)) (v : float) : float :=
  match t with
  | [] => nan
  | (x, y) :: r => if fbits_eqb x v then y else lookup_f r v
  end.
Definition table_lp (tab : list (list (float * float))) : lprior (V := float) :=
  fun k v => lookup_f (nth k tab []) v.

Definition exn_eqb (a b : exn) : bool :=
  match a, b with EAssertionError, EAssertionError => true | EFit, EFit => true | _, _ => false end.
Definition res_eqb (a b : res (V := float)) : bool :=
  match a, b with
  | Returned x, Returned y => fbits_eqb x y
  | Escaped e, Escaped f => exn_eqb e f
  | _, _ => false
  end.
Fixpoint list_eqb {A} (eq : A -> A -> bool) (a b : list A) : bool :=
  match a, b with
  | [], [] => true
  | x :: a', y :: b' => eq x y && list_eqb eq a' b'
  | _, _ => false
  end.
Definition hist_eqb (a b : list (list float * float)) : bool :=
  list_eqb (fun x y => flist_eqb (fst x) (fst y) && fbits_eqb (snd x) (snd y)) a b.

Inductive case :=
| CSeq (pyswarms : bool) (fl : flags) (resample : float)
       (m : model (V := float)) (s : lscript) (tab : list (list (float * float)))
       (sumtab : list (list float * float))
       (heap0 : list (list float)) (ops : list (op (V := float)))
       (obs_out : list (list (res (V := float)))) (obs_hist : list (list float * float))
(* the fitness is constructed with resumed paths whose best vector is buffer pbuf; obs_raised: the constructor raised *)
| CCtor (fl : flags) (resample : float)
       (m : model (V := float)) (s : lscript) (tab : list (list (float * float)))
       (sumtab : list (list float * float))
       (heap0 : list (list float)) (pbuf : nat) (ops : list (op (V := float)))
       (obs_raised : bool)
       (obs_out : list (list (res (V := float)))) (obs_hist : list (list float * float)).

Definition fresh0 (heap0 : list (list float)) : state (V := float) := {| heap := heap0; hist := [] |}.

Definition model_run (c : case) :=
  match c with
  | CSeq ps fl r m s tab sumtab heap0 ops _ _ =>
      let '(st, outs) := run (numF sumtab) current_impl m (run_script s) (table_lp tab) fl r ps
                             {| heap := heap0; hist := [] |} ops in
      (false, outs, view st)
  | CCtor fl r m s tab sumtab heap0 pbuf ops _ _ _ =>
      match construct (numF sumtab) current_impl m (run_script s) (table_lp tab) fl r impl_ctor_via_call impl_ctor_history_late
                      (fresh0 heap0) pbuf with
      | None => (true, [], [])
      | Some st0 =>
          let '(st, outs) := run (numF sumtab) current_impl m (run_script s) (table_lp tab) fl r false st0 ops in
          (false, outs, view st)
      end
  end.
Definition check_case (c : case) : bool :=
  match c with
  | CSeq _ _ _ _ _ _ _ _ _ obs_out obs_hist =>
      let '(_, outs, h) := model_run c in
      list_eqb (list_eqb res_eqb) outs obs_out && hist_eqb h obs_hist
  | CCtor _ _ _ _ _ _ _ _ _ obs_raised obs_out obs_hist =>
      let '(raised, outs, h) := model_run c in
      Bool.eqb raised obs_raised && list_eqb (list_eqb res_eqb) outs obs_out && hist_eqb h obs_hist
  end.
