(* C04: the search -> Fitness wiring ("its designated resample value", "works in posterior space",
   "minimises chi-squared").  `Gen.wiring` is regenerated from every Fitness(...) construction below
   autofit/non_linear/search on every run; the facts below are decided by computation on that table,
   so a changed keyword in a search breaks a proof.
   Trusted knowledge about the third-party libraries: scipy.optimize.minimize (bfgs) and pyswarms
   minimise their objective, every other search maximises it; MCMC and MLE searches work on the
   posterior, nested samplers on the likelihood. *)
From Coq Require Import Bool List String.
From Coq Require Import Floats.PrimFloat.
From PAFC04 Require Import Gen.
Import ListNotations.
Open Scope string_scope.

Definition wentry := (string * (bool * bool * float * bool))%type.
Definition w_file (e : wentry) : string := fst e.
Definition w_pyswarms (f : string) : bool := prefix "mle/pyswarms/" f.
Definition w_bfgs (f : string) : bool := prefix "mle/bfgs/" f.
Definition w_minimiser (f : string) : bool := w_bfgs f || w_pyswarms f.
Definition w_posterior_space (f : string) : bool := prefix "mcmc/" f || prefix "mle/" f.

(* what the search receives for a vector that must be resampled *)
Definition w_delivered (e : wentry) : float :=
  let '(_, (ps, _, r, _)) := e in if ps then ps_resample_F r else r.

Definition big : float := 0x1.d42aea2879f2ep+328%float.          (* 1e99 *)

(* flags agree with what the search does, and the resample value is at least as bad as any figure of
   merit of size < 1e99 in the direction the search optimises *)
Definition flags_ok (e : wentry) : bool :=
  let '(f, (ps, like, _, chi2)) := e in
  Bool.eqb like (negb (w_posterior_space f)) && Bool.eqb chi2 (w_minimiser f) && Bool.eqb ps (w_pyswarms f).
Definition resample_ok (e : wentry) : bool :=
  let '(_, (_, _, _, chi2)) := e in
  if chi2 then PrimFloat.leb big (w_delivered e) else PrimFloat.leb (w_delivered e) (- big)%float.
Definition entry_ok (e : wentry) : bool := flags_ok e && resample_ok e.

(* the BFGS / LBFGS construction as pinned: a minimiser that is handed -inf for invalid vectors *)
Definition bfgs_pinned : wentry := ("mle/bfgs/search.py", (false, false, neg_infinity, true)).

Lemma wiring_flags : forallb flags_ok wiring = true.
Proof. vm_compute. reflexivity. Qed.

Lemma wiring_resample_except_bfgs : forallb (fun e => resample_ok e || w_bfgs (w_file e)) wiring = true.
Proof. vm_compute. reflexivity. Qed.

Lemma wiring_covers_anchored : existsb (fun e => w_pyswarms (w_file e)) wiring = true.
Proof. vm_compute. reflexivity. Qed.

Lemma bfgs_pinned_refuted : flags_ok bfgs_pinned = true /\ resample_ok bfgs_pinned = false /\
                            w_delivered bfgs_pinned = neg_infinity.
Proof. repeat split; vm_compute; reflexivity. Qed.

(* pyswarms: -inf designated, +inf delivered *)
Lemma pyswarms_delivered :
  forallb (fun e => negb (w_pyswarms (w_file e)) || PrimFloat.eqb (w_delivered e) infinity) wiring = true.
Proof. vm_compute. reflexivity. Qed.
