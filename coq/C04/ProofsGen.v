(* C04: the statement-level translation of the source (Gen.v: Fitness_call, FitnessPySwarms_call), instantiated
   in GenModel.v, EQUALS the hand-written model (Model.v: step, step_ps) -- for every number type, model, likelihood,
   log-prior family, flag combination, resample value, state and buffer.  Every theorem about the hand-written
   model therefore is a theorem about the function the translator read off the source. *)
From Coq Require Import ZArith List Bool PeanoNat Lia.
From PAFCommon Require Import PyFloat Lists.
From PAFC04 Require Import PyStmt Gen Model Proofs GenModel.
Import ListNotations.

Section GenEq.
Context {V : Type} (N : num V).
Variables (m : @model V) (L : @lik V) (lp : @lprior V) (fl : flags) (r : V).

Lemma hist_of_hists_of (l : list (@pentry V * V)) : hist_of (hists_of l) = l.
Proof.
  unfold hist_of, hists_of; simpl. induction l as [|[p x] t IH]; simpl; [reflexivity|]. rewrite IH. reflexivity.
Qed.

Lemma append_pair (l : list (@pentry V * V)) p x :
  append_lls (append_params (hists_of l) p) x = hists_of (l ++ [(p, x)]).
Proof. unfold append_lls, append_params, hists_of; simpl. rewrite !map_app. reflexivity. Qed.

(* ---------- Fitness.__call__ ---------- *)
Lemma Gen_call_eq_model (st : @state V) (b : nat) :
  gen_step N m L lp fl r st (OCall b) = step N current_impl m L lp fl r st (OCall b).
Proof.
  destruct st as [h hl].
  unfold gen_step, gen_fitness_call, Fitness_call, Fitness_call_body, step, evaluate, ifv_call, lik_call.
  simpl heap. simpl hist. simpl deref_obj.
  destruct (instance_from_vector N m (buf h b)) as [inst|[|]]; simpl.
  - destruct (L inst) as [ll bx|]; simpl.
    + destruct (n_isnan N ll); simpl.
      * rewrite hist_of_hists_of. reflexivity.
      * unfold merit, stored_ll, current_impl; simpl.
        destruct (fl_like fl), (fl_store fl), (fl_chi2 fl); simpl;
          rewrite ?append_pair, hist_of_hists_of; reflexivity.
    + rewrite hist_of_hists_of. reflexivity.
  - rewrite hist_of_hists_of. reflexivity.
  - rewrite hist_of_hists_of. reflexivity.
Qed.

Lemma gen_step_eq (st : @state V) (o : @op V) :
  gen_step N m L lp fl r st o = step N current_impl m L lp fl r st o.
Proof. destruct o; [apply Gen_call_eq_model | reflexivity | reflexivity | reflexivity]. Qed.

(* the value the search receives, stated on the translated source alone *)
Lemma Gen_call_value (h : list (list V)) (g : hists (@pentry V) V) (b : nat) :
  res_of (fst (gen_fitness_call N m L lp fl r h (PRef b) g)) = call_value N m L lp fl r (buf h b).
Proof.
  unfold gen_fitness_call, Fitness_call, Fitness_call_body, call_value, evaluate, ifv_call, lik_call.
  simpl deref_obj.
  destruct (instance_from_vector N m (buf h b)) as [inst|[|]]; simpl; try reflexivity.
  destruct (L inst) as [ll bx|]; simpl; try reflexivity.
  destruct (n_isnan N ll); simpl; try reflexivity.
  unfold merit. destruct (fl_like fl), (fl_store fl), (fl_chi2 fl); reflexivity.
Qed.

(* ---------- FitnessPySwarms.__call__ ---------- *)
Lemma rev_map_snoc (acc : list V) (f : V) :
  rev (map (@Returned V) (acc ++ [f])) = Returned f :: rev (map (@Returned V) acc).
Proof. rewrite map_app, rev_app_distr. reflexivity. Qed.

Lemma Gen_ps_call_eq_model (nanv : V) (h : list (list V)) (objs : list (@pentry V)) (hl : list (@pentry V * V)) :
  n_isnan N nanv = true ->
  (let '(out, g) := gen_ps_call N m L lp fl r nanv h objs (hists_of hl) in (hist_of g, res_list_of out)) =
  ps_batch N current_impl m L lp fl r hl (map (deref_obj h) objs) [].
Proof.
  intro Hnan.
  unfold gen_ps_call, FitnessPySwarms_call, FitnessPySwarms_call_body.
  match goal with |- context [for_each ?B objs ?s ?A] => set (body := B); set (after := A) end.
  change (@nil (@res V)) with (rev (map (@Returned V) [])).
  generalize (@nil V) as acc.
  generalize (@None V) at 1 as j1. generalize (@None (list V)) at 1 as j2.
  generalize (@None V) at 1 as j3. generalize (@None V) at 1 as j4.
  generalize (@None (list V)) at 1 as j5. generalize (@None (@pentry V)) at 1 as j6.
  revert hl. induction objs as [|o rest IH]; intros hl j6 j5 j4 j3 j2 j1 acc.
  - simpl. rewrite hist_of_hists_of, rev_involutive. reflexivity.
  - simpl for_each. simpl map. simpl ps_batch. unfold ps_particle, pysum.
    unfold body at 1. fold body. unfold ifv_call, lik_call.
    destruct (instance_from_vector N m (deref_obj h o)) as [inst|[|]]; simpl.
    + destruct (L inst) as [ll bx|]; simpl.
      * destruct (n_isnan N (p_fom N (p_post N ll (n_sum N (lp_list lp 0 (deref_obj h o)))))) eqn:En; simpl.
        -- rewrite <- rev_map_snoc. apply IH.
        -- unfold current_impl; simpl.
           destruct (fl_store fl); simpl.
           ++ rewrite append_pair, <- rev_map_snoc. apply IH.
           ++ rewrite <- rev_map_snoc. apply IH.
      * rewrite Hnan. rewrite <- rev_map_snoc. apply IH.
    + rewrite hist_of_hists_of. reflexivity.
    + rewrite Hnan. rewrite <- rev_map_snoc. apply IH.
Qed.

Lemma gen_step_ps_eq (nanv : V) (st : @state V) (o : @op V) :
  n_isnan N nanv = true ->
  gen_step_ps N m L lp fl r nanv st o = step_ps N current_impl m L lp fl r st o.
Proof.
  intro Hnan. destruct o as [b|b v|bs|]; try reflexivity.
  - unfold gen_step_ps, step_ps.
    assert (E := Gen_ps_call_eq_model nanv (heap st) [PRef b] (hist st) Hnan).
    destruct (gen_ps_call N m L lp fl r nanv (heap st) [PRef b] (hists_of (hist st))) as [out g].
    simpl map in E. rewrite <- E. reflexivity.
  - unfold gen_step_ps, step_ps.
    assert (E := Gen_ps_call_eq_model nanv (heap st) (map PRef bs) (hist st) Hnan).
    destruct (gen_ps_call N m L lp fl r nanv (heap st) (map PRef bs) (hists_of (hist st))) as [out g].
    rewrite map_map in E.
    change (map (fun x => deref_obj (heap st) (PRef x)) bs) with (map (buf (heap st)) bs) in E.
    rewrite <- E. reflexivity.
Qed.

Lemma run_with_ext (f g : @state V -> @op V -> @state V * list (@res V)) :
  (forall st o, f st o = g st o) -> forall ops st, run_with f st ops = run_with g st ops.
Proof.
  intros H ops. induction ops as [|o ops IH]; intro st; [reflexivity|].
  simpl. rewrite H. destruct (g st o) as [st1 out]. rewrite IH. reflexivity.
Qed.

(* whole runs: every operation sequence, from every state, both interfaces *)
Lemma run_gen_eq (nanv : V) (ps : bool) (st : @state V) (ops : list (@op V)) :
  n_isnan N nanv = true ->
  run_gen N m L lp fl r nanv ps st ops = run N current_impl m L lp fl r ps st ops.
Proof.
  intro Hnan. unfold run_gen, run. destruct ps; apply run_with_ext; intros.
  - apply gen_step_ps_eq; exact Hnan.
  - apply gen_step_eq.
Qed.

(* ---------- the property text stated on the translated source ---------- *)
(* the eight flag combinations and the resample value, for the function read off Fitness.__call__ *)
Lemma Gen_call_fom (h : list (list V)) (g : hists (@pentry V) V) (b : nat) :
  length (buf h b) = prior_count m ->
  (forall ll bx, evaluate N m L (buf h b) = EvOk ll bx ->
     fst (gen_fitness_call N m L lp fl r h (PRef b) g) =
     Ret (match fl_like fl, fl_chi2 fl with
          | true, false => f_like N ll
          | false, false => f_post N ll (pysum N (lp_list lp 0 (buf h b)))
          | true, true => f_chi2 N (f_like N ll)
          | false, true => f_chi2 N (f_post N ll (pysum N (lp_list lp 0 (buf h b))))
          end)) /\
  ((limits_gate N m (buf h b) = false \/
    forallb (assert_ok N (buf h b)) (m_asserts m) = false \/
    L (instance N m (buf h b)) = LRaise \/
    (exists ll bx, L (instance N m (buf h b)) = LRet ll bx /\ n_isnan N ll = true)) ->
   fst (gen_fitness_call N m L lp fl r h (PRef b) g) = Ret r) /\
  (exists v, fst (gen_fitness_call N m L lp fl r h (PRef b) g) = Ret v).
Proof.
  intro Hl. assert (E := Gen_call_value h g b).
  destruct (call_value_spec N m L lp fl r (buf h b) Hl) as (Hok & _ & _).
  split; [|split].
  - intros ll bx Ev. rewrite (Hok ll bx Ev) in E.
    destruct (fst (gen_fitness_call N m L lp fl r h (PRef b) g)); simpl in E; congruence.
  - intro Hc. rewrite (resample_cases N m L lp fl r (buf h b) Hl Hc) in E.
    destruct (fst (gen_fitness_call N m L lp fl r h (PRef b) g)); simpl in E; congruence.
  - destruct (call_value_no_escape N m L lp fl r (buf h b) Hl) as [v Hv]. rewrite Hv in E.
    destruct (fst (gen_fitness_call N m L lp fl r h (PRef b) g)) as [v'|e]; simpl in E; [eauto | discriminate].
Qed.

(* the history after any operation sequence, computed by the translated source, is the specification's *)
Lemma Gen_run_history (nanv : V) (h : list (list V)) (ops : list (@op V)) :
  n_isnan N nanv = true ->
  view (fst (run_gen N m L lp fl r nanv false (fresh h) ops)) = spec_history N m L fl (trace false h ops) /\
  snd (run_gen N m L lp fl r nanv false (fresh h) ops) = spec_outputs N m L lp fl r h ops.
Proof.
  intro Hnan. rewrite (run_gen_eq nanv false (fresh h) ops Hnan). split.
  - apply history_byvalue; [reflexivity | left; reflexivity].
  - apply (run_outputs N current_impl m L lp fl r (fresh h) ops).
Qed.

Lemma Gen_run_pyswarms (nanv : V) (h : list (list V)) (ops : list (@op V)) :
  n_isnan N nanv = true ->
  Forall (fun v => length v = prior_count m) (trace true h ops) ->
  view (fst (run_gen N m L lp fl r nanv true (fresh h) ops)) = spec_history_ps N m L lp r fl (trace true h ops) /\
  snd (run_gen N m L lp fl r nanv true (fresh h) ops) = spec_outputs_ps N m L lp r h ops.
Proof.
  intros Hnan HF. rewrite (run_gen_eq nanv true (fresh h) ops Hnan).
  exact (pyswarms_run N current_impl m L lp fl r h ops HF).
Qed.
End GenEq.
