From PAFC04 Require Import Gen Model.
