(* C04 -- the figure of merit handed to a search.  Statements only; every proof is `exact <lemma>`.
   V is any number type with the generated formulas of Gen.v plugged in (num V); m any model
   (limits in id order, instance slots, assertions), L any likelihood of the instance, lp any family
   of per-prior log-prior functions, r the resample value, I any implementation traits. *)
From Coq Require Import ZArith QArith List Bool.
From Coq Require Import Floats.PrimFloat.
From PAFC04 Require Import PyStmt Gen Model Proofs Witness Wiring GenModel ProofsGen WitnessGen.
Import ListNotations.

(* what "successfully evaluated" means: right length, every entry within its prior's limits, every
   assertion holds, the likelihood of the instance returns a number that is not nan *)
Theorem C04_success_iff : forall (V : Type) (N : num V) (m : @model V) (L : @lik V) (vec : list V) (ll : V) (b : bool),
  evaluate N m L vec = EvOk ll b <->
  (length vec = prior_count m /\ limits_gate N m vec = true /\
   forallb (assert_ok N vec) (m_asserts m) = true /\
   L (instance N m vec) = LRet ll b /\ n_isnan N ll = false).
Proof. exact @evaluate_ok_iff. Qed.

(* limits_gate is the limit check unless the process runs with USE_JAX=1 *)
Theorem C04_limits_gate_nojax : forall (V : Type) (N : num V) (m : @model V) (vec : list V),
  m_jax m = false -> limits_gate N m vec = limits_ok N (m_limits m) vec.
Proof. exact @limits_gate_nojax. Qed.

Theorem C04_limits_gate : forall (V : Type) (N : num V) (lims : list (V * V)) (vec : list V),
  length vec = length lims ->
  (limits_ok N lims vec = true <->
   forall k, (k < length vec)%nat ->
     n_leb N (fst (nth k lims (n_zero N, n_zero N))) (nth k vec (n_zero N)) = true /\
     n_leb N (nth k vec (n_zero N)) (snd (nth k lims (n_zero N, n_zero N))) = true).
Proof. exact @limits_ok_iff. Qed.

(* the eight flag combinations: likelihood / posterior x chi-squared or not (x history: irrelevant);
   resample outcomes give exactly r (not converted); one of the two always applies *)
Theorem C04_fom : forall (V : Type) (N : num V) (m : @model V) (L : @lik V) (lp : @lprior V) (fl : flags) (r : V) (vec : list V),
  length vec = prior_count m ->
  (forall ll b, evaluate N m L vec = EvOk ll b ->
     call_value N m L lp fl r vec =
     Returned (match fl_like fl, fl_chi2 fl with
               | true, false => f_like N ll
               | false, false => f_post N ll (pysum N (lp_list lp 0 vec))
               | true, true => f_chi2 N (f_like N ll)
               | false, true => f_chi2 N (f_post N ll (pysum N (lp_list lp 0 vec)))
               end)) /\
  (evaluate N m L vec = EvResample -> call_value N m L lp fl r vec = Returned r) /\
  ((exists ll b, evaluate N m L vec = EvOk ll b) \/ evaluate N m L vec = EvResample).
Proof. exact @call_value_spec. Qed.

(* meaning of the generated formulas over exact rationals: (-2)^chi2 * (ll + [posterior] sum of terms) *)
Theorem C04_fom_meaning : forall (fl : flags) (lp : @lprior Q) (vec : list Q) (ll : Q),
  merit numQ fl lp vec ll ==
  (if fl_chi2 fl then -2 # 1 else 1) * (ll + (if fl_like fl then 0 else qsum (lp_list lp 0 vec))).
Proof. exact merit_Q. Qed.

(* log-prior terms: as many as entries, k-th prior (id order) applied to k-th entry *)
Theorem C04_prior_terms : forall (V : Type) (lp : @lprior V) (vec : list V) (k : nat) (d d' : V),
  (k < length vec)%nat -> nth k (lp_list lp 0 vec) d = lp (0 + k)%nat (nth k vec d').
Proof. exact (fun V lp => @lp_list_nth V lp 0%nat). Qed.

Theorem C04_prior_terms_count : forall (V : Type) (lp : @lprior V) (vec : list V),
  length (lp_list lp 0 vec) = length vec.
Proof. exact (fun V lp => @lp_list_length V lp 0%nat). Qed.

(* limit violation, assertion violation, FitException, nan: the search receives r *)
Theorem C04_resample : forall (V : Type) (N : num V) (m : @model V) (L : @lik V) (lp : @lprior V) (fl : flags) (r : V) (vec : list V),
  length vec = prior_count m ->
  (limits_gate N m vec = false \/
   forallb (assert_ok N vec) (m_asserts m) = false \/
   L (instance N m vec) = LRaise \/
   (exists ll b, L (instance N m vec) = LRet ll b /\ n_isnan N ll = true)) ->
  call_value N m L lp fl r vec = Returned r.
Proof. exact @resample_cases. Qed.

(* "outside limits -> resample": full statement refuted (USE_JAX=1 skips the check), holds without it *)
Theorem C04_limits_resample_refuted :
  exists (m : @model Q) L lp fl r vec,
    length vec = prior_count m /\ limits_ok numQ (m_limits m) vec = false /\
    call_value numQ m L lp fl r vec <> Returned r.
Proof. exact jax_limits_refuted. Qed.

Theorem C04_limits_resample_partial : forall (V : Type) (N : num V) (m : @model V) (L : @lik V) (lp : @lprior V) (fl : flags) (r : V) (vec : list V),
  m_jax m = false -> length vec = prior_count m -> limits_ok N (m_limits m) vec = false ->
  call_value N m L lp fl r vec = Returned r.
Proof. exact @limits_resample_nojax. Qed.

(* no exception escapes for a vector of the model's length; the only escape of the model is the
   AssertionError of a vector of another length *)
Theorem C04_no_escape : forall (V : Type) (N : num V) (m : @model V) (L : @lik V) (lp : @lprior V) (fl : flags) (r : V) (vec : list V),
  length vec = prior_count m -> exists v, call_value N m L lp fl r vec = Returned v.
Proof. exact @call_value_no_escape. Qed.

Theorem C04_escape_only_wrong_length : forall (V : Type) (N : num V) (m : @model V) (L : @lik V) (lp : @lprior V) (fl : flags) (r : V) (vec : list V) (e : exn),
  call_value N m L lp fl r vec = Escaped e -> length vec <> prior_count m /\ e = EAssertionError.
Proof. exact @call_value_escape_only_length. Qed.

(* repeated evaluation: over any operation sequence, from any state (any history so far) and for any
   implementation traits, what each call returns is call_value of the buffer's contents at that moment *)
Theorem C04_deterministic : forall (V : Type) (N : num V) (I : impl) (m : @model V) (L : @lik V) (lp : @lprior V) (fl : flags) (r : V)
    (st : @state V) (ops : list (@op V)),
  snd (run N I m L lp fl r false st ops) = spec_outputs N m L lp fl r (heap st) ops.
Proof. exact @run_outputs. Qed.

(* history, full statement: for every operation sequence (calls interleaved with in-place overwrites of
   the caller's buffers) the history read at the end is exactly the successfully evaluated vectors, as
   they were when evaluated, with their likelihoods, in order.  Holds when entries are stored by value
   and the chi-squared conversion does not touch the stored likelihood (repaired traits). *)
Theorem C04_history : forall (V : Type) (N : num V) (I : impl) (m : @model V) (L : @lik V) (lp : @lprior V) (fl : flags) (r : V)
    (h : list (list V)) (ops : list (@op V)),
  i_alias I = false -> i_inplace I = false ->
  view (fst (run N I m L lp fl r false (fresh h) ops)) = spec_history N m L fl (trace false h ops).
Proof. exact (fun V N I m L lp fl r h ops Ha Hi => @history_byvalue V N I m L lp fl r h ops Ha (or_introl Hi)). Qed.

(* ... and these are the traits of the code as it is now (Gen.v): the proof terms are eq_refl on the
   regenerated constants, so a regression of a trait stops this file from compiling *)
Theorem C04_history_current : forall (V : Type) (N : num V) (m : @model V) (L : @lik V) (lp : @lprior V) (fl : flags) (r : V)
    (h : list (list V)) (ops : list (@op V)),
  view (fst (run N current_impl m L lp fl r false (fresh h) ops)) = spec_history N m L fl (trace false h ops).
Proof. exact (fun V N m L lp fl r h ops => @history_byvalue V N current_impl m L lp fl r h ops eq_refl (or_introl eq_refl)). Qed.

Theorem C04_history_off : forall (V : Type) (N : num V) (I : impl) (m : @model V) (L : @lik V) (lp : @lprior V) (fl : flags) (r : V)
    (h : list (list V)) (ops : list (@op V)),
  fl_store fl = false -> view (fst (run N I m L lp fl r false (fresh h) ops)) = [].
Proof. exact @history_off. Qed.

(* constructing the fitness of a resumed fit (the stored best vector is evaluated inside the constructor).
   Current code: the evaluation does not go through __call__: the constructor returns exactly when the stored
   vector evaluates successfully, and the fitness (history included) is untouched, whatever the flags *)
Theorem C04_constructor : forall (V : Type) (N : num V) (I : impl) (m : @model V) (L : @lik V) (lp : @lprior V) (fl : flags) (r : V)
    (late : bool) (st : @state V) (pbuf : nat),
  ((exists ll b, evaluate N m L (buf (heap st) pbuf) = EvOk ll b) <->
   construct N I m L lp fl r false late st pbuf = Some st) /\
  (forall st', construct N I m L lp fl r false late st pbuf = Some st' -> st' = st).
Proof. exact @construct_direct_spec. Qed.

Theorem C04_constructor_current : forall (V : Type) (N : num V) (m : @model V) (L : @lik V) (lp : @lprior V) (fl : flags) (r : V)
    (st : @state V) (pbuf : nat),
  ((exists ll b, evaluate N m L (buf (heap st) pbuf) = EvOk ll b) <->
   construct N current_impl m L lp fl r impl_ctor_via_call impl_ctor_history_late st pbuf = Some st) /\
  (forall st', construct N current_impl m L lp fl r impl_ctor_via_call impl_ctor_history_late st pbuf = Some st' -> st' = st).
Proof. exact (fun V N m L lp fl r st pbuf => @construct_direct_spec V N current_impl m L lp fl r impl_ctor_history_late st pbuf). Qed.

(* pyswarms: a particle of the model's length gets -2*(ll + sum of terms) unless that is nan, a limit or
   assertion fails or FitException is raised, in which case it gets the generated resample value;
   no flag is consulted *)
Theorem C04_pyswarms_particle : forall (V : Type) (N : num V) (m : @model V) (L : @lik V) (lp : @lprior V) (r : V) (vec : list V),
  length vec = prior_count m ->
  ps_particle N m L lp r vec =
  if gate N m vec then
    match L (instance N m vec) with
    | LRaise => (Returned (p_res N r), None)
    | LRet ll _ => if n_isnan N (ps_merit N lp vec ll) then (Returned (p_res N r), None)
                   else (Returned (ps_merit N lp vec ll), Some (vec, ll))
    end
  else (Returned (p_res N r), None).
Proof. exact @ps_particle_cases. Qed.

Theorem C04_pyswarms_meaning : forall (lp : @lprior Q) (vec : list Q) (ll r : Q),
  ps_merit numQ lp vec ll == (-2 # 1) * (ll + qsum (lp_list lp 0 vec)) /\ p_res numQ r == (-2 # 1) * r.
Proof. exact (fun lp vec ll r => conj (ps_merit_Q lp vec ll) (ps_res_Q r)). Qed.

(* pyswarms over any sequence of single calls, batches and overwrites: one value per particle in
   particle order, independent of flags / history / traits; the history is the successful particles
   (by value) when the traits record one, and nothing otherwise *)
Theorem C04_pyswarms_run : forall (V : Type) (N : num V) (I : impl) (m : @model V) (L : @lik V) (lp : @lprior V) (fl : flags) (r : V)
    (h : list (list V)) (ops : list (@op V)),
  Forall (fun v => length v = prior_count m) (trace true h ops) ->
  view (fst (run N I m L lp fl r true (fresh h) ops)) =
    (if i_pshist I then spec_history_ps N m L lp r fl (trace true h ops) else []) /\
  snd (run N I m L lp fl r true (fresh h) ops) = spec_outputs_ps N m L lp r h ops.
Proof. exact @pyswarms_run. Qed.

Theorem C04_pyswarms_current : forall (V : Type) (N : num V) (m : @model V) (L : @lik V) (lp : @lprior V) (fl : flags) (r : V)
    (h : list (list V)) (ops : list (@op V)),
  Forall (fun v => length v = prior_count m) (trace true h ops) ->
  view (fst (run N current_impl m L lp fl r true (fresh h) ops)) = spec_history_ps N m L lp r fl (trace true h ops) /\
  snd (run N current_impl m L lp fl r true (fresh h) ops) = spec_outputs_ps N m L lp r h ops.
Proof. exact (fun V N m L lp fl r h ops HF => @pyswarms_run V N current_impl m L lp fl r h ops HF). Qed.

(* pyswarms against the text of the property: with the flags it is wired with (posterior, chi-squared) a
   successful particle gets what the plain fitness returns; for any other flags it does not (the class
   consults no flag), and a resampled particle gets -2*r, not r *)
Theorem C04_pyswarms_matches_fitness : forall (lp : @lprior Q) (vec : list Q) (ll : Q) (s : bool),
  ps_merit numQ lp vec ll == merit numQ {| fl_like := false; fl_chi2 := true; fl_store := s |} lp vec ll.
Proof. exact ps_matches_fitness_Q. Qed.

Theorem C04_pyswarms_flags_refuted :
  exists fl (lp : @lprior Q) vec ll, ~ ps_merit numQ lp vec ll == merit numQ fl lp vec ll.
Proof. exact pyswarms_flags_refuted. Qed.

Theorem C04_pyswarms_resample_refuted : exists r : Q, ~ p_res numQ r == r.
Proof. exact pyswarms_resample_refuted. Qed.

(* the wiring of the searches (Gen.wiring, regenerated): every search passes the flags of what it does
   (posterior for MCMC/MLE, likelihood for nested samplers, chi-squared exactly for the two minimisers,
   the pyswarms class exactly for pyswarms) ... *)
Theorem C04_wiring_flags : forallb flags_ok wiring = true.
Proof. exact wiring_flags. Qed.

(* ... what a search receives for a vector to be resampled is beyond +-1e99 on the bad side of the
   direction it optimises -- for every search except BFGS/LBFGS, whose pinned wiring hands a minimiser -inf *)
Theorem C04_wiring_resample_partial : forallb (fun e => resample_ok e || w_bfgs (w_file e)) wiring = true.
Proof. exact wiring_resample_except_bfgs. Qed.

Theorem C04_wiring_resample_refuted :
  flags_ok bfgs_pinned = true /\ resample_ok bfgs_pinned = false /\ w_delivered bfgs_pinned = neg_infinity.
Proof. exact bfgs_pinned_refuted. Qed.

Theorem C04_wiring_pyswarms : existsb (fun e => w_pyswarms (w_file e)) wiring = true /\
  forallb (fun e => negb (w_pyswarms (w_file e)) || PrimFloat.eqb (w_delivered e) infinity) wiring = true.
Proof. exact (conj wiring_covers_anchored pyswarms_delivered). Qed.

(* ====== the source itself ======
   Gen.Fitness_call / Gen.FitnessPySwarms_call are the STATEMENT-LEVEL translations of the bodies of Fitness.__call__ and
   FitnessPySwarms.__call__ (try/except FitException, early returns, if/elif/else on the configuration flags, np.isnan
   tests, history appends, the particle loop), regenerated from /repo on every run; GenModel instantiates their named
   Section variables at the abstract inputs of the model (gen_fitness_call, gen_ps_call, gen_step, run_gen).
   They EQUAL the hand-written model for all inputs: every theorem above speaks about what the source says, and
   a source edit that changes the control flow breaks these proofs (or makes the translator refuse). *)
Theorem C04_source_call : forall (V : Type) (N : num V) (m : @model V) (L : @lik V) (lp : @lprior V) (fl : flags) (r : V)
    (st : @state V) (b : nat),
  gen_step N m L lp fl r st (OCall b) = step N current_impl m L lp fl r st (OCall b).
Proof. exact @Gen_call_eq_model. Qed.

Theorem C04_source_call_value : forall (V : Type) (N : num V) (m : @model V) (L : @lik V) (lp : @lprior V) (fl : flags) (r : V)
    (h : list (list V)) (g : hists (@pentry V) V) (b : nat),
  res_of (fst (gen_fitness_call N m L lp fl r h (PRef b) g)) = call_value N m L lp fl r (buf h b).
Proof. exact @Gen_call_value. Qed.

(* nanv: what np.nan is instantiated with; the except clause of the pyswarms loop goes through `np.isnan(np.nan)` *)
Theorem C04_source_pyswarms_call : forall (V : Type) (N : num V) (m : @model V) (L : @lik V) (lp : @lprior V) (fl : flags) (r : V)
    (nanv : V) (h : list (list V)) (objs : list (@pentry V)) (hl : list (@pentry V * V)),
  n_isnan N nanv = true ->
  (let '(out, g) := gen_ps_call N m L lp fl r nanv h objs (hists_of hl) in (hist_of g, res_list_of out)) =
  ps_batch N current_impl m L lp fl r hl (map (deref_obj h) objs) [].
Proof. exact @Gen_ps_call_eq_model. Qed.

Theorem C04_source_run : forall (V : Type) (N : num V) (m : @model V) (L : @lik V) (lp : @lprior V) (fl : flags) (r : V)
    (nanv : V) (ps : bool) (st : @state V) (ops : list (@op V)),
  n_isnan N nanv = true ->
  run_gen N m L lp fl r nanv ps st ops = run N current_impl m L lp fl r ps st ops.
Proof. exact @run_gen_eq. Qed.

(* the property text on the function read off Fitness.__call__: eight flag combinations, resample value, no escape *)
Theorem C04_source_fom : forall (V : Type) (N : num V) (m : @model V) (L : @lik V) (lp : @lprior V) (fl : flags) (r : V)
    (h : list (list V)) (g : hists (@pentry V) V) (b : nat),
  length (buf h b) = prior_count m ->
  (forall ll bx, evaluate N m L (buf h b) = EvOk ll bx ->
     fst (gen_fitness_call N m L lp fl r h (PRef b) g) =
     Ret (match fl_like fl, fl_chi2 fl with
          | true, false => f_like N ll
          | false, false => f_post N ll (pysum N (lp_list lp 0 (buf h b)))
          | true, true => f_chi2 N (f_like N ll)
          | false, true => f_chi2 N (f_post N ll (pysum N (lp_list lp 0 (buf h b))))
          end)) /\
  ((limits_gate N m (buf h b) = false \/
    forallb (assert_ok N (buf h b)) (m_asserts m) = false \/
    L (instance N m (buf h b)) = LRaise \/
    (exists ll bx, L (instance N m (buf h b)) = LRet ll bx /\ n_isnan N ll = true)) ->
   fst (gen_fitness_call N m L lp fl r h (PRef b) g) = Ret r) /\
  (exists v, fst (gen_fitness_call N m L lp fl r h (PRef b) g) = Ret v).
Proof. exact @Gen_call_fom. Qed.

(* ... and the histories / outputs of whole runs computed by the translated source *)
Theorem C04_source_history : forall (V : Type) (N : num V) (m : @model V) (L : @lik V) (lp : @lprior V) (fl : flags) (r : V)
    (nanv : V) (h : list (list V)) (ops : list (@op V)),
  n_isnan N nanv = true ->
  view (fst (run_gen N m L lp fl r nanv false (fresh h) ops)) = spec_history N m L fl (trace false h ops) /\
  snd (run_gen N m L lp fl r nanv false (fresh h) ops) = spec_outputs N m L lp fl r h ops.
Proof. exact @Gen_run_history. Qed.

Theorem C04_source_pyswarms_run : forall (V : Type) (N : num V) (m : @model V) (L : @lik V) (lp : @lprior V) (fl : flags) (r : V)
    (nanv : V) (h : list (list V)) (ops : list (@op V)),
  n_isnan N nanv = true ->
  Forall (fun v => length v = prior_count m) (trace true h ops) ->
  view (fst (run_gen N m L lp fl r nanv true (fresh h) ops)) = spec_history_ps N m L lp r fl (trace true h ops) /\
  snd (run_gen N m L lp fl r nanv true (fresh h) ops) = spec_outputs_ps N m L lp r h ops.
Proof. exact @Gen_run_pyswarms. Qed.

Print Assumptions C04_fom.
Print Assumptions C04_fom_meaning.
Print Assumptions C04_history.
Print Assumptions C04_history_current.
Print Assumptions C04_pyswarms_run.
Print Assumptions C04_wiring_resample_partial.
Print Assumptions C04_constructor.
Print Assumptions C04_source_call.
Print Assumptions C04_source_run.
