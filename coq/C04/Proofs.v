(* C04 lemmas.  Structural facts hold for every number type and every likelihood / log-prior
   functions; the arithmetic meaning of the GENERATED formulas is proved over exact rationals. *)
From Coq Require Import ZArith QArith List Bool PeanoNat Lia Lqa.
From PAFCommon Require Import PyFloat Lists.
From PAFC04 Require Import Gen Model.
Import ListNotations.

(* ---------- small list facts ---------- *)
Lemma upd_length {A} (l : list A) i x : length (upd l i x) = length l.
Proof. revert i; induction l as [|h t IH]; intros [|i]; simpl; auto. Qed.

Lemma nth_upd_neq {A} (l : list A) i j x d : i <> j -> nth j (upd l i x) d = nth j l d.
Proof.
  revert i j; induction l as [|h t IH]; intros [|i] [|j] H; simpl; auto; try congruence.
Qed.

Lemma nth_upd_eq {A} (l : list A) i x d : (i < length l)%nat -> nth i (upd l i x) d = x.
Proof. revert i; induction l as [|h t IH]; intros [|i] H; simpl in *; try lia; auto. apply IH; lia. Qed.

Lemma filter_map_app {A B} (f : A -> option B) l1 l2 :
  filter_map f (l1 ++ l2) = filter_map f l1 ++ filter_map f l2.
Proof. induction l1 as [|x t IH]; simpl; auto. destruct (f x); simpl; rewrite IH; auto. Qed.

Section Generic.
Context {V : Type} (N : num V).
Implicit Types (m : @model V) (L : @lik V) (lp : @lprior V) (fl : flags) (r : V) (vec : list V)
               (st : @state V) (ops : list (@op V)) (I : impl).

(* ---------- the gate ---------- *)
Lemma limits_ok_iff (lims : list (V * V)) vec : length vec = length lims ->
  (limits_ok N lims vec = true <->
   forall k, (k < length vec)%nat ->
     n_leb N (fst (nth k lims (n_zero N, n_zero N))) (nth k vec (n_zero N)) = true /\
     n_leb N (nth k vec (n_zero N)) (snd (nth k lims (n_zero N, n_zero N))) = true).
Proof.
  revert vec; induction lims as [|[lo hi] t IH]; intros [|v vec] Hl; simpl in *; try discriminate.
  - split.
    + intros _ k0 Hk. inversion Hk.
    + intros _. reflexivity.
  - injection Hl as Hl. rewrite !andb_true_iff, (IH vec Hl). split.
    + intros [[H1 H2] H3] [|k0] Hk; simpl; auto. apply H3; lia.
    + intro H. split; [split|].
      * apply (H 0%nat); lia.
      * apply (H 0%nat); lia.
      * intros k0 Hk. apply (H (S k0)); lia.
Qed.

(* ---------- one evaluation ---------- *)
Lemma evaluate_ok_iff m L vec ll b :
  evaluate N m L vec = EvOk ll b <->
  (length vec = prior_count m /\ limits_gate N m vec = true /\
   forallb (assert_ok N vec) (m_asserts m) = true /\
   L (instance N m vec) = LRet ll b /\ n_isnan N ll = false).
Proof.
  unfold evaluate, instance_from_vector.
  destruct (length vec =? prior_count m)%nat eqn:El; simpl.
  2:{ apply Nat.eqb_neq in El. split; [discriminate | intros [H _]; contradiction]. }
  apply Nat.eqb_eq in El.
  destruct (limits_gate N m vec) eqn:Elim; simpl.
  2:{ split; [discriminate | intros (_ & H & _); discriminate]. }
  destruct (forallb (assert_ok N vec) (m_asserts m)) eqn:Eas; simpl.
  2:{ split; [discriminate | intros (_ & _ & H & _); discriminate]. }
  destruct (L (instance N m vec)) as [ll' b'|] eqn:EL.
  2:{ split; [discriminate | intros (_ & _ & _ & H & _); discriminate]. }
  destruct (n_isnan N ll') eqn:En.
  - split; [discriminate|]. intros (_ & _ & _ & H & Hn). injection H as -> ->. congruence.
  - split.
    + intro H. injection H as -> ->. auto.
    + intros (_ & _ & _ & H & _). injection H as -> ->. reflexivity.
Qed.

Lemma evaluate_resample_iff m L vec :
  evaluate N m L vec = EvResample <->
  (length vec = prior_count m /\
   (limits_gate N m vec = false \/
    forallb (assert_ok N vec) (m_asserts m) = false \/
    L (instance N m vec) = LRaise \/
    exists ll b, L (instance N m vec) = LRet ll b /\ n_isnan N ll = true)).
Proof.
  unfold evaluate, instance_from_vector.
  destruct (length vec =? prior_count m)%nat eqn:El; simpl.
  2:{ apply Nat.eqb_neq in El. split; [discriminate | intros [H _]; contradiction]. }
  apply Nat.eqb_eq in El.
  destruct (limits_gate N m vec) eqn:Elim; simpl.
  2:{ split; auto. }
  destruct (forallb (assert_ok N vec) (m_asserts m)) eqn:Eas; simpl.
  2:{ split; auto. }
  destruct (L (instance N m vec)) as [ll' b'|] eqn:EL.
  2:{ split; auto. }
  destruct (n_isnan N ll') eqn:En.
  - split; auto. intros _. split; auto. right; right; right. exists ll', b'. auto.
  - split; [discriminate|]. intros [_ [H|[H|[H|(ll & b & H & Hn)]]]]; try discriminate.
    injection H as -> ->. congruence.
Qed.

Lemma evaluate_escape_iff m L vec e :
  evaluate N m L vec = EvEsc e <-> (length vec <> prior_count m /\ e = EAssertionError).
Proof.
  unfold evaluate, instance_from_vector.
  destruct (length vec =? prior_count m)%nat eqn:El; simpl.
  - apply Nat.eqb_eq in El. split.
    + destruct (limits_gate N m vec); simpl; [|discriminate].
      destruct (forallb (assert_ok N vec) (m_asserts m)); simpl; [|discriminate].
      destruct (L (instance N m vec)) as [ll b|]; [|discriminate]. destruct (n_isnan N ll); discriminate.
    + intros [H _]; contradiction.
  - apply Nat.eqb_neq in El. split.
    + intro H; injection H as <-. auto.
    + intros [_ ->]. reflexivity.
Qed.

(* the three outcomes are exhaustive *)
Lemma evaluate_total m L vec :
  (exists ll b, evaluate N m L vec = EvOk ll b) \/ evaluate N m L vec = EvResample \/
  (evaluate N m L vec = EvEsc EAssertionError /\ length vec <> prior_count m).
Proof.
  destruct (evaluate N m L vec) as [e| |ll b] eqn:E; eauto.
  right; right. apply evaluate_escape_iff in E. destruct E as [H ->]. auto.
Qed.

(* ---------- figure of merit: the eight flag combinations ---------- *)
Lemma merit_cases fl lp vec ll :
  merit N fl lp vec ll =
  match fl_like fl, fl_chi2 fl with
  | true, false => f_like N ll
  | false, false => f_post N ll (pysum N (lp_list lp 0 vec))
  | true, true => f_chi2 N (f_like N ll)
  | false, true => f_chi2 N (f_post N ll (pysum N (lp_list lp 0 vec)))
  end.
Proof. unfold merit. destruct (fl_like fl), (fl_chi2 fl); reflexivity. Qed.

Lemma merit_ignores_store fl lp vec ll s :
  merit N {| fl_like := fl_like fl; fl_chi2 := fl_chi2 fl; fl_store := s |} lp vec ll = merit N fl lp vec ll.
Proof. reflexivity. Qed.

Lemma call_value_success m L lp fl r vec ll b :
  evaluate N m L vec = EvOk ll b -> call_value N m L lp fl r vec = Returned (merit N fl lp vec ll).
Proof. intro H. unfold call_value. rewrite H. reflexivity. Qed.

Lemma call_value_resample m L lp fl r vec :
  evaluate N m L vec = EvResample -> call_value N m L lp fl r vec = Returned r.
Proof. intro H. unfold call_value. rewrite H. reflexivity. Qed.

Lemma call_value_no_escape m L lp fl r vec :
  length vec = prior_count m -> exists v, call_value N m L lp fl r vec = Returned v.
Proof.
  intro Hl. unfold call_value.
  destruct (evaluate_total m L vec) as [(ll & b & E)|[E|[E Hn]]]; rewrite E; eauto. contradiction.
Qed.

Lemma call_value_escape_only_length m L lp fl r vec e :
  call_value N m L lp fl r vec = Escaped e -> length vec <> prior_count m /\ e = EAssertionError.
Proof.
  unfold call_value. destruct (evaluate N m L vec) as [e'| |ll b] eqn:E; try discriminate.
  intro H; injection H as <-. apply evaluate_escape_iff in E. exact E.
Qed.

(* ---------- log-prior terms: k-th prior with k-th entry ---------- *)
Lemma lp_list_length lp j vec : length (lp_list lp j vec) = length vec.
Proof. revert j; induction vec as [|v t IH]; intro j; simpl; auto. Qed.

Lemma lp_list_nth lp j vec k d d' : (k < length vec)%nat ->
  nth k (lp_list lp j vec) d = lp (j + k)%nat (nth k vec d').
Proof.
  revert j k; induction vec as [|v t IH]; intros j [|k] H; simpl in *; try lia.
  - f_equal; lia.
  - rewrite (IH (S j) k) by lia. f_equal; lia.
Qed.

(* ---------- a call does not read the history: outputs are a function of the buffers ---------- *)
Lemma step_call_output I m L lp fl r st b :
  snd (step N I m L lp fl r st (OCall b)) = [call_value N m L lp fl r (buf (heap st) b)].
Proof.
  unfold step, call_value. destruct (evaluate N m L (buf (heap st) b)) as [e| |ll bx]; reflexivity.
Qed.

Lemma step_heap I m L lp fl r st o :
  heap (fst (step N I m L lp fl r st o)) =
  match o with OWrite b v => upd (heap st) b v | _ => heap st end.
Proof.
  destruct o as [b|b v|bs|]; simpl; auto.
  destruct (evaluate N m L (buf (heap st) b)) as [e| |ll bx]; reflexivity.
Qed.

Lemma run_with_cons (stp : @state V -> @op V -> @state V * list (@res V)) st o ops :
  run_with stp st (o :: ops) =
  (fst (run_with stp (fst (stp st o)) ops), snd (stp st o) :: snd (run_with stp (fst (stp st o)) ops)).
Proof.
  simpl. destruct (stp st o) as [st1 out]. simpl. destruct (run_with stp st1 ops) as [st2 outs]. reflexivity.
Qed.

Lemma run_outputs I m L lp fl r st ops :
  snd (run N I m L lp fl r false st ops) = spec_outputs N m L lp fl r (heap st) ops.
Proof.
  unfold run. revert st; induction ops as [|o ops IH]; intro st; [reflexivity|].
  rewrite run_with_cons. simpl snd. rewrite IH, step_heap.
  destruct o as [b|b v|bs|]; simpl spec_outputs.
  - rewrite step_call_output. reflexivity.
  - reflexivity.
  - reflexivity.
  - reflexivity.
Qed.

(* ---------- history of the plain fitness ---------- *)
Definition entry_of I fl (b : nat) vec (ll fom : V) (boxed : bool) : @pentry V * V :=
  ((if i_alias I then PRef b else PVal vec), stored_ll I fl boxed ll fom).

Lemma step_hist_call I m L lp fl r st b :
  hist (fst (step N I m L lp fl r st (OCall b))) =
  hist st ++
  match evaluate N m L (buf (heap st) b) with
  | EvOk ll boxed =>
      if fl_store fl then [entry_of I fl b (buf (heap st) b) ll (merit N fl lp (buf (heap st) b) ll) boxed] else []
  | _ => []
  end.
Proof.
  unfold step, entry_of. destruct (evaluate N m L (buf (heap st) b)) as [e| |ll bx]; simpl;
    try (rewrite app_nil_r; reflexivity).
  destruct (fl_store fl); simpl; [reflexivity | rewrite app_nil_r; reflexivity].
Qed.

Definition deref (h : list (list V)) (e : @pentry V * V) : list V * V :=
  (match fst e with PRef b => buf h b | PVal v => v end, snd e).
Lemma view_eq st : view st = map (deref (heap st)) (hist st).
Proof. reflexivity. Qed.

(* references held by the history are not overwritten by the remaining operations *)
Definition refs_safe (h : list (@pentry V * V)) ops : Prop :=
  forall b ll, In (PRef b, ll) h -> writes_to b ops = false.

Lemma deref_upd_safe (hp : list (list V)) (h : list (@pentry V * V)) b v :
  (forall b' ll, In (PRef b', ll) h -> b' <> b) ->
  map (deref (upd hp b v)) h = map (deref hp) h.
Proof.
  intro H. apply map_ext_in. intros [e ll] Hin. unfold deref; simpl. destruct e as [b'|w]; auto.
  unfold buf. rewrite nth_upd_neq; auto. intro E. apply (H b' ll Hin). auto.
Qed.

(* when the stored likelihood is the likelihood (no in-place corruption) *)
Definition ll_intact I L fl : Prop :=
  i_inplace I = false \/ never_boxed L \/ fl_like fl && fl_chi2 fl = false.

Lemma stored_ll_intact I L fl inst ll boxed fom :
  ll_intact I L fl -> L inst = LRet ll boxed -> stored_ll I fl boxed ll fom = ll.
Proof.
  intros [H|[H|H]] HL; unfold stored_ll.
  - rewrite H. reflexivity.
  - rewrite (H _ _ _ HL). rewrite andb_false_r. reflexivity.
  - rewrite <- !andb_assoc, H, !andb_false_r. reflexivity.
Qed.

Lemma evaluate_ok_L m L vec ll b : evaluate N m L vec = EvOk ll b -> L (instance N m vec) = LRet ll b.
Proof. intro H. apply evaluate_ok_iff in H. tauto. Qed.

(* main invariant: running plain operations appends exactly the successful calls, provided that
   no buffer referenced by the history is overwritten afterwards (trivial when entries are stored by value) *)
Lemma run_history_plain I m L lp fl r ops : forall st,
  ll_intact I L fl ->
  (i_alias I = false \/ no_write_after_call ops = true) ->
  refs_safe (hist st) ops ->
  view (fst (run N I m L lp fl r false st ops)) =
  view st ++ spec_history N m L fl (trace false (heap st) ops).
Proof.
  unfold run. induction ops as [|o ops IH]; intros st Hll Hal Hsafe.
  - simpl. unfold spec_history. destruct (fl_store fl); simpl; rewrite app_nil_r; reflexivity.
  - rewrite run_with_cons. simpl fst.
    destruct o as [b|b v|bs|].
    + (* call *)
      set (st1 := fst (step N I m L lp fl r st (OCall b))).
      assert (Hh : heap st1 = heap st) by (unfold st1; rewrite step_heap; reflexivity).
      assert (Hhist := step_hist_call I m L lp fl r st b). fold st1 in Hhist.
      rewrite IH; [ | exact Hll | | ].
      * rewrite Hh. rewrite !view_eq, Hh, Hhist, map_app, <- app_assoc. f_equal.
        simpl trace. unfold spec_history. destruct (fl_store fl) eqn:Es.
        2:{ destruct (evaluate N m L (buf (heap st) b)); reflexivity. }
        simpl filter_map. unfold success.
        destruct (evaluate N m L (buf (heap st) b)) as [e| |ll bx] eqn:Ev; try reflexivity.
        simpl. f_equal. unfold entry_of, deref; simpl.
        rewrite (stored_ll_intact I L fl _ ll bx _ Hll (evaluate_ok_L _ _ _ _ _ Ev)).
        destruct (i_alias I); reflexivity.
      * destruct Hal as [Ha|Hnw]; [left; exact Ha|right].
        simpl in Hnw. apply andb_true_iff in Hnw. tauto.
      * intros b' ll' Hin. rewrite Hhist in Hin. apply in_app_or in Hin. destruct Hin as [Hin|Hin].
        -- specialize (Hsafe b' ll' Hin). simpl in Hsafe. exact Hsafe.
        -- destruct (evaluate N m L (buf (heap st) b)) as [e| |ll bx]; try contradiction.
           destruct (fl_store fl); try contradiction. destruct Hin as [Hin|[]].
           unfold entry_of in Hin. destruct (i_alias I) eqn:Ea; try discriminate.
           injection Hin as <- _. destruct Hal as [Ha|Hnw]; [discriminate|].
           simpl in Hnw. apply andb_true_iff in Hnw. destruct Hnw as [Hb _].
           apply negb_true_iff in Hb. exact Hb.
    + (* write *)
      simpl step. simpl fst. rewrite IH; [ | exact Hll | | ].
      * simpl heap. simpl trace. f_equal. rewrite !view_eq. simpl hist. simpl heap.
        apply deref_upd_safe. intros b' ll' Hin E. subst b'.
        specialize (Hsafe b ll' Hin). simpl in Hsafe. rewrite Nat.eqb_refl in Hsafe. discriminate.
      * destruct Hal as [Ha|Hnw]; [left; exact Ha|right]. simpl in Hnw. exact Hnw.
      * intros b' ll' Hin. simpl hist in Hin. specialize (Hsafe b' ll' Hin). simpl in Hsafe.
        apply orb_false_iff in Hsafe. tauto.
    + (* batch: not an operation of the plain fitness *)
      simpl step. simpl fst. rewrite IH; [ reflexivity | exact Hll | | ].
      * destruct Hal as [Ha|Hnw]; [left; exact Ha|right]. simpl in Hnw. exact Hnw.
      * intros b' ll' Hin. specialize (Hsafe b' ll' Hin). simpl in Hsafe. exact Hsafe.
    + (* pickle round trip: references become copies of what they refer to *)
      simpl step. simpl fst. rewrite IH; [ | exact Hll | | ].
      * simpl trace. f_equal. rewrite !view_eq. unfold pickled. simpl hist. simpl heap.
        rewrite map_map. apply map_ext. intros [e ll]. unfold deref, snapshot; simpl. destruct e; reflexivity.
      * destruct Hal as [Ha|Hnw]; [left; exact Ha|right]. simpl in Hnw. exact Hnw.
      * intros b' ll' Hin. unfold pickled in Hin. simpl hist in Hin. apply in_map_iff in Hin.
        destruct Hin as ([e ll] & He & _). unfold snapshot in He. simpl in He. destruct e; discriminate.
Qed.

(* top-level forms: a fresh fitness object (empty history) *)
Definition fresh (h : list (list V)) : @state V := {| heap := h; hist := [] |}.

Lemma history_byvalue I m L lp fl r h ops :
  i_alias I = false -> ll_intact I L fl ->
  view (fst (run N I m L lp fl r false (fresh h) ops)) = spec_history N m L fl (trace false h ops).
Proof.
  intros Ha Hll. rewrite run_history_plain; auto. intros b ll [].
Qed.

Lemma history_partial I m L lp fl r h ops :
  no_write_after_call ops = true -> ll_intact I L fl ->
  view (fst (run N I m L lp fl r false (fresh h) ops)) = spec_history N m L fl (trace false h ops).
Proof.
  intros Hn Hll. rewrite run_history_plain; auto. intros b ll [].
Qed.

Lemma history_off I m L lp fl r h ops :
  fl_store fl = false -> view (fst (run N I m L lp fl r false (fresh h) ops)) = [].
Proof.
  intro Hs. unfold run.
  assert (G : forall st, hist st = [] -> hist (fst (run_with (step N I m L lp fl r) st ops)) = []).
  { induction ops as [|o ops IH]; intros st Hst; [exact Hst|].
    rewrite run_with_cons. simpl fst. apply IH.
    destruct o as [b|b v|bs|]; simpl; auto.
    - destruct (evaluate N m L (buf (heap st) b)); simpl; auto. rewrite Hs. exact Hst.
    - rewrite Hst. reflexivity. }
  rewrite view_eq, G; reflexivity.
Qed.

(* ---------- pyswarms ---------- *)
Definition gate m vec : bool := limits_gate N m vec && forallb (assert_ok N vec) (m_asserts m).

Lemma instance_from_vector_cases m vec : length vec = prior_count m ->
  instance_from_vector N m vec = if gate m vec then inl (instance N m vec) else inr EFit.
Proof.
  intro Hl. unfold instance_from_vector, gate. rewrite Hl, Nat.eqb_refl. simpl.
  destruct (limits_gate N m vec); simpl; auto.
  destruct (forallb (assert_ok N vec) (m_asserts m)); reflexivity.
Qed.

Definition ps_merit lp vec (ll : V) : V := p_fom N (p_post N ll (pysum N (lp_list lp 0 vec))).

Lemma ps_particle_cases m L lp r vec : length vec = prior_count m ->
  ps_particle N m L lp r vec =
  if gate m vec then
    match L (instance N m vec) with
    | LRaise => (Returned (p_res N r), None)
    | LRet ll _ => if n_isnan N (ps_merit lp vec ll) then (Returned (p_res N r), None)
                   else (Returned (ps_merit lp vec ll), Some (vec, ll))
    end
  else (Returned (p_res N r), None).
Proof.
  intro Hl. unfold ps_particle. rewrite (instance_from_vector_cases m vec Hl).
  destruct (gate m vec); reflexivity.
Qed.

Lemma ps_particle_returns m L lp r vec : length vec = prior_count m ->
  exists v, fst (ps_particle N m L lp r vec) = Returned v.
Proof.
  intro Hl. rewrite (ps_particle_cases m L lp r vec Hl).
  destruct (gate m vec); [|simpl; eauto]. destruct (L (instance N m vec)) as [ll b|]; [|simpl; eauto].
  destruct (n_isnan N (ps_merit lp vec ll)); simpl; eauto.
Qed.

Lemma ps_particle_success m L lp r vec x w ll : length vec = prior_count m ->
  ps_particle N m L lp r vec = (x, Some (w, ll)) ->
  w = vec /\ x = Returned (ps_merit lp vec ll) /\ n_isnan N (ps_merit lp vec ll) = false /\
  gate m vec = true /\ exists b, L (instance N m vec) = LRet ll b.
Proof.
  intros Hl. rewrite (ps_particle_cases m L lp r vec Hl).
  destruct (gate m vec); [|discriminate]. destruct (L (instance N m vec)) as [ll' b|]; [|discriminate].
  destruct (n_isnan N (ps_merit lp vec ll')) eqn:En; [discriminate|].
  intro H. injection H as <- <- <-. repeat split; eauto.
Qed.

Lemma ps_particle_resample m L lp r vec x : length vec = prior_count m ->
  ps_particle N m L lp r vec = (x, None) -> x = Returned (p_res N r).
Proof.
  intros Hl. rewrite (ps_particle_cases m L lp r vec Hl).
  destruct (gate m vec); [|congruence]. destruct (L (instance N m vec)) as [ll' b|]; [|congruence].
  destruct (n_isnan N (ps_merit lp vec ll')); [congruence|discriminate].
Qed.

Definition val_entries (l : list (list V * V)) : list (@pentry V * V) := map (fun e => (PVal (fst e), snd e)) l.

Lemma ps_batch_spec I m L lp fl r vecs : forall h acc,
  Forall (fun v => length v = prior_count m) vecs ->
  ps_batch N I m L lp fl r h vecs acc =
  (h ++ (if i_pshist I && fl_store fl then val_entries (filter_map (ps_success N m L lp r) vecs) else []),
   rev acc ++ map (fun v => fst (ps_particle N m L lp r v)) vecs).
Proof.
  induction vecs as [|vec rest IH]; intros h acc HF.
  - simpl. destruct (i_pshist I && fl_store fl); rewrite !app_nil_r; reflexivity.
  - inversion HF as [|? ? Hl HF']; subst. simpl ps_batch.
    destruct (ps_particle_returns m L lp r vec Hl) as [v Hv].
    simpl filter_map. simpl map.
    assert (Es : ps_success N m L lp r vec = snd (ps_particle N m L lp r vec)) by reflexivity.
    rewrite Es. clear Es.
    destruct (ps_particle N m L lp r vec) as [x rec] eqn:Ep. simpl in Hv. subst x. simpl fst. simpl snd.
    rewrite IH by assumption. simpl rev. rewrite <- !app_assoc. simpl.
    destruct rec as [[w ll]|]; simpl.
    + destruct (i_pshist I && fl_store fl); simpl; rewrite <- ?app_assoc; reflexivity.
    + reflexivity.
Qed.

Definition no_refs (h : list (@pentry V * V)) : Prop := forall b ll, ~ In (PRef b, ll) h.

Lemma view_no_refs_heap (h : list (@pentry V * V)) hp hp' : no_refs h -> map (deref hp) h = map (deref hp') h.
Proof.
  intro H. apply map_ext_in. intros [e ll] Hin. unfold deref; simpl. destruct e as [b|w]; auto.
  exfalso. exact (H b ll Hin).
Qed.

Lemma no_refs_app_val h l : no_refs h -> no_refs (h ++ val_entries l).
Proof.
  intros H b ll Hin. apply in_app_or in Hin. destruct Hin as [Hin|Hin]; [exact (H b ll Hin)|].
  unfold val_entries in Hin. apply in_map_iff in Hin. destruct Hin as (e & He & _). discriminate.
Qed.

Lemma deref_val_entries hp l : map (deref hp) (val_entries l) = l.
Proof.
  unfold val_entries. rewrite map_map. unfold deref; simpl. rewrite <- (map_id l) at 2.
  apply map_ext. intros [a b]; reflexivity.
Qed.

Lemma run_ps I m L lp fl r ops : forall st,
  Forall (fun v => length v = prior_count m) (trace true (heap st) ops) ->
  no_refs (hist st) ->
  view (fst (run N I m L lp fl r true st ops)) =
    view st ++ (if i_pshist I then spec_history_ps N m L lp r fl (trace true (heap st) ops) else []) /\
  snd (run N I m L lp fl r true st ops) = spec_outputs_ps N m L lp r (heap st) ops.
Proof.
  unfold run. induction ops as [|o ops IH]; intros st HF Hnr.
  - simpl. split; [|reflexivity]. unfold spec_history_ps. destruct (i_pshist I), (fl_store fl); simpl; rewrite app_nil_r; reflexivity.
  - rewrite run_with_cons. simpl fst. simpl snd.
    assert (Hone : forall vecs, Forall (fun v => length v = prior_count m) vecs ->
              Forall (fun v => length v = prior_count m) (trace true (heap st) ops) ->
              let '(h', out) := ps_batch N I m L lp fl r (hist st) vecs [] in
              view (fst (run_with (step_ps N I m L lp fl r) {| heap := heap st; hist := h' |} ops)) =
                view st ++ (if i_pshist I then spec_history_ps N m L lp r fl (vecs ++ trace true (heap st) ops) else []) /\
              out :: snd (run_with (step_ps N I m L lp fl r) {| heap := heap st; hist := h' |} ops) =
                map (fun v => fst (ps_particle N m L lp r v)) vecs :: spec_outputs_ps N m L lp r (heap st) ops).
    { intros vecs HFv HFr. rewrite (ps_batch_spec I m L lp fl r vecs (hist st) [] HFv). simpl rev. simpl app.
      set (h' := hist st ++ _).
      assert (Hnr' : no_refs h').
      { unfold h'. destruct (i_pshist I && fl_store fl); [apply no_refs_app_val; exact Hnr | rewrite app_nil_r; exact Hnr]. }
      destruct (IH {| heap := heap st; hist := h' |} HFr Hnr') as [IHv IHo]. simpl heap in *.
      split; [|rewrite IHo; reflexivity].
      rewrite IHv. rewrite !view_eq. simpl hist. simpl heap. unfold h'. rewrite map_app, <- app_assoc. f_equal.
      unfold spec_history_ps. destruct (i_pshist I); simpl.
      - destruct (fl_store fl); simpl; [|reflexivity]. rewrite deref_val_entries, filter_map_app. reflexivity.
      - reflexivity. }
    destruct o as [b|b v|bs|].
    + (* single vector *)
      simpl trace in HF. inversion HF as [|? ? Hl HF']; subst.
      specialize (Hone [buf (heap st) b] (Forall_cons _ Hl (Forall_nil _)) HF').
      unfold step_ps. destruct (ps_batch N I m L lp fl r (hist st) [buf (heap st) b] []) as [h' out].
      simpl fst. simpl snd. exact Hone.
    + (* write *)
      simpl step_ps. simpl fst. simpl snd. simpl trace in HF.
      destruct (IH {| heap := upd (heap st) b v; hist := hist st |} HF Hnr) as [IHv IHo]. simpl heap in *.
      split; [|simpl; rewrite IHo; reflexivity].
      rewrite IHv. simpl trace. f_equal. rewrite !view_eq. simpl. apply view_no_refs_heap. exact Hnr.
    + (* batch *)
      simpl trace in HF. apply Forall_app in HF. destruct HF as [HFv HFr].
      specialize (Hone (map (buf (heap st)) bs) HFv HFr).
      unfold step_ps. destruct (ps_batch N I m L lp fl r (hist st) (map (buf (heap st)) bs) []) as [h' out].
      simpl fst. simpl snd. simpl trace. simpl spec_outputs_ps. rewrite map_map in Hone. exact Hone.
    + (* pickle round trip *)
      simpl step_ps. simpl fst. simpl snd. simpl trace in HF.
      assert (Hp : hist (pickled st) = hist st).
      { unfold pickled; simpl. rewrite <- (map_id (hist st)) at 2. apply map_ext_in. intros [e ll] Hin.
        unfold snapshot; simpl. destruct e as [b|w]; [exfalso; exact (Hnr b ll Hin) | reflexivity]. }
      assert (Hnr' : no_refs (hist (pickled st))) by (rewrite Hp; exact Hnr).
      destruct (IH (pickled st) HF Hnr') as [IHv IHo]. simpl heap in *.
      split; [|simpl; rewrite IHo; reflexivity].
      rewrite IHv. simpl trace. f_equal. rewrite !view_eq, Hp. reflexivity.
Qed.

End Generic.

(* ---------- fresh pyswarms fitness ---------- *)
Section GenericTop.
Context {V : Type} (N : num V).

Lemma pyswarms_run I (m : @model V) (L : @lik V) (lp : @lprior V) fl r h (ops : list (@op V)) :
  Forall (fun v => length v = prior_count m) (trace true h ops) ->
  view (fst (run N I m L lp fl r true (fresh h) ops)) =
    (if i_pshist I then spec_history_ps N m L lp r fl (trace true h ops) else []) /\
  snd (run N I m L lp fl r true (fresh h) ops) = spec_outputs_ps N m L lp r h ops.
Proof.
  intro HF. destruct (run_ps N I m L lp fl r ops (fresh h) HF) as [Hv Ho]; [intros b ll []|].
  split; [exact Hv | exact Ho].
Qed.

(* the constructor of a resumed fit.  History lists created first: it never raises and its sanity
   evaluation is an ordinary call.  Created afterwards (late): it raises exactly when that evaluation
   succeeds and wants to be recorded; otherwise the fitness starts with an empty history. *)
Lemma construct_early I (m : @model V) (L : @lik V) (lp : @lprior V) fl r (st : @state V) pbuf :
  construct_via_call N I m L lp fl r false st pbuf = Some (fst (step N I m L lp fl r st (OCall pbuf))).
Proof. reflexivity. Qed.

Lemma construct_late_raises_iff I (m : @model V) (L : @lik V) (lp : @lprior V) fl r h pbuf :
  construct_via_call N I m L lp fl r true (fresh h) pbuf = None <->
  (fl_store fl = true /\ exists ll b, evaluate N m L (buf h pbuf) = EvOk ll b).
Proof.
  unfold construct_via_call. rewrite step_hist_call. simpl hist. simpl heap. simpl app.
  destruct (evaluate N m L (buf h pbuf)) as [e| |ll b] eqn:Ev; simpl.
  - split; [discriminate | intros [_ (ll & b & H)]; discriminate].
  - split; [discriminate | intros [_ (ll & b & H)]; discriminate].
  - destruct (fl_store fl); simpl.
    + split; [intros _; split; eauto | reflexivity].
    + split; [discriminate | intros [H _]; discriminate].
Qed.

Lemma construct_late_otherwise I (m : @model V) (L : @lik V) (lp : @lprior V) fl r h pbuf st :
  construct_via_call N I m L lp fl r true (fresh h) pbuf = Some st -> st = fresh h.
Proof.
  unfold construct_via_call. destruct (length _ =? length _)%nat; [|discriminate]. intro H; injection H as <-. reflexivity.
Qed.

(* current code: the sanity evaluation does not go through __call__ *)
Lemma construct_direct_spec I (m : @model V) (L : @lik V) (lp : @lprior V) fl r late (st : @state V) pbuf :
  ((exists ll b, evaluate N m L (buf (heap st) pbuf) = EvOk ll b) <->
   construct N I m L lp fl r false late st pbuf = Some st) /\
  (forall st', construct N I m L lp fl r false late st pbuf = Some st' -> st' = st).
Proof.
  unfold construct, construct_direct.
  destruct (evaluate N m L (buf (heap st) pbuf)) as [e| |ll b]; split.
  - split; [intros (ll & b & H); discriminate | discriminate].
  - discriminate.
  - split; [intros (ll & b & H); discriminate | discriminate].
  - discriminate.
  - split; [reflexivity | eauto].
  - intros st' H. injection H as <-. reflexivity.
Qed.

(* all in one: what a successful / unsuccessful plain call returns *)
Lemma call_value_spec (m : @model V) (L : @lik V) (lp : @lprior V) fl r vec :
  length vec = prior_count m ->
  (forall ll b, evaluate N m L vec = EvOk ll b ->
     call_value N m L lp fl r vec =
     Returned (match fl_like fl, fl_chi2 fl with
               | true, false => f_like N ll
               | false, false => f_post N ll (pysum N (lp_list lp 0 vec))
               | true, true => f_chi2 N (f_like N ll)
               | false, true => f_chi2 N (f_post N ll (pysum N (lp_list lp 0 vec)))
               end)) /\
  (evaluate N m L vec = EvResample -> call_value N m L lp fl r vec = Returned r) /\
  ((exists ll b, evaluate N m L vec = EvOk ll b) \/ evaluate N m L vec = EvResample).
Proof.
  intro Hl. split; [|split].
  - intros ll b E. rewrite (call_value_success N m L lp fl r vec ll b E), merit_cases. reflexivity.
  - apply call_value_resample.
  - destruct (evaluate_total N m L vec) as [H|[H|[_ H]]]; auto. contradiction.
Qed.

Lemma resample_cases (m : @model V) (L : @lik V) (lp : @lprior V) fl r vec :
  length vec = prior_count m ->
  (limits_gate N m vec = false \/
   forallb (assert_ok N vec) (m_asserts m) = false \/
   L (instance N m vec) = LRaise \/
   (exists ll b, L (instance N m vec) = LRet ll b /\ n_isnan N ll = true)) ->
  call_value N m L lp fl r vec = Returned r.
Proof.
  intros Hl H. apply call_value_resample. apply evaluate_resample_iff. auto.
Qed.
End GenericTop.

(* ---------- exact rationals: what the generated formulas mean ---------- *)
Definition qsum (l : list Q) : Q := fold_right Qplus 0 l.

Lemma fold_left_Qplus (l : list Q) (a : Q) : fold_left Qplus l a == a + qsum l.
Proof.
  revert a; induction l as [|x t IH]; intro a; simpl.
  - ring.
  - rewrite IH. ring.
Qed.

Lemma pysum_Q (l : list Q) : pysum numQ l == qsum l.
Proof. unfold pysum; simpl. rewrite fold_left_Qplus. ring. Qed.

Lemma f_like_Q ll : f_like numQ ll == ll.
Proof. simpl. unfold fit_likelihood_Q. reflexivity. Qed.
Lemma f_post_Q ll s : f_post numQ ll s == ll + s.
Proof. simpl. unfold fit_posterior_Q. reflexivity. Qed.
Lemma f_chi2_Q f : f_chi2 numQ f == (-2 # 1) * f.
Proof. simpl. unfold fit_chi2_Q. ring. Qed.

Lemma merit_Q fl (lp : @lprior Q) vec ll :
  merit numQ fl lp vec ll ==
  (if fl_chi2 fl then -2 # 1 else 1) * (ll + (if fl_like fl then 0 else qsum (lp_list lp 0 vec))).
Proof.
  rewrite merit_cases. destruct (fl_like fl), (fl_chi2 fl).
  - rewrite f_chi2_Q, f_like_Q. ring.
  - rewrite f_like_Q. ring.
  - rewrite f_chi2_Q, f_post_Q, pysum_Q. ring.
  - rewrite f_post_Q, pysum_Q. ring.
Qed.

Lemma ps_merit_Q (lp : @lprior Q) vec ll :
  ps_merit numQ lp vec ll == (-2 # 1) * (ll + qsum (lp_list lp 0 vec)).
Proof.
  unfold ps_merit. simpl. unfold ps_fom_Q, ps_posterior_Q.
  change (fold_left Qplus (lp_list lp 0 vec) 0) with (pysum numQ (lp_list lp 0 vec)).
  rewrite pysum_Q. ring.
Qed.

Lemma ps_res_Q r : p_res numQ r == (-2 # 1) * r.
Proof. simpl. unfold ps_resample_Q. ring. Qed.

(* the sum of the log-prior terms, entry by entry: prior k with entry k *)
Lemma qsum_lp_list (lp : @lprior Q) j vec :
  qsum (lp_list lp j vec) == qsum (map (fun k => lp (j + k)%nat (nth k vec 0)) (seq 0 (length vec))).
Proof.
  revert j; induction vec as [|v t IH]; intro j; simpl; [reflexivity|].
  rewrite IH. rewrite <- seq_shift, map_map. rewrite Nat.add_0_r.
  apply Qplus_comp; [reflexivity|].
  assert (E : map (fun k => lp (S j + k)%nat (nth k t 0)) (seq 0 (length t)) =
              map (fun x => lp (j + S x)%nat (nth x t 0)) (seq 0 (length t))).
  { apply map_ext. intro k. f_equal. lia. }
  rewrite E. reflexivity.
Qed.

(* ---------- USE_JAX ---------- *)
Section Jax.
Context {V : Type} (N : num V).
Lemma limits_resample_nojax (m : @model V) (L : @lik V) (lp : @lprior V) fl r vec :
  m_jax m = false -> length vec = prior_count m -> limits_ok N (m_limits m) vec = false ->
  call_value N m L lp fl r vec = Returned r.
Proof.
  intros Hj Hl Hlim. apply resample_cases; auto. left. unfold limits_gate. rewrite Hj, Hlim. reflexivity.
Qed.
Lemma limits_gate_nojax (m : @model V) vec : m_jax m = false -> limits_gate N m vec = limits_ok N (m_limits m) vec.
Proof. intro H. unfold limits_gate. rewrite H. reflexivity. Qed.
End Jax.

(* pyswarms with the flags it is wired with (posterior, chi-squared) returns what the plain fitness returns *)
Lemma ps_matches_fitness_Q (lp : @lprior Q) vec ll s :
  ps_merit numQ lp vec ll == merit numQ {| fl_like := false; fl_chi2 := true; fl_store := s |} lp vec ll.
Proof. rewrite ps_merit_Q, merit_Q. simpl. ring. Qed.
