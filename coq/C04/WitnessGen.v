(* C04: non-vacuity of the theorems about the statement-level translation of the source (ProofsGen.v):
   the translated functions RUN (vm_compute) through every kind of exit -- success with history append, resample
   through the except clause, resample through the nan test, an exception that is not a FitException leaving
   the call -- and the hypothesis `n_isnan N nanv = true` of the pyswarms theorems is satisfiable (binary64 nan). *)
From Coq Require Import ZArith QArith List Bool.
From Coq Require Import Floats.PrimFloat.
From PAFCommon Require Import PyFloat.
From PAFC04 Require Import PyStmt Gen Model Proofs Witness GenModel ProofsGen.
Import ListNotations.

(* Fitness.__call__ read off the source, exact rationals: posterior + chi-squared + history *)
Example source_call_success :
  gen_fitness_call numQ m1 L1 lp1 post_chi2_hist (-1) [[1]] (PRef 0%nat) (hists_of []) =
  (Ret (f_chi2 numQ (f_post numQ 1 (pysum numQ (lp_list lp1 0 [1])))),
   {| h_params := [PVal [1]]; h_lls := [1] |}).
Proof. vm_compute. reflexivity. Qed.
Example source_call_limit_resample :        (* PriorLimitException caught by `except exc.FitException` *)
  gen_fitness_call numQ m1 L1 lp1 post_chi2_hist (-1) [[11]] (PRef 0%nat) (hists_of []) = (Ret (-1), hists_of []).
Proof. vm_compute. reflexivity. Qed.
Example source_call_likelihood_raises :     (* FitException raised by the likelihood, after instance was bound *)
  gen_fitness_call numQ m1 Lfail lp1 post_chi2_hist (-1) [[4]] (PRef 0%nat) (hists_of []) = (Ret (-1), hists_of []).
Proof. vm_compute. reflexivity. Qed.
Example source_call_other_exception_escapes :   (* AssertionError of a vector of the wrong length is not caught *)
  gen_fitness_call numQ m1 L1 lp1 post_chi2_hist (-1) [[1; 2]] (PRef 0%nat) (hists_of []) =
  (Exn (GE EAssertionError), hists_of []).
Proof. vm_compute. reflexivity. Qed.
Example source_step_is_model_step :
  gen_step numQ m1 L1 lp1 post_chi2_hist (-1) (fresh [[1]]) (OCall 0%nat) =
  step numQ current_impl m1 L1 lp1 post_chi2_hist (-1) (fresh [[1]]) (OCall 0%nat) /\
  length (hist (fst (gen_step numQ m1 L1 lp1 post_chi2_hist (-1) (fresh [[1]]) (OCall 0%nat)))) = 1%nat.
Proof. split; vm_compute; reflexivity. Qed.

(* binary64: the nan test of the likelihood, and the pyswarms loop (nan detour of its except clause) *)
Definition mF : @model float := Build_model [(0%float, 10%float)] [OPrior 0%nat] [] false.
Definition LF : @lik float := fun inst => LRet (nth 0 inst 0%float) false.
Definition LFnan : @lik float := fun _ => LRet nan false.
Definition lpF : @lprior float := fun _ _ => 0%float.
Definition tabF : list (list float * float) := [([0%float], 0%float)].
Example nan_hypothesis_satisfiable : n_isnan (numF tabF) nan = true.
Proof. vm_compute. reflexivity. Qed.
Example source_call_nan_resample :
  fst (gen_fitness_call (numF tabF) mF LFnan lpF post_chi2_hist neg_infinity [[1%float]] (PRef 0%nat) (hists_of [])) = Ret neg_infinity.
Proof. vm_compute. reflexivity. Qed.
(* three particles: success, outside the limits (except clause -> nan -> -2 * resample), success *)
Example source_pyswarms_batch :
  gen_ps_call (numF tabF) mF LF lpF post_chi2_hist neg_infinity nan [[1%float]; [11%float]]
              [PRef 0%nat; PRef 1%nat; PRef 0%nat] (hists_of []) =
  (Ret [(-2)%float; infinity; (-2)%float],
   {| h_params := [PVal [1%float]; PVal [1%float]]; h_lls := [1%float; 1%float] |}).
Proof. vm_compute. reflexivity. Qed.
Example source_pyswarms_escape :             (* a particle of the wrong length: AssertionError leaves the whole call *)
  fst (gen_ps_call (numF tabF) mF LF lpF post_chi2_hist neg_infinity nan [[1%float]; [1%float; 2%float]]
                   [PRef 0%nat; PRef 1%nat; PRef 0%nat] (hists_of [])) = Exn (GE EAssertionError).
Proof. vm_compute. reflexivity. Qed.
Example source_run_is_model_run :
  run_gen (numF tabF) mF LF lpF post_chi2_hist neg_infinity nan true (fresh [[1%float]; [11%float]])
          [OBatch [0%nat; 1%nat]; OWrite 0%nat [2%float]; OCall 0%nat] =
  run (numF tabF) current_impl mF LF lpF post_chi2_hist neg_infinity true (fresh [[1%float]; [11%float]])
          [OBatch [0%nat; 1%nat]; OWrite 0%nat [2%float]; OCall 0%nat].
Proof. vm_compute. reflexivity. Qed.
