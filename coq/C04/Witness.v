(* C04 witnesses: the full history statements are REFUTED on the pinned implementation traits
   (buggy_impl), by computation on a one-parameter model over exact rationals; plus non-vacuity
   examples for the hypotheses of the theorems of Props.v. *)
From Coq Require Import ZArith QArith List Bool.
From PAFC04 Require Import Gen Model Proofs.
Import ListNotations.

Definition m1 : @model Q := Build_model [(0, 10)] [OPrior 0%nat; OConst (1 # 2)] [] false.
Definition m2 : @model Q := Build_model [(0, 10); (0, 10)] [OPrior 1%nat; OPrior 0%nat]
                                         [Build_assertion true (OPrior 0%nat) (OPrior 1%nat)] false.
Definition L1 : @lik Q := fun inst => LRet (nth 0 inst 0) false.          (* ll = first slot *)
Definition Lboxed : @lik Q := fun inst => LRet (nth 0 inst 0) true.       (* ... as a 0-d array *)
Definition Lfail : @lik Q := fun inst => if Qle_bool 3 (nth 0 inst 0) then LRaise else LRet (nth 0 inst 0) false.
Definition lp1 : @lprior Q := fun k v => v * v + inject_Z (Z.of_nat k).
Definition post_chi2_hist := {| fl_like := false; fl_chi2 := true; fl_store := true |}.
Definition like_chi2_hist := {| fl_like := true; fl_chi2 := true; fl_store := true |}.

(* --- refutations (pinned code) --- *)
(* the caller overwrites its buffer after a successful call: the history shows the new contents *)
Lemma history_alias_witness :
  view (fst (run numQ buggy_impl m1 L1 lp1 post_chi2_hist (-1) false (fresh [[1]])
                 [OCall 0%nat; OWrite 0%nat [5]])) <>
  spec_history numQ m1 L1 post_chi2_hist (trace false [[1]] [OCall 0%nat; OWrite 0%nat [5]]).
Proof. vm_compute. intro H. discriminate H. Qed.

Lemma history_alias_refuted :
  exists (m : @model Q) L lp fl r h ops,
    view (fst (run numQ buggy_impl m L lp fl r false (fresh h) ops)) <> spec_history numQ m L fl (trace false h ops).
Proof.
  exists m1, L1, lp1, post_chi2_hist, (-1), [[1]], [OCall 0%nat; OWrite 0%nat [5]]. exact history_alias_witness.
Qed.

(* likelihood mode + chi-squared + a likelihood returned as a mutable 0-d array: -2*ll is recorded *)
Lemma history_inplace_witness :
  view (fst (run numQ buggy_impl m1 Lboxed lp1 like_chi2_hist (-1) false (fresh [[1]]) [OCall 0%nat])) <>
  spec_history numQ m1 Lboxed like_chi2_hist (trace false [[1]] [OCall 0%nat]).
Proof. vm_compute. intro H. discriminate H. Qed.

Lemma history_inplace_refuted :
  exists (m : @model Q) L lp fl r h ops,
    no_write_after_call ops = true /\
    view (fst (run numQ buggy_impl m L lp fl r false (fresh h) ops)) <> spec_history numQ m L fl (trace false h ops).
Proof.
  exists m1, Lboxed, lp1, like_chi2_hist, (-1), [[1]], [OCall 0%nat]. split; [reflexivity | exact history_inplace_witness].
Qed.

(* pyswarms: store_history = True, one successful particle, nothing recorded *)
Lemma pyswarms_history_witness :
  view (fst (run numQ buggy_impl m1 L1 lp1 post_chi2_hist (-1) true (fresh [[1]]) [OBatch [0%nat]])) <>
  spec_history_ps numQ m1 L1 lp1 (-1) post_chi2_hist (trace true [[1]] [OBatch [0%nat]]).
Proof. vm_compute. intro H. discriminate H. Qed.

Lemma pyswarms_history_refuted :
  exists (m : @model Q) L lp fl r h ops,
    Forall (fun v => length v = prior_count m) (trace true h ops) /\
    view (fst (run numQ buggy_impl m L lp fl r true (fresh h) ops)) <> spec_history_ps numQ m L lp r fl (trace true h ops).
Proof.
  exists m1, L1, lp1, post_chi2_hist, (-1), [[1]], [OBatch [0%nat]].
  split; [repeat constructor | exact pyswarms_history_witness].
Qed.

(* resumed fit, store_history = True, history lists created after the sanity evaluation: the constructor raises *)
Lemma constructor_refuted :
  exists (m : @model Q) L lp fl r h pbuf, construct_via_call numQ buggy_impl m L lp fl r true (fresh h) pbuf = None.
Proof. exists m1, L1, lp1, like_chi2_hist, (-1), [[1]], 0%nat. vm_compute. reflexivity. Qed.

(* USE_JAX=1: the limit check is skipped, an out-of-limit vector is evaluated like any other *)
Definition m1_jax : @model Q := Build_model [(0, 10)] [OPrior 0%nat; OConst (1 # 2)] [] true.
Lemma jax_limits_refuted :
  exists (m : @model Q) L lp fl r vec,
    length vec = prior_count m /\ limits_ok numQ (m_limits m) vec = false /\
    call_value numQ m L lp fl r vec <> Returned r.
Proof.
  exists m1_jax, L1, lp1, post_chi2_hist, (-1), [11]. repeat split; vm_compute; try reflexivity.
  intro H. discriminate H.
Qed.

(* the pyswarms fitness consults no flag and converts the resample value: both differ from the plain fitness *)
Lemma pyswarms_flags_refuted :
  exists fl (lp : @lprior Q) vec ll, ~ ps_merit numQ lp vec ll == merit numQ fl lp vec ll.
Proof. exists like_chi2_hist, lp1, [1], 1. vm_compute. intro H. discriminate H. Qed.
Lemma pyswarms_resample_refuted : exists r : Q, ~ p_res numQ r == r.
Proof. exists 1. vm_compute. intro H. discriminate H. Qed.

(* --- non-vacuity --- *)
Example success_exists : evaluate numQ m1 L1 [1] = EvOk 1 false.
Proof. vm_compute. reflexivity. Qed.
Example limit_failure_exists : evaluate numQ m1 L1 [11] = EvResample.
Proof. vm_compute. reflexivity. Qed.
Example assertion_failure_exists : evaluate numQ m2 L1 [2; 1] = EvResample /\ exists ll b, evaluate numQ m2 L1 [1; 2] = EvOk ll b.
Proof. split; [vm_compute; reflexivity | eexists; eexists; vm_compute; reflexivity]. Qed.
Example fit_exception_exists : evaluate numQ m1 Lfail [4] = EvResample /\ evaluate numQ m1 Lfail [2] = EvOk 2 false.
Proof. split; vm_compute; reflexivity. Qed.
Example escape_exists : call_value numQ m1 L1 lp1 post_chi2_hist (-1) [1; 2] = Escaped EAssertionError.
Proof. vm_compute. reflexivity. Qed.
(* -2 * (ll + sum of prior terms): ll = 2 (slot 0 is prior 1), terms 1*1+0 and 2*2+1 *)
Example posterior_chi2_value :
  match call_value numQ m2 L1 lp1 post_chi2_hist (-1) [1; 2] with Returned v => v == -16 | _ => False end.
Proof. vm_compute. reflexivity. Qed.
Example guard_holds_and_history_nonempty :
  no_write_after_call [OCall 0%nat; OWrite 1%nat [3]; OCall 1%nat; OCall 0%nat] = true /\
  length (view (fst (run numQ buggy_impl m1 L1 lp1 post_chi2_hist (-1) false (fresh [[1]; [2]])
                         [OCall 0%nat; OWrite 1%nat [3]; OCall 1%nat; OCall 0%nat]))) = 3%nat.
Proof. split; vm_compute; reflexivity. Qed.
Example repaired_history_survives_overwrite :
  view (fst (run numQ repaired_impl m1 L1 lp1 post_chi2_hist (-1) false (fresh [[1]]) [OCall 0%nat; OWrite 0%nat [5]])) = [([1], 1)].
Proof. vm_compute. reflexivity. Qed.
Example constructor_direct_leaves_history_empty :
  option_map (view (V := Q)) (construct numQ repaired_impl m1 L1 lp1 like_chi2_hist (-1) false false (fresh [[1]]) 0%nat) = Some [] /\
  construct numQ repaired_impl m1 L1 lp1 like_chi2_hist (-1) false false (fresh [[11]]) 0%nat = None.
Proof. split; vm_compute; reflexivity. Qed.
Example constructor_early_records_sanity_evaluation :
  option_map (view (V := Q)) (construct_via_call numQ repaired_impl m1 L1 lp1 like_chi2_hist (-1) false (fresh [[1]]) 0%nat) = Some [([1], 1)].
Proof. vm_compute. reflexivity. Qed.
Example pickle_round_trip_keeps_history :
  view (fst (run numQ buggy_impl m1 L1 lp1 post_chi2_hist (-1) false (fresh [[1]]) [OCall 0%nat; OPickle; OWrite 0%nat [5]])) = [([1], 1)].
Proof. vm_compute. reflexivity. Qed.
Example pyswarms_batch_value :
  snd (run numQ buggy_impl m1 L1 lp1 post_chi2_hist (-1) true (fresh [[1]; [11]]) [OBatch [0%nat; 1%nat; 0%nat]]) =
  [[Returned (ps_merit numQ lp1 [1] 1); Returned (p_res numQ (-1)); Returned (ps_merit numQ lp1 [1] 1)]].
Proof. vm_compute. reflexivity. Qed.
Example repaired_pyswarms_history :
  view (fst (run numQ repaired_impl m1 L1 lp1 post_chi2_hist (-1) true (fresh [[1]; [11]]) [OBatch [0%nat; 1%nat; 0%nat]])) =
  [([1], 1); ([1], 1)].
Proof. vm_compute. reflexivity. Qed.
