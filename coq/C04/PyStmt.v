(* C04: the small semantic domain the STATEMENT-LEVEL translator (harness/vcheck/c04_stmt.py) targets.
   Hand-written, imported by the regenerated Gen.v.  A translated Python function body is a Gallina
   term in continuation-passing style of type  result R E * hists P L :
     - `Ret r`  : the function returned r          - `Exn e` : the exception e left the function
     - hists    : the two history lists of the fitness object AFTER the call (the only object state
                  the translated bodies write), threaded through every statement as the variable `st`
   A `for` loop is `for_each`: the body maps the loop state (object state + every local assigned in
   the loop, `option` when it may be unbound) to `Next state` (fall off the end of the body) or
   `Done outcome` (return / escaping exception inside the loop). *)
From Coq Require Import List.
Import ListNotations.

Inductive result (R E : Type) : Type := Ret (r : R) | Exn (e : E).
Arguments Ret {R E}. Arguments Exn {R E}.

Record hists (P L : Type) : Type := { h_params : list P; h_lls : list L }.
Arguments h_params {P L}. Arguments h_lls {P L}. Arguments Build_hists {P L}.

(* self.parameters_history_list.append(x) / self.log_likelihood_history_list.append(x) *)
Definition append_params {P L} (st : hists P L) (x : P) : hists P L :=
  {| h_params := h_params st ++ [x]; h_lls := h_lls st |}.
Definition append_lls {P L} (st : hists P L) (x : L) : hists P L :=
  {| h_params := h_params st; h_lls := h_lls st ++ [x] |}.

Inductive step_res (S O : Type) : Type := Next (s : S) | Done (o : O).
Arguments Next {S O}. Arguments Done {S O}.

(* for x in l: body   (no break/continue/else in the translated fragment) *)
Fixpoint for_each {A S O : Type} (body : A -> S -> step_res S O) (l : list A) (s : S) (after : S -> O) : O :=
  match l with
  | [] => after s
  | x :: r => match body x s with
              | Next s' => for_each body r s' after
              | Done o => o
              end
  end.
