(* C11 lemmas, part 5: the best fit of a grid search through both routes of the library
   (Fit.best_fit as written, the repaired Fit.best_fit, and the best_fits() query), for likelihoods of
   every sign, ties, -inf and cells without a likelihood. *)
From Coq Require Import List String Bool ZArith Lia.
From PAFC11 Require Import Lib Model.
Import ListNotations.
Open Scope string_scope.
Open Scope list_scope.

(* ---------- Fit.best_fit as written ---------- *)

(* invariant of the loop: `cur` (if any) holds `curll`; without `cur`, `curll` is the start value *)
Lemma best_loop_is (l : list row) : forall cur curll b,
  (forall r, cur = Some r -> r_maxll r = Some curll) ->
  best_loop cur curll l = BestIs b ->
  (cur = Some b \/ In b l) /\
  exists w, r_maxll b = Some w /\ (curll <= w)%Z /\
            forall c, In c l -> exists u, r_maxll c = Some u /\ (u <= w)%Z.
Proof.
  induction l as [|x r IH]; intros cur curll b Hcur H; simpl in H.
  - destruct cur as [c|]; [|discriminate]. injection H as <-.
    split; [left; reflexivity|]. exists curll. split; [apply Hcur; reflexivity|]. split; [lia|]. intros c0 [].
  - destruct (r_maxll x) as [u|] eqn:Ex; [|discriminate].
    destruct (Z.ltb curll u) eqn:E.
    + apply Z.ltb_lt in E.
      assert (Hx : forall r0, Some x = Some r0 -> r_maxll r0 = Some u) by (intros r0 H0; injection H0 as <-; exact Ex).
      destruct (IH (Some x) u b Hx H) as (Hin & w & Hw & Hle & Hall).
      split; [destruct Hin as [Hin|Hin]; [injection Hin as <-; right; left; reflexivity | right; right; exact Hin]|].
      exists w. split; [exact Hw|]. split; [lia|].
      intros c [<-|Hc]; [exists u; split; [exact Ex | exact Hle] | apply Hall; exact Hc].
    + apply Z.ltb_ge in E. destruct (IH cur curll b Hcur H) as (Hin & w & Hw & Hle & Hall).
      split; [destruct Hin as [Hin|Hin]; [left; exact Hin | right; right; exact Hin]|].
      exists w. split; [exact Hw|]. split; [exact Hle|].
      intros c [<-|Hc]; [exists u; split; [exact Ex | lia] | apply Hall; exact Hc].
Qed.

Theorem best_child_is_max (db : list row) (gid : string) (b : row) :
  best_child db gid = BestIs b ->
  In b (children db gid) /\
  exists w, r_maxll b = Some w /\
            forall c, In c (children db gid) -> exists u, r_maxll c = Some u /\ (u <= w)%Z.
Proof.
  unfold best_child, best_of_cells. destruct (children db gid) as [|x r] eqn:E; [discriminate|]. intro H.
  assert (Hn : forall r0 : row, None = Some r0 -> r_maxll r0 = Some neg_inf_key) by (intros r0 H0; discriminate).
  destruct (best_loop_is (x :: r) None neg_inf_key b Hn H) as (Hin & w & Hw & _ & Hall).
  split; [destruct Hin as [Hin|Hin]; [discriminate | exact Hin]|].
  exists w. split; [exact Hw | exact Hall].
Qed.

(* existence: every cell holds a likelihood => the loop does not raise; and once a cell is held, or a cell
   above the start value is still to come, it ends with a cell *)
Lemma best_loop_total (l : list row) : forall cur curll,
  (forall c, In c l -> exists u, r_maxll c = Some u) ->
  (cur <> None \/ exists c u, In c l /\ r_maxll c = Some u /\ (curll < u)%Z) ->
  exists b, best_loop cur curll l = BestIs b.
Proof.
  induction l as [|x r IH]; intros cur curll Hall Hex; simpl.
  - destruct cur as [c|]; [exists c; reflexivity|].
    destruct Hex as [Hex|(c & u & [] & _)]. exfalso; apply Hex; reflexivity.
  - destruct (Hall x (or_introl eq_refl)) as (u & Ex). rewrite Ex.
    assert (Hall' : forall c, In c r -> exists u0, r_maxll c = Some u0) by (intros c Hc; apply Hall; right; exact Hc).
    destruct (Z.ltb curll u) eqn:E.
    + apply IH; [exact Hall' | left; discriminate].
    + apply Z.ltb_ge in E. apply IH; [exact Hall'|].
      destruct Hex as [Hex|(c & v & [<-|Hc] & Hv & Hlt)].
      * left; exact Hex.
      * rewrite Ex in Hv. injection Hv as <-. lia.
      * right. exists c, v. split; [exact Hc|]. split; [exact Hv | exact Hlt].
Qed.

Theorem best_child_exists (db : list row) (gid : string) :
  (forall c, In c (children db gid) -> exists u, r_maxll c = Some u) ->
  (exists c u, In c (children db gid) /\ r_maxll c = Some u /\ (neg_inf_key < u)%Z) ->
  exists b, best_child db gid = BestIs b /\
    In b (children db gid) /\
    exists w, r_maxll b = Some w /\
              forall c, In c (children db gid) -> exists u, r_maxll c = Some u /\ (u <= w)%Z.
Proof.
  intros Hall Hex.
  assert (Hb : exists b, best_child db gid = BestIs b).
  { unfold best_child, best_of_cells. destruct (children db gid) as [|x r] eqn:E.
    - destruct Hex as (c & u & [] & _).
    - apply best_loop_total; [exact Hall | right; exact Hex]. }
  destruct Hb as (b & Hb). exists b. split; [exact Hb | apply best_child_is_max; exact Hb].
Qed.

(* ---------- the best_fits() query ---------- *)

Lemma zmax_list_spec (l : list Z) (m : Z) :
  zmax_list l = Some m -> In m l /\ forall x, In x l -> (x <= m)%Z.
Proof.
  revert m. induction l as [|x r IH]; intros m H; simpl in H; [discriminate|].
  destruct (zmax_list r) as [k|] eqn:E.
  - injection H as <-. destruct (IH k eq_refl) as (Hin & Hle).
    split.
    + destruct (Z.max_spec x k) as [[_ ->]|[_ ->]]; [right; exact Hin | left; reflexivity].
    + intros y [<-|Hy]; [lia | specialize (Hle y Hy); lia].
  - injection H as <-. destruct r as [|y r']; [|simpl in E; destruct (zmax_list r'); discriminate].
    split; [left; reflexivity|]. intros y [<-|[]]. lia.
Qed.

Lemma zmax_list_none (l : list Z) : zmax_list l = None -> l = [].
Proof. destruct l as [|x r]; [reflexivity|]. simpl. destruct (zmax_list r); discriminate. Qed.

Lemma likelihoods_in (l : list row) (v : Z) :
  In v (likelihoods l) <-> exists c, In c l /\ r_maxll c = Some v.
Proof.
  unfold likelihoods. rewrite in_flat_map. split.
  - intros (c & Hc & Hv). exists c. split; [exact Hc|]. destruct (r_maxll c) as [u|]; [|destruct Hv].
    destruct Hv as [<-|[]]. reflexivity.
  - intros (c & Hc & Hv). exists c. split; [exact Hc|]. rewrite Hv. left; reflexivity.
Qed.

Theorem best_fits_query_spec (db : list row) (gid : string) (b : row) :
  In b (best_fits_query db gid) <-> highest_in (children db gid) b.
Proof.
  unfold best_fits_query, highest_in. set (l := children db gid). split.
  - destruct (zmax_list (likelihoods l)) as [m|] eqn:E; [|intros []].
    destruct (zmax_list_spec _ _ E) as (_ & Hle). intro H. apply filter_In in H. destruct H as (Hin & Hm).
    unfold has_ll in Hm. destruct (r_maxll b) as [v|] eqn:Eb; [|discriminate]. apply Z.eqb_eq in Hm. subst v.
    split; [exact Hin|]. exists m. split; [reflexivity|].
    intros c u Hc Hu. apply Hle. apply likelihoods_in. exists c. split; [exact Hc | exact Hu].
  - intros (Hin & w & Hw & Hall).
    destruct (zmax_list (likelihoods l)) as [m|] eqn:E.
    + destruct (zmax_list_spec _ _ E) as (Hm & Hle). apply filter_In. split; [exact Hin|].
      unfold has_ll. rewrite Hw. apply Z.eqb_eq.
      apply likelihoods_in in Hm. destruct Hm as (c & Hc & Hcm).
      assert (m <= w)%Z by (apply (Hall c m Hc Hcm)).
      assert (w <= m)%Z by (apply Hle; apply likelihoods_in; exists b; split; [exact Hin | exact Hw]).
      lia.
    + apply zmax_list_none in E.
      assert (Hx : In w (likelihoods l)) by (apply likelihoods_in; exists b; split; [exact Hin | exact Hw]).
      rewrite E in Hx. destruct Hx.
Qed.

(* a grid search one of whose cells holds a likelihood has a non-empty answer *)
Theorem best_fits_query_nonempty (db : list row) (gid : string) :
  (exists c u, In c (children db gid) /\ r_maxll c = Some u) ->
  exists b, In b (best_fits_query db gid).
Proof.
  intros (c & u & Hc & Hu). unfold best_fits_query.
  destruct (zmax_list (likelihoods (children db gid))) as [m|] eqn:E.
  - destruct (zmax_list_spec _ _ E) as (Hm & _). apply likelihoods_in in Hm. destruct Hm as (b & Hb & Hbm).
    exists b. apply filter_In. split; [exact Hb|]. unfold has_ll. rewrite Hbm. apply Z.eqb_refl.
  - apply zmax_list_none in E.
    assert (Hx : In u (likelihoods (children db gid))) by (apply likelihoods_in; exists c; split; assumption).
    rewrite E in Hx. destruct Hx.
Qed.

(* the two routes agree: whatever Fit.best_fit returns is listed by best_fits() *)
Theorem best_routes_agree (db : list row) (gid : string) (b : row) :
  best_child db gid = BestIs b -> In b (best_fits_query db gid).
Proof.
  intro H. destruct (best_child_is_max db gid b H) as (Hin & w & Hw & Hall).
  apply best_fits_query_spec. split; [exact Hin|]. exists w. split; [exact Hw|].
  intros c u Hc Hu. destruct (Hall c Hc) as (u' & Hu' & Hle). rewrite Hu in Hu'. injection Hu' as <-. exact Hle.
Qed.

(* ---------- the repaired Fit.best_fit ---------- *)

Lemma best_loop_repaired_spec (l : list row) : forall cur,
  (forall r v, cur = Some (r, v) -> r_maxll r = Some v) ->
  match best_loop_repaired cur l with
  | Some b => (option_map fst cur = Some b \/ In b l) /\
              exists w, r_maxll b = Some w /\
                (forall r v, cur = Some (r, v) -> (v <= w)%Z) /\
                forall c u, In c l -> r_maxll c = Some u -> (u <= w)%Z
  | None => cur = None /\ forall c, In c l -> r_maxll c = None
  end.
Proof.
  induction l as [|x r IH]; intros cur Hcur; simpl.
  - destruct cur as [[c v]|]; simpl.
    + split; [left; reflexivity|]. exists v. split; [apply (Hcur c v eq_refl)|].
      split; [intros r0 v0 H0; injection H0 as <- <-; lia | intros c0 u []].
    + split; [reflexivity | intros c []].
  - destruct (r_maxll x) as [u|] eqn:Ex.
    + assert (Hx : forall r0 v0, Some (x, u) = Some (r0, v0) -> r_maxll r0 = Some v0)
        by (intros r0 v0 H0; injection H0 as <- <-; exact Ex).
      destruct cur as [[c v]|].
      * destruct (Z.ltb v u) eqn:E.
        -- apply Z.ltb_lt in E. specialize (IH (Some (x, u)) Hx).
           destruct (best_loop_repaired (Some (x, u)) r) as [b|]; [|destruct IH as (IH & _); discriminate].
           destruct IH as (Hin & w & Hw & Hge & Hall).
           split; [destruct Hin as [Hin|Hin]; [simpl in Hin; injection Hin as <-; right; left; reflexivity | right; right; exact Hin]|].
           exists w. split; [exact Hw|]. specialize (Hge x u eq_refl).
           split; [intros r0 v0 H0; injection H0 as <- <-; lia|].
           intros c0 u0 [<-|Hc] Hu0; [rewrite Ex in Hu0; injection Hu0 as <-; exact Hge | apply (Hall c0 u0 Hc Hu0)].
        -- apply Z.ltb_ge in E. specialize (IH (Some (c, v)) Hcur).
           destruct (best_loop_repaired (Some (c, v)) r) as [b|]; [|destruct IH as (IH & _); discriminate].
           destruct IH as (Hin & w & Hw & Hge & Hall).
           split; [destruct Hin as [Hin|Hin]; [left; exact Hin | right; right; exact Hin]|].
           exists w. split; [exact Hw|]. split; [exact Hge|]. specialize (Hge c v eq_refl).
           intros c0 u0 [<-|Hc] Hu0; [rewrite Ex in Hu0; injection Hu0 as <-; lia | apply (Hall c0 u0 Hc Hu0)].
      * specialize (IH (Some (x, u)) Hx).
        destruct (best_loop_repaired (Some (x, u)) r) as [b|]; [|destruct IH as (IH & _); discriminate].
        destruct IH as (Hin & w & Hw & Hge & Hall).
        split; [destruct Hin as [Hin|Hin]; [simpl in Hin; injection Hin as <-; right; left; reflexivity | right; right; exact Hin]|].
        exists w. split; [exact Hw|]. specialize (Hge x u eq_refl).
        split; [intros r0 v0 H0; discriminate|].
        intros c0 u0 [<-|Hc] Hu0; [rewrite Ex in Hu0; injection Hu0 as <-; exact Hge | apply (Hall c0 u0 Hc Hu0)].
    + specialize (IH cur Hcur). destruct (best_loop_repaired cur r) as [b|].
      * destruct IH as (Hin & w & Hw & Hge & Hall).
        split; [destruct Hin as [Hin|Hin]; [left; exact Hin | right; right; exact Hin]|].
        exists w. split; [exact Hw|]. split; [exact Hge|].
        intros c0 u0 [<-|Hc] Hu0; [rewrite Ex in Hu0; discriminate | apply (Hall c0 u0 Hc Hu0)].
      * destruct IH as (Hn & Hall). split; [exact Hn|]. intros c0 [<-|Hc]; [exact Ex | apply Hall; exact Hc].
Qed.

(* the repaired property never raises on a grid search with cells, returns a cell exactly when some cell holds a
   likelihood (whatever its sign, -inf included), and that cell is one best_fits() lists *)
Theorem best_child_repaired_spec (db : list row) (gid : string) :
  children db gid <> [] ->
  match best_child_repaired db gid with
  | BestIs b => highest_in (children db gid) b /\ In b (best_fits_query db gid)
  | BestNone => forall c, In c (children db gid) -> r_maxll c = None
  | BestRaised => False
  end.
Proof.
  intro Hne. unfold best_child_repaired. destruct (children db gid) as [|x r] eqn:E; [contradiction|].
  assert (Hn : forall (r0 : row) (v : Z), None = Some (r0, v) -> r_maxll r0 = Some v) by (intros; discriminate).
  pose proof (best_loop_repaired_spec (x :: r) None Hn) as H.
  destruct (best_loop_repaired None (x :: r)) as [b|].
  - destruct H as (Hin & w & Hw & _ & Hall).
    assert (Hh : highest_in (x :: r) b).
    { split; [destruct Hin as [Hin|Hin]; [discriminate | exact Hin]|]. exists w. split; [exact Hw | exact Hall]. }
    split; [exact Hh|]. apply best_fits_query_spec. rewrite E. exact Hh.
  - destruct H as (_ & Hall). exact Hall.
Qed.

(* where the code as written returns a cell, the repair returns a cell of the same likelihood *)
Theorem best_child_repaired_conservative (db : list row) (gid : string) (b : row) :
  best_child db gid = BestIs b ->
  exists b', best_child_repaired db gid = BestIs b' /\ r_maxll b' = r_maxll b.
Proof.
  intro H. destruct (best_child_is_max db gid b H) as (Hin & w & Hw & Hall).
  assert (Hne : children db gid <> []) by (intro E; rewrite E in Hin; destruct Hin).
  pose proof (best_child_repaired_spec db gid Hne) as R.
  destruct (best_child_repaired db gid) as [| |b']; [destruct R | |].
  - rewrite (R b Hin) in Hw. discriminate.
  - exists b'. split; [reflexivity|]. destruct R as ((Hin' & w' & Hw' & Hall') & _).
    destruct (Hall b' Hin') as (u & Hu & Hle). rewrite Hw' in Hu. injection Hu as <-.
    specialize (Hall' b w Hin Hw). rewrite Hw, Hw'. f_equal. lia.
Qed.

(* ---------- the two defects of Fit.best_fit as written (witnesses) ---------- *)
Definition cell (id : string) (ll : option Z) : row :=
  {| r_id := id; r_name := Some "cell"; r_tag := None; r_complete := Some true; r_grid := false; r_parent := Some "g";
     r_model := None; r_info := None; r_samples := None; r_instance := None; r_maxll := ll; r_jsons := [] |}.

Theorem best_child_total_refuted :
  (exists db gid, (exists b, highest_in (children db gid) b) /\ best_child db gid = BestRaised) /\
  (exists db gid, (exists b, highest_in (children db gid) b) /\ best_child db gid = BestNone).
Proof.
  split.
  - exists [cell "c1" (Some 0%Z); cell "c2" None], "g". split; [|vm_compute; reflexivity].
    exists (cell "c1" (Some 0%Z)). split; [vm_compute; left; reflexivity|]. exists 0%Z. split; [reflexivity|].
    intros c u Hc Hu. vm_compute in Hc. destruct Hc as [<-|[<-|[]]]; vm_compute in Hu; [injection Hu as <-; lia | discriminate].
  - exists [cell "c1" (Some neg_inf_key); cell "c2" (Some neg_inf_key)], "g". split; [|vm_compute; reflexivity].
    exists (cell "c1" (Some neg_inf_key)). split; [vm_compute; left; reflexivity|]. exists neg_inf_key. split; [reflexivity|].
    intros c u Hc Hu. vm_compute in Hc. destruct Hc as [<-|[<-|[]]]; vm_compute in Hu; injection Hu as <-; unfold neg_inf_key; lia.
Qed.
