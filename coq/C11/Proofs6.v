(* C11: the identifier of a fit on its two sides -- the writer (AbstractPaths._identifier: folder name, id of a fit
   written through a session) and the loader (SearchOutput.id, recomputed from the files by the Scraper) -- hash the
   same tokens for EVERY unique tag: absent (None), empty ('': falsy but not None) and non-empty. *)
From Coq Require Import List String Bool.
From PAFC11 Require Import Lib Model.
Import ListNotations.
Open Scope string_scope.
Open Scope list_scope.

Lemma id_tokens_agree (s m : list string) (tag : option string) :
  writer_tokens s m tag = loader_tokens s m tag.
Proof.
  unfold writer_tokens, loader_tokens. destruct tag as [t|]; simpl.
  - rewrite ?app_nil_r, <- ?app_assoc. reflexivity.
  - rewrite ?app_nil_r. reflexivity.
Qed.

(* whatever the hash is (md5 of the joined tokens in the code): id written = id loaded *)
Lemma id_agree (H : list string -> string) (s m : list string) (tag : option string) :
  H (writer_tokens s m tag) = H (loader_tokens s m tag).
Proof. rewrite id_tokens_agree. reflexivity. Qed.

(* the tag-presence rule: the tokens tell None, '' and every other tag apart (both sides, by id_tokens_agree) *)
Lemma writer_tokens_tag_inj (s m : list string) (t1 t2 : option string) :
  writer_tokens s m t1 = writer_tokens s m t2 -> t1 = t2.
Proof.
  unfold writer_tokens. destruct t1 as [a|], t2 as [b|]; intro E.
  - apply app_inv_head in E. inversion E. reflexivity.
  - rewrite <- (app_nil_r (s ++ m)) in E at 2. apply app_inv_head in E. discriminate.
  - rewrite <- (app_nil_r (s ++ m)) in E at 1. apply app_inv_head in E. discriminate.
  - reflexivity.
Qed.

Lemma loader_tokens_tag_inj (s m : list string) (t1 t2 : option string) :
  loader_tokens s m t1 = loader_tokens s m t2 -> t1 = t2.
Proof. rewrite <- !id_tokens_agree. apply writer_tokens_tag_inj. Qed.

(* the neighbouring rule (append the tag when it is truthy) agrees with the loader exactly off the empty tag ... *)
Lemma truthy_rule_partial (s m : list string) (tag : option string) :
  tag <> Some "" -> writer_tokens_truthy s m tag = loader_tokens s m tag.
Proof.
  intro N. rewrite <- id_tokens_agree. unfold writer_tokens_truthy, writer_tokens.
  destruct tag as [t|]; [|reflexivity]. destruct t; [congruence|reflexivity].
Qed.

(* ... and disagrees with it on the empty tag, for every search and model *)
Lemma truthy_rule_refuted (s m : list string) :
  writer_tokens_truthy s m (Some "") <> loader_tokens s m (Some "").
Proof.
  rewrite <- id_tokens_agree. unfold writer_tokens_truthy, writer_tokens. intro E.
  rewrite <- (app_nil_r (s ++ m)) in E at 1. apply app_inv_head in E. discriminate.
Qed.

(* where the folder lies: an empty tag adds no level (the fit lies where the fit without tag lies) while its
   identifier differs (writer_tokens_tag_inj): location does not determine the tag, the identifier does *)
Lemma nonempty_app (a b : list string) : nonempty (a ++ b) = nonempty a ++ nonempty b.
Proof. unfold nonempty. apply filter_app. Qed.

Definition with_tag (s : fit_spec) (t : option string) : fit_spec :=
  {| fs_prefix := fs_prefix s; fs_tag := t; fs_name := fs_name s; fs_id := fs_id s; fs_class := fs_class s;
     fs_keys := fs_keys s; fs_reload_id := fs_reload_id s; fs_model := fs_model s; fs_stored_model := fs_stored_model s;
     fs_load_error := fs_load_error s; fs_info := fs_info s; fs_info_held := fs_info_held s; fs_samples := fs_samples s;
     fs_interrupt := fs_interrupt s; fs_extra_jsons := fs_extra_jsons s; fs_analyses := fs_analyses s |}.

Lemma empty_tag_same_location (s : fit_spec) :
  spec_path (with_tag s (Some "")) = spec_path (with_tag s None).
Proof. unfold spec_path, with_tag. simpl. rewrite !nonempty_app. simpl. reflexivity. Qed.

Lemma spec_path_no_empty_level (s : fit_spec) : fs_id s <> "" -> ~ In "" (spec_path s).
Proof.
  intros N I. unfold spec_path in I. apply in_app_or in I. destruct I as [I|I].
  - unfold nonempty in I. apply filter_In in I. destruct I as [_ I]. simpl in I. discriminate.
  - simpl in I. destruct I as [I|[]]. congruence.
Qed.
