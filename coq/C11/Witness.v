(* Non-vacuity examples and refutation witnesses for C11. *)
From Coq Require Import List String Bool ZArith.
From PAFC11 Require Import Lib Gen Model Proofs.
Import ListNotations.
Open Scope string_scope.
Open Scope list_scope.

Example drawer_pinned_fails : reload_ok drawer_pinned ["name"; "number_of_cores"; "total_draws"] = false.
Proof. vm_compute. reflexivity. Qed.
Example drawer_repaired_ok : reload_ok drawer_repaired (serialised_keys drawer_repaired) = true.
Proof. vm_compute. reflexivity. Qed.
