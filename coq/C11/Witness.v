(* Non-vacuity examples and refutation witnesses for C11. *)
From Coq Require Import List String Bool ZArith.
From PAFC11 Require Import Lib Gen Model Proofs Proofs2 Proofs3 Proofs4.
Import ListNotations.
Open Scope string_scope.
Open Scope list_scope.

(* the Drawer defect and its repair, on the constructor chains *)
Example drawer_pinned_fails : reload_ok drawer_pinned ["name"; "number_of_cores"; "total_draws"] = false.
Proof. vm_compute. reflexivity. Qed.
Example drawer_repaired_reads : reload_ok drawer_repaired (serialised_keys drawer_repaired) = true.
Proof. vm_compute. reflexivity. Qed.
Example some_class_is_not_drawer : exists c, In c search_classes /\ sc_name c <> "Drawer".
Proof. exists (hd drawer_pinned (filter not_drawer search_classes)). vm_compute. split; [tauto | discriminate]. Qed.

(* the hypotheses of the grid theorems are satisfiable: the two-grid directory under the repaired id *)
Example two_grids_wf_fixed : wf [] true false two_grids.
Proof.
  split.
  - intros f Hf. vm_compute in Hf. destruct Hf as [<-|[<-|[]]]; split; reflexivity.
  - vm_compute. repeat constructor; simpl; intuition discriminate.
Qed.
Example two_grids_disjoint : cells_disjoint true false two_grids.
Proof.
  intros g g' id Hg Hg' H1 H2. vm_compute in Hg, Hg'.
  destruct Hg as [<-|[<-|[]]]; destruct Hg' as [<-|[<-|[]]]; try reflexivity;
    vm_compute in H1, H2; exfalso; intuition congruence.
Qed.
Example two_grids_parents : parent_files_consistent true false two_grids.
Proof.
  intros f g Hf Hg E. vm_compute in Hf, Hg.
  destruct Hf as [<-|[<-|[]]]; destruct Hg as [<-|[<-|[]]]; vm_compute in E; vm_compute;
    try (left; reflexivity); try discriminate.
Qed.
(* ... and not under the pinned id (both markers are "t1") *)
Example two_grids_not_wf_pinned : ~ NoDup (map (gs_id false) (grids false two_grids)).
Proof. vm_compute. intro H. inversion H; subst. apply H2. left. reflexivity. Qed.

(* a fit the session route and the directory route agree on *)
Definition spec_a : fit_spec :=
  {| fs_prefix := ["pp"]; fs_tag := Some "t1"; fs_name := "s1"; fs_id := "abc"; fs_class := "ScriptedSearch";
     fs_keys := ["name"]; fs_reload_id := "abc"; fs_model := "m"; fs_stored_model := "m"; fs_load_error := None;
     fs_info := Some "i";
     fs_samples := [{| s_vec := "v0"; s_ll := (-4)%Z; s_inst := "i0" |}; {| s_vec := "v1"; s_ll := (-2)%Z; s_inst := "i1" |};
                    {| s_vec := "v2"; s_ll := (-2)%Z; s_inst := "i2" |}];
     fs_interrupt := NoInterrupt; fs_extra_jsons := ["attr"]; fs_analyses := [["attr"]; ["attr"]] |}.
(* the same fit, killed while search.json was being written: a folder without metadata *)
Definition spec_b : fit_spec :=
  {| fs_prefix := ["pp"]; fs_tag := Some "t1"; fs_name := "s2"; fs_id := "def"; fs_class := "ScriptedSearch";
     fs_keys := []; fs_reload_id := ""; fs_model := "m"; fs_stored_model := ""; fs_load_error := None;
     fs_info := Some "i"; fs_samples := []; fs_interrupt := PreFit AtSearchPartial;
     fs_extra_jsons := ["attr"]; fs_analyses := [] |}.
Example spec_b_not_an_output :
  healthy spec_b = false /\ f_metadata (write_fit spec_b) = false /\ f_jsons (write_fit spec_b) = ["info"; "search"].
Proof. vm_compute. repeat split. Qed.
Example spec_ab_loads_a :
  scrape search_classes gs_id_uses_folder false [write_fit spec_b; write_fit spec_a] []
  = scrape search_classes gs_id_uses_folder false [write_fit spec_a] [].
Proof. vm_compute. reflexivity. Qed.
Example spec_a_ok : spec_ok search_classes spec_a /\ NoDup (flat_map ids_of (map write_fit [spec_a])).
Proof. split; [repeat split | vm_compute; repeat constructor; simpl; intuition discriminate]. Qed.
Example spec_a_loaded :
  exists db, scrape search_classes gs_id_uses_folder false [write_fit spec_a] [] = Loaded db /\
             map r_id db = ["abc"; "abc_0"; "abc_1"] /\
             option_map r_instance (find_row "abc" db) = Some (Some "i1").
Proof. eexists. split; [vm_compute; reflexivity | vm_compute; split; reflexivity]. Qed.

(* first strict maximum *)
Example best_first_of_ties : option_map s_vec (best (fs_samples spec_a)) = Some "v1".
Proof. vm_compute. reflexivity. Qed.
