(* Non-vacuity examples and refutation witnesses for C11. *)
From Coq Require Import List String Bool ZArith.
From PAFC11 Require Import Lib Gen Model Proofs Proofs2 Proofs3 Proofs4 Proofs5.
Import ListNotations.
Open Scope string_scope.
Open Scope list_scope.

(* the Drawer defect and its repair, on the constructor chains *)
Example drawer_pinned_fails : reload_ok drawer_pinned ["name"; "number_of_cores"; "total_draws"] = false.
Proof. vm_compute. reflexivity. Qed.
Example drawer_repaired_reads : reload_ok drawer_repaired (serialised_keys drawer_repaired) = true.
Proof. vm_compute. reflexivity. Qed.
Example drawer_is_translated_and_reads : exists c, In c search_classes /\ sc_name c = "Drawer" /\ class_ok c = true.
Proof.
  destruct (class_named "Drawer" search_classes) as [c|] eqn:E; [|vm_compute in E; discriminate].
  exists c. unfold class_named in E. apply find_some in E. destruct E as [Hin Hn].
  split; [exact Hin|]. split; [apply String.eqb_eq; exact Hn|].
  pose proof translated_classes_ok as H. rewrite forallb_forall in H. apply H. exact Hin.
Qed.
(* the keys a real LBFGS search.json carries lie in the universe of C11_all_searches *)
Example real_keys_known : forall c, class_named "LBFGS" search_classes = Some c ->
  keys_known c ["initial_values"; "initializer"; "inplace"; "iterations_per_update"; "name"; "number_of_cores";
                "path_prefix"; "paths"; "unique_tag"; "visualize"] = true.
Proof. intros c H. vm_compute in H. injection H as <-. vm_compute. reflexivity. Qed.
Example monotone_instance : incl ["name"] ["name"; "paths"] /\ call_ok [nls_sig] ["name"; "paths"] = true.
Proof. split; [intros k [<-|[]]; left; reflexivity | vm_compute; reflexivity]. Qed.

(* the hypotheses of the grid theorems are satisfiable: the two-grid directory under the repaired id *)
Example two_grids_wf_fixed : wf [] true false two_grids.
Proof.
  split.
  - intros f Hf. vm_compute in Hf. destruct Hf as [<-|[<-|[]]]; split; reflexivity.
  - vm_compute. repeat constructor; simpl; intuition discriminate.
Qed.
Example two_grids_disjoint : cells_disjoint true false two_grids.
Proof.
  intros g g' id Hg Hg' H1 H2. vm_compute in Hg, Hg'.
  destruct Hg as [<-|[<-|[]]]; destruct Hg' as [<-|[<-|[]]]; try reflexivity;
    vm_compute in H1, H2; exfalso; intuition congruence.
Qed.
Example two_grids_parents : parent_files_consistent true false two_grids.
Proof.
  intros f g Hf Hg E. vm_compute in Hf, Hg.
  destruct Hf as [<-|[<-|[]]]; destruct Hg as [<-|[<-|[]]]; vm_compute in E; vm_compute;
    try (left; reflexivity); try discriminate.
Qed.
(* ... and not under the pinned id (both markers are "t1") *)
Example two_grids_not_wf_pinned : ~ NoDup (map (gs_id false) (grids false two_grids)).
Proof. vm_compute. intro H. inversion H; subst. apply H2. left. reflexivity. Qed.

(* a fit the session route and the directory route agree on *)
Definition spec_a : fit_spec :=
  {| fs_prefix := ["pp"]; fs_tag := Some "t1"; fs_name := "s1"; fs_id := "abc"; fs_class := "ScriptedSearch";
     fs_keys := ["name"]; fs_reload_id := "abc"; fs_model := "m"; fs_stored_model := "m"; fs_load_error := None;
     fs_info := Some "i"; fs_info_held := Some "i";
     fs_samples := [{| s_vec := "v0"; s_ll := (-4)%Z; s_inst := "i0" |}; {| s_vec := "v1"; s_ll := (-2)%Z; s_inst := "i1" |};
                    {| s_vec := "v2"; s_ll := (-2)%Z; s_inst := "i2" |}];
     fs_interrupt := NoInterrupt; fs_extra_jsons := ["attr"]; fs_analyses := [["attr"]; ["attr"]] |}.
(* the same fit, killed while search.json was being written: a folder without metadata *)
Definition spec_b : fit_spec :=
  {| fs_prefix := ["pp"]; fs_tag := Some "t1"; fs_name := "s2"; fs_id := "def"; fs_class := "ScriptedSearch";
     fs_keys := []; fs_reload_id := ""; fs_model := "m"; fs_stored_model := ""; fs_load_error := None;
     fs_info := Some "i"; fs_info_held := Some "i"; fs_samples := []; fs_interrupt := PreFit AtSearchPartial;
     fs_extra_jsons := ["attr"]; fs_analyses := [] |}.
Example spec_b_not_an_output :
  healthy spec_b = false /\ f_metadata (write_fit spec_b) = false /\ f_jsons (write_fit spec_b) = ["info"; "search"].
Proof. vm_compute. repeat split. Qed.
Example spec_ab_loads_a :
  scrape search_classes gs_id_uses_folder false [write_fit spec_b; write_fit spec_a] []
  = scrape search_classes gs_id_uses_folder false [write_fit spec_a] [].
Proof. vm_compute. reflexivity. Qed.
Example spec_a_ok : spec_ok search_classes spec_a /\ NoDup (flat_map ids_of (map write_fit [spec_a])).
Proof. split; [repeat split | vm_compute; repeat constructor; simpl; intuition discriminate]. Qed.
Example spec_a_loaded :
  exists db, scrape search_classes gs_id_uses_folder false [write_fit spec_a] [] = Loaded db /\
             map r_id db = ["abc"; "abc_0"; "abc_1"] /\
             option_map r_instance (find_row "abc" db) = Some (Some "i1").
Proof. eexists. split; [vm_compute; reflexivity | vm_compute; split; reflexivity]. Qed.

(* first strict maximum *)
Example best_first_of_ties : option_map s_vec (best (fs_samples spec_a)) = Some "v1".
Proof. vm_compute. reflexivity. Qed.

(* hypotheses of the remaining theorems are satisfiable *)
Example unreadable_instance :
  let f := cell_folder ["a"; "x"] "idx" "p" 0 in
  let g := {| f_path := ["a"; "d"]; f_metadata := true; f_completed := true; f_marker := None; f_parent_file := None;
              f_written_id := "idd"; f_class := "Drawer"; f_keys := ["number_of_cores"]; f_name := "d"; f_tag := None;
              f_reload_id := "idd"; f_model := "m"; f_info := None; f_info_held := None; f_samples := None;
              f_load_error := None; f_jsons := []; f_analyses := [] |} in
  folder_reload_ok [drawer_pinned] g = false /\ scrape [drawer_pinned] true false [f; g] [] = Raised "TypeError".
Proof. vm_compute. split; reflexivity. Qed.
Example completed_only_instance : wf [] true true two_grids.
Proof.
  split.
  - intros f Hf. vm_compute in Hf. destruct Hf as [<-|[<-|[]]]; split; reflexivity.
  - vm_compute. repeat constructor; simpl; intuition discriminate.
Qed.
Example written_under_instance : written_under_folder_name (write_fit spec_a).
Proof. split; [vm_compute; reflexivity | apply folder_name_write]. Qed.
Example second_load_instance : wf0 [] true false two_grids [fit_row typed_info_folder].
Proof.
  split.
  - intros f Hf. vm_compute in Hf. destruct Hf as [<-|[<-|[]]]; split; reflexivity.
  - vm_compute. repeat constructor; simpl; intuition discriminate.
Qed.

(* a complete archive beside a half-deleted folder (no metadata, no model, no samples): the archive is loaded *)
Example archive_beside_partial_folder :
  let a := write_fit spec_a in
  let partial := {| f_path := f_path a; f_metadata := false; f_completed := false; f_marker := None; f_parent_file := None;
                    f_written_id := "abc"; f_class := ""; f_keys := []; f_name := ""; f_tag := None; f_reload_id := "";
                    f_model := ""; f_info := None; f_info_held := None; f_samples := None; f_load_error := None;
                    f_jsons := ["search"; "stale_extra"]; f_analyses := [] |} in
  let ds := [{| d_archive := Some a; d_folder := Some partial |}] in
  wf search_classes gs_id_uses_folder false (unzip_all ds) /\
  scrape search_classes gs_id_uses_folder false (unzip_all ds) []
  = scrape search_classes gs_id_uses_folder false [overlay a (Some partial)] [] /\
  option_map r_instance (match scrape search_classes gs_id_uses_folder false (unzip_all ds) [] with Loaded db => find_row "abc" db | _ => None end)
  = Some (Some "i1").
Proof.
  split; [|split; vm_compute; reflexivity].
  split.
  - intros f Hf. vm_compute in Hf. destruct Hf as [<-|[]]. split; reflexivity.
  - vm_compute. repeat constructor; simpl; intuition discriminate.
Qed.

(* ---- best fit of a grid search: the hypotheses of C11_grid_best_partial are satisfiable, and the shapes the
   seeded change of round 5 broke (best cell exactly 0.0, all others negative) evaluate as the property says ---- *)
Definition grid_zero_best : list row :=
  [cell "c1" (Some (-4620693217682128896)%Z); cell "c2" (Some 0%Z); cell "c3" (Some (-4612248968380809216)%Z)].
Example grid_best_partial_nonvacuous :
  (forall c, In c (children grid_zero_best "g") -> exists u, r_maxll c = Some u) /\
  (exists c u, In c (children grid_zero_best "g") /\ r_maxll c = Some u /\ (neg_inf_key < u)%Z).
Proof.
  split.
  - intros c Hc. vm_compute in Hc. destruct Hc as [<-|[<-|[<-|[]]]]; eexists; reflexivity.
  - exists (cell "c2" (Some 0%Z)), 0%Z. split; [vm_compute; right; left; reflexivity|]. split; [reflexivity | reflexivity].
Qed.
Example grid_zero_is_best :
  best_child grid_zero_best "g" = BestIs (cell "c2" (Some 0%Z)) /\
  map r_id (best_fits_query grid_zero_best "g") = ["c2"] /\
  best_child_repaired grid_zero_best "g" = BestIs (cell "c2" (Some 0%Z)).
Proof. vm_compute. repeat split; reflexivity. Qed.
(* ties: the first of the tied cells through Fit.best_fit, all of them through best_fits(); positive above zero *)
Example grid_ties_and_signs :
  let db := [cell "c1" (Some 0%Z); cell "c2" (Some 4612811918334230528%Z); cell "c3" (Some 4612811918334230528%Z); cell "c4" (Some neg_inf_key)] in
  best_child db "g" = BestIs (cell "c2" (Some 4612811918334230528%Z)) /\
  map r_id (best_fits_query db "g") = ["c2"; "c3"].
Proof. vm_compute. split; reflexivity. Qed.
(* a cell without samples / cells all at -inf: the code as written vs the repair vs the query *)
Example grid_cell_without_likelihood :
  let db := [cell "c1" (Some 0%Z); cell "c2" None] in
  best_child db "g" = BestRaised /\ best_child_repaired db "g" = BestIs (cell "c1" (Some 0%Z)) /\
  map r_id (best_fits_query db "g") = ["c1"].
Proof. vm_compute. repeat split; reflexivity. Qed.
Example grid_all_minus_inf :
  let db := [cell "c1" (Some neg_inf_key); cell "c2" (Some neg_inf_key)] in
  best_child db "g" = BestNone /\ best_child_repaired db "g" = BestIs (cell "c1" (Some neg_inf_key)) /\
  map r_id (best_fits_query db "g") = ["c1"; "c2"].
Proof. vm_compute. repeat split; reflexivity. Qed.
Example grid_repaired_hypothesis_nonvacuous : children grid_zero_best "g" <> [] /\ best_child_repaired [cell "c1" None] "g" = BestNone.
Proof. split; [vm_compute; discriminate | vm_compute; reflexivity]. Qed.
Example grid_obs_matches_example :
  grid_obs_matches false grid_zero_best ("g", ObsBestId "c2", ["c2"]) = true /\
  grid_obs_matches false grid_zero_best ("g", ObsBestId "c3", ["c2"]) = false /\
  grid_obs_matches false grid_zero_best ("g", ObsBestNone, ["c2"]) = false /\
  grid_obs_matches false grid_zero_best ("g", ObsBestId "c2", ["c2"; "c3"]) = false.
Proof. vm_compute. repeat split; reflexivity. Qed.
