(* C11 lemmas, part 1: the maximum-likelihood sample / best cell. *)
From Coq Require Import List String Bool ZArith Lia.
From PAFC11 Require Import Lib Model.
Import ListNotations.
Open Scope list_scope.

(* ---------- Samples.max_log_likelihood_sample is a maximum ---------- *)

Lemma best_from_spec (l : list sample) : forall cur,
  In (best_from cur l) (cur :: l) /\
  (s_ll cur <= s_ll (best_from cur l))%Z /\
  (forall s, In s l -> (s_ll s <= s_ll (best_from cur l))%Z).
Proof.
  induction l as [|x r IH]; intro cur; simpl.
  - split; [left; reflexivity|]. split; [lia|]. intros s [].
  - destruct (Z.ltb (s_ll cur) (s_ll x)) eqn:E.
    + apply Z.ltb_lt in E. destruct (IH x) as (Hin & Hge & Hall).
      repeat split.
      * destruct Hin as [H|H]; [right; left; exact H | right; right; exact H].
      * lia.
      * intros s [Hs|Hs]; [subst; exact Hge | apply Hall; exact Hs].
    + apply Z.ltb_ge in E. destruct (IH cur) as (Hin & Hge & Hall).
      repeat split.
      * destruct Hin as [H|H]; [left; exact H | right; right; exact H].
      * exact Hge.
      * intros s [Hs|Hs]; [subst; lia | apply Hall; exact Hs].
Qed.

Lemma best_is_max (l : list sample) (b : sample) :
  best l = Some b -> In b l /\ forall s, In s l -> (s_ll s <= s_ll b)%Z.
Proof.
  destruct l as [|x r]; simpl; [discriminate|].
  intro H. injection H as <-. destruct (best_from_spec r x) as (Hin & Hge & Hall).
  split; [exact Hin|]. intros s [Hs|Hs]; [subst; exact Hge | apply Hall; exact Hs].
Qed.

Lemma best_nonempty (l : list sample) : l <> [] -> exists b, best l = Some b.
Proof. destruct l; [congruence | intros _; eexists; reflexivity]. Qed.
