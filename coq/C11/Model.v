(* C11 model: (A) reading a search's persisted settings back (`from_dict(search.json)` = cls called with the stored arguments as keywords),
   (B) an output directory and `Scraper.scrape` (classic aggregator walk -> SearchOutput -> Fit rows,
   analyses children, grid-search parents), (C) the same fits written through a database session.
   Executable definitions only; proofs are in Proofs*.v.

   Faithful to the pinned code.  The one place where a proposed repair changes the behaviour is a
   parameter: `uf` (GridSearchOutput.id = folder name instead of the marker text); its current value
   is read from the source (Gen.gs_id_uses_folder).  The Drawer repair changes only Gen.v (s_pops). *)
From Coq Require Import List String Bool ZArith.
From PAFC11 Require Import Lib.
Import ListNotations.
Open Scope string_scope.
Open Scope list_scope.

(* ------------------------------------------------------------------------------------------ *)
(* A. cls called with keywords keys along the chain of __init__s                                                   *)
(* ------------------------------------------------------------------------------------------ *)

Definition extras (s : sig) (keys : list string) : list string :=
  filter (fun k => negb (mem k (s_params s))) keys.

Definition forwarded (s : sig) (keys : list string) : list string :=
  if s_forwards s then filter (fun k => negb (mem k (s_pops s))) (extras s keys) else [].

(* true iff no __init__ on the chain raises TypeError (unexpected keyword / multiple values) *)
Fixpoint call_ok (ch : list sig) (keys : list string) : bool :=
  match ch with
  | [] => true
  | s :: rest =>
      if negb (s_varkw s) && negb (match extras s keys with [] => true | _ => false end) then false
      else if existsb (fun k => mem k (forwarded s keys)) (s_super_kw s) then false
      else match rest with
           | [] => true
           | _ => call_ok rest (s_super_kw s ++ forwarded s keys)
           end
  end.

(* autoconf.dictable.get_arguments: own parameters, plus those of the bases while **kwargs is accepted *)
Fixpoint all_args (ch : list sig) : list string :=
  match ch with
  | [] => []
  | s :: rest => s_params s ++ (if s_varkw s then all_args rest else [])
  end.

(* every key instance_as_dict can emit for a class (hasattr only removes some) *)
Definition serialised_keys (c : search_class) : list string :=
  all_args (sc_chain c) ++ sc_base_args c ++ sc_fields c.
Definition keys_known (c : search_class) (keys : list string) : bool :=
  forallb (fun k => mem k (serialised_keys c)) keys.

Definition reload_ok (c : search_class) (keys : list string) : bool := call_ok (sc_chain c) keys.

(* the Drawer constructor chain at the pinned commit (witness of the refuted statement) *)
Definition nls_sig : sig :=
  {| s_class := "NonLinearSearch";
     s_params := ["name"; "path_prefix"; "unique_tag"; "initializer"; "iterations_per_update"; "number_of_cores"; "session"; "paths"];
     s_varkw := true; s_super_kw := []; s_forwards := false; s_pops := [] |}.
Definition drawer_pinned : search_class :=
  {| sc_name := "Drawer"; sc_fields := ["total_draws"];
     sc_chain := [
       {| s_class := "Drawer";
          s_params := ["name"; "path_prefix"; "unique_tag"; "initializer"; "iterations_per_update"; "session"];
          s_varkw := true;
          s_super_kw := ["name"; "path_prefix"; "unique_tag"; "initializer"; "iterations_per_update"; "number_of_cores"; "session"];
          s_forwards := true; s_pops := [] |};
       nls_sig ];
     sc_base_args := ["initial_values"; "inplace"] |}.
(* the same with the proposed repair (kwargs.pop("number_of_cores", None) before the super call) *)
Definition drawer_repaired : search_class :=
  {| sc_name := "Drawer"; sc_fields := ["total_draws"];
     sc_chain := [
       {| s_class := "Drawer";
          s_params := ["name"; "path_prefix"; "unique_tag"; "initializer"; "iterations_per_update"; "session"];
          s_varkw := true;
          s_super_kw := ["name"; "path_prefix"; "unique_tag"; "initializer"; "iterations_per_update"; "number_of_cores"; "session"];
          s_forwards := true; s_pops := ["number_of_cores"] |};
       nls_sig ];
     sc_base_args := ["initial_values"; "inplace"] |}.

Definition class_named (n : string) (l : list search_class) : option search_class :=
  find (fun c => String.eqb (sc_name c) n) l.

(* ------------------------------------------------------------------------------------------ *)
(* B. directory state and scrape                                                                 *)
(* ------------------------------------------------------------------------------------------ *)

(* numbers are order-preserving integer keys of binary64 values (the harness encodes them) *)
Record sample := { s_vec : string; s_ll : Z; s_inst : string }.

(* Samples.max_log_likelihood_sample: first strict maximum *)
Fixpoint best_from (cur : sample) (l : list sample) : sample :=
  match l with
  | [] => cur
  | s :: r => if Z.ltb (s_ll cur) (s_ll s) then best_from s r else best_from cur r
  end.
Definition best (l : list sample) : option sample :=
  match l with [] => None | s :: r => Some (best_from s r) end.
Definition best_of (o : option (list sample)) : option sample :=
  match o with Some l => best l | None => None end.

Record folder := {
  f_path : list string;            (* components below the scraped root; last = folder name *)
  f_metadata : bool;               (* a `metadata` file: this is a search output *)
  f_completed : bool;              (* `.completed` *)
  f_marker : option string;        (* text of `.is_grid_search` *)
  f_parent_file : option string;   (* text of `.parent_identifier` *)
  f_written_id : string;           (* identifier the fit was written under (`.identifier`) *)
  f_class : string;                (* search.json: class name ... *)
  f_keys : list string;            (* ... and argument keys *)
  f_name : string;                 (* search.json: name *)
  f_tag : option string;           (* search.json: unique_tag *)
  f_reload_id : string;            (* md5 of tokens(reloaded search, reloaded model, tag): oracle value *)
  f_model : string;                (* model.json (canonical digest) *)
  f_info : option string;          (* info.json (canonical digest of the typed dictionary) *)
  f_info_held : option string;     (* digest of what the `info` table can hold of it: every value as SQLite's TEXT
                                      affinity renders it (3 -> "3", true -> "1"); equal to f_info when all values are strings *)
  f_samples : option (list sample);(* samples.csv + samples_info.json *)
  f_load_error : option string;    (* exception raised when the best-fit instance is built from the stored
                                      samples and the stored model (oracle value; None = loads) *)
  f_jsons : list string;           (* names of files/**.json *)
  f_analyses : list (list string)  (* json names of each analyses/<x>/files, in glob order *)
}.

Record row := {
  r_id : string;
  r_name : option string;
  r_tag : option string;
  r_complete : option bool;
  r_grid : bool;
  r_parent : option string;
  r_model : option string;
  r_info : option string;
  r_samples : option (list sample);
  r_instance : option string;
  r_maxll : option Z;
  r_jsons : list string
}.

Inductive outcome :=
| Loaded (db : list row)
| Raised (exc : string).

Definition included (co : bool) (f : folder) : bool := negb co || f_completed f.
Definition is_some {A} (o : option A) : bool := match o with Some _ => true | None => false end.
Definition outputs (co : bool) (dir : list folder) : list folder :=
  filter (fun f => f_metadata f && included co f) dir.
Definition grids (co : bool) (dir : list folder) : list folder :=
  filter (fun f => is_some (f_marker f) && included co f) dir.

Definition has_id (id : string) (db : list row) : bool := existsb (fun r => String.eqb (r_id r) id) db.

Definition fit_row (f : folder) : row :=
  {| r_id := f_reload_id f; r_name := Some (f_name f); r_tag := f_tag f;
     r_complete := Some (f_completed f); r_grid := false; r_parent := f_parent_file f;
     r_model := Some (f_model f); r_info := f_info_held f; r_samples := f_samples f;
     r_instance := option_map s_inst (best_of (f_samples f));
     r_maxll := option_map s_ll (best_of (f_samples f));
     r_jsons := f_jsons f |}.

(* "Fit already existed": only samples and files are written again *)
Fixpoint union_names (a b : list string) : list string :=
  match b with
  | [] => a
  | x :: r => if mem x a then union_names a r else union_names (a ++ [x]) r
  end.
Definition refresh (f : folder) (r : row) : row :=
  {| r_id := r_id r; r_name := r_name r; r_tag := r_tag r; r_complete := r_complete r; r_grid := r_grid r;
     r_parent := r_parent r; r_model := r_model r; r_info := r_info r;
     r_samples := match f_samples f with Some l => Some l | None => r_samples r end;
     r_instance := r_instance r; r_maxll := r_maxll r;
     r_jsons := union_names (r_jsons r) (f_jsons f) |}.
Definition refresh_id (f : folder) (db : list row) : list row :=
  map (fun r => if String.eqb (r_id r) (f_reload_id f) then refresh f r else r) db.

Fixpoint nat_digits (fuel n : nat) (acc : string) : string :=
  match fuel with
  | O => acc
  | S fuel' =>
      let d := String (Ascii.ascii_of_nat (48 + Nat.modulo n 10)) acc in
      if Nat.ltb n 10 then d else nat_digits fuel' (Nat.div n 10) d
  end.
Definition string_of_nat (n : nat) : string := nat_digits (S n) n "".

Definition child_id (id : string) (i : nat) : string := id ++ "_" ++ string_of_nat i.
Definition child_row (id : string) (i : nat) (jsons : list string) : row :=
  {| r_id := child_id id i; r_name := None; r_tag := None; r_complete := None; r_grid := false;
     r_parent := Some id; r_model := None; r_info := None; r_samples := None; r_instance := None;
     r_maxll := None; r_jsons := jsons |}.
Fixpoint child_rows_from (id : string) (i : nat) (l : list (list string)) : list row :=
  match l with
  | [] => []
  | js :: r => child_row id i js :: child_rows_from id (S i) r
  end.
Definition child_rows (f : folder) : list row := child_rows_from (f_reload_id f) 0 (f_analyses f).

Definition folder_reload_ok (classes : list search_class) (f : folder) : bool :=
  match class_named (f_class f) classes with
  | Some c => reload_ok c (f_keys f)
  | None => true      (* a class outside the translated set (the scripted test search): accepts its own keys *)
  end.

(* Scraper._fits *)
Fixpoint add_fits (classes : list search_class) (fs : list folder) (db : list row) : outcome :=
  match fs with
  | [] => Loaded db
  | f :: rest =>
      if negb (folder_reload_ok classes f) then Raised "TypeError"
      else match f_load_error f with Some e => Raised e | None =>
        let db1 := if has_id (f_reload_id f) db then refresh_id f db else db ++ [fit_row f] in
        let kids := child_rows f in
        if existsb (fun k => has_id (r_id k) db1) kids then Raised "IntegrityError"
        else add_fits classes rest (db1 ++ kids)
      end
  end.

Fixpoint is_prefix (p q : list string) : bool :=
  match p, q with
  | [], _ => true
  | x :: p', y :: q' => String.eqb x y && is_prefix p' q'
  | _ :: _, [] => false
  end.

Definition folder_name (f : folder) : string := last (f_path f) "".
Definition gs_id (uf : bool) (g : folder) : string :=
  if uf then folder_name g else match f_marker g with Some t => t | None => "" end.

Definition cells_of (co : bool) (dir : list folder) (g : folder) : list folder :=
  filter (fun f => is_prefix (f_path g) (f_path f)) (outputs co dir).

Definition gs_row (uf : bool) (g : folder) : row :=
  {| r_id := gs_id uf g; r_name := None; r_tag := f_marker g; r_complete := Some (f_completed g);
     r_grid := true; r_parent := None; r_model := None; r_info := None; r_samples := None;
     r_instance := None; r_maxll := None; r_jsons := f_jsons g |}.

Definition set_parent (p : string) (r : row) : row :=
  {| r_id := r_id r; r_name := r_name r; r_tag := r_tag r; r_complete := r_complete r; r_grid := r_grid r;
     r_parent := Some p; r_model := r_model r; r_info := r_info r; r_samples := r_samples r;
     r_instance := r_instance r; r_maxll := r_maxll r; r_jsons := r_jsons r |}.
Definition relink (gid : string) (cell_ids : list string) (db : list row) : list row :=
  map (fun r => if mem (r_id r) cell_ids then set_parent gid r else r) db.

(* Scraper._grid_searches *)
Fixpoint add_grids (uf co : bool) (dir : list folder) (gs : list folder) (db : list row) : outcome :=
  match gs with
  | [] => Loaded db
  | g :: rest =>
      if has_id (gs_id uf g) db then Raised "IntegrityError"
      else add_grids uf co dir rest
             (relink (gs_id uf g) (map f_reload_id (cells_of co dir g)) db ++ [gs_row uf g])
  end.

(* Aggregator.add_directory(dir, completed_only=co) on a database holding db0; nothing is
   committed when an exception escapes *)
Definition scrape (classes : list search_class) (uf co : bool) (dir : list folder) (db0 : list row) : outcome :=
  match add_fits classes (outputs co dir) db0 with
  | Raised e => Raised e
  | Loaded db1 => add_grids uf co dir (grids co dir) db1
  end.

(* ------------------------------------------------------------------------------------------ *)
(* B'. archives: unzip_directory runs before the walk and extracts every <name>.zip OVER <name>/      *)
(* ------------------------------------------------------------------------------------------ *)

(* one place of the output tree: the fit as its archive holds it and/or as the folder beside it holds it
   (a kill during the removal of the folder after zipping, or during restore(), leaves a complete
   archive next to a partial or stale folder) *)
Record on_disk := { d_archive : option folder; d_folder : option folder }.

(* extraction overwrites every file the archive holds: the archive's fit, plus the names of files that
   exist only in the old folder *)
Definition overlay (a : folder) (o : option folder) : folder :=
  {| f_path := f_path a; f_metadata := f_metadata a; f_completed := f_completed a; f_marker := f_marker a;
     f_parent_file := f_parent_file a; f_written_id := f_written_id a; f_class := f_class a; f_keys := f_keys a;
     f_name := f_name a; f_tag := f_tag a; f_reload_id := f_reload_id a; f_model := f_model a;
     f_info := f_info a; f_info_held := f_info_held a; f_samples := f_samples a; f_load_error := f_load_error a;
     f_jsons := match o with Some f => union_names (f_jsons a) (f_jsons f) | None => f_jsons a end;
     f_analyses := f_analyses a |}.

Definition unzipped (d : on_disk) : list folder :=
  match d_archive d with
  | Some a => [overlay a (d_folder d)]
  | None => match d_folder d with Some f => [f] | None => [] end
  end.
Definition unzip_all (ds : list on_disk) : list folder := flat_map unzipped ds.

(* observation helpers *)
Definition find_row (id : string) (db : list row) : option row := find (fun r => String.eqb (r_id r) id) db.
Definition opt_str_eqb (a b : option string) : bool :=
  match a, b with Some x, Some y => String.eqb x y | None, None => true | _, _ => false end.
Definition children (db : list row) (gid : string) : list row :=
  filter (fun r => opt_str_eqb (r_parent r) (Some gid)) db.

(* ---- the best fit of a grid search, through both routes the library offers ----
   Likelihoods are order-preserving integer keys of binary64 values (0.0 and -0.0 share key 0; NaN is
   outside the generated inputs).  `neg_inf_key` is the key of float("-inf"). *)
Definition neg_inf_key : Z := (-9218868437227405312)%Z.

Inductive best_outcome :=
| BestRaised            (* TypeError: no children, or a child without likelihood reached `>` *)
| BestNone              (* the property returned None *)
| BestIs (r : row).

(* Fit.best_fit as written:  best_fit = None; max = -inf
                             for fit in children: if fit.max_log_likelihood > max: best_fit, max = fit, ...
   `None > float` raises TypeError whichever child it is; the comparison is strict, so the first of tied cells
   wins and a grid all of whose cells hold -inf keeps best_fit = None *)
Fixpoint best_loop (cur : option row) (curll : Z) (l : list row) : best_outcome :=
  match l with
  | [] => match cur with Some r => BestIs r | None => BestNone end
  | r :: rest =>
      match r_maxll r with
      | None => BestRaised
      | Some v => if Z.ltb curll v then best_loop (Some r) v rest else best_loop cur curll rest
      end
  end.
Definition best_of_cells (l : list row) : best_outcome :=
  match l with [] => BestRaised | _ => best_loop None neg_inf_key l end.
Definition best_child (db : list row) (gid : string) : best_outcome := best_of_cells (children db gid).

(* the repair proposed in proposed_fixes/C11-best-fit-cells-without-likelihood.diff:
     for fit in children: if fit.max_log_likelihood is None: continue
                          if best_fit is None or fit.max_log_likelihood > best_fit.max_log_likelihood: best_fit = fit *)
Fixpoint best_loop_repaired (cur : option (row * Z)) (l : list row) : option row :=
  match l with
  | [] => option_map fst cur
  | r :: rest =>
      match r_maxll r with
      | None => best_loop_repaired cur rest
      | Some v => match cur with
                  | None => best_loop_repaired (Some (r, v)) rest
                  | Some (_, w) => if Z.ltb w v then best_loop_repaired (Some (r, v)) rest
                                   else best_loop_repaired cur rest
                  end
      end
  end.
Definition best_child_repaired (db : list row) (gid : string) : best_outcome :=
  match children db gid with
  | [] => BestRaised
  | l => match best_loop_repaired None l with Some r => BestIs r | None => BestNone end
  end.

(* aggregator.grid_searches().best_fits() (BestFitQuery): per parent, the children whose likelihood equals
   max(likelihood) of the children; SQL max ignores NULL and `= NULL` is never true *)
Definition likelihoods (l : list row) : list Z :=
  flat_map (fun r => match r_maxll r with Some v => [v] | None => [] end) l.
Fixpoint zmax_list (l : list Z) : option Z :=
  match l with
  | [] => None
  | x :: r => match zmax_list r with None => Some x | Some m => Some (Z.max x m) end
  end.
Definition has_ll (m : Z) (r : row) : bool :=
  match r_maxll r with Some v => Z.eqb v m | None => false end.
Definition best_fits_query (db : list row) (gid : string) : list row :=
  match zmax_list (likelihoods (children db gid)) with
  | None => []
  | Some m => filter (has_ll m) (children db gid)
  end.

(* the property's notion of best fit: `b` is a cell of `l` holding a likelihood no cell of `l` that holds one exceeds *)
Definition highest_in (l : list row) (b : row) : Prop :=
  In b l /\ exists w, r_maxll b = Some w /\ forall c u, In c l -> r_maxll c = Some u -> (u <= w)%Z.

(* what the implementation showed for one grid search: Fit.best_fit, and the ids best_fits() lists under it *)
Inductive best_obs := ObsBestRaised | ObsBestNone | ObsBestId (id : string).
Definition str_mem (x : string) (l : list string) : bool := existsb (String.eqb x) l.
Definition same_ids (a b : list string) : bool :=
  forallb (fun x => str_mem x b) a && forallb (fun x => str_mem x a) b.
(* Fit.best_fit is compared up to ties (the order in which the relationship lists the cells is SQL's):
   same kind of outcome, and the observed cell is a child holding the likelihood of the model's best cell *)
Definition best_matches (repaired : bool) (db : list row) (gid : string) (o : best_obs) : bool :=
  match (if repaired then best_child_repaired db gid else best_child db gid), o with
  | BestRaised, ObsBestRaised => true
  | BestNone, ObsBestNone => true
  | BestIs b, ObsBestId id =>
      existsb (fun r => String.eqb (r_id r) id
                        && match r_maxll r, r_maxll b with Some x, Some y => Z.eqb x y | _, _ => false end) (children db gid)
  | _, _ => false
  end.
Definition grid_obs_matches (repaired : bool) (db : list row) (p : string * best_obs * list string) : bool :=
  let '(gid, o, q) := p in
  best_matches repaired db gid o && same_ids (map r_id (best_fits_query db gid)) q.

(* ------------------------------------------------------------------------------------------ *)
(* C. the fits themselves: what `search.fit` leaves in a directory / in a session               *)
(* ------------------------------------------------------------------------------------------ *)

(* where DirectoryPaths.save_all was when the pre-fit output was interrupted (a kill, a full disk, an
   info value json cannot serialise): the file being written at that moment is absent, or present but
   truncated (the *Partial variants); everything save_all writes later is absent *)
Inductive stage :=
| AtModelInfo | AtInfo | AtInfoPartial | AtSearch | AtSearchPartial | AtModel | AtModelPartial | AtMetadata.

Inductive interrupt := NoInterrupt | BeforeSamples | AfterSamples | PreFit (st : stage).

Record fit_spec := {
  fs_prefix : list string;       (* path_prefix components *)
  fs_tag : option string;
  fs_name : string;
  fs_id : string;                (* identifier chosen by the code for (search, model, tag) *)
  fs_class : string;
  fs_keys : list string;
  fs_reload_id : string;
  fs_model : string;             (* the model that was fitted *)
  fs_stored_model : string;      (* what model.json holds (oracle; equal to fs_model when persistence is faithful) *)
  fs_load_error : option string;
  fs_info : option string;       (* None: no info / empty info *)
  fs_info_held : option string;
  fs_samples : list sample;
  fs_interrupt : interrupt;
  fs_extra_jsons : list string;  (* written by analysis.save_attributes / search specific *)
  fs_analyses : list (list string)
}.

Definition opt_list (o : option string) : list string := match o with Some t => [t] | None => [] end.

Definition spec_path (s : fit_spec) : list string :=
  fs_prefix s ++ opt_list (fs_tag s) ++ [fs_name s; fs_id s].

Definition has_samples (s : fit_spec) : bool :=
  match fs_interrupt s with BeforeSamples | PreFit _ => false | _ => true end.
Definition is_prefit (s : fit_spec) : bool :=
  match fs_interrupt s with PreFit _ => true | _ => false end.
Definition spec_completed (s : fit_spec) : bool :=
  match fs_interrupt s with NoInterrupt => true | _ => false end.

Definition info_json (s : fit_spec) : list string := match fs_info s with Some _ => ["info"] | None => [] end.

(* save_all writes: .identifier, model.info, [info.json], search.json, model.json, metadata -- in this order *)
Definition prefit_jsons (s : fit_spec) (st : stage) : list string :=
  match st with
  | AtModelInfo | AtInfo => []
  | AtInfoPartial => ["info"]
  | AtSearch => info_json s
  | AtSearchPartial | AtModel => info_json s ++ ["search"]
  | AtModelPartial | AtMetadata => info_json s ++ ["search"; "model"]
  end.

Definition spec_jsons (s : fit_spec) : list string :=
  match fs_interrupt s with
  | PreFit st => prefit_jsons s st
  | _ => info_json s ++ ["search"; "model"] ++ fs_extra_jsons s
         ++ (if has_samples s then ["samples_summary"; "samples_info"] else [])
  end.

(* DirectoryPaths: save_all (.identifier, info, search.json, model.json, metadata last), then the
   samples, `.completed` last *)
Definition write_fit (s : fit_spec) : folder :=
  {| f_path := spec_path s; f_metadata := negb (is_prefit s); f_completed := spec_completed s; f_marker := None;
     f_parent_file := None; f_written_id := fs_id s; f_class := fs_class s; f_keys := fs_keys s;
     f_name := fs_name s; f_tag := fs_tag s; f_reload_id := fs_reload_id s; f_model := fs_stored_model s;
     f_info := fs_info s; f_info_held := fs_info_held s;
     f_samples := if has_samples s then Some (fs_samples s) else None;
     f_load_error := if is_prefit s then None else fs_load_error s;
     f_jsons := spec_jsons s; f_analyses := if is_prefit s then [] else fs_analyses s |}.

(* DatabasePaths: Fit(id = identifier) created by save_all, filled by save_samples / save_summary,
   is_complete set by completed() *)
Definition direct_row (s : fit_spec) : row :=
  {| r_id := fs_id s; r_name := Some (fs_name s); r_tag := fs_tag s; r_complete := Some (spec_completed s);
     r_grid := false; r_parent := None; r_model := Some (fs_model s); r_info := fs_info_held s;
     r_samples := if has_samples s then Some (fs_samples s) else None;
     r_instance := if has_samples s then option_map s_inst (best (fs_samples s)) else None;
     r_maxll := if has_samples s then option_map s_ll (best (fs_samples s)) else None;
     r_jsons := [] |}.

(* the fields the property speaks about *)
(* the instance of a sample is derived data: samples are compared on vector and likelihood *)
Definition sample_eqb (a b : sample) : bool :=
  String.eqb (s_vec a) (s_vec b) && Z.eqb (s_ll a) (s_ll b).
Fixpoint list_eqb {A B} (eqb : A -> B -> bool) (a : list A) (b : list B) : bool :=
  match a, b with
  | [], [] => true
  | x :: a', y :: b' => eqb x y && list_eqb eqb a' b'
  | _, _ => false
  end.
Definition opt_eqb {A} (eqb : A -> A -> bool) (a b : option A) : bool :=
  match a, b with Some x, Some y => eqb x y | None, None => true | _, _ => false end.

Definition same_fit (a b : row) : bool :=
  String.eqb (r_id a) (r_id b)
  && opt_str_eqb (r_name a) (r_name b) && opt_str_eqb (r_tag a) (r_tag b)
  && opt_eqb Bool.eqb (r_complete a) (r_complete b)
  && opt_str_eqb (r_model a) (r_model b) && opt_str_eqb (r_info a) (r_info b)
  && opt_eqb (list_eqb sample_eqb) (r_samples a) (r_samples b)
  && opt_str_eqb (r_instance a) (r_instance b) && opt_eqb Z.eqb (r_maxll a) (r_maxll b).

(* ------------------------------------------------------------------------------------------ *)
(* correspondence cases                                                                          *)
(* ------------------------------------------------------------------------------------------ *)

Definition set_eqb (a b : list string) : bool :=
  Nat.eqb (List.length a) (List.length b) && forallb (fun x => mem x b) a && forallb (fun x => mem x a) b.

Definition row_eqb (a b : row) : bool :=
  same_fit a b && Bool.eqb (r_grid a) (r_grid b) && opt_str_eqb (r_parent a) (r_parent b)
  && set_eqb (r_jsons a) (r_jsons b).

(* every model row has an equal observed row and the counts agree (ids are then in bijection
   when the observed ids are distinct, which the database guarantees: id is the primary key) *)
Definition db_matches (model obs : list row) : bool :=
  Nat.eqb (List.length model) (List.length obs)
  && forallb (fun r => match find_row (r_id r) obs with Some o => row_eqb r o | None => false end) model
  && forallb (fun o => is_some (find_row (r_id o) model)) obs.

(* what the database file holds afterwards (fresh session), and the exception that escaped, if any *)
Inductive observed :=
| ObsLoaded (rows : list row)
| ObsRaised (exc : string) (rows : list row).

(* an exception leaves the database as it was (db0): nothing of the call is committed *)
Definition outcome_matches (db0 : list row) (m : outcome) (o : observed) : bool :=
  match m, o with
  | Loaded db, ObsLoaded rows => db_matches db rows
  | Raised e, ObsRaised e' rows => String.eqb e e' && db_matches db0 rows
  | _, _ => false
  end.

Definition rows_after (db0 : list row) (m : outcome) : list row :=
  match m with Loaded db => db | Raised _ => db0 end.

Definition folder_keys_known (classes : list search_class) (f : folder) : bool :=
  match class_named (f_class f) classes with
  | Some c => keys_known c (f_keys f)
  | None => true
  end.

(* the identifier recomputed from the files is the identifier the fit was written under *)
Definition reload_faithful (f : folder) : bool := String.eqb (f_reload_id f) (f_written_id f).
Definition is_output (f : folder) : bool := f_metadata f.
Fixpoint path_mem (p : list string) (l : list (list string)) : bool :=
  match l with [] => false | q :: r => list_eqb String.eqb p q || path_mem p r end.
(* `unfaithful` lists the folders of the model shapes that are recorded findings of the persistence of
   models (C07/C08); every OTHER search output must be faithful; folders whose search could not be
   reloaded at all (f_reload_id = "") are skipped.  (For specs the expectation is exact, see check_case.) *)
Definition faithful_as_expected (unfaithful : list (list string)) (f : folder) : bool :=
  if negb (is_output f) || String.eqb (f_reload_id f) "" then true
  else path_mem (f_path f) unfaithful || reload_faithful f.

Definition folder_eqb (a b : folder) : bool :=
  list_eqb String.eqb (f_path a) (f_path b) && Bool.eqb (f_metadata a) (f_metadata b)
  && Bool.eqb (f_completed a) (f_completed b) && opt_str_eqb (f_marker a) (f_marker b)
  && String.eqb (f_written_id a) (f_written_id b)
  && (if f_metadata a || is_some (f_marker a) then
        set_eqb (f_jsons a) (f_jsons b)
        && opt_str_eqb (f_parent_file a) (f_parent_file b)
        && String.eqb (f_name a) (f_name b) && opt_str_eqb (f_tag a) (f_tag b)
        && String.eqb (f_model a) (f_model b) && opt_str_eqb (f_info a) (f_info b)
        && opt_eqb (list_eqb sample_eqb) (f_samples a) (f_samples b)
        && list_eqb set_eqb (f_analyses a) (f_analyses b)
      else true   (* a folder that is no search output: its existence, identifier and missing markers only
                     (whether a truncated file stays behind depends on how the writer was killed) *)).

Inductive case :=
(* from_dict(to_dict(search)) for class `cls` whose search.json carries `keys`: did it succeed?
   (and: every persisted key belongs to the key universe the theorems quantify over) *)
| CSettings (cls : string) (keys : list string) (impl_ok : bool)
(* single fits written by the real code: (1) the folders the model predicts are the folders found,
   (2) scrape (write specs) in walk order = observed database, (3) direct rows = observed direct rows
   (None: that fit was not written through a session), (4) the persistence of search and model is
   faithful exactly for the specs not listed in `unfaithful` *)
| CFits (co : bool) (specs : list fit_spec) (walk : list nat)
        (found : list folder) (obs : observed) (direct : list (option row)) (unfaithful : list (list string))
(* arbitrary directory (grid searches, copies, equal identifiers): scrape dir = observed database;
   per grid search: observed Fit.best_fit outcome and the ids best_fits() lists for it *)
| CDir (co : bool) (dir : list folder) (obs : observed) (best_ids : list (string * best_obs * list string))
       (unfaithful : list (list string))
       (repaired : bool)   (* which Fit.best_fit the running code has: as written (false) | skipping cells without
                              likelihood, no start value (true) -- read from the source by the harness *)
(* two directories loaded one after the other into the same database *)
| CDir2 (co : bool) (dirA dirB : list folder) (obsA obsB : observed)
(* archives and folders as they lie on disk BEFORE the load (each read on its own): the loaded database is
   scrape of what extraction-over-the-folder leaves, and that is what an independent extraction shows (`found`) *)
| CDisk (co : bool) (ds : list on_disk) (found : list folder) (obs : observed).

Definition nth_spec (specs : list fit_spec) (i : nat) : list folder :=
  match nth_error specs i with Some s => [write_fit s] | None => [] end.

Definition spec_faithful (s : fit_spec) : bool :=
  String.eqb (fs_reload_id s) (fs_id s) && String.eqb (fs_stored_model s) (fs_model s).

Definition check_case (classes : list search_class) (uf : bool) (c : case) : bool :=
  match c with
  | CSettings cls keys impl_ok =>
      match class_named cls classes with
      | Some sc => Bool.eqb (reload_ok sc keys) impl_ok && keys_known sc keys
      | None => false
      end
  | CFits co specs walk found obs direct unfaithful =>
      let dir := flat_map (nth_spec specs) walk in
      Nat.eqb (List.length walk) (List.length specs)
      && list_eqb folder_eqb (map write_fit specs) found
      && forallb (folder_keys_known classes) dir
      && outcome_matches [] (scrape classes uf co dir []) obs
      && list_eqb (fun s o => match o with Some r => same_fit (direct_row s) r | None => true end) specs direct
      && forallb (faithful_as_expected unfaithful) found
      && forallb (fun s => if is_prefit s || String.eqb (fs_reload_id s) "" then true
                           else Bool.eqb (spec_faithful s) (negb (path_mem (spec_path s) unfaithful))) specs
  | CDir co dir obs best_ids unfaithful repaired =>
      outcome_matches [] (scrape classes uf co dir []) obs
      && forallb (folder_keys_known classes) dir
      && forallb (faithful_as_expected unfaithful) dir
      && match scrape classes uf co dir [] with
         | Loaded db => forallb (grid_obs_matches repaired db) best_ids
         | Raised _ => true
         end
  | CDisk co ds found obs =>
      outcome_matches [] (scrape classes uf co (unzip_all ds) []) obs
      && list_eqb folder_eqb (unzip_all ds) found
  | CDir2 co dirA dirB obsA obsB =>
      let ma := scrape classes uf co dirA [] in
      let dbA := rows_after [] ma in
      outcome_matches [] ma obsA
      && outcome_matches dbA (scrape classes uf co dirB dbA) obsB
  end.
