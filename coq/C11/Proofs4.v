(* C11 lemmas, part 4: fits written by `search.fit` (write_fit) loaded from the directory agree with
   the same fits written through a session (direct_row); the two variants of the grid-search id. *)
From Coq Require Import List String Bool ZArith Lia.
From PAFC11 Require Import Lib Gen Model Proofs Proofs3.
Import ListNotations.
Open Scope string_scope.
Open Scope list_scope.

(* ---------- reflexivity of the boolean comparisons ---------- *)

Lemma opt_str_eqb_refl (a : option string) : opt_str_eqb a a = true.
Proof. destruct a; simpl; [apply String.eqb_refl | reflexivity]. Qed.

Lemma sample_eqb_refl (s : sample) : sample_eqb s s = true.
Proof. unfold sample_eqb. rewrite String.eqb_refl, Z.eqb_refl. reflexivity. Qed.

Lemma list_eqb_refl {A} (eqb : A -> A -> bool) (l : list A) :
  (forall x, eqb x x = true) -> list_eqb eqb l l = true.
Proof. intro H. induction l as [|x r IH]; simpl; [reflexivity|]. rewrite H, IH. reflexivity. Qed.

Lemma opt_eqb_refl {A} (eqb : A -> A -> bool) (o : option A) :
  (forall x, eqb x x = true) -> opt_eqb eqb o o = true.
Proof. intro H. destruct o; simpl; [apply H | reflexivity]. Qed.

Lemma same_fit_intro (a b : row) :
  r_id a = r_id b -> r_name a = r_name b -> r_tag a = r_tag b -> r_complete a = r_complete b ->
  r_model a = r_model b -> r_info a = r_info b -> r_samples a = r_samples b ->
  r_instance a = r_instance b -> r_maxll a = r_maxll b -> same_fit a b = true.
Proof.
  intros E1 E2 E3 E4 E5 E6 E7 E8 E9. unfold same_fit.
  rewrite E1, E2, E3, E4, E5, E6, E7, E8, E9.
  rewrite String.eqb_refl, !opt_str_eqb_refl.
  rewrite (opt_eqb_refl Bool.eqb) by (intros []; reflexivity).
  rewrite (opt_eqb_refl (list_eqb sample_eqb)) by (intro l; apply list_eqb_refl; apply sample_eqb_refl).
  rewrite (opt_eqb_refl Z.eqb) by apply Z.eqb_refl.
  reflexivity.
Qed.

(* ---------- the directory a list of fits leaves behind ---------- *)

Definition healthy (s : fit_spec) : bool := negb (is_prefit s).

(* a fit whose pre-fit output was interrupted has no `metadata` file (it is written last): the
   aggregator does not see it *)
Lemma outputs_write (specs : list fit_spec) :
  outputs false (map write_fit specs) = map write_fit (filter healthy specs).
Proof.
  unfold outputs, healthy. induction specs as [|s r IH]; simpl; [reflexivity|].
  destruct (is_prefit s) eqn:E; simpl; rewrite IH; reflexivity.
Qed.

Lemma outputs_write_co (co : bool) (specs : list fit_spec) :
  outputs co (map write_fit specs) = outputs co (map write_fit (filter healthy specs)).
Proof.
  unfold outputs, healthy. induction specs as [|s r IH]; simpl; [reflexivity|].
  destruct (is_prefit s) eqn:E; simpl.
  - exact IH.
  - rewrite E. simpl. rewrite IH. reflexivity.
Qed.

Lemma grids_write (co : bool) (specs : list fit_spec) : grids co (map write_fit specs) = [].
Proof. unfold grids. induction specs as [|s r IH]; simpl; [reflexivity|]. exact IH. Qed.

Lemma folder_name_write (s : fit_spec) : folder_name (write_fit s) = fs_id s.
Proof.
  unfold folder_name, write_fit, spec_path. simpl. apply last_last.
Qed.

(* what C11 needs from the persistence of search and model (C07 / C08): the identifier recomputed
   from the files is the identifier the fit was written under, the stored model is the fitted
   model, the stored samples load *)
Definition spec_ok (classes : list search_class) (s : fit_spec) : Prop :=
  folder_reload_ok classes (write_fit s) = true /\
  f_load_error (write_fit s) = None /\
  fs_reload_id s = fs_id s /\
  fs_stored_model s = fs_model s.

Lemma holds_direct (s : fit_spec) (r : row) :
  fs_reload_id s = fs_id s -> fs_stored_model s = fs_model s ->
  holds r (write_fit s) -> same_fit r (direct_row s) = true.
Proof.
  intros E1 E2 (H1 & H2 & H3 & H4 & _ & H6 & H7 & H8 & H9 & H10 & _).
  apply same_fit_intro; simpl in *.
  - rewrite H1. exact E1.
  - exact H2.
  - exact H3.
  - exact H4.
  - rewrite H6, E2. reflexivity.
  - exact H7.
  - exact H8.
  - rewrite H9. destruct (has_samples s); reflexivity.
  - rewrite H10. destruct (has_samples s); reflexivity.
Qed.

(* scrape sees a directory only through its search outputs and its grid-search folders *)
Lemma add_grids_outputs (uf co : bool) (d1 d2 : list folder) (gs : list folder) :
  outputs co d1 = outputs co d2 -> forall db, add_grids uf co d1 gs db = add_grids uf co d2 gs db.
Proof.
  intro E. induction gs as [|g rest IH]; intro db; simpl; [reflexivity|].
  destruct (has_id (gs_id uf g) db); [reflexivity|].
  unfold cells_of. rewrite E. apply IH.
Qed.

Lemma scrape_outputs (classes : list search_class) (uf co : bool) (d1 d2 : list folder) (db : list row) :
  outputs co d1 = outputs co d2 -> grids co d1 = grids co d2 ->
  scrape classes uf co d1 db = scrape classes uf co d2 db.
Proof.
  intros E G. unfold scrape. rewrite E, G.
  destruct (add_fits classes (outputs co d2) db); [|reflexivity].
  apply add_grids_outputs. exact E.
Qed.

(* fits interrupted anywhere inside save_all leave the load of the directory unchanged: exactly the
   other fits are loaded, whatever they are *)
Theorem prefit_interrupted_harmless (classes : list search_class) (uf co : bool) (specs : list fit_spec) (db : list row) :
  scrape classes uf co (map write_fit specs) db
  = scrape classes uf co (map write_fit (filter healthy specs)) db.
Proof. apply scrape_outputs; [apply outputs_write_co | rewrite !grids_write; reflexivity]. Qed.

Theorem routes_agree (classes : list search_class) (uf : bool) (specs : list fit_spec) :
  (forall s, In s specs -> healthy s = true -> spec_ok classes s) ->
  NoDup (flat_map ids_of (map write_fit (filter healthy specs))) ->
  exists db,
    scrape classes uf false (map write_fit specs) [] = Loaded db /\
    NoDup (map r_id db) /\
    (forall s, In s specs -> healthy s = true ->
       exists r, In r db /\ r_id r = fs_id s /\ folder_name (write_fit s) = fs_id s /\
                 same_fit r (direct_row s) = true) /\
    (forall r, In r db -> r_name r <> None ->
       exists s, In s specs /\ healthy s = true /\ same_fit r (direct_row s) = true).
Proof.
  intros Hok Hn.
  assert (W : wf classes uf false (map write_fit specs)).
  { split.
    - rewrite outputs_write. intros f Hf. apply in_map_iff in Hf. destruct Hf as (s & <- & Hs).
      apply filter_In in Hs. destruct Hs as [Hs Hh].
      destruct (Hok s Hs Hh) as (A & B & _). split; assumption.
    - rewrite outputs_write, grids_write. simpl. rewrite app_nil_r. exact Hn. }
  destruct (lossless classes uf false _ W) as (db & Hs & Hnd & Hall & Hback).
  exists db. split; [exact Hs|]. split; [exact Hnd|]. split.
  - intros s Hin Hh. destruct (Hall (write_fit s)) as (r & Hr & Hhold).
    + rewrite outputs_write. apply in_map. apply filter_In. split; assumption.
    + exists r. split; [exact Hr|]. destruct (Hok s Hin Hh) as (_ & _ & E1 & E2).
      split; [destruct Hhold as (Hid & _); rewrite Hid; exact E1|].
      split; [apply folder_name_write|]. apply holds_direct; assumption.
  - intros r Hr Hname.
    assert (Hg : r_grid r = false).
    { rewrite (scrape_closed classes uf false _ W) in Hs. injection Hs as <-.
      rewrite (loaded_db_closed classes) in Hr by exact W. rewrite grids_write in Hr.
      simpl in Hr. rewrite app_nil_r in Hr. apply in_map_iff in Hr. destruct Hr as (r0 & <- & Hr0).
      simpl. apply in_flat_map in Hr0. destruct Hr0 as (f & _ & [<-|Hr0]); [reflexivity|].
      unfold child_rows in Hr0. apply child_rows_from_props in Hr0. tauto. }
    destruct (Hback r Hr Hg Hname) as (f & Hf & Hh).
    rewrite outputs_write in Hf. apply in_map_iff in Hf. destruct Hf as (s & <- & Hin).
    apply filter_In in Hin. destruct Hin as [Hin Hhl].
    exists s. split; [exact Hin|]. split; [exact Hhl|]. destruct (Hok s Hin Hhl) as (_ & _ & E1 & E2).
    apply holds_direct; assumption.
Qed.

(* ---------- the two variants of GridSearchOutput.id ---------- *)

Definition cell_folder (path : list string) (id parent : string) (ll : Z) : folder :=
  {| f_path := path; f_metadata := true; f_completed := true; f_marker := None;
     f_parent_file := Some parent; f_written_id := id; f_class := "ScriptedSearch"; f_keys := [];
     f_name := "cell"; f_tag := Some "t1"; f_reload_id := id; f_model := "m"; f_info := None; f_info_held := None;
     f_samples := Some [{| s_vec := "v"; s_ll := ll; s_inst := "i" |}]; f_load_error := None;
     f_jsons := ["search"; "model"]; f_analyses := [] |}.
Definition grid_folder (path : list string) (marker : string) : folder :=
  {| f_path := path; f_metadata := false; f_completed := true; f_marker := Some marker;
     f_parent_file := None; f_written_id := ""; f_class := ""; f_keys := [];
     f_name := ""; f_tag := None; f_reload_id := ""; f_model := ""; f_info := None; f_info_held := None;
     f_samples := None; f_load_error := None; f_jsons := ["result"]; f_analyses := [] |}.

(* one dataset (unique tag t1), two grid searches over it, one cell each *)
Definition two_grids : list folder :=
  [ grid_folder ["t1"; "g1"; "aaa"] "t1"; cell_folder ["t1"; "g1"; "aaa"; "c0"] "id1" "aaa" (-1);
    grid_folder ["t1"; "g2"; "bbb"] "t1"; cell_folder ["t1"; "g2"; "bbb"; "c0"] "id2" "bbb" (-2) ].

Lemma grid_refuted :
  exists dir,
    (forall f, In f (outputs false dir) -> loadable [] f) /\
    NoDup (flat_map ids_of (outputs false dir) ++ map folder_name (grids false dir)) /\
    scrape [] false false dir [] = Raised "IntegrityError".
Proof.
  exists two_grids. split; [|split].
  - intros f Hf. vm_compute in Hf. destruct Hf as [<-|[<-|[]]]; split; reflexivity.
  - vm_compute. repeat constructor; simpl; intuition discriminate.
  - vm_compute. reflexivity.
Qed.

(* the same directory loads, with both parents, once the id is the folder name *)
Lemma two_grids_fixed :
  exists db, scrape [] true false two_grids [] = Loaded db /\
             map r_id (filter r_grid db) = ["aaa"; "bbb"] /\
             map r_id (children db "aaa") = ["id1"] /\ map r_id (children db "bbb") = ["id2"].
Proof. eexists. split; [vm_compute; reflexivity|]. vm_compute. repeat split. Qed.

Lemma gs_id_true (g : folder) : gs_id true g = folder_name g.
Proof. reflexivity. Qed.
Lemma gs_id_false (g : folder) : gs_id false g = match f_marker g with Some t => t | None => "" end.
Proof. reflexivity. Qed.

(* ---------- info values that are not strings ---------- *)

(* info.json holds {"n": 3}; the info table holds {"n": "3"} *)
Definition typed_info_folder : folder :=
  {| f_path := ["pp"; "s1"; "abc"]; f_metadata := true; f_completed := true; f_marker := None;
     f_parent_file := None; f_written_id := "abc"; f_class := "ScriptedSearch"; f_keys := [];
     f_name := "s1"; f_tag := None; f_reload_id := "abc"; f_model := "m";
     f_info := Some "digest-of-n-int-3"; f_info_held := Some "digest-of-n-str-3";
     f_samples := None; f_load_error := None; f_jsons := ["info"; "search"; "model"]; f_analyses := [] |}.

Lemma info_refuted :
  exists dir f, wf [] true false dir /\ In f (outputs false dir) /\
    exists db, scrape [] true false dir [] = Loaded db /\
      forall r, In r db -> r_id r = f_reload_id f -> r_info r <> f_info f.
Proof.
  exists [typed_info_folder], typed_info_folder. split; [|split; [left; reflexivity|]].
  - split.
    + intros f [<-|[]]. split; reflexivity.
    + vm_compute. repeat constructor; simpl; intuition discriminate.
  - eexists. split; [vm_compute; reflexivity|]. intros r [<-|[]] _. vm_compute. discriminate.
Qed.

(* ---------- the code as it is now (Gen.v is regenerated from /repo on every run) ---------- *)

(* GridSearchOutput.id returns the folder name: this fails to compile if the source goes back to the marker text *)
Lemma current_grid_id_is_folder : gs_id_uses_folder = true.
Proof. reflexivity. Qed.

Lemma current_gs_id (g : folder) : gs_id gs_id_uses_folder g = folder_name g.
Proof. rewrite current_grid_id_is_folder. reflexivity. Qed.

Theorem grid_current (classes : list search_class) (co : bool) (dir : list folder) :
  wf classes gs_id_uses_folder co dir ->
  cells_disjoint gs_id_uses_folder co dir -> parent_files_consistent gs_id_uses_folder co dir ->
  exists db, scrape classes gs_id_uses_folder co dir [] = Loaded db /\
    forall g, In g (grids co dir) ->
      (exists r, In r db /\ r_id r = folder_name g /\ r_grid r = true /\ r_parent r = None /\
                 r_complete r = Some (f_completed g) /\ r_tag r = f_marker g /\ r_jsons r = f_jsons g) /\
      (forall r', In r' db -> (r_parent r' = Some (folder_name g) <-> In (r_id r') (cell_ids co dir g))).
Proof.
  rewrite current_grid_id_is_folder. exact (grid_links classes true co dir).
Qed.

(* distinct grid-search FOLDERS and fit identifiers are all that is needed now: the directory that the
   pinned code could not load is well formed for the current code *)
Lemma two_grids_current : wf [] gs_id_uses_folder false two_grids /\
  exists db, scrape [] gs_id_uses_folder false two_grids [] = Loaded db /\ map r_id (filter r_grid db) = ["aaa"; "bbb"].
Proof.
  rewrite current_grid_id_is_folder. split.
  - split.
    + intros f Hf. vm_compute in Hf. destruct Hf as [<-|[<-|[]]]; split; reflexivity.
    + vm_compute. repeat constructor; simpl; intuition discriminate.
  - eexists. split; vm_compute; reflexivity.
Qed.

(* ---------- archives win over whatever the folder beside them holds ---------- *)

(* everything `holds` speaks about except the list of json names (the old folder may add names) *)
Definition holds_content (r : row) (f : folder) : Prop :=
  r_id r = f_reload_id f /\ r_name r = Some (f_name f) /\ r_tag r = f_tag f /\
  r_complete r = Some (f_completed f) /\ r_grid r = false /\
  r_model r = Some (f_model f) /\ r_info r = f_info_held f /\ r_samples r = f_samples f /\
  r_instance r = option_map s_inst (best_of (f_samples f)) /\
  r_maxll r = option_map s_ll (best_of (f_samples f)) /\
  (forall j, In j (f_jsons f) -> In j (r_jsons r)).

Lemma union_names_incl_l (a b : list string) : forall j, In j a -> In j (union_names a b).
Proof.
  revert a. induction b as [|x r IH]; intros a j H; simpl; [exact H|].
  destruct (mem x a); [apply IH; exact H | apply IH; apply in_or_app; left; exact H].
Qed.

Lemma unzipped_in (ds : list on_disk) (d : on_disk) (a : folder) :
  In d ds -> d_archive d = Some a -> In (overlay a (d_folder d)) (unzip_all ds).
Proof.
  intros Hd Ha. unfold unzip_all. apply in_flat_map. exists d. split; [exact Hd|].
  unfold unzipped. rewrite Ha. left. reflexivity.
Qed.

Theorem archive_wins (classes : list search_class) (uf co : bool) (ds : list on_disk) :
  wf classes uf co (unzip_all ds) ->
  exists db, scrape classes uf co (unzip_all ds) [] = Loaded db /\
    forall d a, In d ds -> d_archive d = Some a -> f_metadata a = true -> included co a = true ->
      exists r, In r db /\ holds_content r a.
Proof.
  intro W. destruct (lossless classes uf co _ W) as (db & Hs & _ & Hall & _).
  exists db. split; [exact Hs|]. intros d a Hd Ha Hm Hi.
  destruct (Hall (overlay a (d_folder d))) as (r & Hr & Hh).
  - unfold outputs. apply filter_In. split; [eapply unzipped_in; eassumption|].
    simpl. rewrite Hm. exact Hi.
  - exists r. split; [exact Hr|].
    destruct Hh as (H1 & H2 & H3 & H4 & H5 & H6 & H7 & H8 & H9 & H10 & H11).
    unfold holds_content. simpl in *. repeat split; try assumption.
    intros j Hj. rewrite H11. destruct (d_folder d); [apply union_names_incl_l; exact Hj | exact Hj].
Qed.
