(* C11 lemmas, part 3: Scraper.scrape over a directory with distinct identifiers:
   closed form of the loaded database, one row per search output holding what the folder holds,
   grid-search parents linked to exactly their cells, best cell. *)
From Coq Require Import List String Bool ZArith Lia Permutation.
From PAFC11 Require Import Lib Model Proofs.
Import ListNotations.
Open Scope string_scope.
Open Scope list_scope.

(* ---------- generalities ---------- *)

Lemma has_id_false (id : string) (db : list row) : has_id id db = false <-> ~ In id (map r_id db).
Proof.
  unfold has_id. split.
  - intros H Hin. apply in_map_iff in Hin. destruct Hin as (r & Hr & Hin).
    assert (E : existsb (fun r => String.eqb (r_id r) id) db = true).
    { apply existsb_exists. exists r. split; [exact Hin | subst; apply String.eqb_refl]. }
    rewrite H in E. discriminate.
  - intro H. destruct (existsb (fun r => String.eqb (r_id r) id) db) eqn:E; [|reflexivity].
    apply existsb_exists in E. destruct E as (r & Hin & Hr). apply String.eqb_eq in Hr.
    exfalso. apply H. apply in_map_iff. exists r. split; assumption.
Qed.

Lemma NoDup_app_l {A} (a b : list A) : NoDup (a ++ b) -> NoDup a.
Proof.
  induction a as [|x a IH]; simpl; intro H; [constructor|].
  inversion H; subst. constructor; [|apply IH; assumption].
  intro Hx. apply H2. apply in_or_app. left. exact Hx.
Qed.

Lemma NoDup_app_r {A} (a b : list A) : NoDup (a ++ b) -> NoDup b.
Proof. induction a as [|x a IH]; simpl; intro H; [exact H|]. inversion H; subst. apply IH. assumption. Qed.

Lemma NoDup_app_disj {A} (a b : list A) : NoDup (a ++ b) -> forall x, In x a -> ~ In x b.
Proof.
  induction a as [|y a IH]; simpl; intros H x Hx; [contradiction|].
  inversion H; subst. destruct Hx as [<-|Hx].
  - intro Hb. apply H2. apply in_or_app. right. exact Hb.
  - apply IH; assumption.
Qed.

Lemma NoDup_map_inj_in {A B} (f : A -> B) (l : list A) (x y : A) :
  NoDup (map f l) -> In x l -> In y l -> f x = f y -> x = y.
Proof.
  induction l as [|z l IH]; simpl; intros H Hx Hy E; [contradiction|].
  inversion H; subst.
  destruct Hx as [<-|Hx], Hy as [<-|Hy]; auto.
  - exfalso. apply H2. rewrite E. apply in_map. exact Hy.
  - exfalso. apply H2. rewrite <- E. apply in_map. exact Hx.
Qed.

(* ---------- the rows one search output contributes ---------- *)

Definition rows_of (f : folder) : list row := fit_row f :: child_rows f.
Definition ids_of (f : folder) : list string := map r_id (rows_of f).

Definition loadable (classes : list search_class) (f : folder) : Prop :=
  folder_reload_ok classes f = true /\ f_load_error f = None.

Lemma add_fits_closed (classes : list search_class) (fs : list folder) : forall db,
  (forall f, In f fs -> loadable classes f) ->
  NoDup (map r_id db ++ flat_map ids_of fs) ->
  add_fits classes fs db = Loaded (db ++ flat_map rows_of fs).
Proof.
  induction fs as [|f rest IH]; intros db Hl Hn; simpl.
  - rewrite app_nil_r. reflexivity.
  - destruct (Hl f (or_introl eq_refl)) as [Hr He]. rewrite Hr, He. simpl.
    simpl in Hn. unfold ids_of at 1 in Hn. simpl in Hn.
    assert (Hid : has_id (f_reload_id f) db = false).
    { apply has_id_false. intro Hin. apply (NoDup_app_disj _ _ Hn _ Hin). left. reflexivity. }
    rewrite Hid.
    assert (Hk : existsb (fun k => has_id (r_id k) (db ++ [fit_row f])) (child_rows f) = false).
    { destruct (existsb (fun k => has_id (r_id k) (db ++ [fit_row f])) (child_rows f)) eqn:E; [|reflexivity].
      apply existsb_exists in E. destruct E as (k & Hk & Hh). exfalso.
      assert (Hin : In (r_id k) (map r_id (child_rows f))) by (apply in_map; exact Hk).
      destruct (has_id (r_id k) (db ++ [fit_row f])) eqn:E2; [|discriminate].
      assert (Hc : In (r_id k) (map r_id (db ++ [fit_row f]))).
      { destruct (in_dec string_dec (r_id k) (map r_id (db ++ [fit_row f]))) as [i|n]; [exact i|].
        apply has_id_false in n. rewrite n in E2. discriminate. }
      rewrite map_app in Hc. apply in_app_or in Hc. destruct Hc as [Hc|Hc].
      - apply (NoDup_app_disj _ _ Hn _ Hc). right. apply in_or_app. left. exact Hin.
      - simpl in Hc. destruct Hc as [Hc|[]].
        apply NoDup_app_r in Hn. inversion Hn; subst. apply H1. rewrite Hc.
        apply in_or_app. left. exact Hin. }
    rewrite Hk.
    rewrite IH.
    + f_equal. unfold rows_of. rewrite <- !app_assoc. reflexivity.
    + intros g Hg. apply Hl. right. exact Hg.
    + rewrite !map_app. simpl. rewrite <- !app_assoc. simpl. exact Hn.
Qed.

(* ---------- the grid-search phase ---------- *)

Definition cell_ids (co : bool) (dir : list folder) (g : folder) : list string :=
  map f_reload_id (cells_of co dir g).

Definition grid_step (uf co : bool) (dir : list folder) (db : list row) (g : folder) : list row :=
  relink (gs_id uf g) (cell_ids co dir g) db ++ [gs_row uf g].

Lemma relink_ids (gid : string) (ids : list string) (db : list row) :
  map r_id (relink gid ids db) = map r_id db.
Proof.
  unfold relink. rewrite map_map. apply map_ext. intro r. destruct (mem (r_id r) ids); reflexivity.
Qed.

Lemma add_grids_closed (uf co : bool) (dir : list folder) (gs : list folder) : forall db,
  NoDup (map r_id db ++ map (gs_id uf) gs) ->
  add_grids uf co dir gs db = Loaded (fold_left (grid_step uf co dir) gs db).
Proof.
  induction gs as [|g rest IH]; intros db Hn; simpl; [reflexivity|].
  assert (Hid : has_id (gs_id uf g) db = false).
  { apply has_id_false. intro Hin. apply (NoDup_app_disj _ _ Hn _ Hin). left. reflexivity. }
  rewrite Hid. apply IH. unfold grid_step. fold (cell_ids co dir g).
  rewrite map_app, relink_ids. simpl. rewrite <- app_assoc. simpl. exact Hn.
Qed.

(* well-formed directory: every search output loads, and all identifiers that will become
   primary keys are distinct *)
Definition wf (classes : list search_class) (uf co : bool) (dir : list folder) : Prop :=
  (forall f, In f (outputs co dir) -> loadable classes f) /\
  NoDup (flat_map ids_of (outputs co dir) ++ map (gs_id uf) (grids co dir)).

Definition loaded_db (uf co : bool) (dir : list folder) : list row :=
  fold_left (grid_step uf co dir) (grids co dir) (flat_map rows_of (outputs co dir)).

Lemma flat_map_ids (fs : list folder) : map r_id (flat_map rows_of fs) = flat_map ids_of fs.
Proof.
  induction fs as [|f r IH]; simpl; [reflexivity|]. rewrite map_app. unfold ids_of at 1. simpl.
  f_equal. f_equal. exact IH.
Qed.

Theorem scrape_closed (classes : list search_class) (uf co : bool) (dir : list folder) :
  wf classes uf co dir -> scrape classes uf co dir [] = Loaded (loaded_db uf co dir).
Proof.
  intros [Hl Hn]. unfold scrape.
  rewrite (add_fits_closed classes (outputs co dir) []); [|exact Hl | simpl; eapply NoDup_app_l; exact Hn].
  simpl. apply add_grids_closed. rewrite flat_map_ids. exact Hn.
Qed.

(* an unreadable search aborts the whole load: nothing is returned *)
Lemma add_fits_unreadable (classes : list search_class) (fs : list folder) : forall db,
  (exists f, In f fs /\ folder_reload_ok classes f = false) ->
  (forall f, In f fs -> f_load_error f = None) ->
  NoDup (map r_id db ++ flat_map ids_of fs) ->
  add_fits classes fs db = Raised "TypeError".
Proof.
  induction fs as [|f rest IH]; intros db (g & Hg & Hb) He Hn; [contradiction|].
  simpl. destruct (folder_reload_ok classes f) eqn:Ef; [|reflexivity]. simpl.
  rewrite (He f (or_introl eq_refl)).
  destruct Hg as [->|Hg]; [rewrite Hb in Ef; discriminate|].
  simpl in Hn. unfold ids_of at 1 in Hn. simpl in Hn.
  assert (Hid : has_id (f_reload_id f) db = false).
  { apply has_id_false. intro Hin. apply (NoDup_app_disj _ _ Hn _ Hin). left. reflexivity. }
  rewrite Hid.
  assert (Hk : existsb (fun k => has_id (r_id k) (db ++ [fit_row f])) (child_rows f) = false).
  { destruct (existsb (fun k => has_id (r_id k) (db ++ [fit_row f])) (child_rows f)) eqn:E; [|reflexivity].
    apply existsb_exists in E. destruct E as (k & Hk & Hh). exfalso.
    assert (Hin : In (r_id k) (map r_id (child_rows f))) by (apply in_map; exact Hk).
    assert (Hc : In (r_id k) (map r_id (db ++ [fit_row f]))).
    { destruct (in_dec string_dec (r_id k) (map r_id (db ++ [fit_row f]))) as [i|n]; [exact i|].
      apply has_id_false in n. rewrite n in Hh. discriminate. }
    rewrite map_app in Hc. apply in_app_or in Hc. destruct Hc as [Hc|Hc].
    - apply (NoDup_app_disj _ _ Hn _ Hc). right. apply in_or_app. left. exact Hin.
    - simpl in Hc. destruct Hc as [Hc|[]].
      apply NoDup_app_r in Hn. inversion Hn; subst. apply H1. rewrite Hc.
      apply in_or_app. left. exact Hin. }
  rewrite Hk. apply IH.
  - exists g. split; assumption.
  - intros h Hh. apply He. right. exact Hh.
  - rewrite !map_app. simpl. rewrite <- !app_assoc. simpl. exact Hn.
Qed.

Theorem scrape_unreadable (classes : list search_class) (uf co : bool) (dir : list folder) :
  (exists f, In f (outputs co dir) /\ folder_reload_ok classes f = false) ->
  (forall f, In f (outputs co dir) -> f_load_error f = None) ->
  NoDup (flat_map ids_of (outputs co dir)) ->
  scrape classes uf co dir [] = Raised "TypeError".
Proof.
  intros H1 H2 H3. unfold scrape. rewrite (add_fits_unreadable classes _ [] H1 H2 H3). reflexivity.
Qed.

(* ---------- what the grid phase does to a row: only its parent changes ---------- *)

Definition with_parent (p : option string) (r : row) : row :=
  {| r_id := r_id r; r_name := r_name r; r_tag := r_tag r; r_complete := r_complete r; r_grid := r_grid r;
     r_parent := p; r_model := r_model r; r_info := r_info r; r_samples := r_samples r;
     r_instance := r_instance r; r_maxll := r_maxll r; r_jsons := r_jsons r |}.

Lemma with_parent_same (r : row) : with_parent (r_parent r) r = r.
Proof. destruct r; reflexivity. Qed.
Lemma with_parent_twice (p q : option string) (r : row) : with_parent p (with_parent q r) = with_parent p r.
Proof. reflexivity. Qed.
Lemma set_parent_with (p : string) (r : row) : set_parent p r = with_parent (Some p) r.
Proof. reflexivity. Qed.

Definition parent_step (uf co : bool) (dir : list folder) (id : string) (p : option string) (g : folder)
  : option string :=
  if mem id (cell_ids co dir g) then Some (gs_id uf g) else p.

Definition final_parent (uf co : bool) (dir : list folder) (gs : list folder) (r : row) : option string :=
  fold_left (parent_step uf co dir (r_id r)) gs (r_parent r).

Definition reparent (uf co : bool) (dir : list folder) (gs : list folder) (r : row) : row :=
  with_parent (final_parent uf co dir gs r) r.

Lemma relink_one (uf co : bool) (dir : list folder) (g : folder) (r : row) :
  (if mem (r_id r) (cell_ids co dir g) then set_parent (gs_id uf g) r else r)
  = with_parent (parent_step uf co dir (r_id r) (r_parent r) g) r.
Proof.
  unfold parent_step. destruct (mem (r_id r) (cell_ids co dir g)).
  - apply set_parent_with.
  - symmetry. apply with_parent_same.
Qed.

Lemma fold_parent_none_absent (uf co : bool) (dir : list folder) (id : string) (gs : list folder) :
  (forall g, In g gs -> ~ In id (cell_ids co dir g)) ->
  forall p, fold_left (parent_step uf co dir id) gs p = p.
Proof.
  induction gs as [|g rest IH]; intros H p; simpl; [reflexivity|].
  unfold parent_step at 2.
  assert (E : mem id (cell_ids co dir g) = false) by (apply mem_false_In; apply H; left; reflexivity).
  rewrite E. apply IH. intros g' Hg'. apply H. right. exact Hg'.
Qed.

(* the gs rows are never relinked when no grid-search id is a cell id *)
Lemma grid_fold_closed (uf co : bool) (dir : list folder) (gs : list folder) : forall db,
  (forall g g', In g gs -> In g' gs -> ~ In (gs_id uf g) (cell_ids co dir g')) ->
  fold_left (grid_step uf co dir) gs db = map (reparent uf co dir gs) db ++ map (gs_row uf) gs.
Proof.
  induction gs as [|g rest IH]; intros db H; simpl.
  - rewrite app_nil_r. rewrite <- (map_id db) at 1. apply map_ext. intro r.
    unfold reparent, final_parent. simpl. symmetry. apply with_parent_same.
  - rewrite IH.
    + unfold grid_step. rewrite map_app. simpl. rewrite <- app_assoc. simpl. f_equal.
      * unfold relink. rewrite map_map. apply map_ext. intro r.
        rewrite relink_one. unfold reparent, final_parent. simpl. reflexivity.
      * f_equal. unfold reparent, final_parent. simpl.
        rewrite fold_parent_none_absent.
        -- apply (with_parent_same (gs_row uf g)).
        -- intros g' Hg'. apply H; [left; reflexivity | right; exact Hg'].
    + intros a b Ha Hb. apply H; right; assumption.
Qed.

Lemma fold_parent_default (uf co : bool) (dir : list folder) (id : string) (gs : list folder) :
  forall p, fold_left (parent_step uf co dir id) gs p
            = match fold_left (parent_step uf co dir id) gs None with Some x => Some x | None => p end.
Proof.
  induction gs as [|g rest IH]; intro p; simpl; [reflexivity|].
  unfold parent_step at 2 4. destruct (mem id (cell_ids co dir g)).
  - rewrite (IH (Some (gs_id uf g))).
    destruct (fold_left (parent_step uf co dir id) rest None); reflexivity.
  - apply IH.
Qed.

Lemma fold_parent_owner (uf co : bool) (dir : list folder) (id : string) (gs : list folder) :
  match fold_left (parent_step uf co dir id) gs None with
  | Some x => exists g, In g gs /\ In id (cell_ids co dir g) /\ x = gs_id uf g
  | None => forall g, In g gs -> ~ In id (cell_ids co dir g)
  end.
Proof.
  induction gs as [|g rest IH]; simpl; [intros g []|].
  unfold parent_step at 2. destruct (mem id (cell_ids co dir g)) eqn:E.
  - rewrite fold_parent_default.
    destruct (fold_left (parent_step uf co dir id) rest None) as [x|] eqn:F.
    + destruct IH as (g' & Hg' & Hin & Hx). exists g'. split; [right; exact Hg' | split; assumption].
    + exists g. split; [left; reflexivity | split; [apply mem_In; exact E | reflexivity]].
  - destruct (fold_left (parent_step uf co dir id) rest None) as [x|] eqn:F.
    + destruct IH as (g' & Hg' & Hin & Hx). exists g'. split; [right; exact Hg' | split; assumption].
    + intros g' [<-|Hg']; [apply mem_false_In; exact E | apply IH; exact Hg'].
Qed.

(* ---------- consequences: nothing is lost ---------- *)

Lemma cells_are_outputs (co : bool) (dir : list folder) (g f : folder) :
  In f (cells_of co dir g) -> In f (outputs co dir).
Proof. unfold cells_of. intro H. apply filter_In in H. tauto. Qed.

Lemma cell_id_is_fit_id (co : bool) (dir : list folder) (g : folder) (id : string) :
  In id (cell_ids co dir g) -> In id (flat_map ids_of (outputs co dir)).
Proof.
  unfold cell_ids. intro H. apply in_map_iff in H. destruct H as (f & <- & Hf).
  apply cells_are_outputs in Hf. apply in_flat_map. exists f. split; [exact Hf|]. left. reflexivity.
Qed.

Lemma wf_gs_not_cell (classes : list search_class) (uf co : bool) (dir : list folder) :
  wf classes uf co dir ->
  forall g g', In g (grids co dir) -> In g' (grids co dir) -> ~ In (gs_id uf g) (cell_ids co dir g').
Proof.
  intros [_ Hn] g g' Hg Hg' Hin. apply cell_id_is_fit_id in Hin.
  apply (NoDup_app_disj _ _ Hn _ Hin). apply in_map. exact Hg.
Qed.

Theorem loaded_db_closed (classes : list search_class) (uf co : bool) (dir : list folder) :
  wf classes uf co dir ->
  loaded_db uf co dir
  = map (reparent uf co dir (grids co dir)) (flat_map rows_of (outputs co dir))
    ++ map (gs_row uf) (grids co dir).
Proof. intro H. unfold loaded_db. apply grid_fold_closed. eapply wf_gs_not_cell. exact H. Qed.

Lemma loaded_ids (classes : list search_class) (uf co : bool) (dir : list folder) :
  wf classes uf co dir ->
  map r_id (loaded_db uf co dir) = flat_map ids_of (outputs co dir) ++ map (gs_id uf) (grids co dir).
Proof.
  intro H. rewrite (loaded_db_closed classes) by exact H. rewrite map_app, !map_map. f_equal.
  rewrite <- flat_map_ids, <- (map_map (reparent uf co dir (grids co dir)) r_id).
  rewrite map_map. reflexivity.
Qed.

(* the fields of a row other than its parent link *)
Definition holds (r : row) (f : folder) : Prop :=
  r_id r = f_reload_id f /\ r_name r = Some (f_name f) /\ r_tag r = f_tag f /\
  r_complete r = Some (f_completed f) /\ r_grid r = false /\
  r_model r = Some (f_model f) /\ r_info r = f_info_held f /\ r_samples r = f_samples f /\
  r_instance r = option_map s_inst (best_of (f_samples f)) /\
  r_maxll r = option_map s_ll (best_of (f_samples f)) /\
  r_jsons r = f_jsons f.

Lemma reparent_fit_holds (uf co : bool) (dir gs : list folder) (f : folder) :
  holds (reparent uf co dir gs (fit_row f)) f.
Proof. unfold holds. simpl. repeat split; reflexivity. Qed.

Lemma child_rows_from_props (id : string) (l : list (list string)) : forall i r,
  In r (child_rows_from id i l) ->
  r_name r = None /\ r_grid r = false /\ r_parent r = Some id /\ r_model r = None /\ r_samples r = None.
Proof.
  induction l as [|js rest IH]; intros i r H; simpl in H; [contradiction|].
  destruct H as [<-|H]; [simpl; repeat split; reflexivity | eapply IH; exact H].
Qed.

Theorem lossless (classes : list search_class) (uf co : bool) (dir : list folder) :
  wf classes uf co dir ->
  exists db,
    scrape classes uf co dir [] = Loaded db /\
    NoDup (map r_id db) /\
    (forall f, In f (outputs co dir) -> exists r, In r db /\ holds r f) /\
    (forall r, In r db -> r_grid r = false -> r_name r <> None ->
               exists f, In f (outputs co dir) /\ holds r f).
Proof.
  intro H. exists (loaded_db uf co dir).
  split; [apply scrape_closed; exact H|].
  split; [rewrite (loaded_ids classes) by exact H; exact (proj2 H)|].
  rewrite (loaded_db_closed classes) by exact H.
  split.
  - intros f Hf. exists (reparent uf co dir (grids co dir) (fit_row f)). split.
    + apply in_or_app. left. apply in_map. apply in_flat_map. exists f. split; [exact Hf | left; reflexivity].
    + apply reparent_fit_holds.
  - intros r Hr Hg Hn. apply in_app_or in Hr. destruct Hr as [Hr|Hr].
    + apply in_map_iff in Hr. destruct Hr as (r0 & <- & Hr0).
      apply in_flat_map in Hr0. destruct Hr0 as (f & Hf & Hr0).
      destruct Hr0 as [<-|Hr0].
      * exists f. split; [exact Hf | apply reparent_fit_holds].
      * exfalso. apply Hn. apply child_rows_from_props in Hr0. simpl. tauto.
    + apply in_map_iff in Hr. destruct Hr as (g & <- & _). simpl in Hg. discriminate.
Qed.

(* completed_only: only completed fits are loaded *)
Lemma outputs_completed (dir : list folder) (f : folder) :
  In f (outputs true dir) -> f_completed f = true.
Proof.
  unfold outputs, included. intro H. apply filter_In in H. destruct H as [_ H].
  apply andb_true_iff in H. destruct H as [_ H]. simpl in H. exact H.
Qed.

Theorem completed_only_rows (classes : list search_class) (uf : bool) (dir : list folder) :
  wf classes uf true dir ->
  exists db, scrape classes uf true dir [] = Loaded db /\
    forall r, In r db -> r_grid r = false -> r_name r <> None -> r_complete r = Some true.
Proof.
  intro H. destruct (lossless classes uf true dir H) as (db & Hs & _ & _ & Hall).
  exists db. split; [exact Hs|]. intros r Hr Hg Hn.
  destruct (Hall r Hr Hg Hn) as (f & Hf & Hh).
  destruct Hh as (_ & _ & _ & Hc & _). rewrite Hc. f_equal. apply (outputs_completed dir). exact Hf.
Qed.

(* ---------- uniqueness inside the NoDup list of identifiers ---------- *)

Lemma NoDup_flat_map_same {A B} (g : A -> list B) (l : list A) (a b : A) (x : B) :
  NoDup (flat_map g l) -> In a l -> In b l -> In x (g a) -> In x (g b) -> a = b.
Proof.
  induction l as [|h t IH]; simpl; intros Hn Ha Hb Hxa Hxb; [contradiction|].
  destruct Ha as [<-|Ha], Hb as [<-|Hb]; auto.
  - exfalso. apply (NoDup_app_disj _ _ Hn x Hxa). apply in_flat_map. exists b. tauto.
  - exfalso. apply (NoDup_app_disj _ _ Hn x Hxb). apply in_flat_map. exists a. tauto.
  - apply IH; auto. eapply NoDup_app_r. exact Hn.
Qed.

Lemma NoDup_flat_map_each {A B} (g : A -> list B) (l : list A) (a : A) :
  NoDup (flat_map g l) -> In a l -> NoDup (g a).
Proof.
  induction l as [|h t IH]; simpl; intros Hn Ha; [contradiction|].
  destruct Ha as [<-|Ha]; [eapply NoDup_app_l; exact Hn | apply IH; [eapply NoDup_app_r; exact Hn | exact Ha]].
Qed.

(* a child-analysis id is never the id of a search output *)
Lemma child_id_not_fit_id (l : list folder) (f f' : folder) (k : row) :
  NoDup (flat_map ids_of l) -> In f l -> In f' l -> In k (child_rows f) -> r_id k <> f_reload_id f'.
Proof.
  intros Hn Hf Hf' Hk E.
  assert (Hx : In (r_id k) (ids_of f)) by (right; apply in_map; exact Hk).
  assert (Hy : In (r_id k) (ids_of f')) by (left; symmetry; exact E).
  assert (f = f') by (eapply NoDup_flat_map_same; eassumption). subst f'.
  pose proof (NoDup_flat_map_each _ _ _ Hn Hf) as Hd. unfold ids_of, rows_of in Hd. simpl in Hd.
  inversion Hd; subst. apply H1. change (f_reload_id f) with (r_id (fit_row f)). simpl.
  rewrite <- E. apply in_map. exact Hk.
Qed.

(* every analyses/<x> folder of a loaded fit becomes one child fit holding its files *)
Lemma child_rows_from_jsons (id : string) (l : list (list string)) : forall i,
  map r_jsons (child_rows_from id i l) = l.
Proof. induction l as [|js r IH]; intro i; simpl; [reflexivity|]. rewrite IH. reflexivity. Qed.

Theorem analyses_children (classes : list search_class) (uf co : bool) (dir : list folder) (f : folder) :
  wf classes uf co dir -> In f (outputs co dir) ->
  exists db kids, scrape classes uf co dir [] = Loaded db /\
    (forall k, In k kids -> In k db /\ r_parent k = Some (f_reload_id f) /\ r_name k = None) /\
    map r_jsons kids = f_analyses f.
Proof.
  intros H Hf. exists (loaded_db uf co dir), (map (reparent uf co dir (grids co dir)) (child_rows f)).
  split; [apply scrape_closed; exact H|]. split.
  - intros k Hk. apply in_map_iff in Hk. destruct Hk as (k0 & <- & Hk0). split.
    + rewrite (loaded_db_closed classes) by exact H. apply in_or_app. left. apply in_map.
      apply in_flat_map. exists f. split; [exact Hf | right; exact Hk0].
    + unfold reparent, final_parent. simpl.
      rewrite fold_parent_none_absent.
      * unfold child_rows in Hk0. apply child_rows_from_props in Hk0. tauto.
      * intros g Hg Hin. unfold cell_ids in Hin. apply in_map_iff in Hin.
        destruct Hin as (f' & E & Hf'). apply cells_are_outputs in Hf'.
        destruct H as [_ Hn]. apply NoDup_app_l in Hn.
        exact (child_id_not_fit_id _ f f' k0 Hn Hf Hf' Hk0 (eq_sym E)).
  - rewrite map_map. unfold child_rows.
    rewrite <- (child_rows_from_jsons (f_reload_id f) (f_analyses f) 0) at 2.
    apply map_ext. intro r. reflexivity.
Qed.

(* ---------- grid searches ---------- *)

(* two grid searches do not claim the same cell, and a fit naming a grid search as its parent
   lies below that grid search's folder *)
Definition cells_disjoint (uf co : bool) (dir : list folder) : Prop :=
  forall g g' id, In g (grids co dir) -> In g' (grids co dir) ->
                  In id (cell_ids co dir g) -> In id (cell_ids co dir g') -> g = g'.
Definition parent_files_consistent (uf co : bool) (dir : list folder) : Prop :=
  forall f g, In f (outputs co dir) -> In g (grids co dir) ->
              f_parent_file f = Some (gs_id uf g) -> In (f_reload_id f) (cell_ids co dir g).

Theorem grid_links (classes : list search_class) (uf co : bool) (dir : list folder) :
  wf classes uf co dir -> cells_disjoint uf co dir -> parent_files_consistent uf co dir ->
  exists db, scrape classes uf co dir [] = Loaded db /\
    forall g, In g (grids co dir) ->
      (exists r, In r db /\ r_id r = gs_id uf g /\ r_grid r = true /\ r_parent r = None /\
                 r_complete r = Some (f_completed g) /\ r_tag r = f_marker g /\ r_jsons r = f_jsons g) /\
      (forall r', In r' db -> (r_parent r' = Some (gs_id uf g) <-> In (r_id r') (cell_ids co dir g))).
Proof.
  intros H Hd Hp. exists (loaded_db uf co dir). split; [apply scrape_closed; exact H|].
  intros g Hg. rewrite (loaded_db_closed classes) by exact H. split.
  - exists (gs_row uf g). split; [apply in_or_app; right; apply in_map; exact Hg|].
    simpl. repeat split; reflexivity.
  - assert (Hnd := proj2 H).
    assert (Hfit : NoDup (flat_map ids_of (outputs co dir))) by (eapply NoDup_app_l; exact Hnd).
    assert (Hgs : NoDup (map (gs_id uf) (grids co dir))) by (eapply NoDup_app_r; exact Hnd).
    intros r' Hr'. apply in_app_or in Hr'. destruct Hr' as [Hr'|Hr'].
    + apply in_map_iff in Hr'. destruct Hr' as (r0 & <- & Hr0).
      unfold reparent at 1 2. simpl. unfold final_parent.
      rewrite fold_parent_default.
      pose proof (fold_parent_owner uf co dir (r_id r0) (grids co dir)) as Ho.
      destruct (fold_left (parent_step uf co dir (r_id r0)) (grids co dir) None) as [x|] eqn:F.
      * destruct Ho as (g' & Hg' & Hin & ->). split.
        -- intro E. injection E as E.
           assert (g' = g) by (eapply NoDup_map_inj_in; eassumption). subst g'. exact Hin.
        -- intro Hin'. f_equal. f_equal. eapply Hd; eassumption.
      * split.
        -- intro E. apply in_flat_map in Hr0. destruct Hr0 as (f & Hf & Hr0).
           destruct Hr0 as [<-|Hr0].
           ++ simpl in E. simpl. apply Hp; assumption.
           ++ exfalso. unfold child_rows in Hr0. pose proof Hr0 as Hr0'.
              apply child_rows_from_props in Hr0. destruct Hr0 as (_ & _ & Hpar & _).
              rewrite Hpar in E. injection E as E.
              (* a grid-search id equal to a fit id contradicts NoDup *)
              apply (NoDup_app_disj _ _ Hnd (f_reload_id f)).
              ** apply in_flat_map. exists f. split; [exact Hf | left; reflexivity].
              ** rewrite E. apply in_map. exact Hg.
        -- intro Hin. exfalso. exact (Ho g Hg Hin).
    + apply in_map_iff in Hr'. destruct Hr' as (g' & <- & Hg'). simpl. split; [discriminate|].
      intro Hin. exfalso. exact (wf_gs_not_cell classes uf co dir H g' g Hg' Hg Hin).
Qed.

(* the cell ids of a grid search are exactly the ids of the search outputs below its folder *)
Lemma cell_ids_spec (co : bool) (dir : list folder) (g : folder) (id : string) :
  In id (cell_ids co dir g) <->
  exists f, In f (outputs co dir) /\ is_prefix (f_path g) (f_path f) = true /\ f_reload_id f = id.
Proof.
  unfold cell_ids, cells_of. rewrite in_map_iff. split.
  - intros (f & E & Hf). apply filter_In in Hf. exists f. tauto.
  - intros (f & Hf & Hp & E). exists f. split; [exact E | apply filter_In; tauto].
Qed.

(* ---------- Fit.best_fit / best_fits(): see Proofs5.v ---------- *)

Lemma children_spec (db : list row) (gid : string) (r : row) :
  In r (children db gid) <-> In r db /\ r_parent r = Some gid.
Proof.
  unfold children. rewrite filter_In. split; intros [A B]; (split; [exact A|]).
  - destruct (r_parent r) as [p|]; simpl in B; [|discriminate]. apply String.eqb_eq in B. subst. reflexivity.
  - rewrite B. simpl. apply String.eqb_refl.
Qed.

(* ---------- id = folder name, info: what `holds` leaves to the persistence of search / model / info ---------- *)

(* the identifier recomputed from the files is the one the fit was written under, and (fits that are
   not grid-search cells) the folder is named by it *)
Definition written_under_folder_name (f : folder) : Prop :=
  reload_faithful f = true /\ folder_name f = f_written_id f.

Theorem id_is_folder_name (classes : list search_class) (uf co : bool) (dir : list folder) :
  wf classes uf co dir ->
  exists db, scrape classes uf co dir [] = Loaded db /\
    forall f, In f (outputs co dir) -> written_under_folder_name f ->
      exists r, In r db /\ holds r f /\ r_id r = folder_name f /\
                forall r', In r' db -> r_id r' = folder_name f -> r' = r.
Proof.
  intro H. destruct (lossless classes uf co dir H) as (db & Hs & Hnd & Hall & _).
  exists db. split; [exact Hs|]. intros f Hf [Hr Hn].
  destruct (Hall f Hf) as (r & Hr' & Hh). exists r. split; [exact Hr'|]. split; [exact Hh|].
  assert (E : r_id r = folder_name f).
  { destruct Hh as (Hid & _). rewrite Hid, Hn. unfold reload_faithful in Hr. apply String.eqb_eq. exact Hr. }
  split; [exact E|]. intros r' Hin E'. eapply NoDup_map_inj_in; try eassumption. congruence.
Qed.

(* info: the row holds what the info table can hold; that is the info of the directory when every
   value is a string *)
Theorem info_held (classes : list search_class) (uf co : bool) (dir : list folder) :
  wf classes uf co dir ->
  exists db, scrape classes uf co dir [] = Loaded db /\
    forall f, In f (outputs co dir) -> f_info_held f = f_info f ->
      exists r, In r db /\ r_id r = f_reload_id f /\ r_info r = f_info f.
Proof.
  intro H. destruct (lossless classes uf co dir H) as (db & Hs & _ & Hall & _).
  exists db. split; [exact Hs|]. intros f Hf E. destruct (Hall f Hf) as (r & Hr & Hh).
  exists r. split; [exact Hr|]. destruct Hh as (Hid & _ & _ & _ & _ & _ & Hi & _).
  split; [exact Hid | rewrite Hi; exact E].
Qed.

(* ---------- loading into a database that already holds fits ---------- *)

Definition wf0 (classes : list search_class) (uf co : bool) (dir : list folder) (db0 : list row) : Prop :=
  (forall f, In f (outputs co dir) -> loadable classes f) /\
  NoDup (map r_id db0 ++ flat_map ids_of (outputs co dir) ++ map (gs_id uf) (grids co dir)).

Theorem scrape_closed_db0 (classes : list search_class) (uf co : bool) (dir : list folder) (db0 : list row) :
  wf0 classes uf co dir db0 ->
  scrape classes uf co dir db0
  = Loaded (fold_left (grid_step uf co dir) (grids co dir) (db0 ++ flat_map rows_of (outputs co dir))).
Proof.
  intros [Hl Hn]. unfold scrape.
  rewrite (add_fits_closed classes (outputs co dir) db0).
  - apply add_grids_closed. rewrite map_app, flat_map_ids, <- app_assoc. exact Hn.
  - exact Hl.
  - rewrite app_assoc in Hn. eapply NoDup_app_l. exact Hn.
Qed.

(* the fits loaded earlier stay exactly as they were, and everything `lossless` promises for the new
   directory holds as well *)
Theorem second_load (classes : list search_class) (uf co : bool) (dir : list folder) (db0 : list row) :
  wf0 classes uf co dir db0 ->
  exists db, scrape classes uf co dir db0 = Loaded db /\
    (forall r, In r db0 -> In r db) /\
    (forall f, In f (outputs co dir) -> exists r, In r db /\ holds r f) /\
    NoDup (map r_id db).
Proof.
  intros H. pose proof H as [Hl Hn].
  assert (Hgc : forall g g', In g (grids co dir) -> In g' (grids co dir) -> ~ In (gs_id uf g) (cell_ids co dir g')).
  { intros g g' Hg Hg' Hin. apply cell_id_is_fit_id in Hin. apply NoDup_app_r in Hn.
    apply (NoDup_app_disj _ _ Hn _ Hin). apply in_map. exact Hg. }
  exists (fold_left (grid_step uf co dir) (grids co dir) (db0 ++ flat_map rows_of (outputs co dir))).
  split; [apply scrape_closed_db0; exact H|].
  rewrite grid_fold_closed by exact Hgc. split; [|split].
  - intros r Hr. apply in_or_app. left. rewrite map_app. apply in_or_app. left.
    replace r with (reparent uf co dir (grids co dir) r) at 1; [apply in_map; exact Hr|].
    unfold reparent, final_parent. rewrite fold_parent_none_absent; [apply with_parent_same|].
    intros g Hg Hin. apply cell_id_is_fit_id in Hin.
    apply (NoDup_app_disj _ _ Hn (r_id r)); [apply in_map; exact Hr | apply in_or_app; left; exact Hin].
  - intros f Hf. exists (reparent uf co dir (grids co dir) (fit_row f)). split; [|apply reparent_fit_holds].
    apply in_or_app. left. apply in_map. apply in_or_app. right.
    apply in_flat_map. exists f. split; [exact Hf | left; reflexivity].
  - rewrite map_app, !map_map.
    rewrite (map_ext (fun x => r_id (reparent uf co dir (grids co dir) x)) r_id) by reflexivity.
    rewrite map_app, flat_map_ids, <- app_assoc. exact Hn.
Qed.
