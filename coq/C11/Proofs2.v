(* C11 lemmas, part 2: reading a search's persisted settings back.
   `call_ok` (executable) against an inductive statement of "no __init__ on the chain raises",
   monotonicity in the key set, and the finite fact about the translated classes of Gen.v. *)
From Coq Require Import List String Bool Lia.
From PAFC11 Require Import Lib Gen Model.
Import ListNotations.
Open Scope string_scope.
Open Scope list_scope.

(* one __init__ accepts the keywords it is called with and its super() call is well formed *)
Definition level_ok (s : sig) (keys : list string) : Prop :=
  (s_varkw s = true \/ extras s keys = []) /\
  (forall k, In k (s_super_kw s) -> ~ In k (forwarded s keys)).

Inductive CallOk : list sig -> list string -> Prop :=
| CallOk_nil : forall keys, CallOk [] keys
| CallOk_last : forall s keys, level_ok s keys -> CallOk [s] keys
| CallOk_cons : forall s s' rest keys,
    level_ok s keys -> CallOk (s' :: rest) (s_super_kw s ++ forwarded s keys) ->
    CallOk (s :: s' :: rest) keys.

Lemma existsb_mem_false (kw fwd : list string) :
  existsb (fun k => mem k fwd) kw = false <-> (forall k, In k kw -> ~ In k fwd).
Proof.
  split.
  - intros H k Hk Hf.
    assert (E : existsb (fun k => mem k fwd) kw = true).
    { apply existsb_exists. exists k. split; [exact Hk | apply mem_In; exact Hf]. }
    rewrite H in E. discriminate.
  - intro H. destruct (existsb (fun k => mem k fwd) kw) eqn:E; [|reflexivity].
    apply existsb_exists in E. destruct E as (k & Hk & Hm). apply mem_In in Hm.
    exfalso. exact (H k Hk Hm).
Qed.

Lemma level_ok_dec (s : sig) (keys : list string) :
  (negb (s_varkw s) && negb (match extras s keys with [] => true | _ => false end) = false
   /\ existsb (fun k => mem k (forwarded s keys)) (s_super_kw s) = false) <-> level_ok s keys.
Proof.
  unfold level_ok. rewrite existsb_mem_false. split.
  - intros [H1 H2]. split; [|exact H2].
    destruct (s_varkw s); [left; reflexivity|]. right.
    destruct (extras s keys); [reflexivity | simpl in H1; discriminate].
  - intros [[H1|H1] H2]; (split; [|exact H2]).
    + rewrite H1. reflexivity.
    + rewrite H1. destruct (s_varkw s); reflexivity.
Qed.

Lemma call_ok_spec (ch : list sig) : forall keys, call_ok ch keys = true <-> CallOk ch keys.
Proof.
  induction ch as [|s rest IH]; intro keys.
  - simpl. split; [intros _; constructor | reflexivity].
  - simpl.
    destruct (negb (s_varkw s) && negb (match extras s keys with [] => true | _ => false end)) eqn:E1.
    + split; [discriminate|]. intro H.
      assert (L : level_ok s keys) by (inversion H; assumption).
      apply level_ok_dec in L. destruct L as [L _]. rewrite L in E1. discriminate.
    + destruct (existsb (fun k => mem k (forwarded s keys)) (s_super_kw s)) eqn:E2.
      * split; [discriminate|]. intro H.
        assert (L : level_ok s keys) by (inversion H; assumption).
        apply level_ok_dec in L. destruct L as [_ L]. rewrite L in E2. discriminate.
      * assert (L : level_ok s keys) by (apply level_ok_dec; split; assumption).
        destruct rest as [|s' rest'].
        -- split; [intros _; constructor; exact L | reflexivity].
        -- rewrite IH. split.
           ++ intro H. constructor; assumption.
           ++ intro H. inversion H; assumption.
Qed.

(* ---------- fewer keys never hurt ---------- *)

Lemma filter_incl {A} (f : A -> bool) (a b : list A) : incl a b -> incl (filter f a) (filter f b).
Proof. intros H x Hx. apply filter_In in Hx. apply filter_In. destruct Hx. split; auto. Qed.

Lemma incl_nil_eq {A} (l : list A) : incl l [] -> l = [].
Proof. destruct l; [reflexivity|]. intro H. exfalso. apply (H a). left. reflexivity. Qed.

Lemma extras_incl (s : sig) (a b : list string) : incl a b -> incl (extras s a) (extras s b).
Proof. apply filter_incl. Qed.

Lemma forwarded_incl (s : sig) (a b : list string) : incl a b -> incl (forwarded s a) (forwarded s b).
Proof.
  intro H. unfold forwarded. destruct (s_forwards s); [|apply incl_refl].
  apply filter_incl. apply extras_incl. exact H.
Qed.

Lemma level_ok_mono (s : sig) (a b : list string) : incl a b -> level_ok s b -> level_ok s a.
Proof.
  intros H [H1 H2]. split.
  - destruct H1 as [H1|H1]; [left; exact H1 | right].
    apply incl_nil_eq. rewrite <- H1. apply extras_incl. exact H.
  - intros k Hk Hf. apply (H2 k Hk). apply (forwarded_incl s a b H). exact Hf.
Qed.

Lemma CallOk_mono (ch : list sig) : forall a b, incl a b -> CallOk ch b -> CallOk ch a.
Proof.
  induction ch as [|s rest IH]; intros a b H Hb.
  - constructor.
  - inversion Hb; subst.
    + constructor. eapply level_ok_mono; eassumption.
    + constructor; [eapply level_ok_mono; eassumption|].
      eapply IH; [|eassumption].
      apply incl_app; [apply incl_appl, incl_refl | apply incl_appr, forwarded_incl; exact H].
Qed.

Lemma call_ok_mono (ch : list sig) (a b : list string) :
  incl a b -> call_ok ch b = true -> call_ok ch a = true.
Proof. intros H Hb. apply call_ok_spec. apply call_ok_spec in Hb. eapply CallOk_mono; eassumption. Qed.

(* ---------- every class of a list whose full key set is accepted reads back, whatever subset of
   keys instance_as_dict actually emitted ---------- *)

Definition class_ok (c : search_class) : bool := call_ok (sc_chain c) (serialised_keys c).

Lemma classes_sound (cl : list search_class) :
  forallb class_ok cl = true ->
  forall c, In c cl -> forall keys, incl keys (serialised_keys c) -> reload_ok c keys = true.
Proof.
  intros H c Hc keys Hk. rewrite forallb_forall in H. specialize (H c Hc).
  unfold reload_ok. eapply call_ok_mono; eassumption.
Qed.

(* every concrete search class of the CURRENT source (Gen.v, regenerated on every run), Drawer included:
   a finite fact about the generated signatures, then monotonicity for every subset of the key universe *)
Lemma translated_classes_ok : forallb class_ok search_classes = true.
Proof. vm_compute. reflexivity. Qed.

Lemma all_searches (c : search_class) :
  In c search_classes ->
  forall keys, incl keys (serialised_keys c) -> reload_ok c keys = true.
Proof. intro Hc. exact (classes_sound _ translated_classes_ok c Hc). Qed.

(* the key universe contains what the base classes of NonLinearSearch contribute *)
Lemma base_args_in_universe (c : search_class) (k : string) :
  In k (sc_base_args c) -> In k (serialised_keys c).
Proof. intro H. unfold serialised_keys. apply in_or_app. right. apply in_or_app. left. exact H. Qed.

Lemma keys_known_incl (c : search_class) (keys : list string) :
  keys_known c keys = true <-> incl keys (serialised_keys c).
Proof.
  unfold keys_known. rewrite forallb_forall. split.
  - intros H k Hk. apply mem_In. apply H. exact Hk.
  - intros H k Hk. apply mem_In. apply H. exact Hk.
Qed.

(* the pinned Drawer: the keys it really persists cannot be fed back *)
Lemma drawer_refuted :
  exists keys, incl keys (serialised_keys drawer_pinned) /\ reload_ok drawer_pinned keys = false.
Proof.
  exists ["number_of_cores"]. split; [|vm_compute; reflexivity].
  intros k [<-|[]]. vm_compute. tauto.
Qed.

(* the repaired Drawer reads back for every subset of its keys *)
Lemma drawer_repaired_ok :
  forall keys, incl keys (serialised_keys drawer_repaired) -> reload_ok drawer_repaired keys = true.
Proof.
  apply (classes_sound [drawer_repaired]); [vm_compute; reflexivity | left; reflexivity].
Qed.

(* a key outside the named parameters of a class that does not accept **kwargs is rejected *)
Lemma unexpected_keyword (s : sig) (rest : list sig) (keys : list string) (k : string) :
  s_varkw s = false -> In k keys -> ~ In k (s_params s) -> call_ok (s :: rest) keys = false.
Proof.
  intros Hv Hk Hp. simpl. rewrite Hv. simpl.
  assert (In k (extras s keys)).
  { apply filter_In. split; [exact Hk|]. apply negb_true_iff. apply mem_false_In. exact Hp. }
  destruct (extras s keys); [contradiction | reflexivity].
Qed.
