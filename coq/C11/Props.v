(* C11 property theorems: statements only, each closed by `exact`.
   Definitions used in the statements: Model.v (call_ok, scrape, write_fit, direct_row, best, best_child ...),
   Proofs2.v (CallOk), Proofs3.v (wf, loadable, holds, ids_of, cell_ids, cells_disjoint,
   parent_files_consistent), Proofs4.v (spec_ok); best_child, best_child_repaired, best_fits_query, highest_in: Model.v. *)
From Coq Require Import List String Bool ZArith.
From PAFC11 Require Import Lib Gen Model Proofs Proofs2 Proofs3 Proofs4 Proofs5.
Import ListNotations.
Open Scope string_scope.
Open Scope list_scope.

(* ---- the stored best fit is a sample of maximal likelihood ---- *)
Theorem C11_best_sample_is_max : forall (l : list sample) (b : sample),
  best l = Some b -> In b l /\ forall s, In s l -> (s_ll s <= s_ll b)%Z.
Proof. exact best_is_max. Qed.

(* ---- every search's persisted settings can be read back ---- *)
(* the executable check is exactly "no __init__ on the chain raises TypeError" *)
Theorem C11_settings_call_spec : forall (ch : list sig) (keys : list string),
  call_ok ch keys = true <-> CallOk ch keys.
Proof. exact call_ok_spec. Qed.

(* whatever subset of the possible keys was persisted (hasattr filtering), reading back succeeds
   as soon as it succeeds for the full key set *)
Theorem C11_settings_monotone : forall (ch : list sig) (a b : list string),
  incl a b -> call_ok ch b = true -> call_ok ch a = true.
Proof. exact call_ok_mono. Qed.

(* FULL: every concrete search class of the current source (Gen.v is regenerated from /repo on every run)
   reads back, for every subset of the keys autoconf's instance_as_dict can persist for it -- own and
   inherited constructor parameters, those of NonLinearSearch's bases (initial_values, inplace), and the
   identifier fields.  The correspondence checks `keys_known` for every search.json actually written. *)
Theorem C11_all_searches : forall c : search_class,
  In c search_classes ->
  forall keys, incl keys (serialised_keys c) -> reload_ok c keys = true.
Proof. exact all_searches. Qed.

Theorem C11_keys_known_is_incl : forall (c : search_class) (keys : list string),
  keys_known c keys = true <-> incl keys (serialised_keys c).
Proof. exact keys_known_incl. Qed.

(* LEGACY (history): the Drawer constructor as it was at the pinned commit did not read back (repaired by 6031051);
   the current one is covered by C11_all_searches *)
Theorem C11_drawer_legacy_refuted :
  exists keys, incl keys (serialised_keys drawer_pinned) /\ reload_ok drawer_pinned keys = false.
Proof. exact drawer_refuted. Qed.

(* consequence of an unreadable search in the faithful model: the whole directory is not loaded *)
Theorem C11_unreadable_search_aborts_load : forall (classes : list search_class) (uf co : bool) (dir : list folder),
  (exists f, In f (outputs co dir) /\ folder_reload_ok classes f = false) ->
  (forall f, In f (outputs co dir) -> f_load_error f = None) ->
  NoDup (flat_map ids_of (outputs co dir)) ->
  scrape classes uf co dir [] = Raised "TypeError".
Proof. exact scrape_unreadable. Qed.

(* ---- loading a directory loses nothing (distinct identifiers, loadable outputs) ---- *)
Theorem C11_lossless : forall (classes : list search_class) (uf co : bool) (dir : list folder),
  wf classes uf co dir ->
  exists db,
    scrape classes uf co dir [] = Loaded db /\
    NoDup (map r_id db) /\
    (forall f, In f (outputs co dir) -> exists r, In r db /\ holds r f) /\
    (forall r, In r db -> r_grid r = false -> r_name r <> None ->
               exists f, In f (outputs co dir) /\ holds r f).
Proof. exact lossless. Qed.

Theorem C11_completed_only : forall (classes : list search_class) (uf : bool) (dir : list folder),
  wf classes uf true dir ->
  exists db, scrape classes uf true dir [] = Loaded db /\
    forall r, In r db -> r_grid r = false -> r_name r <> None -> r_complete r = Some true.
Proof. exact completed_only_rows. Qed.

Theorem C11_analyses_children : forall (classes : list search_class) (uf co : bool) (dir : list folder) (f : folder),
  wf classes uf co dir -> In f (outputs co dir) ->
  exists db kids, scrape classes uf co dir [] = Loaded db /\
    (forall k, In k kids -> In k db /\ r_parent k = Some (f_reload_id f) /\ r_name k = None) /\
    map r_jsons kids = f_analyses f.
Proof. exact analyses_children. Qed.

(* id = folder name: needs, per fit, that the identifier recomputed from the files is the written one
   (C07/C08's business; the correspondence evaluates `reload_faithful` on every folder and it is false
   exactly on the model shapes recorded as findings) *)
Theorem C11_id_is_folder_name : forall (classes : list search_class) (uf co : bool) (dir : list folder),
  wf classes uf co dir ->
  exists db, scrape classes uf co dir [] = Loaded db /\
    forall f, In f (outputs co dir) -> written_under_folder_name f ->
      exists r, In r db /\ holds r f /\ r_id r = folder_name f /\
                forall r', In r' db -> r_id r' = folder_name f -> r' = r.
Proof. exact id_is_folder_name. Qed.

(* info.  PARTIAL (guard: what the info table can hold of the dictionary is the dictionary, i.e. all values are strings) *)
Theorem C11_info_partial : forall (classes : list search_class) (uf co : bool) (dir : list folder),
  wf classes uf co dir ->
  exists db, scrape classes uf co dir [] = Loaded db /\
    forall f, In f (outputs co dir) -> f_info_held f = f_info f ->
      exists r, In r db /\ r_id r = f_reload_id f /\ r_info r = f_info f.
Proof. exact info_held. Qed.

(* REFUTED without the guard: a loadable directory whose fit row does not hold the info of info.json *)
Theorem C11_info_refuted :
  exists dir f, wf [] true false dir /\ In f (outputs false dir) /\
    exists db, scrape [] true false dir [] = Loaded db /\
      forall r, In r db -> r_id r = f_reload_id f -> r_info r <> f_info f.
Proof. exact info_refuted. Qed.

(* a second add_directory into the same database keeps every fit loaded before and loses nothing of the new directory *)
Theorem C11_second_load : forall (classes : list search_class) (uf co : bool) (dir : list folder) (db0 : list row),
  wf0 classes uf co dir db0 ->
  exists db, scrape classes uf co dir db0 = Loaded db /\
    (forall r, In r db0 -> In r db) /\
    (forall f, In f (outputs co dir) -> exists r, In r db /\ holds r f) /\
    NoDup (map r_id db).
Proof. exact second_load. Qed.

(* ---- grid searches: one parent linked to exactly its cells ---- *)
(* FULL, for the code as it is now (Gen.gs_id_uses_folder, read from the source on every run): every grid search
   appears as one parent fit whose id is its folder name, linked to exactly its cell fits.  `wf` asks for loadable
   outputs and distinct fit identifiers / grid-search folder names only. *)
Theorem C11_grid : forall (classes : list search_class) (co : bool) (dir : list folder),
  wf classes gs_id_uses_folder co dir ->
  cells_disjoint gs_id_uses_folder co dir -> parent_files_consistent gs_id_uses_folder co dir ->
  exists db, scrape classes gs_id_uses_folder co dir [] = Loaded db /\
    forall g, In g (grids co dir) ->
      (exists r, In r db /\ r_id r = folder_name g /\ r_grid r = true /\ r_parent r = None /\
                 r_complete r = Some (f_completed g) /\ r_tag r = f_marker g /\ r_jsons r = f_jsons g) /\
      (forall r', In r' db -> (r_parent r' = Some (folder_name g) <-> In (r_id r') (cell_ids co dir g))).
Proof. exact grid_current. Qed.

(* the source computes the grid-search id from the folder name (regression guard: does not compile otherwise) *)
Theorem C11_grid_id_current : gs_id_uses_folder = true /\ forall g : folder, gs_id gs_id_uses_folder g = folder_name g.
Proof. exact (conj current_grid_id_is_folder current_gs_id). Qed.

(* the directory the pinned code could not load (two grid searches, one unique tag) loads with both parents *)
Theorem C11_grid_shared_tag_loads : wf [] gs_id_uses_folder false two_grids /\
  exists db, scrape [] gs_id_uses_folder false two_grids [] = Loaded db /\ map r_id (filter r_grid db) = ["aaa"; "bbb"].
Proof. exact two_grids_current. Qed.

(* LEGACY (history; repaired by d04d2bc): with id = text of .is_grid_search the same holds only under distinct marker texts ... *)
Theorem C11_grid_legacy_partial : forall (classes : list search_class) (co : bool) (dir : list folder),
  wf classes false co dir -> cells_disjoint false co dir -> parent_files_consistent false co dir ->
  exists db, scrape classes false co dir [] = Loaded db /\
    forall g, In g (grids co dir) ->
      (exists r, In r db /\ r_id r = gs_id false g /\ r_grid r = true /\ r_parent r = None /\
                 r_complete r = Some (f_completed g) /\ r_tag r = f_marker g /\ r_jsons r = f_jsons g) /\
      (forall r', In r' db -> (r_parent r' = Some (gs_id false g) <-> In (r_id r') (cell_ids co dir g))).
Proof. exact (fun classes => grid_links classes false). Qed.

(* ... and distinct folders and fit ids did not suffice: the load raised *)
Theorem C11_grid_legacy_refuted :
  exists dir,
    (forall f, In f (outputs false dir) -> loadable [] f) /\
    NoDup (flat_map ids_of (outputs false dir) ++ map folder_name (grids false dir)) /\
    scrape [] false false dir [] = Raised "IntegrityError".
Proof. exact grid_refuted. Qed.

(* ---- the best fit of a grid search, through both routes the library offers; likelihoods are order-preserving
   keys of binary64 values, so every statement holds for likelihoods of every sign, 0.0 and -inf included ---- *)

(* Fit.best_fit as written: whatever cell it returns is a linked cell of maximal likelihood *)
Theorem C11_grid_best : forall (db : list row) (gid : string) (b : row),
  best_child db gid = BestIs b ->
  In b (children db gid) /\
  exists w, r_maxll b = Some w /\
            forall c, In c (children db gid) -> exists u, r_maxll c = Some u /\ (u <= w)%Z.
Proof. exact best_child_is_max. Qed.

(* ... and it does return one when every cell holds a likelihood and one of them is above -inf (in particular a
   cell whose likelihood is exactly 0.0, key 0, is found whatever the sign of the others) *)
Theorem C11_grid_best_partial : forall (db : list row) (gid : string),
  (forall c, In c (children db gid) -> exists u, r_maxll c = Some u) ->
  (exists c u, In c (children db gid) /\ r_maxll c = Some u /\ (neg_inf_key < u)%Z) ->
  exists b, best_child db gid = BestIs b /\
    In b (children db gid) /\
    exists w, r_maxll b = Some w /\
              forall c, In c (children db gid) -> exists u, r_maxll c = Some u /\ (u <= w)%Z.
Proof. exact best_child_exists. Qed.

(* without the two guards the statement fails for the code as written: a cell without samples makes Fit.best_fit
   raise TypeError, cells that all hold -inf make it return None, although a cell of highest likelihood exists
   (known findings grid-best-fit-cell-without-likelihood / grid-best-fit-all-minus-inf) *)
Theorem C11_grid_best_refuted :
  (exists db gid, (exists b, highest_in (children db gid) b) /\ best_child db gid = BestRaised) /\
  (exists db gid, (exists b, highest_in (children db gid) b) /\ best_child db gid = BestNone).
Proof. exact best_child_total_refuted. Qed.

(* aggregator.grid_searches().best_fits(): exactly the cells of highest likelihood among those that hold one *)
Theorem C11_grid_best_fits_query : forall (db : list row) (gid : string) (b : row),
  In b (best_fits_query db gid) <-> highest_in (children db gid) b.
Proof. exact best_fits_query_spec. Qed.

Theorem C11_grid_best_fits_query_nonempty : forall (db : list row) (gid : string),
  (exists c u, In c (children db gid) /\ r_maxll c = Some u) ->
  exists b, In b (best_fits_query db gid).
Proof. exact best_fits_query_nonempty. Qed.

(* the two routes agree: the cell Fit.best_fit returns is one best_fits() lists *)
Theorem C11_grid_best_routes_agree : forall (db : list row) (gid : string) (b : row),
  best_child db gid = BestIs b -> In b (best_fits_query db gid).
Proof. exact best_routes_agree. Qed.

(* the repaired Fit.best_fit (proposed_fixes/C11-best-fit-cells-without-likelihood.diff): never raises on a grid
   search with cells; returns a cell of highest likelihood -- one best_fits() lists -- as soon as one cell holds a
   likelihood; and changes nothing where the code as written returns a cell *)
Theorem C11_grid_best_repaired : forall (db : list row) (gid : string),
  children db gid <> [] ->
  match best_child_repaired db gid with
  | BestIs b => highest_in (children db gid) b /\ In b (best_fits_query db gid)
  | BestNone => forall c, In c (children db gid) -> r_maxll c = None
  | BestRaised => False
  end.
Proof. exact best_child_repaired_spec. Qed.

Theorem C11_grid_best_repaired_conservative : forall (db : list row) (gid : string) (b : row),
  best_child db gid = BestIs b ->
  exists b', best_child_repaired db gid = BestIs b' /\ r_maxll b' = r_maxll b.
Proof. exact best_child_repaired_conservative. Qed.

(* ---- the directory route agrees with the session route ---- *)
Theorem C11_routes_agree : forall (classes : list search_class) (uf : bool) (specs : list fit_spec),
  (forall s, In s specs -> healthy s = true -> spec_ok classes s) ->
  NoDup (flat_map ids_of (map write_fit (filter healthy specs))) ->
  exists db,
    scrape classes uf false (map write_fit specs) [] = Loaded db /\
    NoDup (map r_id db) /\
    (forall s, In s specs -> healthy s = true ->
       exists r, In r db /\ r_id r = fs_id s /\ folder_name (write_fit s) = fs_id s /\
                 same_fit r (direct_row s) = true) /\
    (forall r, In r db -> r_name r <> None ->
       exists s, In s specs /\ healthy s = true /\ same_fit r (direct_row s) = true).
Proof. exact routes_agree. Qed.

(* ---- a fit whose pre-fit output (save_all) was interrupted at ANY point, with or without a truncated
   file, changes nothing: the directory loads exactly as if that fit were not there (metadata is
   written last, so the folder is no search output).  `healthy s` = s was not interrupted inside save_all *)
Theorem C11_prefit_interrupted_harmless :
  forall (classes : list search_class) (uf co : bool) (specs : list fit_spec) (db : list row),
  scrape classes uf co (map write_fit specs) db
  = scrape classes uf co (map write_fit (filter healthy specs)) db.
Proof. exact prefit_interrupted_harmless. Qed.

(* ---- archives: unzip_directory extracts every archive over the folder beside it, so for a fit whose complete
   archive is present the database holds the ARCHIVE's content, whatever (partial, stale, identical, absent)
   the folder beside it holds ---- *)
Theorem C11_archive_wins : forall (classes : list search_class) (uf co : bool) (ds : list on_disk),
  wf classes uf co (unzip_all ds) ->
  exists db, scrape classes uf co (unzip_all ds) [] = Loaded db /\
    forall d a, In d ds -> d_archive d = Some a -> f_metadata a = true -> included co a = true ->
      exists r, In r db /\ holds_content r a.
Proof. exact archive_wins. Qed.

Print Assumptions C11_archive_wins.
Print Assumptions C11_all_searches.
Print Assumptions C11_second_load.
Print Assumptions C11_lossless.
Print Assumptions C11_grid.
Print Assumptions C11_routes_agree.
Print Assumptions C11_prefit_interrupted_harmless.
Print Assumptions C11_grid_best_partial.
Print Assumptions C11_grid_best_fits_query.
Print Assumptions C11_grid_best_repaired.
