(* C11 property theorems: statements only, each closed by `exact`. *)
From Coq Require Import List String Bool ZArith.
From PAFC11 Require Import Lib Gen Model Proofs.
Import ListNotations.
Open Scope list_scope.

(* the stored best-fit sample is a sample of the fit with maximal likelihood *)
Theorem C11_best_sample_is_max : forall (l : list sample) (b : sample),
  best l = Some b -> In b l /\ forall s, In s l -> (s_ll s <= s_ll b)%Z.
Proof. exact best_is_max. Qed.

Print Assumptions C11_best_sample_is_max.
