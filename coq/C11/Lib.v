(* C11 basic definitions shared by the generated Gen.v and the hand-written Model.v:
   string-list helpers and the constructor signature record of one search class. *)
From Coq Require Import List String Bool.
Import ListNotations.
Open Scope string_scope.
Open Scope list_scope.

Fixpoint mem (x : string) (l : list string) : bool :=
  match l with
  | [] => false
  | y :: r => if String.eqb x y then true else mem x r
  end.

Lemma mem_In (x : string) (l : list string) : mem x l = true <-> In x l.
Proof.
  induction l as [|y r IH]; simpl.
  - split; [discriminate | tauto].
  - destruct (String.eqb x y) eqn:E.
    + apply String.eqb_eq in E. subst. split; auto.
    + rewrite IH. split; [auto | intros [H|H]; [subst; rewrite String.eqb_refl in E; discriminate | exact H]].
Qed.

Lemma mem_false_In (x : string) (l : list string) : mem x l = false <-> ~ In x l.
Proof.
  split.
  - intros H H'. apply mem_In in H'. rewrite H in H'. discriminate.
  - intro H. destruct (mem x l) eqn:E; [|reflexivity]. exfalso. apply H. apply mem_In. exact E.
Qed.

(* One `__init__` on the inheritance chain of a search class, as read from the source:
   named parameters, whether it accepts **kwargs, the keywords it passes explicitly to
   super().__init__(...), whether it forwards **kwargs there, and the keys it pops from
   kwargs before the call. *)
Record sig := {
  s_class : string;
  s_params : list string;
  s_varkw : bool;
  s_super_kw : list string;
  s_forwards : bool;
  s_pops : list string
}.

(* a concrete search class: its name, its identifier fields, its chain of __init__s
   (own or first inherited one first, NonLinearSearch last) *)
(* sc_base_args: the constructor parameters of the classes ABOVE NonLinearSearch (its bases), which
   autoconf's get_arguments also collects because NonLinearSearch.__init__ accepts **kwargs; they are
   never passed on by NonLinearSearch (its super().__init__() call has no arguments) *)
Record search_class := {
  sc_name : string;
  sc_fields : list string;
  sc_chain : list sig;
  sc_base_args : list string
}.
