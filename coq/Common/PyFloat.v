(* Python float / int conversions over primitive floats (bit-exact IEEE binary64). *)
From Coq Require Import ZArith Bool List.
From Coq Require Import Floats.PrimFloat Floats.FloatOps Floats.SpecFloat Numbers.Cyclic.Int63.Uint63.
Import ListNotations.

(* Python `float(n)` for |n| < 2^63 (exact below 2^53). *)
Definition Z2F (z : Z) : float :=
  if (z <? 0)%Z then PrimFloat.opp (PrimFloat.of_uint63 (Uint63.of_Z (- z)))
  else PrimFloat.of_uint63 (Uint63.of_Z z).

(* Python `int(x)` (truncation toward zero).  The real code raises on nan/inf;
   here those map to 0 and every theorem using it states finiteness. *)
Definition ftruncZ (x : float) : Z :=
  match Prim2SF x with
  | S754_finite s m e =>
      let a := match e with
               | Z0 => Zpos m
               | Zpos p => Z.shiftl (Zpos m) (Zpos p)
               | Zneg p => Z.shiftr (Zpos m) (Zpos p)
               end in
      if s then (- a)%Z else a
  | _ => 0%Z
  end.

Definition ffinite (x : float) : bool :=
  match Prim2SF x with
  | S754_finite _ _ _ | S754_zero _ => true
  | _ => false
  end.

(* Python `round(x)` (one argument): nearest integer, ties to even. *)
Definition froundZ (x : float) : Z :=
  match Prim2SF x with
  | S754_finite s m e =>
      let a :=
        match e with
        | Z0 => Zpos m
        | Zpos p => Z.shiftl (Zpos m) (Zpos p)
        | Zneg p =>
            let q := Z.shiftr (Zpos m) (Zpos p) in
            let r := (Zpos m - Z.shiftl q (Zpos p))%Z in
            let half := Z.shiftl 1 (Zpos p - 1) in
            if (r <? half)%Z then q
            else if (half <? r)%Z then (q + 1)%Z
            else if Z.even q then q else (q + 1)%Z
        end in
      if s then (- a)%Z else a
  | _ => 0%Z
  end.

(* Bit-pattern equality (nan = nan, +0 <> -0), used to compare with float.hex(). *)
Definition sf_eqb (a b : spec_float) : bool :=
  match a, b with
  | S754_zero s, S754_zero t => Bool.eqb s t
  | S754_infinity s, S754_infinity t => Bool.eqb s t
  | S754_nan, S754_nan => true
  | S754_finite s m e, S754_finite t n f => Bool.eqb s t && Pos.eqb m n && Z.eqb e f
  | _, _ => false
  end.

Definition fbits_eqb (a b : float) : bool := sf_eqb (Prim2SF a) (Prim2SF b).

Fixpoint flist_eqb (a b : list float) : bool :=
  match a, b with
  | [], [] => true
  | x :: a', y :: b' => fbits_eqb x y && flist_eqb a' b'
  | _, _ => false
  end.

Definition fle (a b : float) : bool := PrimFloat.leb a b.
Definition flt (a b : float) : bool := PrimFloat.ltb a b.
Definition fmax (a b : float) : float := if PrimFloat.ltb a b then b else a.   (* Python max(a,b): b if b > a else a *)
Definition fmin (a b : float) : float := if PrimFloat.ltb b a then b else a.   (* Python min(a,b): b if b < a else a *)
