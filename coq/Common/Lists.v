(* Generic list programs shared by the models, with their lemmas. *)
From Coq Require Import ZArith List Bool Lia.
Import ListNotations.

(* `[ [v] + sub for v in col for sub in sub_lists ]`, recursively: row-major product,
   first dimension slowest. *)
Fixpoint cart {A} (cols : list (list A)) : list (list A) :=
  match cols with
  | [] => [[]]
  | c :: rest => flat_map (fun v => map (cons v) (cart rest)) c
  end.

(* range(k) for a Python int k (empty when k <= 0) *)
Definition zrange (k : Z) : list Z := map Z.of_nat (seq 0 (Z.to_nat k)).

Fixpoint map2 {A B C} (f : A -> B -> C) (l : list A) (m : list B) : list C :=
  match l, m with
  | a :: l', b :: m' => f a b :: map2 f l' m'
  | _, _ => []
  end.


(* ---------- the lattice: counts and row-major order ---------- *)

Lemma flat_map_const_length {A B} (f : A -> list B) (c : nat) (l : list A) :
  (forall x, length (f x) = c) -> length (flat_map f l) = length l * c.
Proof.
  intro H. induction l as [|x l IH]; simpl; [reflexivity|].
  rewrite app_length, H, IH. reflexivity.
Qed.

Lemma cart_length {A} (cols : list (list A)) :
  length (cart cols) = fold_right Nat.mul 1 (map (@length A) cols).
Proof.
  induction cols as [|c rest IH]; simpl; [reflexivity|].
  rewrite (flat_map_const_length _ (length (cart rest))).
  - rewrite IH. reflexivity.
  - intro x. apply map_length.
Qed.

Lemma cart_row_length {A} (cols : list (list A)) (row : list A) :
  In row (cart cols) -> length row = length cols.
Proof.
  revert row. induction cols as [|c rest IH]; simpl; intros row H.
  - destruct H as [<-|[]]. reflexivity.
  - apply in_flat_map in H. destruct H as [v [_ H]]. apply in_map_iff in H.
    destruct H as [sub [<- Hs]]. simpl. f_equal. apply IH. exact Hs.
Qed.

Lemma nth_flat_map_const {A B} (f : A -> list B) (c : nat) (l : list A) (i j : nat) (da : A) (db : B) :
  (forall x, length (f x) = c) -> i < length l -> j < c ->
  nth (i * c + j) (flat_map f l) db = nth j (f (nth i l da)) db.
Proof.
  intros H. revert i. induction l as [|x l IH]; intros i Hi Hj; simpl in Hi; [lia|].
  destruct i as [|i]; simpl.
  - rewrite app_nth1; [reflexivity| rewrite H; exact Hj].
  - rewrite app_nth2; rewrite H; [|lia].
    replace (c + i * c + j - c) with (i * c + j) by lia. apply IH; lia.
Qed.

(* row-major: entry number i*|rest| + j is (i-th value of the first column) :: (j-th row of the rest) *)
Lemma cart_row_major {A} (c : list A) (rest : list (list A)) (i j : nat) (da : A) :
  i < length c -> j < length (cart rest) ->
  nth (i * length (cart rest) + j) (cart (c :: rest)) [] = nth i c da :: nth j (cart rest) [].
Proof.
  intros Hi Hj. simpl.
  rewrite (nth_flat_map_const _ (length (cart rest)) c i j da); auto.
  - change (@nil A) with (@nil A) at 1.
    rewrite (nth_indep _ [] (nth i c da :: [])) by (rewrite map_length; exact Hj).
    rewrite (map_nth (cons (nth i c da)) (cart rest) [] j). reflexivity.
  - intro x. apply map_length.
Qed.

Lemma zrange_length (k : Z) : length (zrange k) = Z.to_nat k.
Proof. unfold zrange. rewrite map_length, seq_length. reflexivity. Qed.

Lemma zrange_nth (k : Z) (i : nat) : i < Z.to_nat k -> nth i (zrange k) 0%Z = Z.of_nat i.
Proof.
  intro H. unfold zrange.
  rewrite (nth_indep _ 0%Z (Z.of_nat 0)) by (rewrite map_length, seq_length; exact H).
  rewrite map_nth, seq_nth; auto.
Qed.


Lemma fold_mul_repeat (m d : nat) : fold_right Nat.mul 1 (repeat m d) = m ^ d.
Proof. induction d; simpl; [reflexivity|]. rewrite IHd. reflexivity. Qed.

Lemma map_repeat {A B} (f : A -> B) (x : A) (d : nat) : map f (repeat x d) = repeat (f x) d.
Proof. induction d; simpl; [reflexivity|]. rewrite IHd. reflexivity. Qed.


Lemma nth_map_in {A B} (f : A -> B) (l : list A) (k : nat) (d : A) (d' : B) :
  k < length l -> nth k (map f l) d' = f (nth k l d).
Proof.
  intro H. rewrite (nth_indep _ d' (f d)) by (rewrite map_length; exact H). apply map_nth.
Qed.

Lemma nth_map_seq {B} (f : nat -> B) (n k : nat) (d' : B) : k < n -> nth k (map f (seq 0 n)) d' = f k.
Proof.
  intro H. rewrite (nth_map_in f _ k 0) by (rewrite seq_length; exact H).
  rewrite seq_nth by exact H. reflexivity.
Qed.

(* bounded universal quantification over the integer range [lo, lo + 2^k), by binary
   splitting: no large unary number ever appears in a statement or proof term *)
Fixpoint pow2_forall (f : Z -> bool) (k : nat) (lo : Z) : bool :=
  match k with
  | O => f lo
  | S k' => if pow2_forall f k' lo then pow2_forall f k' (lo + 2 ^ Z.of_nat k')%Z else false
  end.

Lemma pow2_forall_spec (f : Z -> bool) (k : nat) : forall lo,
  pow2_forall f k lo = true -> forall z, (lo <= z < lo + 2 ^ Z.of_nat k)%Z -> f z = true.
Proof.
  induction k as [|k IH]; intros lo H z Hz.
  - cbn [pow2_forall] in H. change (2 ^ Z.of_nat 0)%Z with 1%Z in Hz. replace z with lo by lia. exact H.
  - cbn [pow2_forall] in H. destruct (pow2_forall f k lo) eqn:H0; [|discriminate].
    rewrite Nat2Z.inj_succ, Z.pow_succ_r in Hz by lia.
    destruct (Z_lt_le_dec z (lo + 2 ^ Z.of_nat k)) as [L|L].
    + apply (IH lo H0). lia.
    + apply (IH (lo + 2 ^ Z.of_nat k)%Z H). lia.
Qed.
