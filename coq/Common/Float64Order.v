(* Order facts about IEEE binary64 comparisons, proved for ALL primitive floats from the
   specification axioms of Coq.Floats.FloatAxioms (eqb_spec, ltb_spec, leb_spec, opp_spec, abs_spec:
   "the kernel's primitive comparison is SFeqb/SFltb/SFleb on Prim2SF").

   On non-NaN floats (infinities included) PrimFloat.leb is a total preorder whose equivalence is
   PrimFloat.eqb (Python's `<=` and `==`; -0.0 == 0.0, so eqb is coarser than Leibniz equality).
   Nothing here needs the validity of Prim2SF (Prim2SF_valid): SFcompare is a lexicographic order
   on (class/sign, exponent, mantissa) whatever the mantissa is.

   Method: `rank` embeds the non-NaN spec_floats into Z*Z*Z ordered lexicographically by `lex`;
   SFcompare_rank shows SFcompare x y = Some (lex (rank x) (rank y)); the rest is Z arithmetic. *)
From Coq Require Import ZArith Bool Lia.
From Coq Require Import Floats.PrimFloat Floats.SpecFloat Floats.FloatOps Floats.FloatAxioms.

Local Open Scope Z_scope.

Definition sf_nan (x : spec_float) : bool := match x with S754_nan => true | _ => false end.

Definition rank (x : spec_float) : Z * Z * Z :=
  match x with
  | S754_nan => (0, 0, 0)
  | S754_zero _ => (0, 0, 0)
  | S754_infinity false => (2, 0, 0)
  | S754_infinity true => (-2, 0, 0)
  | S754_finite false m e => (1, e, Zpos m)
  | S754_finite true m e => (-1, - e, Zneg m)
  end.

Definition lex (a b : Z * Z * Z) : comparison :=
  match a, b with
  | (a1, a2, a3), (b1, b2, b3) =>
      match a1 ?= b1 with
      | Eq => match a2 ?= b2 with Eq => a3 ?= b3 | c => c end
      | c => c
      end
  end.

Lemma SFcompare_rank x y :
  sf_nan x = false -> sf_nan y = false -> SFcompare x y = Some (lex (rank x) (rank y)).
Proof.
  destruct x as [sx|sx| |sx mx ex], y as [sy|sy| |sy my ey]; simpl; intros Hx Hy; try discriminate;
    try (destruct sx); try (destruct sy); try reflexivity.
  (* both positive closes by computation; both negative: *)
  unfold lex. simpl (-1 ?= -1). cbv iota. rewrite Z.compare_opp.
  rewrite (Z.compare_antisym ex ey). destruct (ex ?= ey); reflexivity.
Qed.

(* ---------- the lexicographic order on Z*Z*Z ---------- *)
Lemma lex_refl a : lex a a = Eq.
Proof. destruct a as [[a1 a2] a3]. unfold lex. rewrite !Z.compare_refl. reflexivity. Qed.

Lemma lex_eq a b : lex a b = Eq -> a = b.
Proof.
  destruct a as [[a1 a2] a3], b as [[b1 b2] b3]. unfold lex.
  destruct (Z.compare_spec a1 b1); try discriminate.
  destruct (Z.compare_spec a2 b2); try discriminate.
  destruct (Z.compare_spec a3 b3); try discriminate. intros _. subst. reflexivity.
Qed.

Lemma lex_antisym a b : lex b a = CompOpp (lex a b).
Proof.
  destruct a as [[a1 a2] a3], b as [[b1 b2] b3]. unfold lex.
  rewrite (Z.compare_antisym a1 b1), (Z.compare_antisym a2 b2), (Z.compare_antisym a3 b3).
  destruct (a1 ?= b1); simpl; try reflexivity. destruct (a2 ?= b2); simpl; reflexivity.
Qed.

Definition lexle (a b : Z * Z * Z) : Prop :=
  match a, b with
  | (a1, a2, a3), (b1, b2, b3) => a1 < b1 \/ (a1 = b1 /\ (a2 < b2 \/ (a2 = b2 /\ a3 <= b3)))
  end.

Lemma lex_le_iff a b : lex a b <> Gt <-> lexle a b.
Proof.
  destruct a as [[a1 a2] a3], b as [[b1 b2] b3]. unfold lex, lexle.
  destruct (Z.compare_spec a1 b1); [|split; [lia | discriminate]|split; [congruence | lia]].
  destruct (Z.compare_spec a2 b2); [|split; [lia | discriminate]|split; [congruence | lia]].
  destruct (Z.compare_spec a3 b3); split; try lia; try discriminate; congruence.
Qed.

Lemma lexle_trans a b c : lexle a b -> lexle b c -> lexle a c.
Proof. destruct a as [[a1 a2] a3], b as [[b1 b2] b3], c as [[c1 c2] c3]. unfold lexle. lia. Qed.

Lemma lexle_total a b : lexle a b \/ lexle b a.
Proof. destruct a as [[a1 a2] a3], b as [[b1 b2] b3]. unfold lexle. lia. Qed.

Lemma lexle_antisym a b : lexle a b -> lexle b a -> a = b.
Proof.
  destruct a as [[a1 a2] a3], b as [[b1 b2] b3]. unfold lexle. intros H1 H2.
  assert (a1 = b1 /\ a2 = b2 /\ a3 = b3) as [-> [-> ->]] by lia. reflexivity.
Qed.

(* ---------- spec_float level ---------- *)
Lemma SFeqb_rank x y : sf_nan x = false -> sf_nan y = false -> (SFeqb x y = true <-> rank x = rank y).
Proof.
  intros Hx Hy. unfold SFeqb. rewrite (SFcompare_rank x y Hx Hy). split.
  - destruct (lex (rank x) (rank y)) eqn:E; try discriminate. intros _. apply lex_eq. exact E.
  - intros ->. rewrite lex_refl. reflexivity.
Qed.

Lemma SFleb_rank x y : sf_nan x = false -> sf_nan y = false -> (SFleb x y = true <-> lexle (rank x) (rank y)).
Proof.
  intros Hx Hy. unfold SFleb. rewrite (SFcompare_rank x y Hx Hy), <- lex_le_iff.
  destruct (lex (rank x) (rank y)); split; intro H; try reflexivity; try discriminate; congruence.
Qed.

Lemma SFltb_rank x y : sf_nan x = false -> sf_nan y = false -> (SFltb x y = true <-> ~ lexle (rank y) (rank x)).
Proof.
  intros Hx Hy. unfold SFltb. rewrite (SFcompare_rank x y Hx Hy), <- lex_le_iff, (lex_antisym (rank x) (rank y)).
  destruct (lex (rank x) (rank y)); simpl; split; intro H; try reflexivity; try discriminate; try congruence.
  - exfalso. apply H. discriminate.
  - exfalso. apply H. discriminate.
Qed.

Lemma SFeqb_nan_l y : SFeqb S754_nan y = false.  Proof. reflexivity. Qed.
Lemma SFeqb_nan_r x : SFeqb x S754_nan = false.  Proof. destruct x; reflexivity. Qed.
Lemma SFleb_nan_l y : SFleb S754_nan y = false.  Proof. reflexivity. Qed.
Lemma SFleb_nan_r x : SFleb x S754_nan = false.  Proof. destruct x; reflexivity. Qed.
Lemma SFltb_nan_l y : SFltb S754_nan y = false.  Proof. reflexivity. Qed.
Lemma SFltb_nan_r x : SFltb x S754_nan = false.  Proof. destruct x; reflexivity. Qed.

Lemma sf_nan_cases x : sf_nan x = false \/ x = S754_nan.
Proof. destruct x; simpl; auto. Qed.

(* ---------- primitive floats ---------- *)
Local Open Scope float_scope.

(* "x is not a NaN", the only side condition of the order laws *)
Definition f64_ok (x : float) : bool := negb (is_nan x).

Lemma is_nan_spec x : is_nan x = sf_nan (Prim2SF x).
Proof.
  unfold is_nan. rewrite eqb_spec. destruct (sf_nan_cases (Prim2SF x)) as [H|H].
  - rewrite H. apply negb_false_iff. apply (SFeqb_rank _ _ H H). reflexivity.
  - rewrite H. reflexivity.
Qed.

Lemma f64_ok_spec x : f64_ok x = true <-> sf_nan (Prim2SF x) = false.
Proof. unfold f64_ok. rewrite is_nan_spec. apply negb_true_iff. Qed.

Lemma f64_ok_is_nan x : f64_ok x = true <-> is_nan x = false.
Proof. unfold f64_ok. apply negb_true_iff. Qed.

(* a successful comparison says that neither side is a NaN *)
Lemma eqb_true_ok a b : (a =? b) = true -> is_nan a = false /\ is_nan b = false.
Proof.
  rewrite eqb_spec, !is_nan_spec. intro H.
  destruct (sf_nan_cases (Prim2SF a)) as [Ha|Ha]; [|rewrite Ha, SFeqb_nan_l in H; discriminate].
  destruct (sf_nan_cases (Prim2SF b)) as [Hb|Hb]; [|rewrite Hb, SFeqb_nan_r in H; discriminate].
  auto.
Qed.

Lemma leb_true_ok a b : (a <=? b) = true -> is_nan a = false /\ is_nan b = false.
Proof.
  rewrite leb_spec, !is_nan_spec. intro H.
  destruct (sf_nan_cases (Prim2SF a)) as [Ha|Ha]; [|rewrite Ha, SFleb_nan_l in H; discriminate].
  destruct (sf_nan_cases (Prim2SF b)) as [Hb|Hb]; [|rewrite Hb, SFleb_nan_r in H; discriminate].
  auto.
Qed.

Lemma ltb_true_ok a b : (a <? b) = true -> is_nan a = false /\ is_nan b = false.
Proof.
  rewrite ltb_spec, !is_nan_spec. intro H.
  destruct (sf_nan_cases (Prim2SF a)) as [Ha|Ha]; [|rewrite Ha, SFltb_nan_l in H; discriminate].
  destruct (sf_nan_cases (Prim2SF b)) as [Hb|Hb]; [|rewrite Hb, SFltb_nan_r in H; discriminate].
  auto.
Qed.

(* the rank of a float *)
Definition frank (x : float) : Z * Z * Z := rank (Prim2SF x).

Lemma eqb_frank a b : is_nan a = false -> is_nan b = false -> ((a =? b) = true <-> frank a = frank b).
Proof. rewrite !is_nan_spec, eqb_spec. apply SFeqb_rank. Qed.

Lemma leb_frank a b : is_nan a = false -> is_nan b = false -> ((a <=? b) = true <-> lexle (frank a) (frank b)).
Proof. rewrite !is_nan_spec, leb_spec. apply SFleb_rank. Qed.

Lemma ltb_frank a b : is_nan a = false -> is_nan b = false -> ((a <? b) = true <-> ~ lexle (frank b) (frank a)).
Proof. rewrite !is_nan_spec, ltb_spec. apply SFltb_rank. Qed.

(* == is an equivalence on non-NaN floats (and never holds of a NaN) *)
Theorem f64_eqb_refl a : is_nan a = false -> (a =? a) = true.
Proof. intro H. apply (eqb_frank a a H H). reflexivity. Qed.

Theorem f64_eqb_sym a b : (a =? b) = true -> (b =? a) = true.
Proof.
  intro H. destruct (eqb_true_ok _ _ H) as [Ha Hb].
  apply (eqb_frank b a Hb Ha). symmetry. apply (eqb_frank a b Ha Hb). exact H.
Qed.

Theorem f64_eqb_trans a b c : (a =? b) = true -> (b =? c) = true -> (a =? c) = true.
Proof.
  intros H1 H2. destruct (eqb_true_ok _ _ H1) as [Ha Hb]. destruct (eqb_true_ok _ _ H2) as [_ Hc].
  apply (eqb_frank a c Ha Hc). transitivity (frank b); [apply (eqb_frank a b Ha Hb) | apply (eqb_frank b c Hb Hc)]; assumption.
Qed.

(* <= is total on non-NaN floats, transitive, antisymmetric up to == *)
Theorem f64_leb_total a b : is_nan a = false -> is_nan b = false -> (a <=? b) = true \/ (b <=? a) = true.
Proof.
  intros Ha Hb. destruct (lexle_total (frank a) (frank b)) as [H|H];
    [left; apply (leb_frank a b Ha Hb) | right; apply (leb_frank b a Hb Ha)]; exact H.
Qed.

Theorem f64_leb_refl a : is_nan a = false -> (a <=? a) = true.
Proof. intro H. destruct (f64_leb_total a a H H); assumption. Qed.

Theorem f64_leb_trans a b c : (a <=? b) = true -> (b <=? c) = true -> (a <=? c) = true.
Proof.
  intros H1 H2. destruct (leb_true_ok _ _ H1) as [Ha Hb]. destruct (leb_true_ok _ _ H2) as [_ Hc].
  apply (leb_frank a c Ha Hc). apply (lexle_trans _ (frank b)); [apply (leb_frank a b Ha Hb) | apply (leb_frank b c Hb Hc)]; assumption.
Qed.

Theorem f64_leb_antisym a b : (a <=? b) = true -> (b <=? a) = true -> (a =? b) = true.
Proof.
  intros H1 H2. destruct (leb_true_ok _ _ H1) as [Ha Hb].
  apply (eqb_frank a b Ha Hb). apply lexle_antisym; [apply (leb_frank a b Ha Hb) | apply (leb_frank b a Hb Ha)]; assumption.
Qed.

(* == is a congruence for <=, and the three comparisons are related as for a total order *)
Theorem f64_eqb_leb a b : (a =? b) = true -> (a <=? b) = true.
Proof.
  intro H. destruct (eqb_true_ok _ _ H) as [Ha Hb]. apply (leb_frank a b Ha Hb).
  apply (eqb_frank a b Ha Hb) in H. rewrite H. destruct (lexle_total (frank b) (frank b)); assumption.
Qed.

Theorem f64_leb_eqb_l a b c : (a =? b) = true -> (a <=? c) = (b <=? c).
Proof.
  intro H. pose proof (f64_eqb_leb _ _ H) as Hab. pose proof (f64_eqb_leb _ _ (f64_eqb_sym _ _ H)) as Hba.
  destruct (b <=? c) eqn:E.
  - apply (f64_leb_trans a b c Hab E).
  - destruct (a <=? c) eqn:E'; [|reflexivity]. rewrite (f64_leb_trans b a c Hba E') in E. discriminate.
Qed.

Theorem f64_leb_eqb_r a b c : (a =? b) = true -> (c <=? a) = (c <=? b).
Proof.
  intro H. pose proof (f64_eqb_leb _ _ H) as Hab. pose proof (f64_eqb_leb _ _ (f64_eqb_sym _ _ H)) as Hba.
  destruct (c <=? b) eqn:E.
  - apply (f64_leb_trans c b a E Hba).
  - destruct (c <=? a) eqn:E'; [|reflexivity]. rewrite (f64_leb_trans c a b E' Hab) in E. discriminate.
Qed.

Theorem f64_ltb_negb_leb a b : is_nan a = false -> is_nan b = false -> (a <? b) = negb (b <=? a).
Proof.
  intros Ha Hb. destruct (b <=? a) eqn:E; simpl.
  - destruct (a <? b) eqn:L; [|reflexivity]. exfalso.
    apply (ltb_frank a b Ha Hb) in L. apply L. apply (leb_frank b a Hb Ha). exact E.
  - apply (ltb_frank a b Ha Hb). intro H. apply (leb_frank b a Hb Ha) in H. rewrite H in E. discriminate.
Qed.

Theorem f64_ltb_leb a b : (a <? b) = true -> (a <=? b) = true.
Proof.
  intro H. destruct (ltb_true_ok _ _ H) as [Ha Hb]. rewrite (f64_ltb_negb_leb a b Ha Hb) in H.
  destruct (f64_leb_total a b Ha Hb) as [X|X]; [exact X|]. rewrite X in H. discriminate.
Qed.

Theorem f64_leb_ltb_eqb a b : (a <=? b) = ((a <? b) || (a =? b)).
Proof.
  destruct (a <=? b) eqn:E.
  - destruct (leb_true_ok _ _ E) as [Ha Hb]. rewrite (f64_ltb_negb_leb a b Ha Hb).
    destruct (b <=? a) eqn:E'; simpl; [|reflexivity]. symmetry. apply (f64_leb_antisym a b E E').
  - destruct (a <? b) eqn:L; [rewrite (f64_ltb_leb _ _ L) in E; discriminate|].
    destruct (a =? b) eqn:Q; [rewrite (f64_eqb_leb _ _ Q) in E; discriminate|]. reflexivity.
Qed.

Theorem f64_ltb_trans a b c : (a <? b) = true -> (b <? c) = true -> (a <? c) = true.
Proof.
  intros H1 H2. destruct (ltb_true_ok _ _ H1) as [Ha Hb]. destruct (ltb_true_ok _ _ H2) as [_ Hc].
  rewrite (f64_ltb_negb_leb a c Ha Hc). apply negb_true_iff. destruct (c <=? a) eqn:E; [|reflexivity].
  rewrite (f64_ltb_negb_leb b c Hb Hc) in H2. rewrite (f64_leb_trans c a b E (f64_ltb_leb _ _ H1)) in H2. discriminate.
Qed.

Theorem f64_ltb_irrefl a : (a <? a) = false.
Proof.
  destruct (a <? a) eqn:E; [|reflexivity]. destruct (ltb_true_ok _ _ E) as [Ha _].
  rewrite (f64_ltb_negb_leb a a Ha Ha), (f64_leb_refl a Ha) in E. discriminate.
Qed.

(* -0.0 == 0.0 although they are different floats *)
Theorem f64_zero_eqb_neg_zero : (neg_zero =? zero) = true /\ (zero =? neg_zero) = true /\ neg_zero <> zero.
Proof.
  repeat split; try reflexivity. intro H.
  assert (X : Prim2SF neg_zero = Prim2SF zero) by (rewrite H; reflexivity). vm_compute in X. discriminate.
Qed.

(* infinities are the extreme elements *)
Theorem f64_leb_infinity a : is_nan a = false -> (a <=? infinity) = true.
Proof.
  intro Ha. apply (leb_frank a infinity Ha eq_refl). unfold frank.
  rewrite is_nan_spec in Ha. change (Prim2SF infinity) with (S754_infinity false).
  destruct (Prim2SF a) as [s|[|]| |[|] m e]; simpl in *; try discriminate; lia.
Qed.

Theorem f64_neg_infinity_leb a : is_nan a = false -> (neg_infinity <=? a) = true.
Proof.
  intro Ha. apply (leb_frank neg_infinity a eq_refl Ha). unfold frank.
  rewrite is_nan_spec in Ha. change (Prim2SF neg_infinity) with (S754_infinity true).
  destruct (Prim2SF a) as [s|[|]| |[|] m e]; simpl in *; try discriminate; lia.
Qed.

(* a NaN compares false with everything, itself included *)
Theorem f64_nan_compare a b : is_nan a = true -> (a =? b) = false /\ (b =? a) = false /\ (a <=? b) = false /\ (b <=? a) = false
                                                /\ (a <? b) = false /\ (b <? a) = false.
Proof.
  intro H. repeat split.
  - destruct (a =? b) eqn:E; [|reflexivity]. destruct (eqb_true_ok _ _ E) as [X _]. congruence.
  - destruct (b =? a) eqn:E; [|reflexivity]. destruct (eqb_true_ok _ _ E) as [_ X]. congruence.
  - destruct (a <=? b) eqn:E; [|reflexivity]. destruct (leb_true_ok _ _ E) as [X _]. congruence.
  - destruct (b <=? a) eqn:E; [|reflexivity]. destruct (leb_true_ok _ _ E) as [_ X]. congruence.
  - destruct (a <? b) eqn:E; [|reflexivity]. destruct (ltb_true_ok _ _ E) as [X _]. congruence.
  - destruct (b <? a) eqn:E; [|reflexivity]. destruct (ltb_true_ok _ _ E) as [_ X]. congruence.
Qed.

(* ---------- negation and absolute value ---------- *)
Lemma rank_opp x : sf_nan x = false -> rank (SFopp x) = (let '(a, b, c) := rank x in (- a, - b, - c))%Z.
Proof. destruct x as [s|[|]| |[|] m e]; simpl; intros H; try discriminate; try reflexivity. rewrite Z.opp_involutive. reflexivity. Qed.

Lemma sf_nan_opp x : sf_nan (SFopp x) = sf_nan x.
Proof. destruct x; reflexivity. Qed.

Theorem f64_is_nan_opp a : is_nan (- a) = is_nan a.
Proof. rewrite !is_nan_spec, opp_spec. apply sf_nan_opp. Qed.

Theorem f64_leb_opp a b : (- a <=? - b) = (b <=? a).
Proof.
  destruct (is_nan a) eqn:Ha.
  - assert (Ha' : is_nan (- a) = true) by (rewrite f64_is_nan_opp; exact Ha).
    destruct (f64_nan_compare (- a) (- b) Ha') as [_ [_ [-> _]]]. destruct (f64_nan_compare a b Ha) as [_ [_ [_ [-> _]]]]. reflexivity.
  - destruct (is_nan b) eqn:Hb.
    + assert (Hb' : is_nan (- b) = true) by (rewrite f64_is_nan_opp; exact Hb).
      destruct (f64_nan_compare (- b) (- a) Hb') as [_ [_ [_ [-> _]]]]. destruct (f64_nan_compare b a Hb) as [_ [_ [-> _]]]. reflexivity.
    + assert (Ha' : is_nan (- a) = false) by (rewrite f64_is_nan_opp; exact Ha).
      assert (Hb' : is_nan (- b) = false) by (rewrite f64_is_nan_opp; exact Hb).
      apply eq_true_iff_eq. rewrite (leb_frank _ _ Ha' Hb'), (leb_frank _ _ Hb Ha). unfold frank. rewrite !opp_spec.
      rewrite is_nan_spec in Ha, Hb. rewrite (rank_opp _ Ha), (rank_opp _ Hb).
      destruct (rank (Prim2SF a)) as [[a1 a2] a3], (rank (Prim2SF b)) as [[b1 b2] b3]. unfold lexle. lia.
Qed.

Theorem f64_eqb_opp a b : (- a =? - b) = (a =? b).
Proof.
  destruct (is_nan a) eqn:Ha.
  - assert (Ha' : is_nan (- a) = true) by (rewrite f64_is_nan_opp; exact Ha).
    destruct (f64_nan_compare (- a) (- b) Ha') as [-> _]. destruct (f64_nan_compare a b Ha) as [-> _]. reflexivity.
  - destruct (is_nan b) eqn:Hb.
    + assert (Hb' : is_nan (- b) = true) by (rewrite f64_is_nan_opp; exact Hb).
      destruct (f64_nan_compare (- b) (- a) Hb') as [_ [-> _]]. destruct (f64_nan_compare b a Hb) as [_ [-> _]]. reflexivity.
    + assert (Ha' : is_nan (- a) = false) by (rewrite f64_is_nan_opp; exact Ha).
      assert (Hb' : is_nan (- b) = false) by (rewrite f64_is_nan_opp; exact Hb).
      apply eq_true_iff_eq. rewrite (eqb_frank _ _ Ha' Hb'), (eqb_frank _ _ Ha Hb). unfold frank. rewrite !opp_spec.
      rewrite is_nan_spec in Ha, Hb. rewrite (rank_opp _ Ha), (rank_opp _ Hb).
      destruct (rank (Prim2SF a)) as [[a1 a2] a3], (rank (Prim2SF b)) as [[b1 b2] b3].
      split; intro H; inversion H; f_equal; try f_equal; lia.
Qed.

Theorem f64_ltb_opp a b : (- a <? - b) = (b <? a).
Proof.
  destruct (is_nan a) eqn:Ha.
  - assert (Ha' : is_nan (- a) = true) by (rewrite f64_is_nan_opp; exact Ha).
    destruct (f64_nan_compare (- a) (- b) Ha') as [_ [_ [_ [_ [-> _]]]]]. destruct (f64_nan_compare a b Ha) as [_ [_ [_ [_ [_ ->]]]]]. reflexivity.
  - destruct (is_nan b) eqn:Hb.
    + assert (Hb' : is_nan (- b) = true) by (rewrite f64_is_nan_opp; exact Hb).
      destruct (f64_nan_compare (- b) (- a) Hb') as [_ [_ [_ [_ [_ ->]]]]]. destruct (f64_nan_compare b a Hb) as [_ [_ [_ [_ [-> _]]]]]. reflexivity.
    + assert (Ha' : is_nan (- a) = false) by (rewrite f64_is_nan_opp; exact Ha).
      assert (Hb' : is_nan (- b) = false) by (rewrite f64_is_nan_opp; exact Hb).
      rewrite (f64_ltb_negb_leb _ _ Ha' Hb'), (f64_ltb_negb_leb _ _ Hb Ha), f64_leb_opp. reflexivity.
Qed.

Lemma sf_nan_abs x : sf_nan (SFabs x) = sf_nan x.
Proof. destruct x; reflexivity. Qed.

Theorem f64_is_nan_abs a : is_nan (abs a) = is_nan a.
Proof. rewrite !is_nan_spec, abs_spec. apply sf_nan_abs. Qed.

(* |a| is non-negative, is a or -a, and dominates both *)
Theorem f64_abs_nonneg a : is_nan a = false -> (zero <=? abs a) = true.
Proof.
  intro Ha. assert (Ha' : is_nan (abs a) = false) by (rewrite f64_is_nan_abs; exact Ha).
  apply (leb_frank zero (abs a) eq_refl Ha'). unfold frank. rewrite abs_spec. rewrite is_nan_spec in Ha.
  change (Prim2SF zero) with (S754_zero false).
  destruct (Prim2SF a) as [s|[|]| |[|] m e]; simpl in *; try discriminate; lia.
Qed.

Theorem f64_abs_cases a : is_nan a = false -> (abs a =? a) = true \/ (abs a =? - a) = true.
Proof.
  intro Ha. assert (Ha' : is_nan (abs a) = false) by (rewrite f64_is_nan_abs; exact Ha).
  assert (Ho : is_nan (- a) = false) by (rewrite f64_is_nan_opp; exact Ha).
  rewrite (eqb_frank _ _ Ha' Ha), (eqb_frank _ _ Ha' Ho). unfold frank. rewrite abs_spec, opp_spec.
  rewrite is_nan_spec in Ha.
  destruct (Prim2SF a) as [s|[|]| |[|] m e]; simpl in *; try discriminate; auto.
Qed.

Theorem f64_leb_abs a : is_nan a = false -> (a <=? abs a) = true /\ (- a <=? abs a) = true.
Proof.
  intro Ha. assert (Ha' : is_nan (abs a) = false) by (rewrite f64_is_nan_abs; exact Ha).
  assert (Ho : is_nan (- a) = false) by (rewrite f64_is_nan_opp; exact Ha).
  rewrite (leb_frank _ _ Ha Ha'), (leb_frank _ _ Ho Ha'). unfold frank. rewrite abs_spec, opp_spec.
  rewrite is_nan_spec in Ha.
  destruct (Prim2SF a) as [s|[|]| |[|] m e]; simpl in *; try discriminate; lia.
Qed.

(* ---------- sign of a product (FloatAxioms.mul_spec): no rounding analysis is needed, binary_round_aux keeps the sign ---------- *)
(* "not negative": NaN, a zero of either sign, or a positive finite / infinite value *)
Definition sf_nonneg (x : spec_float) : bool :=
  match x with
  | S754_nan => true
  | S754_zero _ => true
  | S754_infinity s => negb s
  | S754_finite s _ _ => negb s
  end.

Lemma binary_round_aux_sign prec emax s m e l :
  match binary_round_aux prec emax s m e l with
  | S754_nan => True
  | S754_zero s' | S754_infinity s' | S754_finite s' _ _ => s' = s
  end.
Proof.
  unfold binary_round_aux.
  destruct (shr_fexp prec emax m e l) as [mrs' e'].
  destruct (shr_fexp prec emax _ e' loc_Exact) as [mrs'' e''].
  destruct (shr_m mrs''); [reflexivity| |exact I].
  destruct (e'' <=? emax - prec)%Z; reflexivity.
Qed.

Lemma SFmul_nonneg prec emax x y : sf_nonneg x = true -> sf_nonneg y = true -> sf_nonneg (SFmul prec emax x y) = true.
Proof.
  destruct x as [sx|sx| |sx mx ex], y as [sy|sy| |sy my ey]; simpl; intros Hx Hy; try reflexivity;
    try (apply negb_true_iff in Hx; subst sx); try (apply negb_true_iff in Hy; subst sy); try reflexivity.
  pose proof (binary_round_aux_sign prec emax (xorb false false) (Z.pos (mx * my)) (ex + ey) loc_Exact) as H.
  simpl xorb in *. destruct (binary_round_aux _ _ _ _ _ _); simpl; try reflexivity; subst; reflexivity.
Qed.

Lemma SFabs_nonneg x : sf_nonneg (SFabs x) = true.
Proof. destruct x; reflexivity. Qed.

Lemma SFleb_zero_nonneg x : SFleb (S754_zero false) x = true -> sf_nonneg x = true.
Proof. destruct x as [s|[|]| |[|] m e]; simpl; intro H; try reflexivity; discriminate. Qed.

Lemma SFltb_nonneg_zero x : sf_nonneg x = true -> SFltb x (S754_zero false) = false.
Proof. destruct x as [s|[|]| |[|] m e]; simpl; intro H; try reflexivity; discriminate. Qed.


(* the product of two non-negative floats (NaN allowed on either side) is never below zero *)
Theorem f64_mul_nonneg a b :
  sf_nonneg (Prim2SF a) = true -> sf_nonneg (Prim2SF b) = true -> (a * b <? 0) = false.
Proof.
  intros Ha Hb. rewrite ltb_spec, mul_spec. change (Prim2SF 0) with (S754_zero false).
  apply SFltb_nonneg_zero. apply SFmul_nonneg; assumption.
Qed.

Theorem f64_leb_zero_nonneg a : (0 <=? a) = true -> sf_nonneg (Prim2SF a) = true.
Proof. rewrite leb_spec. change (Prim2SF 0) with (S754_zero false). apply SFleb_zero_nonneg. Qed.

(* r * |m| with r >= 0 is never negative, whatever m is (any sign, zero, infinite, NaN) *)
Theorem f64_mul_abs_not_negative r m : (0 <=? r) = true -> (r * abs m <? 0) = false.
Proof.
  intro H. apply f64_mul_nonneg; [apply f64_leb_zero_nonneg; exact H|]. rewrite abs_spec. apply SFabs_nonneg.
Qed.
