(* Exact-arithmetic counterparts of Python numeric built-ins over Q and Z. *)
From Coq Require Import ZArith QArith Qround Lia List.
Import ListNotations.

(* Python int(x) on an exact number: truncation toward zero. *)
Definition Qtrunc (x : Q) : Z :=
  if Qle_bool 0 x then Qfloor x else Qceiling x.

Lemma Qtrunc_inject_Z (z : Z) : Qtrunc (inject_Z z) = z.
Proof.
  unfold Qtrunc. destruct (Qle_bool 0 (inject_Z z)).
  - apply Qfloor_Z.
  - apply Qceiling_Z.
Qed.

Lemma Qtrunc_comp (x y : Q) : x == y -> Qtrunc x = Qtrunc y.
Proof.
  intro H. unfold Qtrunc.
  assert (Hb : Qle_bool 0 x = Qle_bool 0 y).
  { destruct (Qle_bool 0 x) eqn:E1, (Qle_bool 0 y) eqn:E2; auto.
    - apply Qle_bool_iff in E1. rewrite H in E1. apply Qle_bool_iff in E1. congruence.
    - apply Qle_bool_iff in E2. rewrite <- H in E2. apply Qle_bool_iff in E2. congruence. }
  rewrite Hb. destruct (Qle_bool 0 y).
  - apply Qfloor_comp; exact H.
  - apply Qceiling_comp; exact H.
Qed.

Definition Qmax (a b : Q) : Q := if Qlt_le_dec a b then b else a.
Definition Qmin (a b : Q) : Q := if Qlt_le_dec b a then b else a.

Definition Qlt_bool (a b : Q) : bool := negb (Qle_bool b a).

(* Python round(x) for an exact number: nearest integer, ties to even. *)
Definition Qround_half_even (x : Q) : Z :=
  let f := Qfloor x in
  let r := x - inject_Z f in
  if Qlt_bool r (1 # 2) then f
  else if Qlt_bool (1 # 2) r then (f + 1)%Z
  else if Z.even f then f else (f + 1)%Z.

From Coq Require Import Lqa.

Lemma inject_Z_nonzero (n : Z) : n <> 0%Z -> ~ inject_Z n == 0.
Proof. intros H E. apply H. unfold Qeq in E. simpl in E. lia. Qed.

Lemma Qlt_bool_iff (a b : Q) : Qlt_bool a b = true <-> a < b.
Proof.
  unfold Qlt_bool. rewrite negb_true_iff. split.
  - intro H. apply Qnot_le_lt. intro L. apply Qle_bool_iff in L. congruence.
  - intro H. destruct (Qle_bool b a) eqn:E; auto. apply Qle_bool_iff in E. lra.
Qed.

Lemma Qlt_bool_false_iff (a b : Q) : Qlt_bool a b = false <-> b <= a.
Proof.
  split.
  - intro H. destruct (Qlt_le_dec a b) as [L|L]; auto. apply Qlt_bool_iff in L. congruence.
  - intro H. destruct (Qlt_bool a b) eqn:E; auto. apply Qlt_bool_iff in E. lra.
Qed.

Lemma Qfloor_between (r : Q) (n : Z) : inject_Z n <= r -> r < inject_Z n + 1 -> Qfloor r = n.
Proof.
  intros H1 H2.
  pose proof (Qfloor_le r) as F1. pose proof (Qlt_floor r) as F2.
  rewrite inject_Z_plus in F2. change (inject_Z 1) with 1 in F2.
  assert (A : (Qfloor r < n + 1)%Z).
  { rewrite Zlt_Qlt. rewrite inject_Z_plus. change (inject_Z 1) with 1. lra. }
  assert (B : (n < Qfloor r + 1)%Z).
  { rewrite Zlt_Qlt. rewrite inject_Z_plus. change (inject_Z 1) with 1. lra. }
  lia.
Qed.

Lemma Qtrunc_between (r : Q) (n : Z) : (0 <= n)%Z -> inject_Z n <= r -> r < inject_Z n + 1 -> Qtrunc r = n.
Proof.
  intros Hn H1 H2. unfold Qtrunc.
  assert (P : 0 <= r).
  { assert (Z0 : inject_Z 0 <= inject_Z n) by (rewrite <- Zle_Qle; exact Hn). change (inject_Z 0) with 0 in Z0. lra. }
  apply Qle_bool_iff in P. rewrite P. apply Qfloor_between; assumption.
Qed.

(* rounding to nearest recovers n from anything within 1/2 of it *)
Lemma Qround_half_even_between (r : Q) (n : Z) :
  inject_Z n - (1 # 2) < r -> r < inject_Z n + (1 # 2) -> Qround_half_even r = n.
Proof.
  intros H1 H2. unfold Qround_half_even.
  destruct (Qlt_le_dec r (inject_Z n)) as [L|L].
  - assert (F : Qfloor r = (n - 1)%Z).
    { apply Qfloor_between; unfold Zminus; rewrite inject_Z_plus, inject_Z_opp; change (inject_Z 1) with 1; lra. }
    rewrite F. unfold Zminus. rewrite inject_Z_plus, inject_Z_opp. change (inject_Z 1) with 1.
    destruct (Qlt_bool (r - (inject_Z n + - (1))) (1 # 2)) eqn:E1.
    + apply Qlt_bool_iff in E1. lra.
    + destruct (Qlt_bool (1 # 2) (r - (inject_Z n + - (1)))) eqn:E2.
      * lia.
      * apply Qlt_bool_false_iff in E2. lra.
  - assert (F : Qfloor r = n) by (apply Qfloor_between; lra).
    rewrite F.
    destruct (Qlt_bool (r - inject_Z n) (1 # 2)) eqn:E1; auto.
    apply Qlt_bool_false_iff in E1. lra.
Qed.

Lemma Qround_half_even_comp (x y : Q) : x == y -> Qround_half_even x = Qround_half_even y.
Proof.
  intro H. unfold Qround_half_even.
  rewrite (Qfloor_comp x y H).
  set (f := Qfloor y).
  assert (E1 : Qlt_bool (x - inject_Z f) (1 # 2) = Qlt_bool (y - inject_Z f) (1 # 2)).
  { destruct (Qlt_bool (y - inject_Z f) (1 # 2)) eqn:E.
    - apply Qlt_bool_iff in E. apply Qlt_bool_iff. lra.
    - apply Qlt_bool_false_iff in E. apply Qlt_bool_false_iff. lra. }
  assert (E2 : Qlt_bool (1 # 2) (x - inject_Z f) = Qlt_bool (1 # 2) (y - inject_Z f)).
  { destruct (Qlt_bool (1 # 2) (y - inject_Z f)) eqn:E.
    - apply Qlt_bool_iff in E. apply Qlt_bool_iff. lra.
    - apply Qlt_bool_false_iff in E. apply Qlt_bool_false_iff. lra. }
  rewrite E1, E2. reflexivity.
Qed.

Lemma Qround_half_even_inject_Z (z : Z) : Qround_half_even (inject_Z z) = z.
Proof. apply Qround_half_even_between; lra. Qed.
