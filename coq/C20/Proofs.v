From Coq Require Import List.
From PAFC20 Require Import Gen Model.
Import ListNotations.
Lemma get_nil {V} (t : tree V) : get [] t = Some t.
Proof. reflexivity. Qed.
