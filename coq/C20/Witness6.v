(* C20, Machine.v: non-vacuity of the history theorem and refutation witnesses for unsound cache policies
   (the shapes of the seeded mutation `value map memoised by the first path` and of its neighbours). *)
From Coq Require Import List String Bool ZArith.
From PAFC20 Require Import Gen Model.
From PAFC20 Require Machine Proofs6.
Import ListNotations.
Open Scope list_scope.
Open Scope string_scope.

(* two attributes (t, u) can serve as interpolation variable *)
Definition g2 (t u c : Z) : tree Z := TO [("t", TF t); ("u", TF u); ("centre", TF c)].
Definition sA : list (tree Z) := [g2 0 100 10; g2 10 90 20; g2 20 80 30]%Z.
Definition sB : list (tree Z) := [g2 0 100 10; g2 20 80 70]%Z.
Definition left_value6 : list Z -> list Z -> Z -> option Z :=
  fix go xs ys v := match xs, ys with
                    | x :: xs', y :: ys' => if (x <=? v)%Z then (match go xs' ys' v with Some r => Some r | None => Some y end) else None
                    | _, _ => None
                    end.
Definition ans := Proofs6.fresh_answer Z Z.leb Z.eqb (fun z => z) left_value6 TF true.
Definition S6 := Proofs6.iseries Z.
Definition Q6 := Proofs6.iquery Z.
Definition run6 (hit : S6 * Q6 -> S6 * Q6 -> bool) (s0 : S6) (ops : list (Machine.op S6 Q6)) :=
  Machine.run S6 Q6 (outcome Z) ans hit (Machine.init S6 Q6 (outcome Z) s0) ops.
Definition expected6 := Machine.expected S6 Q6 (outcome Z) ans.

Definition val_eqb (a b : tree Z) : bool :=
  match a, b with TF x, TF y => Z.eqb x y | TI x, TI y => Z.eqb x y | _, _ => false end.
Definition path_eqb (p p' : list string) : bool := if list_eq_dec string_dec p p' then true else false.
(* unsound policies: the stored answer is reused when only the VALUE agrees / when path and value agree but the
   series held by the object has been changed in between *)
Definition hit_by_value : S6 * Q6 -> S6 * Q6 -> bool := fun a b => val_eqb (snd (snd a)) (snd (snd b)).
Definition hit_by_query : S6 * Q6 -> S6 * Q6 -> bool :=
  fun a b => path_eqb (fst (snd a)) (fst (snd b)) && val_eqb (snd (snd a)) (snd (snd b)).

(* a history with a change of series, a repeated query, a raising query (unknown attribute) and a second variable:
   with the code's policy the machine answers what fresh interpolators answer, and the answers are not trivial *)
Definition history : list (Machine.op S6 Q6) :=
  [Machine.OAsk (["t"], TF 10%Z); Machine.OAsk (["nope"], TF 1%Z); Machine.OAsk (["u"], TF 95%Z);
   Machine.OAsk (["t"], TF 10%Z); Machine.OSet sB; Machine.OAsk (["t"], TF 10%Z); Machine.OAsk (["u"], TF 80%Z)].
Example history_answers :
  run6 Machine.never_hit sA history =
  [OSame 1; OErr; ONew (g2 10 95 20); OSame 1; ONew (g2 10 100 10); OSame 1]%nat.
Proof. vm_compute. reflexivity. Qed.
Example history_is_fresh : run6 Machine.never_hit sA history = expected6 sA history.
Proof. vm_compute. reflexivity. Qed.

Lemma cache_by_value_refuted : exists s0 ops, run6 hit_by_value s0 ops <> expected6 s0 ops.
Proof.
  exists sA, [Machine.OAsk (["t"], TF 10%Z); Machine.OAsk (["u"], TF 10%Z)].
  vm_compute. intro H. discriminate H.
Qed.

Lemma cache_ignoring_series_refuted : exists s0 ops, run6 hit_by_query s0 ops <> expected6 s0 ops.
Proof.
  exists sA, [Machine.OAsk (["t"], TF 10%Z); Machine.OSet sB; Machine.OAsk (["t"], TF 10%Z)].
  vm_compute. intro H. discriminate H.
Qed.

(* so neither policy is sound (contrapositive of Machine.history_independent) *)
Lemma cache_by_value_unsound : ~ Machine.sound S6 Q6 (outcome Z) ans hit_by_value.
Proof.
  intro Hs. destruct cache_by_value_refuted as [s0 [ops H]]. apply H.
  apply (Machine.history_independent S6 Q6 (outcome Z) ans hit_by_value Hs).
Qed.
Lemma cache_ignoring_series_unsound : ~ Machine.sound S6 Q6 (outcome Z) ans hit_by_query.
Proof.
  intro Hs. destruct cache_ignoring_series_refuted as [s0 [ops H]]. apply H.
  apply (Machine.history_independent S6 Q6 (outcome Z) ans hit_by_query Hs).
Qed.
