(* C20: the interpolator object as a state machine (Machine.v) instantiated with the model of a fresh
   interpolator's answer (Model.interp_at): history independence for every sound cache policy. *)
From Coq Require Import List String Bool ZArith.
From PAFC20 Require Import Gen Model Machine.
Import ListNotations.

Section Inst.
  Variable V : Type.
  Variables leb eqb : V -> V -> bool.
  Variable ofZ : Z -> V.
  Variable interp : list V -> list V -> V -> option V.
  Variable mk : V -> tree V.
  Variable assign : bool.

  Definition iseries := list (tree V).
  Definition iquery := (list string * tree V)%type.
  (* what a fresh interpolator over the series s answers to interp[<path> == value] *)
  Definition fresh_answer (s : iseries) (q : iquery) : outcome V :=
    interp_at leb eqb ofZ interp mk assign s (fst q) (snd q).

  Lemma interp_history_independent :
    forall hit : iseries * iquery -> iseries * iquery -> bool,
    sound iseries iquery (outcome V) fresh_answer hit ->
    forall (s0 : iseries) (ops : list (op iseries iquery)),
    Machine.run iseries iquery (outcome V) fresh_answer hit (init iseries iquery (outcome V) s0) ops
    = expected iseries iquery (outcome V) fresh_answer s0 ops.
  Proof. intros hit Hs s0 ops. apply history_independent. exact Hs. Qed.

  Lemma interp_last_query_fresh :
    forall hit : iseries * iquery -> iseries * iquery -> bool,
    sound iseries iquery (outcome V) fresh_answer hit ->
    forall (s0 s : iseries) (before : list (op iseries iquery)) (q : iquery),
    Machine.run iseries iquery (outcome V) fresh_answer hit (init iseries iquery (outcome V) s0) (before ++ [OSet s; OAsk q])
    = Machine.run iseries iquery (outcome V) fresh_answer hit (init iseries iquery (outcome V) s0) before ++ [fresh_answer s q].
  Proof. intros hit Hs s0 s before q. apply last_query_fresh. exact Hs. Qed.

  (* the code as it is rebuilds the value map in every __getitem__: nothing is reused *)
  Lemma interp_code_policy_sound : sound iseries iquery (outcome V) fresh_answer never_hit.
  Proof. apply never_hit_sound. Qed.
End Inst.
