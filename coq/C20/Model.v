(* C20 model: AbstractInterpolator.__getitem__ / _value_map, the float-path walk of
   path_instances_of_class, object_for_path and ModelObject.replacing_for_path, over value
   trees.  Executable definitions only; proofs are in Proofs*.v.

   The generic part is parametric in the value type V (abscissae and float leaves), its
   comparisons (Python `<=` used by sorted, Python `==` used by the dict) and the external
   interpolation routine (scipy), which may fail (exception).  The flag `assign` selects
   the statement form of the last step of __getitem__: `false` = result of the final
   replacing_for_path discarded (a bare expression statement), `true` = result kept.
   Gen.assigns_final says which of the two the code in /repo currently is. *)
From Coq Require Import ZArith List String Ascii Bool.
From Coq Require Import Floats.PrimFloat.
From PAFCommon Require Import PyFloat.
From PAFC20 Require Import Gen.
From Coq Require Import QArith Qabs.
Import ListNotations.
Open Scope list_scope.

(* do object_for_path / replacing_for_path / InterpolatorPath.get_value follow a string key into a dict
   (obj[key]) or only attributes (getattr)?  Read from the source on every run. *)
Definition dictok : bool := dict_paths_followed.
Global Opaque dictok.   (* tactics treat it as unknown: the proofs hold for both values *)

(* a path entry: attribute name (getattr / setattr) or list index (obj[i]) *)
Inductive key := KS (s : string) | KI (i : nat).
Definition path := list key.

Definition key_eqb (a b : key) : bool :=
  match a, b with
  | KS s, KS t => String.eqb s t
  | KI i, KI j => Nat.eqb i j
  | _, _ => false
  end.

(* `key.startswith("_")` *)
Definition private (s : string) : bool :=
  match s with
  | String c _ => Ascii.eqb c "_"%char
  | EmptyString => false
  end.

Fixpoint assoc {A} (s : string) (fs : list (string * A)) : option A :=
  match fs with
  | [] => None
  | (k, c) :: r => if String.eqb k s then Some c else assoc s r
  end.

(* setattr: replace in place (dict order kept) or append *)
Fixpoint assoc_set {A} (s : string) (x : A) (fs : list (string * A)) : list (string * A) :=
  match fs with
  | [] => [(s, x)]
  | (k, c) :: r => if String.eqb k s then (k, x) :: r else (k, c) :: assoc_set s x r
  end.

Fixpoint list_set {A} (i : nat) (x : A) (l : list A) : list A :=
  match l, i with
  | [], _ => []
  | _ :: r, O => x :: r
  | c :: r, S i' => c :: list_set i' x r
  end.

Fixpoint all_some {A} (l : list (option A)) : option (list A) :=
  match l with
  | [] => Some []
  | None :: _ => None
  | Some x :: r => match all_some r with Some r' => Some (x :: r') | None => None end
  end.

Section Generic.
  Variable V : Type.
  Variable leb : V -> V -> bool.       (* Python a <= b on the abscissae *)
  Variable eqb : V -> V -> bool.       (* Python a == b (dict key equality) *)
  Variable ofZ : Z -> V.               (* a Python int used as a number *)
  Variable interp : list V -> list V -> V -> option V.   (* _interpolate(x, y, value); None = raises *)

  (* a fitted instance: float leaves, int leaves, opaque leaves (str / None / bool),
     objects with an attribute dict in insertion order (ModelInstance, plain classes),
     Python lists, Python tuples *)
  Inductive tree :=
  | TF (v : V)
  | TA (v : V)          (* a number that is not a Python float (0-d numpy array): not found by the walk *)
  | TI (z : Z)
  | TX (tok : Z)
  | TO (fs : list (string * tree))
  | TD (fs : list (string * tree))      (* a Python dict with string keys *)
  | TL (l : list tree)
  | TT (l : list tree).

  (* path_instances_of_class(obj, float): lists are enumerated, attribute dicts are walked in
     insertion order skipping names that start with "_"; a tuple has no __dict__
     (AttributeError is swallowed) so nothing below a tuple is found *)
  Definition obj_paths (f : tree -> list path) : list (string * tree) -> list path :=
    fix go fs :=
      match fs with
      | [] => []
      | (k, c) :: r => (if private k then [] else map (cons (KS k)) (f c)) ++ go r
      end.
  Definition list_paths (f : tree -> list path) : nat -> list tree -> list path :=
    fix go i l :=
      match l with
      | [] => []
      | c :: r => map (cons (KI i)) (f c) ++ go (S i) r
      end.
  Fixpoint fpaths (t : tree) : list path :=
    match t with
    | TF _ => [[]]
    | TO fs | TD fs => obj_paths fpaths fs        (* the walk descends into dicts as into attribute dicts *)
    | TL l => list_paths fpaths 0 l
    | _ => []
    end.

  Definition child (k : key) (t : tree) : option tree :=
    match k, t with
    | KS s, TO fs => assoc s fs
    | KS s, TD fs => if dictok then assoc s fs else None      (* getattr(dict, key) raises *)
    | KI i, TL l => nth_error l i
    | _, _ => None
    end.

  (* object_for_path / InterpolatorPath.get_value *)
  Fixpoint get (p : path) (t : tree) : option tree :=
    match p with
    | [] => Some t
    | k :: r => match child k t with Some c => get r c | None => None end
    end.

  (* the last step of replacing_for_path: setattr(obj, key, value) / obj[key] = value *)
  Definition put (k : key) (x : tree) (t : tree) : option tree :=
    match k, t with
    | KS s, TO fs => Some (TO (assoc_set s x fs))
    | KS s, TD fs => if dictok then Some (TD (assoc_set s x fs)) else None
    | KI i, TL l => if Nat.ltb i (List.length l) then Some (TL (list_set i x l)) else None
    | _, _ => None
    end.

  (* ModelObject.replacing_for_path on a deep copy; None = raises *)
  Fixpoint set (p : path) (x : tree) (t : tree) : option tree :=
    match p with
    | [] => None
    | [k] => put k x t
    | k :: r =>
        match child k t with
        | Some c => match set r x c with Some c' => put k c' t | None => None end
        | None => None
        end
    end.

  Definition num_of (t : tree) : option V :=
    match t with
    | TF v | TA v => Some v
    | TI z => Some (ofZ z)
    | _ => None
    end.

  Definition qkeys (q : list string) : path := map KS q.

  Definition abscissa (q : list string) (t : tree) : option V :=
    match get (qkeys q) t with Some x => num_of x | None => None end.

  (* _value_map: a dict; an equal key keeps its position and takes the later instance *)
  Definition entry := (nat * tree)%type.
  Fixpoint dict_set (k : V) (e : entry) (d : list (V * entry)) : list (V * entry) :=
    match d with
    | [] => [(k, e)]
    | (k', e') :: r => if eqb k' k then (k', e) :: r else (k', e') :: dict_set k e r
    end.
  Fixpoint dict_get (v : V) (d : list (V * entry)) : option entry :=
    match d with
    | [] => None
    | (k, e) :: r => if eqb k v then Some e else dict_get v r
    end.
  Definition numbered (insts : list tree) : list entry := combine (seq 0 (List.length insts)) insts.
  Definition vm_build (ks : list V) (insts : list tree) : list (V * entry) :=
    fold_left (fun d ke => dict_set (fst ke) (snd ke) d) (combine ks (numbered insts)) [].

  (* sorted(value_map) *)
  Fixpoint insert_key (x : V) (l : list V) : list V :=
    match l with
    | [] => [x]
    | y :: r => if leb x y then x :: l else y :: insert_key x r
    end.
  Definition sort_keys (l : list V) : list V := fold_right insert_key [] l.

  (* y = [value_map[value].object_for_path(path) for value in x] *)
  Definition y_at (vm : list (V * entry)) (p : path) (x : V) : option V :=
    match dict_get x vm with
    | Some (_, inst) => match get p inst with Some t => num_of t | None => None end
    | None => None
    end.
  Definition yvals (vm : list (V * entry)) (xs : list V) (p : path) : option (list V) :=
    all_some (map (y_at vm p) xs).
  Definition leaf_value (vm : list (V * entry)) (xs : list V) (v : V) (p : path) : option V :=
    match yvals vm xs p with Some ys => interp xs ys v | None => None end.
  (* what _interpolate returns, as a leaf: a float (TF) or a 0-d array (TA) *)
  Variable mk : V -> tree.
  Definition step (vm : list (V * entry)) (xs : list V) (v : V) (acc : option tree) (p : path) : option tree :=
    match acc with
    | None => None
    | Some cur => match leaf_value vm xs v p with Some y => set p (mk y) cur | None => None end
    end.

  Inductive outcome := OSame (i : nat) | ONew (t : tree) | OErr.

  (* AbstractInterpolator.__getitem__(Equality(path q, value qv)) *)
  Definition interp_at (assign : bool) (insts : list tree) (q : list string) (qv : tree) : outcome :=
    match num_of qv, all_some (map (abscissa q) insts) with
    | Some v, Some ks =>
        let vm := vm_build ks insts in
        match dict_get v vm with
        | Some (i, _) => OSame i
        | None =>
            match insts with
            | [] => OErr
            | template :: _ =>
                let xs := sort_keys (map fst vm) in
                match fold_left (step vm xs v) (fpaths template) (Some template) with
                | Some r =>
                    if assign
                    then match set (qkeys q) qv r with Some r' => ONew r' | None => OErr end
                    else ONew r
                | None => OErr
                end
            end
        end
    | _, _ => OErr
    end.

  (* keys of an attribute dict are unique at every level (a Python dict) *)
  Fixpoint nodup_strings (l : list string) : bool :=
    match l with
    | [] => true
    | s :: r => negb (existsb (String.eqb s) r) && nodup_strings r
    end.
  Fixpoint wf (t : tree) : bool :=
    match t with
    | TO fs => nodup_strings (map fst fs) && forallb (fun kc => wf (snd kc)) fs
    | TD fs => dictok && nodup_strings (map fst fs) && forallb (fun kc => wf (snd kc)) fs
    | TL l => forallb wf l
    | _ => true
    end.
End Generic.

Arguments TF {V}. Arguments TA {V}. Arguments TI {V}. Arguments TX {V}. Arguments TO {V}. Arguments TD {V}. Arguments TL {V}. Arguments TT {V}.
Arguments OSame {V}. Arguments ONew {V}. Arguments OErr {V}.
Arguments fpaths {V}. Arguments get {V}. Arguments set {V}. Arguments put {V}. Arguments child {V}.
Arguments num_of {V}. Arguments abscissa {V}. Arguments wf {V}. Arguments numbered {V}.
Arguments dict_set {V}. Arguments dict_get {V}. Arguments vm_build {V}. Arguments insert_key {V}.
Arguments sort_keys {V}. Arguments y_at {V}. Arguments yvals {V}. Arguments leaf_value {V}.
Arguments step {V}. Arguments interp_at {V}. Arguments obj_paths {V}. Arguments list_paths {V}.

(* ---------- exact-rational instance: least squares as scipy.stats.linregress defines it ---------- *)
Definition qsum (l : list Q) : Q := fold_right Qplus 0 l.
Definition qlen (l : list Q) : Q := inject_Z (Z.of_nat (List.length l)).
Fixpoint qdot (a b : list Q) : Q :=
  match a, b with
  | x :: a', y :: b' => x * y + qdot a' b'
  | _, _ => 0
  end.
(* slope = cov(x,y)/var(x), intercept = mean(y) - slope*mean(x), written with raw sums *)
Definition lsq_den (xs : list Q) : Q := qlen xs * qdot xs xs - qsum xs * qsum xs.
Definition lsq_slope (xs ys : list Q) : Q := (qlen xs * qdot xs ys - qsum xs * qsum ys) / lsq_den xs.
Definition lsq_intercept (xs ys : list Q) : Q := (qsum ys - lsq_slope xs ys * qsum xs) / qlen xs.
Definition linreg_Q (xs ys : list Q) (v : Q) : option Q :=
  if Qeq_bool (lsq_den xs) 0 then None      (* linregress raises when all x are identical *)
  else Some (li_eval_Q (lsq_slope xs ys) v (lsq_intercept xs ys)).

Definition interp_at_Q (interp : list Q -> list Q -> Q -> option Q) :=
  interp_at Qle_bool Qeq_bool inject_Z interp TF.

(* ---------- binary64 instance: scipy results enter as finite oracle tables ---------- *)
Inductive method := Linear | Spline.
Definition lin_table := list (list float * list float * (float * float)).   (* (x, y) -> (slope, intercept) *)
Definition spl_table := list (list float * list float * float * float).     (* (x, y, value) -> CubicSpline(x, y)(value) *)

Fixpoint lin_lookup (t : lin_table) (xs ys : list float) : option (float * float) :=
  match t with
  | [] => None
  | (x, y, r) :: t' => if flist_eqb x xs && flist_eqb y ys then Some r else lin_lookup t' xs ys
  end.
Fixpoint spl_lookup (t : spl_table) (xs ys : list float) (v : float) : option float :=
  match t with
  | [] => None
  | (x, y, w, r) :: t' => if flist_eqb x xs && flist_eqb y ys && fbits_eqb w v then Some r else spl_lookup t' xs ys v
  end.
Definition interp_F (m : method) (lt : lin_table) (st : spl_table) (xs ys : list float) (v : float) : option float :=
  match m with
  | Linear => match lin_lookup lt xs ys with Some (s, i) => Some (li_eval_F s v i) | None => None end
  | Spline => spl_lookup st xs ys v
  end.
(* LinearInterpolator returns a numpy.float64 (a float); what SplineInterpolator returns is read from the
   source: Gen.spline_returns_float *)
Definition leaf_F (m : method) : float -> tree float :=
  match m with
  | Linear => TF
  | Spline => if spline_returns_float then TF else TA
  end.
Definition interp_at_F (assign : bool) (m : method) (lt : lin_table) (st : spl_table) :=
  interp_at PrimFloat.leb PrimFloat.eqb Z2F (interp_F m lt st) (leaf_F m) assign.

(* ---------- correspondence cases ---------- *)
Fixpoint tree_eqb (a b : tree float) : bool :=
  match a, b with
  | TF x, TF y | TA x, TA y => fbits_eqb x y
  | TI x, TI y => Z.eqb x y
  | TX x, TX y => Z.eqb x y
  | TO fs, TO gs | TD fs, TD gs =>
      (fix go (fs gs : list (string * tree float)) : bool :=
         match fs, gs with
         | [], [] => true
         | (k, c) :: r, (k', c') :: r' => String.eqb k k' && tree_eqb c c' && go r r'
         | _, _ => false
         end) fs gs
  | TL l, TL m | TT l, TT m =>
      (fix go (l m : list (tree float)) : bool :=
         match l, m with
         | [], [] => true
         | c :: r, c' :: r' => tree_eqb c c' && go r r'
         | _, _ => false
         end) l m
  | _, _ => false
  end.

Definition outcome_eqb (a b : outcome float) : bool :=
  match a, b with
  | OSame i, OSame j => Nat.eqb i j
  | ONew t, ONew u => tree_eqb t u
  | OErr, OErr => true
  | _, _ => false
  end.

(* the hypotheses of the binary64 order / known-point / per-leaf theorems (Props.C20_*_f64): no NaN among the
   abscissae and the query value, pairwise different abscissae -- decided on every in-quantifier run.
   (The order laws themselves are THEOREMS for non-NaN floats: Common/Float64Order.v, Proofs5.F_order_ok;
   order_ok_b, the executable form of the laws on a finite carrier, is kept for the Z examples of Witness.v
   and evaluated on every run as a redundant cross-check of the theorem.) *)
Definition order_ok_b {V} (leb eqb : V -> V -> bool) (l : list V) : bool :=
  forallb (fun a => eqb a a) l &&
  forallb (fun a => forallb (fun b =>
    implb (eqb a b) (eqb b a) && (leb a b || leb b a) && implb (leb a b && leb b a) (eqb a b) &&
    forallb (fun c => implb (eqb a b && eqb b c) (eqb a c) && implb (leb a b && leb b c) (leb a c)) l) l) l.
Fixpoint distinct_b {V} (eqb : V -> V -> bool) (l : list V) : bool :=
  match l with
  | [] => true
  | a :: r => forallb (fun b => negb (eqb a b) && negb (eqb b a)) r && distinct_b eqb r
  end.
Definition nonan_b (l : list float) : bool := forallb (fun x => negb (PrimFloat.is_nan x)) l.
Definition hyps_F (insts : list (tree float)) (q : list string) (qv : tree float) : bool :=
  match all_some (map (abscissa Z2F q) insts), num_of Z2F qv with
  | Some ks, Some v => nonan_b (v :: ks) && distinct_b PrimFloat.eqb ks
  | _, _ => false
  end.
(* Float64Order says: no NaN => the laws hold.  Computed on every run (in or out of the quantifier): a false
   here would contradict the theorem, i.e. the kernel's float primitives and FloatAxioms would disagree *)
Definition laws_F (insts : list (tree float)) (q : list string) (qv : tree float) : bool :=
  match all_some (map (abscissa Z2F q) insts), num_of Z2F qv with
  | Some ks, Some v => implb (nonan_b (v :: ks)) (order_ok_b PrimFloat.leb PrimFloat.eqb (v :: ks))
  | _, _ => true
  end.

Record query := Query {
  q_perm : list nat;            (* order in which the instances are supplied *)
  q_method : method;
  q_path : list string;         (* interpolator.<a>.<b> ... *)
  q_value : tree float;         (* == value (TF or TI) *)
  q_expect : nat;               (* index (in the series' table of outcomes) of what the implementation returned *)
  q_inq : bool;                 (* the harness counts this query as inside the property's quantifier *)
  q_hyp : bool                  (* the harness's own evaluation (Python ==, isnan) of the _f64 theorems' hypotheses *)
}.

Definition permute {A} (l : list A) (perm : list nat) : option (list A) :=
  all_some (map (nth_error l) perm).

Definition check_query (insts : list (tree float)) (lt : lin_table) (st : spl_table)
           (outs : list (outcome float)) (qu : query) : bool :=
  match permute insts (q_perm qu), nth_error outs (q_expect qu) with
  | Some l, Some e =>
      outcome_eqb (interp_at_F assigns_final (q_method qu) lt st l (q_path qu) (q_value qu)) e
      && implb (q_inq qu) (q_hyp qu) && Bool.eqb (hyps_F l (q_path qu) (q_value qu)) (q_hyp qu)
      && laws_F l (q_path qu) (q_value qu)
  | _, _ => false
  end.

Definition Qclose (a b tol : Q) : bool := Qle_bool (Qabs (a - b)) (tol * (1 + Qabs a + Qabs b)).

Inductive case :=
  (* a series, the scipy oracle tables of all its queries, the distinct outcomes the implementation
     produced, and the queries (supplied order, method, path, value, index of the outcome) *)
| CSeries (insts : list (tree float)) (lt : lin_table) (st : spl_table)
          (outs : list (outcome float)) (qs : list query)
  (* exact least squares against scipy.stats.linregress + the code's formula (labelled tolerance) *)
| CLinreg (xs ys : list Q) (v : Q) (result : option Q) (tol : Q).

Definition check_case (c : case) : bool :=
  match c with
  | CSeries insts lt st outs qs => forallb (check_query insts lt st outs) qs
  | CLinreg xs ys v result tol =>
      match linreg_Q xs ys v, result with
      | Some a, Some b => Qclose a b tol
      | None, None => true
      | _, _ => false
      end
  end.

(* indices of the failing queries of a series (for replays) *)
Definition failing_queries (c : case) : list nat :=
  match c with
  | CSeries insts lt st outs qs =>
      map fst (filter (fun iq => negb (check_query insts lt st outs (snd iq))) (combine (seq 0 (List.length qs)) qs))
  | _ => []
  end.
