(* C20 lemmas, part 2: the value map (a dict) and the sorted abscissae. *)
From Coq Require Import List String Bool Arith Lia ZArith Permutation Sorting.Sorted.
From PAFC20 Require Import Gen Model.
Import ListNotations.
Open Scope list_scope.

(* what the theorems assume about Python's == and <= on the abscissae: on the carrier `good` (the values
   that occur: abscissae and query value) <= is a total preorder whose equivalence is ==.
   Carrier = everything for Z and Q (Witness.Z_order_ok, Proofs4.Q_order_ok); carrier = the non-NaN floats
   for binary64 (Proofs5.F_order_ok, proved from the IEEE specification axioms of Coq.Floats.FloatAxioms). *)
Record order_ok_on {V} (good : V -> bool) (leb eqb : V -> V -> bool) : Prop := {
  eqb_refl : forall a, good a = true -> eqb a a = true;
  eqb_sym : forall a b, good a = true -> good b = true -> eqb a b = true -> eqb b a = true;
  eqb_trans : forall a b c, good a = true -> good b = true -> good c = true ->
                            eqb a b = true -> eqb b c = true -> eqb a c = true;
  leb_total : forall a b, good a = true -> good b = true -> leb a b = true \/ leb b a = true;
  leb_trans : forall a b c, good a = true -> good b = true -> good c = true ->
                            leb a b = true -> leb b c = true -> leb a c = true;
  leb_antisym : forall a b, good a = true -> good b = true -> leb a b = true -> leb b a = true -> eqb a b = true;
  (* the carrier is closed under ==: whatever equals a value of the carrier is in the carrier (a NaN equals nothing) *)
  eqb_good : forall a b, good a = true -> eqb a b = true -> good b = true
}.

Definition everything {V} (_ : V) : bool := true.
(* the unrelativised form: the laws hold of every value *)
Definition order_ok {V} (leb eqb : V -> V -> bool) : Prop := order_ok_on everything leb eqb.

(* every element of a list is in the carrier *)
Definition allgood {V} (good : V -> bool) (l : list V) : Prop := forall k, In k l -> good k = true.

Lemma allgood_everything {V} (l : list V) : allgood everything l.
Proof. intros k _. reflexivity. Qed.

Lemma allgood_perm {V} (good : V -> bool) l l' : allgood good l -> Permutation l' l -> allgood good l'.
Proof. intros G P k I. apply G. apply (Permutation_in _ P I). Qed.

Lemma allgood_tail {V} (good : V -> bool) a l : allgood good (a :: l) -> allgood good l.
Proof. intros G k I. apply G. right. exact I. Qed.

(* pairwise different abscissae *)
Definition distinct {V} (eqb : V -> V -> bool) (l : list V) : Prop :=
  NoDup l /\ forall a b, In a l -> In b l -> a <> b -> eqb a b = false.

Lemma all_some_spec {A} (l : list (option A)) r : all_some l = Some r <-> l = map Some r.
Proof.
  revert r. induction l as [|[x|] l IH]; intro r; simpl.
  - split; intro H; [inversion H; reflexivity | destruct r; [reflexivity | discriminate]].
  - destruct (all_some l) as [r'|] eqn:E.
    + split; intro H.
      * inversion H. simpl. f_equal. apply IH. reflexivity.
      * destruct r as [|y r]; [discriminate|]. inversion H. subst. f_equal. f_equal.
        assert (X : Some r' = Some r) by (apply IH; reflexivity). inversion X. reflexivity.
    + split; intro H; [discriminate|]. destruct r as [|y r]; [discriminate|]. inversion H.
      assert (X : None = Some r) by (apply IH; assumption). discriminate.
  - split; intro H; [discriminate | destruct r; discriminate].
Qed.

Lemma all_some_forall2 {A B} (f : A -> option B) l r :
  all_some (map f l) = Some r -> Forall2 (fun x y => f x = Some y) l r.
Proof.
  revert r. induction l as [|x l IH]; intros r H; simpl in H.
  - inversion H. constructor.
  - destruct (f x) as [y|] eqn:E; [|discriminate].
    destruct (all_some (map f l)) as [r'|] eqn:E'; [|discriminate]. inversion H. constructor; auto.
Qed.

Lemma all_some_none {A B} (f : A -> option B) l x : In x l -> f x = None -> all_some (map f l) = None.
Proof.
  induction l as [|y l IH]; simpl; intros I H; [contradiction|].
  destruct I as [->|I]; [rewrite H; reflexivity|].
  destruct (f y); [|reflexivity]. rewrite (IH I H). reflexivity.
Qed.

Lemma all_some_ext {A B} (f g : A -> option B) l : (forall x, In x l -> f x = g x) -> all_some (map f l) = all_some (map g l).
Proof. intro H. f_equal. apply map_ext_in. exact H. Qed.

Lemma all_some_total {A B} (f : A -> option B) l :
  (forall x, In x l -> exists y, f x = Some y) -> exists r, all_some (map f l) = Some r.
Proof.
  induction l as [|x l IH]; intro H; simpl; [eexists; reflexivity|].
  destruct (H x (or_introl eq_refl)) as [y ->].
  destruct IH as [r ->]; [intros; apply H; right; assumption|]. eexists. reflexivity.
Qed.

Lemma map_fst_combine {A B} (l : list A) (m : list B) : List.length l = List.length m -> map fst (combine l m) = l.
Proof.
  revert m. induction l as [|a l IH]; intros [|b m] H; simpl in *; try reflexivity; try discriminate.
  f_equal. apply IH. lia.
Qed.

Lemma nth_error_combine {A B} (l : list A) (m : list B) i a b :
  nth_error l i = Some a -> nth_error m i = Some b -> nth_error (combine l m) i = Some (a, b).
Proof.
  revert m i. induction l as [|x l IH]; intros [|y m] [|i] Ha Hb; simpl in *; try discriminate.
  - inversion Ha. inversion Hb. reflexivity.
  - apply IH; assumption.
Qed.

Lemma in_combine_nth {A B} (l : list A) (m : list B) a b :
  In (a, b) (combine l m) -> exists i, nth_error l i = Some a /\ nth_error m i = Some b.
Proof.
  revert m. induction l as [|x l IH]; intros [|y m] H; simpl in H; try contradiction.
  destruct H as [H|H].
  - inversion H. exists 0. auto.
  - destruct (IH _ H) as [i [H1 H2]]. exists (S i). auto.
Qed.

Section Dict.
  Context {V : Type}.
  Variable leb eqb : V -> V -> bool.
  Variable good : V -> bool.
  Hypothesis OK : order_ok_on good leb eqb.
  Notation tree := (tree V).
  Notation entry := (entry V).

  Lemma distinct_tail a l : distinct eqb (a :: l) -> distinct eqb l.
  Proof.
    intros [N D]. split; [inversion N; assumption|]. intros x y Hx Hy. apply D; right; assumption.
  Qed.

  Lemma distinct_head a l b : distinct eqb (a :: l) -> In b l -> eqb a b = false /\ eqb b a = false /\ a <> b.
  Proof.
    intros [N D] I. inversion N. subst.
    assert (NE : a <> b) by (intro; subst; contradiction).
    repeat split; [apply D | apply D |]; simpl; auto.
  Qed.

  Lemma distinct_perm l l' : distinct eqb l -> Permutation l l' -> distinct eqb l'.
  Proof.
    intros [N D] P. split; [apply (Permutation_NoDup P N)|].
    intros a b Ha Hb. apply D; apply (Permutation_in _ (Permutation_sym P)); assumption.
  Qed.

  (* ----- dict ----- *)
  Lemma dict_set_fresh k (e : entry) d :
    (forall k', In k' (map fst d) -> eqb k' k = false) -> dict_set eqb k e d = d ++ [(k, e)].
  Proof.
    induction d as [|[k' e'] r IH]; simpl; intro H; [reflexivity|].
    rewrite (H k' (or_introl eq_refl)). f_equal. apply IH. intros; apply H; right; assumption.
  Qed.

  Lemma fold_dict_set_distinct (kes : list (V * entry)) : forall acc,
    distinct eqb (map fst acc ++ map fst kes) ->
    fold_left (fun d ke => dict_set eqb (fst ke) (snd ke) d) kes acc = acc ++ kes.
  Proof.
    induction kes as [|[k e] r IH]; intros acc D; simpl; [rewrite app_nil_r; reflexivity|].
    rewrite dict_set_fresh.
    - rewrite IH; [rewrite <- app_assoc; reflexivity|].
      rewrite map_app. simpl. rewrite <- app_assoc. exact D.
    - intros k' I. simpl in D. destruct D as [N D]. apply D.
      + apply in_or_app. left. exact I.
      + apply in_or_app. right. left. reflexivity.
      + intro E. subst k'. apply NoDup_remove_2 in N. apply N. apply in_or_app. left. exact I.
  Qed.

  Lemma vm_build_distinct ks (insts : list tree) :
    List.length ks = List.length insts -> distinct eqb ks -> vm_build eqb ks insts = combine ks (numbered insts).
  Proof.
    intros L D. unfold vm_build. rewrite fold_dict_set_distinct; [reflexivity|].
    simpl. rewrite map_fst_combine; [exact D|].
    unfold numbered. etransitivity; [|symmetry; apply combine_length]. rewrite seq_length. lia.
  Qed.

  Lemma dict_get_eq (d : list (V * entry)) k e v :
    allgood good (map fst d) ->
    distinct eqb (map fst d) -> In (k, e) d -> eqb k v = true -> dict_get eqb v d = Some e.
  Proof.
    intros G0. assert (Gv : In (k, e) d -> eqb k v = true -> good v = true).
    { intros I E. apply (eqb_good _ _ _ OK k v); [|exact E]. apply G0. apply in_map_iff. exists (k, e). auto. }
    revert G0 Gv.
    induction d as [|[k0 e0] r IH]; simpl; intros G Gv' D I E; [contradiction|].
    pose proof (Gv' I E) as Gv.
    destruct I as [I|I].
    - inversion I. subst. rewrite E. reflexivity.
    - destruct (eqb k0 v) eqn:E0.
      + exfalso. assert (Ik : In k (map fst r)) by (apply in_map_iff; exists (k, e); auto).
        destruct (distinct_head _ _ _ D Ik) as [X _].
        assert (G0 : good k0 = true) by (apply G; left; reflexivity).
        assert (Gk : good k = true) by (apply G; right; exact Ik).
        rewrite (eqb_trans _ _ _ OK _ _ _ G0 Gv Gk E0 (eqb_sym _ _ _ OK _ _ Gk Gv E)) in X. discriminate.
      + apply IH; auto. apply (allgood_tail _ _ _ G). apply (distinct_tail _ _ D).
  Qed.

  Lemma dict_get_none (d : list (V * entry)) v :
    (forall k, In k (map fst d) -> eqb k v = false) -> dict_get eqb v d = None.
  Proof.
    induction d as [|[k0 e0] r IH]; simpl; intro H; [reflexivity|].
    rewrite (H k0 (or_introl eq_refl)). apply IH. intros; apply H; right; assumption.
  Qed.

  Lemma dict_get_some (d : list (V * entry)) v e :
    dict_get eqb v d = Some e -> exists k, In (k, e) d /\ eqb k v = true.
  Proof.
    induction d as [|[k0 e0] r IH]; simpl; intro H; [discriminate|].
    destruct (eqb k0 v) eqn:E.
    - inversion H. subst. exists k0. auto.
    - destruct (IH H) as [k [I Ek]]. exists k. auto.
  Qed.

  (* ----- sorted(value_map) ----- *)
  Definition le (a b : V) : Prop := leb a b = true.

  Lemma insert_key_perm x l : Permutation (insert_key leb x l) (x :: l).
  Proof.
    induction l as [|y r IH]; simpl; [reflexivity|].
    destruct (leb x y); [reflexivity|].
    rewrite IH. apply perm_swap.
  Qed.

  Lemma sort_keys_perm l : Permutation (sort_keys leb l) l.
  Proof.
    induction l as [|x l IH]; simpl; [reflexivity|].
    rewrite insert_key_perm. constructor. exact IH.
  Qed.

  Lemma insert_key_sorted x l :
    good x = true -> allgood good l -> StronglySorted le l -> StronglySorted le (insert_key leb x l).
  Proof.
    intro Gx. induction l as [|y r IH]; simpl; intros G S.
    - constructor; constructor.
    - assert (Gy : good y = true) by (apply G; left; reflexivity).
      inversion S as [|? ? S' F]. subst. destruct (leb x y) eqn:E.
      + constructor; [exact S|]. constructor; [exact E|].
        rewrite Forall_forall in F. apply Forall_forall. intros z Iz. unfold le in *.
        apply (leb_trans _ _ _ OK x y z Gx Gy (G z (or_intror Iz)) E (F z Iz)).
      + constructor; [apply IH; [apply (allgood_tail _ _ _ G) | exact S']|].
        assert (Eyx : le y x) by (destruct (leb_total _ _ _ OK x y Gx Gy) as [H|H]; [rewrite H in E; discriminate | exact H]).
        apply (Permutation_Forall (Permutation_sym (insert_key_perm x r))).
        constructor; assumption.
  Qed.

  Lemma sort_keys_sorted l : allgood good l -> StronglySorted le (sort_keys leb l).
  Proof.
    induction l as [|x l IH]; simpl; intro G; [constructor|].
    apply insert_key_sorted; [apply G; left; reflexivity | | apply IH; apply (allgood_tail _ _ _ G)].
    apply (allgood_perm good l); [apply (allgood_tail _ _ _ G) | apply sort_keys_perm].
  Qed.

  (* two sorted arrangements of the same pairwise different keys are the same list *)
  Lemma sorted_unique l1 : forall l2, allgood good l1 ->
    StronglySorted le l1 -> StronglySorted le l2 -> Permutation l1 l2 -> distinct eqb l1 -> l1 = l2.
  Proof.
    induction l1 as [|a l1 IH]; intros l2 G S1 S2 P D.
    - apply Permutation_nil in P. subst. reflexivity.
    - destruct l2 as [|b l2]; [apply Permutation_sym, Permutation_nil in P; discriminate|].
      assert (E : a = b).
      { assert (Ia : In a (b :: l2)) by (apply (Permutation_in _ P); left; reflexivity).
        assert (Ib : In b (a :: l1)) by (apply (Permutation_in _ (Permutation_sym P)); left; reflexivity).
        destruct Ia as [Ia|Ia]; [symmetry; exact Ia|]. destruct Ib as [Ib|Ib]; [exact Ib|].
        exfalso. inversion S1 as [|? ? _ F1]. inversion S2 as [|? ? _ F2]. subst.
        rewrite Forall_forall in F1, F2.
        destruct (distinct_head _ _ _ D Ib) as [X _].
        rewrite (leb_antisym _ _ _ OK _ _ (G a (or_introl eq_refl)) (G b (or_intror Ib)) (F1 _ Ib) (F2 _ Ia)) in X. discriminate. }
      subst b. f_equal. apply IH.
      + apply (allgood_tail _ _ _ G).
      + inversion S1; assumption.
      + inversion S2; assumption.
      + apply (Permutation_cons_inv P).
      + apply (distinct_tail _ _ D).
  Qed.

  Lemma sort_keys_perm_eq l l' : allgood good l -> distinct eqb l -> Permutation l l' -> sort_keys leb l = sort_keys leb l'.
  Proof.
    intros G D P. apply sorted_unique.
    - apply (allgood_perm good l _ G). apply sort_keys_perm.
    - apply sort_keys_sorted. exact G.
    - apply sort_keys_sorted. apply (allgood_perm good l _ G). apply Permutation_sym. exact P.
    - rewrite sort_keys_perm, sort_keys_perm. exact P.
    - apply (distinct_perm l); [exact D | apply Permutation_sym, sort_keys_perm].
  Qed.
End Dict.
