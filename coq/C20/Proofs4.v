(* C20 lemmas, part 4: exact rationals -- least squares reproduces linear data; linear trends. *)
From Coq Require Import List String Bool Arith Lia ZArith Permutation.
From Coq Require Import QArith Qabs Lqa Qfield.
From PAFC20 Require Import Gen Model Proofs1 Proofs2 Proofs3.
Import ListNotations.
Open Scope list_scope.
Open Scope Q_scope.

Lemma Q_order_ok : order_ok Qle_bool Qeq_bool.
Proof.
  constructor.
  - intros a _. apply Qeq_bool_iff. reflexivity.
  - intros a b _ _ H. apply Qeq_bool_iff. apply Qeq_bool_iff in H. symmetry. exact H.
  - intros a b c _ _ _ H1 H2. apply Qeq_bool_iff. apply Qeq_bool_iff in H1, H2. rewrite H1. exact H2.
  - intros a b _ _. destruct (Qlt_le_dec a b) as [H|H]; [left; apply Qle_bool_iff, Qlt_le_weak; exact H | right; apply Qle_bool_iff; exact H].
  - intros a b c _ _ _ H1 H2. apply Qle_bool_iff. apply Qle_bool_iff in H1, H2. apply (Qle_trans _ _ _ H1 H2).
  - intros a b _ _ H1 H2. apply Qeq_bool_iff. apply Qle_bool_iff in H1, H2. apply Qle_antisym; assumption.
  - reflexivity.
Qed.

(* ---------- sums ---------- *)
Lemma qlen_cons (x : Q) l : qlen (x :: l) == qlen l + 1.
Proof.
  unfold qlen. simpl List.length. rewrite Nat2Z.inj_succ. unfold Z.succ. rewrite inject_Z_plus. reflexivity.
Qed.

Lemma qlen_nonneg l : 0 <= qlen l.
Proof. unfold qlen. change 0 with (inject_Z 0). rewrite <- Zle_Qle. lia. Qed.

Lemma qsum_cons (x : Q) l : qsum (x :: l) == x + qsum l.
Proof. reflexivity. Qed.

Lemma qdot_cons x y a b : qdot (x :: a) (y :: b) == x * y + qdot a b.
Proof. reflexivity. Qed.

Definition affine (a b : Q) (x y : Q) : Prop := y == a * x + b.

Lemma sum_affine a b xs ys : Forall2 (affine a b) xs ys -> qsum ys == a * qsum xs + qlen xs * b.
Proof.
  intro F. induction F as [|x y l m A F IH].
  - unfold qsum, qlen. simpl. ring.
  - rewrite !qsum_cons, qlen_cons, IH. unfold affine in A. rewrite A. ring.
Qed.

Lemma dot_affine a b xs ys : Forall2 (affine a b) xs ys -> qdot xs ys == a * qdot xs xs + b * qsum xs.
Proof.
  intro F. induction F as [|x y l m A F IH].
  - unfold qsum. simpl. ring.
  - rewrite !qdot_cons, qsum_cons, IH. unfold affine in A. rewrite A. ring.
Qed.

Lemma den_nil_len xs : qlen xs == 0 -> lsq_den xs == 0.
Proof.
  destruct xs as [|x l]; intro H.
  - unfold lsq_den, qlen, qsum. simpl. ring.
  - exfalso. rewrite qlen_cons in H. pose proof (qlen_nonneg l). lra.
Qed.

(* the least-squares line through points on a line is that line *)
Lemma slope_exact a b xs ys : ~ lsq_den xs == 0 -> Forall2 (affine a b) xs ys -> lsq_slope xs ys == a.
Proof.
  intros D F. unfold lsq_slope. rewrite (dot_affine _ _ _ _ F), (sum_affine _ _ _ _ F).
  unfold lsq_den in *. field. exact D.
Qed.

Lemma intercept_exact a b xs ys : ~ lsq_den xs == 0 -> Forall2 (affine a b) xs ys -> lsq_intercept xs ys == b.
Proof.
  intros D F. unfold lsq_intercept. rewrite (slope_exact _ _ _ _ D F), (sum_affine _ _ _ _ F).
  assert (N : ~ qlen xs == 0) by (intro E; apply D; apply den_nil_len; exact E).
  field. exact N.
Qed.

Theorem linreg_exact a b xs ys v r :
  Forall2 (affine a b) xs ys -> linreg_Q xs ys v = Some r -> r == a * v + b.
Proof.
  intros F H. unfold linreg_Q in H. destruct (Qeq_bool (lsq_den xs) 0) eqn:E; [discriminate|].
  assert (D : ~ lsq_den xs == 0) by (intro X; apply Qeq_bool_iff in X; rewrite X in E; discriminate).
  inversion H. unfold li_eval_Q. rewrite (slope_exact _ _ _ _ D F), (intercept_exact _ _ _ _ D F). reflexivity.
Qed.

(* ---------- the routine is defined as soon as two abscissae differ ---------- *)
Fixpoint sqdiff (x : Q) (l : list Q) : Q :=
  match l with
  | [] => 0
  | y :: r => (x - y) * (x - y) + sqdiff x r
  end.

Lemma sqdiff_expand x l : sqdiff x l == qlen l * (x * x) - 2 * x * qsum l + qdot l l.
Proof.
  induction l as [|y r IH].
  - unfold qlen, qsum. simpl. ring.
  - simpl sqdiff. rewrite IH, qlen_cons, qsum_cons, qdot_cons. ring.
Qed.

Lemma sq_nonneg (z : Q) : 0 <= z * z.
Proof.
  destruct (Qlt_le_dec z 0) as [L|L].
  - setoid_replace (z * z) with ((- z) * (- z)) by ring. apply Qmult_le_0_compat; lra.
  - apply Qmult_le_0_compat; assumption.
Qed.

Lemma sq_pos (z : Q) : ~ z == 0 -> 0 < z * z.
Proof.
  intro N. destruct (Qlt_le_dec z 0) as [L|L].
  - setoid_replace (z * z) with ((- z) * (- z)) by ring. apply Qmult_lt_0_compat; lra.
  - assert (0 < z) by (destruct (Qlt_le_dec 0 z) as [X|X]; [exact X | exfalso; apply N; apply Qle_antisym; assumption]).
    apply Qmult_lt_0_compat; assumption.
Qed.

Lemma sqdiff_nonneg x l : 0 <= sqdiff x l.
Proof.
  induction l as [|y r IH]; simpl; [lra|].
  pose proof (sq_nonneg (x - y)). lra.
Qed.

Lemma sqdiff_pos x y l : In y l -> ~ x == y -> 0 < sqdiff x l.
Proof.
  induction l as [|z r IH]; simpl; intros I N; [contradiction|].
  pose proof (sqdiff_nonneg x r). destruct I as [->|I].
  - assert (0 < (x - y) * (x - y)) by (apply sq_pos; intro E; apply N; lra).
    lra.
  - pose proof (IH I N). pose proof (sq_nonneg (x - z)). lra.
Qed.

Lemma den_cons x l : lsq_den (x :: l) == lsq_den l + sqdiff x l.
Proof.
  unfold lsq_den. rewrite sqdiff_expand, qlen_cons, qsum_cons, qdot_cons. ring.
Qed.

Lemma den_nonneg l : 0 <= lsq_den l.
Proof.
  induction l as [|x l IH].
  - unfold lsq_den, qlen, qsum. simpl. lra.
  - rewrite den_cons. pose proof (sqdiff_nonneg x l). lra.
Qed.

Lemma den_pos l x y : In x l -> In y l -> ~ x == y -> 0 < lsq_den l.
Proof.
  induction l as [|z r IH]; intros Ix Iy N; [contradiction|].
  rewrite den_cons. pose proof (den_nonneg r). pose proof (sqdiff_nonneg z r).
  destruct Ix as [->|Ix], Iy as [->|Iy].
  - exfalso. apply N. reflexivity.
  - pose proof (sqdiff_pos _ _ _ Iy N). lra.
  - assert (N' : ~ y == x) by (intro E; apply N; symmetry; exact E).
    pose proof (sqdiff_pos _ _ _ Ix N'). lra.
  - pose proof (IH Ix Iy N). lra.
Qed.

Theorem linreg_defined xs ys v x y :
  In x xs -> In y xs -> ~ x == y -> exists r, linreg_Q xs ys v = Some r.
Proof.
  intros Ix Iy N. unfold linreg_Q. destruct (Qeq_bool (lsq_den xs) 0) eqn:E; [|eexists; reflexivity].
  apply Qeq_bool_iff in E. pose proof (den_pos _ _ _ Ix Iy N). lra.
Qed.

(* ---------- linear trends through the interpolator ---------- *)
Definition exact_on_affine (interp : list Q -> list Q -> Q -> option Q) : Prop :=
  forall xs ys a b v r, Forall2 (affine a b) xs ys -> interp xs ys v = Some r -> r == a * v + b.

Lemma linreg_exact_on_affine : exact_on_affine linreg_Q.
Proof. intros xs ys a b v r F H. apply (linreg_exact _ _ _ _ _ _ F H). Qed.

Theorem linear_trend (interp : list Q -> list Q -> Q -> option Q) assign template rest q qv r ks a b p :
  exact_on_affine interp ->
  wf template = true -> is_obj template ->
  interp_at_Q interp assign (template :: rest) q qv = ONew r ->
  keys_of inject_Z q (template :: rest) = Some ks -> distinct Qeq_bool ks ->
  In p (fpaths template) -> (assign = true -> p <> qkeys q) ->
  (forall inst t y, In inst (template :: rest) -> abscissa inject_Z q inst = Some t ->
                    value_at inject_Z p inst = Some y -> y == a * t + b) ->
  exists v y, num_of inject_Z qv = Some v /\ get p r = Some (TF y) /\ y == a * v + b.
Proof.
  intros Ex W O H K D Ip NE Lin.
  destruct (per_leaf Qle_bool Qeq_bool inject_Z interp TF everything Q_order_ok assign template rest q qv r W O H ks K (allgood_everything ks) D) as [v [Hv L]].
  destruct (L p Ip NE) as [y [ys [G [Iy F]]]]. exists v, y. repeat split; auto.
  apply (Ex (sort_keys Qle_bool ks) ys a b v y); [|exact Iy].
  eapply Forall2_impl_in; [|exact F]. intros x y' _ [inst [Ii [A Va]]]. apply (Lin inst x y' Ii A Va).
Qed.

Theorem linear_trend_lsq assign template rest q qv r ks a b p :
  wf template = true -> is_obj template ->
  interp_at_Q linreg_Q assign (template :: rest) q qv = ONew r ->
  keys_of inject_Z q (template :: rest) = Some ks -> distinct Qeq_bool ks ->
  In p (fpaths template) -> (assign = true -> p <> qkeys q) ->
  (forall inst t y, In inst (template :: rest) -> abscissa inject_Z q inst = Some t ->
                    value_at inject_Z p inst = Some y -> y == a * t + b) ->
  exists v y, num_of inject_Z qv = Some v /\ get p r = Some (TF y) /\ y == a * v + b.
Proof. apply linear_trend. exact linreg_exact_on_affine. Qed.

(* ---------- the leaf kind of the code as it is (Gen.spline_returns_float, regenerated from /repo) ---------- *)
Lemma leaf_code (m : method) : leaf_F m = @TF PrimFloat.float.
Proof. destruct m; reflexivity. Qed.

(* ---------- dict-valued attributes (Gen.dict_paths_followed, regenerated from /repo) ---------- *)
(* when the path followers index into dicts, a dict behaves exactly like an attribute dict: same children,
   same updates, same well-formedness -- so every theorem of this development covers dict shapes *)
Lemma dict_followed {V} (fs : list (string * tree V)) (s : string) (x : tree V) :
  dictok = true ->
  child (KS s) (TD fs) = child (KS s) (TO fs) /\
  put (KS s) x (TD fs) = Some (TD (assoc_set s x fs)) /\
  wf (TD fs) = wf (TO fs).
Proof. intro D. simpl. rewrite D. repeat split. Qed.

(* when they do not (getattr on a dict raises), a float below a dict makes every off-node query raise:
   the walk reports the path, object_for_path cannot follow it *)
Lemma dict_not_followed {V} (fs : list (string * tree V)) (s : string) :
  dictok = false -> child (KS s) (TD fs) = None /\ wf (TD fs) = false.
Proof. intro D. simpl. rewrite D. split; reflexivity. Qed.

(* the code as it is (Gen.dict_paths_followed regenerated from /repo): the path followers index into dicts *)
Lemma dict_code : dictok = true.
Proof. reflexivity. Qed.

Lemma dict_is_attribute_dict {V} (fs : list (string * tree V)) (s : string) (x : tree V) :
  child (KS s) (TD fs) = child (KS s) (TO fs) /\
  put (KS s) x (TD fs) = Some (TD (assoc_set s x fs)) /\
  wf (TD fs) = wf (TO fs).
Proof. apply dict_followed. exact dict_code. Qed.
