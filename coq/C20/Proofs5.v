(* C20 lemmas, part 5: the binary64 instance.  Python's `<=` and `==` on floats are PrimFloat.leb / PrimFloat.eqb;
   on the non-NaN floats (infinities, -0.0 and +0.0 included) they satisfy the order laws the generic theorems
   need (Common/Float64Order.v, proved from the IEEE specification axioms FloatAxioms.eqb_spec / leb_spec of the
   Coq standard library), so the generic theorems hold of the binary64 model -- the one the correspondence check
   runs against the code -- with no hypothesis beyond "no NaN among the abscissae and the query value". *)
From Coq Require Import List String Bool Arith Lia ZArith Permutation.
From Coq Require Import Floats.PrimFloat.
From PAFCommon Require Import PyFloat Float64Order.
From PAFC20 Require Import Gen Model Proofs1 Proofs2 Proofs3.
Import ListNotations.
Open Scope list_scope.

(* the carrier: floats that are not NaN *)
Definition nonan (x : float) : bool := negb (is_nan x).
Definition no_nan (l : list float) : Prop := Forall (fun k => is_nan k = false) l.

Lemma nonan_iff x : nonan x = true <-> is_nan x = false.
Proof. unfold nonan. apply negb_true_iff. Qed.

Lemma no_nan_allgood l : no_nan l -> allgood nonan l.
Proof. intros H k I. apply nonan_iff. unfold no_nan in H. rewrite Forall_forall in H. apply H. exact I. Qed.

Theorem F_order_ok : order_ok_on nonan PrimFloat.leb PrimFloat.eqb.
Proof.
  constructor.
  - intros a Ga. apply f64_eqb_refl. apply nonan_iff. exact Ga.
  - intros a b _ _. apply f64_eqb_sym.
  - intros a b c _ _ _. apply f64_eqb_trans.
  - intros a b Ga Gb. apply f64_leb_total; apply nonan_iff; assumption.
  - intros a b c _ _ _. apply f64_leb_trans.
  - intros a b _ _. apply f64_leb_antisym.
  - intros a b _ E. apply nonan_iff. apply (eqb_true_ok _ _ E).
Qed.

Section F64.
  Variable ofZ : Z -> float.
  Variable interp : list float -> list float -> float -> option float.
  Variable mk : float -> tree float.
  Notation run := (interp_at PrimFloat.leb PrimFloat.eqb ofZ interp mk).

  Theorem known_point_F assign insts q qv v ks i inst k :
    num_of ofZ qv = Some v -> keys_of ofZ q insts = Some ks -> no_nan ks -> distinct PrimFloat.eqb ks ->
    nth_error insts i = Some inst -> abscissa ofZ q inst = Some k -> PrimFloat.eqb k v = true ->
    run assign insts q qv = OSame i.
  Proof.
    intros Hv K N D Ni A E.
    apply (known_point PrimFloat.leb PrimFloat.eqb ofZ interp mk nonan F_order_ok assign insts q qv v ks i inst k); auto.
    apply no_nan_allgood. exact N.
  Qed.

  Theorem per_leaf_F assign template rest q qv r :
    wf template = true -> is_obj template ->
    run assign (template :: rest) q qv = ONew r ->
    forall ks, keys_of ofZ q (template :: rest) = Some ks -> no_nan ks -> distinct PrimFloat.eqb ks ->
    exists v, num_of ofZ qv = Some v /\
      forall p, In p (fpaths template) -> (assign = true -> p <> qkeys q) ->
        exists y ys, get p r = Some (mk y) /\ interp (sort_keys PrimFloat.leb ks) ys v = Some y /\
          Forall2 (fun x y' => exists inst, In inst (template :: rest) /\ abscissa ofZ q inst = Some x /\
                                            value_at ofZ p inst = Some y') (sort_keys PrimFloat.leb ks) ys.
  Proof.
    intros W O H ks K N D.
    apply (per_leaf PrimFloat.leb PrimFloat.eqb ofZ interp mk nonan F_order_ok assign template rest q qv r W O H ks K); auto.
    apply no_nan_allgood. exact N.
  Qed.

  Theorem defined_F assign insts q qv ks F v :
    insts <> [] -> keys_of ofZ q insts = Some ks -> no_nan ks -> distinct PrimFloat.eqb ks -> same_shape F insts ->
    num_of ofZ qv = Some v ->
    (forall ys, List.length ys = List.length ks -> exists y, interp (sort_keys PrimFloat.leb ks) ys v = Some y) ->
    run assign insts q qv <> OErr.
  Proof.
    intros NE K N D Sh Hv Tot.
    apply (defined PrimFloat.leb PrimFloat.eqb ofZ interp mk nonan F_order_ok assign insts q qv ks F v); auto.
    apply no_nan_allgood. exact N.
  Qed.

  Theorem order_free_F assign insts insts' q qv ks F :
    Permutation insts insts' -> keys_of ofZ q insts = Some ks -> no_nan ks -> distinct PrimFloat.eqb ks -> same_shape F insts ->
    match run assign insts q qv, run assign insts' q qv with
    | OSame i, OSame j => nth_error insts' j = nth_error insts i /\ nth_error insts i <> None
    | ONew r, ONew r' => forall p, In p F -> get p r' = get p r
    | OErr, OErr => True
    | _, _ => False
    end.
  Proof.
    intros P K N D Sh.
    apply (order_free PrimFloat.leb PrimFloat.eqb ofZ interp mk nonan F_order_ok assign insts insts' q qv ks F); auto.
    apply no_nan_allgood. exact N.
  Qed.

  (* the sorted abscissae handed to the routine are sorted, a permutation of the abscissae, and the same
     whatever the order of the series *)
  Theorem sorted_abscissae_F ks :
    no_nan ks ->
    Sorted.StronglySorted (fun a b => PrimFloat.leb a b = true) (sort_keys PrimFloat.leb ks) /\
    Permutation (sort_keys PrimFloat.leb ks) ks /\
    (forall ks', distinct PrimFloat.eqb ks -> Permutation ks ks' -> sort_keys PrimFloat.leb ks = sort_keys PrimFloat.leb ks').
  Proof.
    intro N. pose proof (no_nan_allgood _ N) as G. split; [|split].
    - apply (sort_keys_sorted PrimFloat.leb PrimFloat.eqb nonan F_order_ok ks G).
    - apply sort_keys_perm.
    - intros ks' D P. apply (sort_keys_perm_eq PrimFloat.leb PrimFloat.eqb nonan F_order_ok ks ks' G D P).
  Qed.
End F64.

(* ---------- the hypotheses as decided on every run (Model.hyps_F) imply the hypotheses of the theorems ---------- *)
Lemma nonan_b_sound l : nonan_b l = true -> no_nan l.
Proof.
  unfold nonan_b, no_nan. rewrite forallb_forall, Forall_forall. intros H k I. apply negb_true_iff. apply H. exact I.
Qed.

Lemma distinct_b_sound l : no_nan l -> distinct_b PrimFloat.eqb l = true -> distinct PrimFloat.eqb l.
Proof.
  induction l as [|a r IH]; intros N H.
  - split; [constructor | intros a b []].
  - simpl in H. apply andb_true_iff in H. destruct H as [H1 H2]. rewrite forallb_forall in H1.
    unfold no_nan in N. inversion N as [|? ? Na Nr]. subst. destruct (IH Nr H2) as [ND DD].
    assert (X : forall b, In b r -> PrimFloat.eqb a b = false /\ PrimFloat.eqb b a = false).
    { intros b Ib. specialize (H1 b Ib). apply andb_true_iff in H1. destruct H1 as [X1 X2].
      apply negb_true_iff in X1, X2. auto. }
    split.
    + constructor; [|exact ND]. intro Ia. destruct (X a Ia) as [X1 _]. rewrite (f64_eqb_refl a Na) in X1. discriminate.
    + intros x y [<-|Ix] [<-|Iy] NE.
      * contradiction.
      * apply (X y Iy).
      * apply (X x Ix).
      * apply DD; assumption.
Qed.

Theorem hyps_F_sound insts q qv :
  hyps_F insts q qv = true ->
  exists ks v, keys_of Z2F q insts = Some ks /\ num_of Z2F qv = Some v /\ no_nan ks /\ is_nan v = false /\
               distinct PrimFloat.eqb ks.
Proof.
  unfold hyps_F, keys_of. destruct (all_some (map (abscissa Z2F q) insts)) as [ks|]; [|discriminate].
  destruct (num_of Z2F qv) as [v|]; [|discriminate]. intro H. apply andb_true_iff in H. destruct H as [H1 H2].
  apply nonan_b_sound in H1. unfold no_nan in H1. inversion H1 as [|? ? Nv Nk]. subst.
  exists ks, v. split; [reflexivity|]. split; [reflexivity|]. split; [exact Nk|]. split; [exact Nv|]. apply distinct_b_sound; assumption.
Qed.
