From PAFC20 Require Import Gen Model.
