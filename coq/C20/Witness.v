(* Non-vacuity examples and the refutation witness for C20. *)
From Coq Require Import List String Bool ZArith QArith Permutation Lia.
From Coq Require Import Floats.PrimFloat.
From PAFCommon Require Import PyFloat Float64Order.
From PAFC20 Require Import Gen Model Proofs1 Proofs2 Proofs3 Proofs4 Proofs5.
Import ListNotations.
Open Scope list_scope.
Open Scope string_scope.

(* the hypotheses on the comparisons are satisfiable: integers, and (Proofs4.Q_order_ok) rationals *)
Lemma Z_order_ok : order_ok Z.leb Z.eqb.
Proof.
  constructor; intros.
  - apply Z.eqb_refl.
  - rewrite Z.eqb_sym. assumption.
  - apply Z.eqb_eq in H2, H3. apply Z.eqb_eq. congruence.
  - destruct (Z.leb_spec a b); [left; reflexivity | right; apply Z.leb_le; lia].
  - apply Z.leb_le in H2, H3. apply Z.leb_le. lia.
  - apply Z.leb_le in H1, H2. apply Z.eqb_eq. lia.
  - reflexivity.
Qed.

(* a three-point series over Z, supplied out of order; the "routine" is piecewise-constant
   (value of the nearest abscissa on the left), enough to see alignment of x and y *)
Definition g (t c s : Z) : tree Z :=
  TO [("t", TF t); ("gaussian", TO [("centre", TF c); ("sigma", TF s); ("_cache", TF 99%Z)]); ("n", TI 7%Z)].
Definition series : list (tree Z) := [g 20 200 5; g 0 100 5; g 10 150 5]%Z.
Definition left_value : list Z -> list Z -> Z -> option Z :=
  fix go xs ys v := match xs, ys with
                    | x :: xs', y :: ys' => if (x <=? v)%Z then (match go xs' ys' v with Some r => Some r | None => Some y end) else None
                    | _, _ => None
                    end.
Definition run (assign : bool) insts qv := interp_at Z.leb Z.eqb (fun z => z) left_value TF assign insts ["t"] qv.

Example series_hypotheses :
  keys_of (fun z => z) ["t"] series = Some [20; 0; 10]%Z /\ distinct Z.eqb [20; 0; 10]%Z /\
  same_shape (fpaths (g 0 0 0)) series.
Proof.
  split; [reflexivity|]. split.
  - split.
    + repeat constructor; simpl; intuition discriminate.
    + intros a b Ha Hb N. apply Z.eqb_neq. exact N.
  - intros t [<-|[<-|[<-|[]]]]; repeat split; reflexivity.
Qed.

Example known_point_returns_the_instance : run false series (TF 10%Z) = OSame 2.
Proof. vm_compute. reflexivity. Qed.

Example int_query_matches_too : run false series (TI 10%Z) = OSame 2.
Proof. vm_compute. reflexivity. Qed.

Example off_node_current_code :
  run false series (TF 15%Z) =
  ONew (TO [("t", TF 10%Z); ("gaussian", TO [("centre", TF 150%Z); ("sigma", TF 5%Z); ("_cache", TF 99%Z)]); ("n", TI 7%Z)]).
Proof. vm_compute. reflexivity. Qed.

Example off_node_result_kept :
  run true series (TF 15%Z) =
  ONew (TO [("t", TF 15%Z); ("gaussian", TO [("centre", TF 150%Z); ("sigma", TF 5%Z); ("_cache", TF 99%Z)]); ("n", TI 7%Z)]).
Proof. vm_compute. reflexivity. Qed.

Example any_order_same_leaves :
  run false (rev series) (TF 15%Z) =
  ONew (TO [("t", TF 10%Z); ("gaussian", TO [("centre", TF 150%Z); ("sigma", TF 5%Z); ("_cache", TF 99%Z)]); ("n", TI 7%Z)])
  /\ Permutation series (rev series).
Proof. split; [vm_compute; reflexivity | apply Permutation_rev]. Qed.

(* floats inside a tuple are not reached by the walk: they stay those of the first instance *)
Example tuple_leaves_not_interpolated :
  interp_at Z.leb Z.eqb (fun z => z) left_value TF false
    [TO [("t", TF 0%Z); ("centre", TT [TF 1%Z; TF 2%Z])]; TO [("t", TF 10%Z); ("centre", TT [TF 11%Z; TF 12%Z])]] ["t"] (TF 10%Z) = OSame 1
  /\ interp_at Z.leb Z.eqb (fun z => z) left_value TF false
    [TO [("t", TF 0%Z); ("centre", TT [TF 1%Z; TF 2%Z])]; TO [("t", TF 10%Z); ("centre", TT [TF 11%Z; TF 12%Z])]] ["t"] (TF 12%Z)
     = ONew (TO [("t", TF 10%Z); ("centre", TT [TF 1%Z; TF 2%Z])]).
Proof. split; vm_compute; reflexivity. Qed.

(* history: before /repo dbd9428 the result of the final replacing_for_path was discarded (assign = false);
   an int-typed interpolation variable was then never touched, whatever the routine does.  The code now is
   the variant assign = true (Props.C20_variable_code is stated with Gen.assigns_final). *)
Lemma variable_refuted_witness :
  exists (insts : list (tree Z)) (q : list string) (qv r : tree Z),
    interp_at Z.leb Z.eqb (fun z => z) (fun _ _ v => Some v) TF false insts q qv = ONew r /\
    get (qkeys q) r <> Some qv.
Proof.
  exists [TO [("t", TI 0%Z); ("c", TF 1%Z)]; TO [("t", TI 2%Z); ("c", TF 3%Z)]], ["t"], (TF 1%Z),
         (TO [("t", TI 0%Z); ("c", TF 1%Z)]).
  split; [vm_compute; reflexivity | vm_compute; discriminate].
Qed.

(* exact least squares: defined on two different abscissae, exact on a line, None on a single abscissa *)
Example lsq_on_a_line : option_map Qred (linreg_Q [0; 1; 2] [1; 3; 5] 4) = Some 9.
Proof. vm_compute. reflexivity. Qed.
Example lsq_not_on_a_line : option_map Qred (linreg_Q [0; 1; 2] [0; 1; 4] 3) = Some (17 # 3).
Proof. vm_compute. reflexivity. Qed.
Example lsq_single_abscissa : linreg_Q [1; 1] [2; 3] 0 = None.
Proof. vm_compute. reflexivity. Qed.
Example affine_hypothesis_holds : Forall2 (affine 2 1) [0; 1; 2] [1; 3; 5].
Proof. repeat constructor; unfold affine; reflexivity. Qed.

(* the Q instance end to end: a series that is linear in t, interpolated with least squares *)
Definition gq (t c : Q) : tree Q := TO [("t", TF t); ("centre", TF c)].
Example linear_series_Q :
  match interp_at_Q linreg_Q true [gq 2 5; gq 0 1; gq 1 3] ["t"] (TF (7 # 2)) with
  | ONew r => option_map (fun x => match x with TF y => Some (Qred y) | _ => None end) (get [KS "centre"] r) = Some (Some 8)
              /\ get [KS "t"] r = Some (TF (7 # 2))
  | _ => False
  end.
Proof. vm_compute. split; reflexivity. Qed.

(* C20_defined is not vacuous: the series above meets its hypotheses and the query is answered *)
Example defined_hypotheses_hold :
  series <> [] /\ (forall ys, List.length ys = 3%nat -> exists y, left_value (sort_keys Z.leb [20; 0; 10]%Z) ys 15%Z = Some y)
  /\ run true series (TF 15%Z) <> OErr.
Proof.
  split; [discriminate|]. split; [|vm_compute; discriminate].
  intros [|a [|b [|c [|d ys]]]] H; try discriminate. vm_compute. eexists. reflexivity.
Qed.

(* a routine whose result is not a float (mk = TA, a 0-d array): the parameters of the returned instance are
   not found by the walk any more, so a series made of such results is not interpolated.  History: this
   was SplineInterpolator before /repo 3338de6 (finding spline-result-is-array, fixed); the code now
   stores floats (Props.C20_leaf_code) *)
Example array_results_are_not_walked_legacy :
  match interp_at Z.leb Z.eqb (fun z => z) left_value TA true series ["t"] (TF 15%Z) with
  | ONew r => fpaths r = [[KS "t"]] /\ get [KS "gaussian"; KS "centre"] r = Some (TA 150%Z)
  | _ => False
  end.
Proof. vm_compute. split; reflexivity. Qed.

(* the executable form of the theorems' hypotheses, as evaluated on every binary64 run by check_case *)
Example hypotheses_decided_on_a_carrier :
  order_ok_b Z.leb Z.eqb [15; 20; 0; 10]%Z = true /\ distinct_b Z.eqb [20; 0; 10]%Z = true /\
  distinct_b Z.eqb [20; 0; 20]%Z = false.
Proof. vm_compute. repeat split. Qed.

(* a float parameter below a dict-valued attribute: interpolated since /repo e3bcee5 (Props.C20_dict_code);
   before, the query raised (finding float-inside-dict-raises, fixed).  One statement for both variants,
   decided by the flag regenerated from the source *)
Definition gd (t a : Z) : tree Z := TO [("t", TF t); ("g", TO [("params", TD [("a", TF a)])])].
Example dict_parameter :
  interp_at Z.leb Z.eqb (fun z => z) left_value TF true [gd 0 100; gd 10 150; gd 20 200] ["t"] (TF 15%Z) =
  if dictok then ONew (gd 15 150) else OErr.
Proof. vm_compute. reflexivity. Qed.
Example dict_known_point_either_way :
  interp_at Z.leb Z.eqb (fun z => z) left_value TF true [gd 0 100; gd 10 150; gd 20 200] ["t"] (TF 10%Z) = OSame 1.
Proof. vm_compute. reflexivity. Qed.

(* ---------- binary64: the instance the correspondence runs; hypotheses = no NaN (Proofs5) ---------- *)
Definition gf (t c : float) : tree float := TO [("t", TF t); ("centre", TF c)].
(* a "routine" that shows which x and y it was handed: y of the largest abscissa not above v, else the first y *)
Definition left_value_F : list float -> list float -> float -> option float :=
  fix go xs ys v := match xs, ys with
                    | x :: xs', y :: ys' => match go xs' ys' v with
                                            | Some r => if PrimFloat.leb (hd x xs') v then Some r else Some y
                                            | None => Some y
                                            end
                    | _, _ => None
                    end.
Definition runF (insts : list (tree float)) (qv : tree float) :=
  interp_at PrimFloat.leb PrimFloat.eqb Z2F left_value_F TF true insts ["t"] qv.

Definition ks_zero : list float := [1; neg_zero; -2]%float.
Definition series_zero : list (tree float) := [gf 1 10; gf neg_zero 20; gf (-2) 30]%float.
Definition ks_inf : list float := [1; infinity; neg_infinity; 0]%float.
Definition series_inf : list (tree float) := [gf 1 10; gf infinity 20; gf neg_infinity 30; gf 0 40]%float.

Lemma no_nan_dec l : nonan_b l = true -> no_nan l.
Proof. apply nonan_b_sound. Qed.

(* the hypotheses of the binary64 theorems hold of series containing -0.0 and the infinities *)
Example f64_hypotheses_zero :
  keys_of Z2F ["t"] series_zero = Some ks_zero /\ no_nan ks_zero /\ distinct PrimFloat.eqb ks_zero /\
  same_shape (fpaths (gf 0 0)) series_zero.
Proof.
  split; [reflexivity|]. assert (N : no_nan ks_zero) by (apply no_nan_dec; vm_compute; reflexivity).
  split; [exact N|]. split; [apply (distinct_b_sound _ N); vm_compute; reflexivity|].
  intros t [<-|[<-|[<-|[]]]]; repeat split; reflexivity.
Qed.

Example f64_hypotheses_inf :
  keys_of Z2F ["t"] series_inf = Some ks_inf /\ no_nan ks_inf /\ distinct PrimFloat.eqb ks_inf /\
  same_shape (fpaths (gf 0 0)) series_inf.
Proof.
  split; [reflexivity|]. assert (N : no_nan ks_inf) by (apply no_nan_dec; vm_compute; reflexivity).
  split; [exact N|]. split; [apply (distinct_b_sound _ N); vm_compute; reflexivity|].
  intros t [<-|[<-|[<-|[<-|[]]]]]; repeat split; reflexivity.
Qed.

(* -0.0 == 0.0: a query at +0.0 (float or int 0) returns the instance whose abscissa is -0.0, although the two floats differ *)
Example f64_known_point_signed_zero :
  runF series_zero (TF 0%float) = OSame 1 /\ runF series_zero (TI 0%Z) = OSame 1 /\
  PrimFloat.eqb neg_zero 0%float = true /\ neg_zero <> 0%float.
Proof.
  split; [vm_compute; reflexivity|]. split; [vm_compute; reflexivity|]. split; [reflexivity|].
  apply f64_zero_eqb_neg_zero.
Qed.

(* a -0.0 / +0.0 pair of abscissae is ONE dict key (not `distinct`): the later instance takes the earlier key *)
Example f64_signed_zero_pair_collides :
  distinct_b PrimFloat.eqb [neg_zero; 0]%float = false /\
  map fst (vm_build PrimFloat.eqb [neg_zero; 0]%float [gf neg_zero 1; gf 0 2]%float) = [neg_zero] /\
  interp_at PrimFloat.leb PrimFloat.eqb Z2F left_value_F TF true [gf neg_zero 1; gf 0 2]%float ["t"] (TF neg_zero) = OSame 1.
Proof. repeat split; vm_compute; reflexivity. Qed.

(* infinite abscissae are ordinary members of the order: sorted first / last, known points, off-node queries answered *)
Example f64_infinite_abscissae :
  sort_keys PrimFloat.leb ks_inf = [neg_infinity; 0; 1; infinity]%float /\
  runF series_inf (TF infinity) = OSame 1 /\ runF series_inf (TF neg_infinity) = OSame 2 /\
  runF series_inf (TF 0.5%float) = ONew (gf 0.5 40) /\
  runF (rev series_inf) (TF 0.5%float) = ONew (gf 0.5 40) /\
  runF series_inf (TF 7%float) = ONew (gf 7 10).
Proof. repeat split; vm_compute; reflexivity. Qed.

Example f64_defined_hypotheses_hold :
  forall ys, List.length ys = List.length ks_inf -> exists y, left_value_F (sort_keys PrimFloat.leb ks_inf) ys 0.5%float = Some y.
Proof.
  intros [|a [|b [|c [|d [|e ys]]]]] H; try discriminate. vm_compute. eexists. reflexivity.
Qed.

(* ---------- why the hypothesis is needed: NaN ---------- *)
Definition ks_nan : list float := [1; nan; 0]%float.
Definition series_nan : list (tree float) := [gf 1 10; gf nan 20; gf 0 30]%float.

Lemma distinct_ks_nan : distinct PrimFloat.eqb ks_nan.
Proof.
  split.
  - assert (A : forall a b : float, fbits_eqb a b = false -> a <> b).
    { intros a b H E. subst b. unfold fbits_eqb in H. destruct (FloatOps.Prim2SF a) as [[|]|[|]| |[|] m e]; simpl in H; try discriminate.
      - rewrite Pos.eqb_refl, Z.eqb_refl in H. discriminate.
      - rewrite Pos.eqb_refl, Z.eqb_refl in H. discriminate. }
    repeat constructor; simpl; intuition; try (revert H0; apply A; vm_compute; reflexivity); try (revert H; apply A; vm_compute; reflexivity).
  - intros a b [<-|[<-|[<-|[]]]] [<-|[<-|[<-|[]]]] NE; try (exfalso; apply NE; reflexivity); vm_compute; reflexivity.
Qed.

(* the unrelativised laws fail on floats: NaN is not equal to itself and not comparable *)
Lemma F_order_everything_refuted : ~ order_ok PrimFloat.leb PrimFloat.eqb.
Proof. intro H. pose proof (eqb_refl _ _ _ H nan eq_refl) as X. vm_compute in X. discriminate. Qed.

(* sorted() by insertion is order dependent as soon as a NaN is among the keys *)
Lemma sorted_abscissae_nan_refuted :
  exists ks ks', distinct PrimFloat.eqb ks /\ Permutation ks ks' /\ sort_keys PrimFloat.leb ks <> sort_keys PrimFloat.leb ks'.
Proof.
  exists ks_nan, [0; 1; nan]%float. split; [exact distinct_ks_nan|]. split.
  - unfold ks_nan. apply Permutation_sym. apply (perm_trans (l' := [1; 0; nan]%float)); [apply perm_swap|]. constructor. apply perm_swap.
  - intro H. assert (X : flist_eqb (sort_keys PrimFloat.leb ks_nan) (sort_keys PrimFloat.leb [0; 1; nan]%float) = true) by (rewrite H; vm_compute; reflexivity).
    vm_compute in X. discriminate.
Qed.

(* C20_defined_f64 without its no-NaN hypothesis: every other hypothesis holds, the routine is total, the query raises
   (model: a NaN key is never found again by ==; CPython finds it by object identity -- NaN abscissae are outside the
   correspondence as well as outside the theorems) *)
Lemma defined_nan_refuted :
  exists (insts : list (tree float)) (ks : list float) (F : list path) (qv : tree float) (v : float),
    insts <> [] /\ keys_of Z2F ["t"] insts = Some ks /\ distinct PrimFloat.eqb ks /\ same_shape F insts /\
    num_of Z2F qv = Some v /\
    (forall ys, List.length ys = List.length ks -> exists y, left_value_F (sort_keys PrimFloat.leb ks) ys v = Some y) /\
    interp_at PrimFloat.leb PrimFloat.eqb Z2F left_value_F TF true insts ["t"] qv = OErr.
Proof.
  exists series_nan, ks_nan, (fpaths (gf 0 0)), (TF 0.5%float), 0.5%float.
  split; [discriminate|]. split; [reflexivity|]. split; [exact distinct_ks_nan|]. split.
  - intros t [<-|[<-|[<-|[]]]]; repeat split; reflexivity.
  - split; [reflexivity|]. split; [|vm_compute; reflexivity].
    intros [|a [|b [|c [|d ys]]]] H; try discriminate. vm_compute. eexists. reflexivity.
Qed.

(* a known point stated with Leibniz equality of the abscissa and the value fails at NaN *)
Lemma known_point_identity_nan_refuted :
  exists (insts : list (tree float)) (ks : list float) (i : nat) (inst : tree float) (k : float),
    keys_of Z2F ["t"] insts = Some ks /\ distinct PrimFloat.eqb ks /\ nth_error insts i = Some inst /\
    abscissa Z2F ["t"] inst = Some k /\
    interp_at PrimFloat.leb PrimFloat.eqb Z2F left_value_F TF true insts ["t"] (TF k) <> OSame i.
Proof.
  exists series_nan, ks_nan, 1%nat, (gf nan 20), nan.
  split; [reflexivity|]. split; [exact distinct_ks_nan|]. split; [reflexivity|]. split; [reflexivity|].
  vm_compute. discriminate.
Qed.

(* the run-time decision of the hypotheses: true on the series above, false as soon as a NaN or a repeated key occurs *)
Example hyps_F_examples :
  hyps_F series_zero ["t"] (TF 0.5%float) = true /\ hyps_F series_inf ["t"] (TF infinity) = true /\
  hyps_F series_nan ["t"] (TF 0.5%float) = false /\ hyps_F series_zero ["t"] (TF nan) = false /\
  hyps_F [gf neg_zero 1; gf 0 2]%float ["t"] (TF 1%float) = false /\
  laws_F series_nan ["t"] (TF nan) = true /\ laws_F series_inf ["t"] (TF 0.5%float) = true.
Proof. repeat split; vm_compute; reflexivity. Qed.

(* a NaN QUERY value needs no hypothesis: it equals no abscissa, so the query is off-node in every order and the
   same leaves are computed (C20_order_free_f64 has no hypothesis on the value) *)
Example f64_nan_query_is_off_node :
  match runF series_zero (TF nan), runF (rev series_zero) (TF nan) with
  | ONew r, ONew r' => get [KS "centre"] r = get [KS "centre"] r' /\ get [KS "centre"] r = Some (TF 30%float)
  | _, _ => False
  end.
Proof. vm_compute. split; reflexivity. Qed.
