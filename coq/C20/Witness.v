(* Non-vacuity examples and the refutation witness for C20. *)
From Coq Require Import List String Bool ZArith QArith Permutation Lia.
From PAFC20 Require Import Gen Model Proofs1 Proofs2 Proofs3 Proofs4.
Import ListNotations.
Open Scope list_scope.
Open Scope string_scope.

(* the hypotheses on the comparisons are satisfiable: integers, and (Proofs4.Q_order_ok) rationals *)
Lemma Z_order_ok : order_ok Z.leb Z.eqb.
Proof.
  constructor; intros.
  - apply Z.eqb_refl.
  - rewrite Z.eqb_sym. assumption.
  - apply Z.eqb_eq in H, H0. apply Z.eqb_eq. congruence.
  - destruct (Z.leb_spec a b); [left; reflexivity | right; apply Z.leb_le; lia].
  - apply Z.leb_le in H, H0. apply Z.leb_le. lia.
  - apply Z.leb_le in H, H0. apply Z.eqb_eq. lia.
Qed.

(* a three-point series over Z, supplied out of order; the "routine" is piecewise-constant
   (value of the nearest abscissa on the left), enough to see alignment of x and y *)
Definition g (t c s : Z) : tree Z :=
  TO [("t", TF t); ("gaussian", TO [("centre", TF c); ("sigma", TF s); ("_cache", TF 99%Z)]); ("n", TI 7%Z)].
Definition series : list (tree Z) := [g 20 200 5; g 0 100 5; g 10 150 5]%Z.
Definition left_value : list Z -> list Z -> Z -> option Z :=
  fix go xs ys v := match xs, ys with
                    | x :: xs', y :: ys' => if (x <=? v)%Z then (match go xs' ys' v with Some r => Some r | None => Some y end) else None
                    | _, _ => None
                    end.
Definition run (assign : bool) insts qv := interp_at Z.leb Z.eqb (fun z => z) left_value TF assign insts ["t"] qv.

Example series_hypotheses :
  keys_of (fun z => z) ["t"] series = Some [20; 0; 10]%Z /\ distinct Z.eqb [20; 0; 10]%Z /\
  same_shape (fpaths (g 0 0 0)) series.
Proof.
  split; [reflexivity|]. split.
  - split.
    + repeat constructor; simpl; intuition discriminate.
    + intros a b Ha Hb N. apply Z.eqb_neq. exact N.
  - intros t [<-|[<-|[<-|[]]]]; repeat split; reflexivity.
Qed.

Example known_point_returns_the_instance : run false series (TF 10%Z) = OSame 2.
Proof. vm_compute. reflexivity. Qed.

Example int_query_matches_too : run false series (TI 10%Z) = OSame 2.
Proof. vm_compute. reflexivity. Qed.

Example off_node_current_code :
  run false series (TF 15%Z) =
  ONew (TO [("t", TF 10%Z); ("gaussian", TO [("centre", TF 150%Z); ("sigma", TF 5%Z); ("_cache", TF 99%Z)]); ("n", TI 7%Z)]).
Proof. vm_compute. reflexivity. Qed.

Example off_node_result_kept :
  run true series (TF 15%Z) =
  ONew (TO [("t", TF 15%Z); ("gaussian", TO [("centre", TF 150%Z); ("sigma", TF 5%Z); ("_cache", TF 99%Z)]); ("n", TI 7%Z)]).
Proof. vm_compute. reflexivity. Qed.

Example any_order_same_leaves :
  run false (rev series) (TF 15%Z) =
  ONew (TO [("t", TF 10%Z); ("gaussian", TO [("centre", TF 150%Z); ("sigma", TF 5%Z); ("_cache", TF 99%Z)]); ("n", TI 7%Z)])
  /\ Permutation series (rev series).
Proof. split; [vm_compute; reflexivity | apply Permutation_rev]. Qed.

(* floats inside a tuple are not reached by the walk: they stay those of the first instance *)
Example tuple_leaves_not_interpolated :
  interp_at Z.leb Z.eqb (fun z => z) left_value TF false
    [TO [("t", TF 0%Z); ("centre", TT [TF 1%Z; TF 2%Z])]; TO [("t", TF 10%Z); ("centre", TT [TF 11%Z; TF 12%Z])]] ["t"] (TF 10%Z) = OSame 1
  /\ interp_at Z.leb Z.eqb (fun z => z) left_value TF false
    [TO [("t", TF 0%Z); ("centre", TT [TF 1%Z; TF 2%Z])]; TO [("t", TF 10%Z); ("centre", TT [TF 11%Z; TF 12%Z])]] ["t"] (TF 12%Z)
     = ONew (TO [("t", TF 10%Z); ("centre", TT [TF 1%Z; TF 2%Z])]).
Proof. split; vm_compute; reflexivity. Qed.

(* history: before /repo dbd9428 the result of the final replacing_for_path was discarded (assign = false);
   an int-typed interpolation variable was then never touched, whatever the routine does.  The code now is
   the variant assign = true (Props.C20_variable_code is stated with Gen.assigns_final). *)
Lemma variable_refuted_witness :
  exists (insts : list (tree Z)) (q : list string) (qv r : tree Z),
    interp_at Z.leb Z.eqb (fun z => z) (fun _ _ v => Some v) TF false insts q qv = ONew r /\
    get (qkeys q) r <> Some qv.
Proof.
  exists [TO [("t", TI 0%Z); ("c", TF 1%Z)]; TO [("t", TI 2%Z); ("c", TF 3%Z)]], ["t"], (TF 1%Z),
         (TO [("t", TI 0%Z); ("c", TF 1%Z)]).
  split; [vm_compute; reflexivity | vm_compute; discriminate].
Qed.

(* exact least squares: defined on two different abscissae, exact on a line, None on a single abscissa *)
Example lsq_on_a_line : option_map Qred (linreg_Q [0; 1; 2] [1; 3; 5] 4) = Some 9.
Proof. vm_compute. reflexivity. Qed.
Example lsq_not_on_a_line : option_map Qred (linreg_Q [0; 1; 2] [0; 1; 4] 3) = Some (17 # 3).
Proof. vm_compute. reflexivity. Qed.
Example lsq_single_abscissa : linreg_Q [1; 1] [2; 3] 0 = None.
Proof. vm_compute. reflexivity. Qed.
Example affine_hypothesis_holds : Forall2 (affine 2 1) [0; 1; 2] [1; 3; 5].
Proof. repeat constructor; unfold affine; reflexivity. Qed.

(* the Q instance end to end: a series that is linear in t, interpolated with least squares *)
Definition gq (t c : Q) : tree Q := TO [("t", TF t); ("centre", TF c)].
Example linear_series_Q :
  match interp_at_Q linreg_Q true [gq 2 5; gq 0 1; gq 1 3] ["t"] (TF (7 # 2)) with
  | ONew r => option_map (fun x => match x with TF y => Some (Qred y) | _ => None end) (get [KS "centre"] r) = Some (Some 8)
              /\ get [KS "t"] r = Some (TF (7 # 2))
  | _ => False
  end.
Proof. vm_compute. split; reflexivity. Qed.

(* C20_defined is not vacuous: the series above meets its hypotheses and the query is answered *)
Example defined_hypotheses_hold :
  series <> [] /\ (forall ys, List.length ys = 3%nat -> exists y, left_value (sort_keys Z.leb [20; 0; 10]%Z) ys 15%Z = Some y)
  /\ run true series (TF 15%Z) <> OErr.
Proof.
  split; [discriminate|]. split; [|vm_compute; discriminate].
  intros [|a [|b [|c [|d ys]]]] H; try discriminate. vm_compute. eexists. reflexivity.
Qed.

(* a routine whose result is not a float (mk = TA, a 0-d array): the parameters of the returned instance are
   not found by the walk any more, so a series made of such results is not interpolated.  History: this
   was SplineInterpolator before /repo 3338de6 (finding spline-result-is-array, fixed); the code now
   stores floats (Props.C20_leaf_code) *)
Example array_results_are_not_walked_legacy :
  match interp_at Z.leb Z.eqb (fun z => z) left_value TA true series ["t"] (TF 15%Z) with
  | ONew r => fpaths r = [[KS "t"]] /\ get [KS "gaussian"; KS "centre"] r = Some (TA 150%Z)
  | _ => False
  end.
Proof. vm_compute. split; reflexivity. Qed.

(* the executable form of the theorems' hypotheses, as evaluated on every binary64 run by check_case *)
Example hypotheses_decided_on_a_carrier :
  order_ok_b Z.leb Z.eqb [15; 20; 0; 10]%Z = true /\ distinct_b Z.eqb [20; 0; 10]%Z = true /\
  distinct_b Z.eqb [20; 0; 20]%Z = false.
Proof. vm_compute. repeat split. Qed.

(* a float parameter below a dict-valued attribute: interpolated since /repo e3bcee5 (Props.C20_dict_code);
   before, the query raised (finding float-inside-dict-raises, fixed).  One statement for both variants,
   decided by the flag regenerated from the source *)
Definition gd (t a : Z) : tree Z := TO [("t", TF t); ("g", TO [("params", TD [("a", TF a)])])].
Example dict_parameter :
  interp_at Z.leb Z.eqb (fun z => z) left_value TF true [gd 0 100; gd 10 150; gd 20 200] ["t"] (TF 15%Z) =
  if dictok then ONew (gd 15 150) else OErr.
Proof. vm_compute. reflexivity. Qed.
Example dict_known_point_either_way :
  interp_at Z.leb Z.eqb (fun z => z) left_value TF true [gd 0 100; gd 10 150; gd 20 200] ["t"] (TF 10%Z) = OSame 1.
Proof. vm_compute. reflexivity. Qed.
