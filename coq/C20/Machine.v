(* C20: ONE interpolator object used many times, as a state machine.

   The object carries a public attribute the user may change between queries -- `instances` (assigned a new list,
   or the very list handed to the constructor edited in place by the caller: the constructor keeps the reference) --
   and, explicitly, a cache of earlier answers, so that "the answer of a query depends only on the series the object
   holds NOW and on the query, never on earlier queries or earlier series" is a statement ABOUT the machine and not
   a consequence of having no state.  The code that exists has no cache (policy never_hit: _value_map is rebuilt by
   every __getitem__).  A cache policy is any test `hit stored current` deciding whether the answer stored for the
   inputs `stored` may be handed out for `current`; it is SOUND when a hit implies equal fresh answers.
   Generic in S (the series), Q (a query: path and value), A (the answer: known instance / new instance / raises). *)
From Coq Require Import List Bool.
Import ListNotations.

Section Machine.
  Variables S Q A : Type.
  (* what a FRESH interpolator built over series s answers to query q (Model.interp_at) *)
  Variable answer : S -> Q -> A.
  (* the cache policy *)
  Variable hit : S * Q -> S * Q -> bool.

  Inductive op :=
  | OSet (s : S)          (* interp.instances = s   /  the caller edits the list it handed over *)
  | OAsk (q : Q).         (* interp[path == value], also a query that raises *)

  Definition cache := list (S * Q * A).
  Record state := mkstate { st_series : S; st_cache : cache }.
  Definition init (s : S) : state := mkstate s [].

  Fixpoint lookup (k : S * Q) (c : cache) : option A :=
    match c with
    | [] => None
    | (k', a) :: c' => if hit k' k then Some a else lookup k c'
    end.

  Definition step (st : state) (o : op) : state * option A :=
    match o with
    | OSet s => (mkstate s (st_cache st), None)
    | OAsk q =>
        match lookup (st_series st, q) (st_cache st) with
        | Some a => (st, Some a)
        | None => let a := answer (st_series st) q in
                  (mkstate (st_series st) ((st_series st, q, a) :: st_cache st), Some a)
        end
    end.

  Fixpoint run (st : state) (ops : list op) : list A :=
    match ops with
    | [] => []
    | o :: rest =>
        let (st', r) := step st o in
        match r with Some a => a :: run st' rest | None => run st' rest end
    end.

  (* what fresh objects answer: a function of the current series and the query alone *)
  Fixpoint expected (s : S) (ops : list op) : list A :=
    match ops with
    | [] => []
    | OSet s' :: rest => expected s' rest
    | OAsk q :: rest => answer s q :: expected s rest
    end.

  Definition sound : Prop := forall s q s' q', hit (s, q) (s', q') = true -> answer s q = answer s' q'.
  Definition cache_valid (c : cache) : Prop := forall s q a, In (s, q, a) c -> a = answer s q.

  Lemma lookup_sound : sound -> forall k c a, cache_valid c -> lookup k c = Some a -> a = answer (fst k) (snd k).
  Proof.
    intros Hs [s q] c. induction c as [|[[s' q'] a'] c IH]; simpl; intros a Hv Hl; [discriminate|].
    assert (Hv' : cache_valid c) by (intros x y z Hin; apply Hv; right; exact Hin).
    destruct (hit (s', q') (s, q)) eqn:E.
    - injection Hl as <-. rewrite (Hv s' q' a' (or_introl eq_refl)). apply Hs. exact E.
    - apply IH; assumption.
  Qed.

  Lemma step_sound : sound -> forall st o, cache_valid (st_cache st) ->
    cache_valid (st_cache (fst (step st o))) /\
    match o with
    | OSet s => st_series (fst (step st o)) = s /\ snd (step st o) = None
    | OAsk q => st_series (fst (step st o)) = st_series st /\ snd (step st o) = Some (answer (st_series st) q)
    end.
  Proof.
    intros Hs st o Hv. destruct o as [s | q]; simpl.
    - split; [exact Hv | split; reflexivity].
    - destruct (lookup (st_series st, q) (st_cache st)) as [a|] eqn:E; simpl.
      + split; [exact Hv|]. split; [reflexivity|]. f_equal.
        exact (lookup_sound Hs (st_series st, q) (st_cache st) a Hv E).
      + split; [|split; reflexivity].
        intros x y z [Hin | Hin]; [injection Hin as <- <- <-; reflexivity | apply Hv; exact Hin].
  Qed.

  Lemma run_expected_gen : sound -> forall ops st, cache_valid (st_cache st) -> run st ops = expected (st_series st) ops.
  Proof.
    intros Hs ops. induction ops as [|o rest IH]; intros st Hv; [reflexivity|].
    destruct (step_sound Hs st o Hv) as [Hc Ho]. simpl.
    destruct (step st o) as [st' r]; simpl in *. destruct o as [s | q].
    - destruct Ho as [H1 H2]. subst r. rewrite <- H1. apply IH. exact Hc.
    - destruct Ho as [H1 H2]. subst r. f_equal. rewrite <- H1. apply IH. exact Hc.
  Qed.

  (* every query of one object, whatever came before, answers what a fresh object over the current series answers *)
  Theorem history_independent : sound -> forall s0 ops, run (init s0) ops = expected s0 ops.
  Proof. intros Hs s0 ops. apply (run_expected_gen Hs ops (init s0)). intros s q a []. Qed.

  (* the last query of a history: only the series set last and the query itself matter *)
  Corollary last_query_fresh : sound -> forall s0 s (before : list op) (q : Q),
    run (init s0) (before ++ [OSet s; OAsk q]) = run (init s0) before ++ [answer s q].
  Proof.
    intros Hs s0 s before q. rewrite !history_independent by exact Hs.
    generalize s0. induction before as [|b rest IH]; intros s1; simpl; [reflexivity|].
    destruct b; simpl; rewrite ?IH; reflexivity.
  Qed.
End Machine.

Arguments OSet {S Q}.
Arguments OAsk {S Q}.

(* the policy of the code as it is: nothing is ever reused *)
Definition never_hit {S Q : Type} : S * Q -> S * Q -> bool := fun _ _ => false.
Lemma never_hit_sound : forall (S Q A : Type) (answer : S -> Q -> A), sound S Q A answer never_hit.
Proof. intros S Q A answer s q s' q' H. discriminate H. Qed.
