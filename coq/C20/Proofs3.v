(* C20 lemmas, part 3: AbstractInterpolator.__getitem__ -- known points, per-leaf
   characterisation, frame, the interpolation variable, order independence. *)
From Coq Require Import List String Bool Arith Lia ZArith Permutation Sorting.Sorted.
From PAFC20 Require Import Gen Model Proofs1 Proofs2.
Import ListNotations.
Open Scope list_scope.

Lemma key_eq_dec (a b : key) : {a = b} + {a <> b}.
Proof. decide equality; [apply string_dec | apply Nat.eq_dec]. Qed.
Definition path_eq_dec : forall p q : path, {p = q} + {p <> q} := list_eq_dec key_eq_dec.

Lemma nth_error_seq n : forall a i, i < n -> nth_error (seq a n) i = Some (a + i).
Proof.
  induction n as [|n IH]; intros a i H; [lia|]. destruct i; simpl.
  - rewrite Nat.add_0_r. reflexivity.
  - rewrite IH by lia. f_equal. lia.
Qed.

Lemma nth_error_map_inv {A B} (f : A -> B) l : forall i y,
  nth_error (map f l) i = Some y -> exists x, nth_error l i = Some x /\ f x = y.
Proof.
  induction l as [|a l IH]; intros [|i] y H; simpl in H; try discriminate.
  - inversion H. exists a. auto.
  - apply IH. exact H.
Qed.

Lemma Forall2_impl_in {A B} (P Q : A -> B -> Prop) l m :
  (forall x y, In x l -> P x y -> Q x y) -> Forall2 P l m -> Forall2 Q l m.
Proof.
  intros H F. induction F as [|x y l m Pxy F IH]; constructor.
  - apply H; [left; reflexivity | exact Pxy].
  - apply IH. intros; apply H; [right|]; assumption.
Qed.

Definition is_obj {V} (t : tree V) : Prop := match t with TO _ => True | _ => False end.

Section Main.
  Context {V : Type}.
  Variable leb eqb : V -> V -> bool.
  Variable ofZ : Z -> V.
  Variable interp : list V -> list V -> V -> option V.
  Variable mk : V -> tree V.
  Variable good : V -> bool.
  Hypothesis OK : order_ok_on good leb eqb.
  Notation tree := (tree V).

  Definition keys_of (q : list string) (insts : list tree) : option (list V) :=
    all_some (map (abscissa ofZ q) insts).
  Definition value_at (p : path) (t : tree) : option V :=
    match get p t with Some x => num_of ofZ x | None => None end.

  Lemma obj_paths_nonempty (t : tree) p : is_obj t -> In p (fpaths t) -> p <> [].
  Proof.
    destruct t; simpl; try contradiction. intros _ H.
    apply obj_paths_in in H. destruct H as [k [c [p' [E _]]]]. subst. discriminate.
  Qed.

  (* ---------- the loop over the float paths of the template ---------- *)
  Section Fold.
    Variable val : path -> option V.
    Variable template : tree.
    Hypothesis W : wf template = true.
    Hypothesis O : is_obj template.

    Definition stepv (acc : option tree) (p : path) : option tree :=
      match acc with
      | None => None
      | Some cur => match val p with Some y => set p (mk y) cur | None => None end
      end.

    Lemma fold_none paths : fold_left stepv paths None = None.
    Proof. induction paths; simpl; auto. Qed.

    Definition inv (done : list path) (cur : tree) : Prop :=
      (forall p, In p done -> exists y, val p = Some y /\ get p cur = Some (mk y)) /\
      (forall p', (forall p, In p done -> comparable p p' = false) -> get p' cur = get p' template).

    Lemma inv_nil : inv [] template.
    Proof. split; [intros p []| reflexivity]. Qed.

    Lemma inv_step done cur p y cur' :
      (forall p0, In p0 done -> In p0 (fpaths template)) -> In p (fpaths template) ->
      inv done cur -> val p = Some y -> set p (mk y) cur = Some cur' -> inv (done ++ [p]) cur'.
    Proof.
      intros Sub Ip [I1 I2] Hv S. split.
      - intros p0 H0. destruct (path_eq_dec p0 p) as [->|N].
        + exists y. split; [exact Hv | apply (get_set_same _ _ _ _ S)].
        + apply in_app_or in H0. destruct H0 as [H0|[H0|[]]]; [|symmetry in H0; contradiction].
          destruct (I1 _ H0) as [y0 [Hv0 G0]]. exists y0. split; [exact Hv0|].
          rewrite (get_set_other _ _ _ _ _ S); [exact G0|].
          apply (fpaths_incomparable ofZ template); auto.
      - intros p' H. rewrite (get_set_other _ _ _ _ _ S).
        + apply I2. intros p0 H0. apply H. apply in_or_app. left. exact H0.
        + apply H. apply in_or_app. right. left. reflexivity.
    Qed.

    Lemma fold_inv todo : forall done cur r,
      (forall p, In p (done ++ todo) -> In p (fpaths template)) -> inv done cur ->
      fold_left stepv todo (Some cur) = Some r -> inv (done ++ todo) r.
    Proof.
      induction todo as [|p todo IH]; intros done cur r Sub I H; simpl in H.
      - inversion H. subst. rewrite app_nil_r. exact I.
      - destruct (val p) as [y|] eqn:Hv; [|rewrite fold_none in H; discriminate].
        destruct (set p (mk y) cur) as [cur'|] eqn:S; [|rewrite fold_none in H; discriminate].
        replace (done ++ p :: todo) with ((done ++ [p]) ++ todo) by (rewrite <- app_assoc; reflexivity).
        apply (IH _ cur'); [rewrite <- app_assoc; exact Sub | | exact H].
        apply (inv_step done cur p y); auto.
        + intros p0 H0. apply Sub. apply in_or_app. left. exact H0.
        + apply Sub. apply in_or_app. right. left. reflexivity.
    Qed.

    Lemma fold_succeeds todo : forall done cur,
      (forall p, In p (done ++ todo) -> In p (fpaths template)) -> inv done cur ->
      (forall p, In p todo -> exists y, val p = Some y) -> exists r, fold_left stepv todo (Some cur) = Some r.
    Proof.
      induction todo as [|p todo IH]; intros done cur Sub I Hv; simpl; [eexists; reflexivity|].
      destruct (Hv p (or_introl eq_refl)) as [y Hy]. rewrite Hy.
      assert (Ip : In p (fpaths template)) by (apply Sub; apply in_or_app; right; left; reflexivity).
      assert (Sd : forall p0, In p0 done -> In p0 (fpaths template)) by (intros; apply Sub; apply in_or_app; left; assumption).
      assert (G : exists c, get p cur = Some c).
      { destruct I as [I1 I2]. destruct (in_dec path_eq_dec p done) as [Hd|Hd].
        - destruct (I1 _ Hd) as [y0 [_ G]]. eexists; exact G.
        - rewrite I2.
          + destruct (fpaths_get _ _ W Ip) as [v0 G]. eexists; exact G.
          + intros p0 H0. apply (fpaths_incomparable ofZ template); auto. intro; subst; contradiction. }
      destruct G as [c G].
      destruct (set_succeeds p (mk y) c cur (obj_paths_nonempty _ _ O Ip) G) as [cur' S]. rewrite S.
      apply (IH (done ++ [p]) cur').
      - rewrite <- app_assoc. exact Sub.
      - apply (inv_step done cur p y); auto.
      - intros; apply Hv; right; assumption.
    Qed.

    Lemma fold_all_defined todo : forall cur r,
      fold_left stepv todo (Some cur) = Some r -> forall p, In p todo -> exists y, val p = Some y.
    Proof.
      induction todo as [|p todo IH]; intros cur r H p0 I; [contradiction|]. simpl in H.
      destruct (val p) as [y|] eqn:Hv; [|rewrite fold_none in H; discriminate].
      destruct (set p (mk y) cur) as [cur'|]; [|rewrite fold_none in H; discriminate].
      destruct I as [<-|I]; [eexists; exact Hv | apply (IH _ _ H _ I)].
    Qed.
  End Fold.

  (* ---------- unfolding __getitem__ ---------- *)
  Lemma step_is_stepv vm xs v : step eqb ofZ interp mk vm xs v = stepv (leaf_value eqb ofZ interp vm xs v).
  Proof. reflexivity. Qed.

  Lemma interp_at_new assign insts q qv r :
    interp_at leb eqb ofZ interp mk assign insts q qv = ONew r ->
    exists v ks template rest,
      num_of ofZ qv = Some v /\ keys_of q insts = Some ks /\ insts = template :: rest /\
      dict_get eqb v (vm_build eqb ks insts) = None /\
      exists r0,
        fold_left (stepv (leaf_value eqb ofZ interp (vm_build eqb ks insts) (sort_keys leb (map fst (vm_build eqb ks insts))) v))
                  (fpaths template) (Some template) = Some r0 /\
        (if assign then set (qkeys q) qv r0 = Some r else r = r0).
  Proof.
    unfold interp_at, keys_of. intro H.
    destruct (num_of ofZ qv) as [v|]; [|discriminate].
    destruct (all_some (map (abscissa ofZ q) insts)) as [ks|]; [|discriminate].
    destruct (dict_get eqb v (vm_build eqb ks insts)) as [[i t]|] eqn:Dg; [discriminate|].
    destruct insts as [|template rest]; [discriminate|].
    rewrite step_is_stepv in H.
    destruct (fold_left _ (fpaths template) (Some template)) as [r0|] eqn:Fo; [|discriminate].
    exists v, ks, template, rest. repeat split; auto. exists r0. split; [exact Fo|].
    destruct assign.
    - destruct (set (qkeys q) qv r0); [inversion H; reflexivity | discriminate].
    - inversion H. reflexivity.
  Qed.

  Lemma keys_of_length q insts ks : keys_of q insts = Some ks -> List.length ks = List.length insts.
  Proof.
    unfold keys_of. intro H. apply all_some_spec in H.
    rewrite <- (map_length Some ks), <- H, map_length. reflexivity.
  Qed.

  Lemma keys_of_nth q insts ks i x :
    keys_of q insts = Some ks -> nth_error ks i = Some x ->
    exists inst, nth_error insts i = Some inst /\ abscissa ofZ q inst = Some x.
  Proof.
    unfold keys_of. intros H N. apply all_some_spec in H.
    assert (X : nth_error (map (abscissa ofZ q) insts) i = Some (Some x)) by (rewrite H; apply map_nth_error; exact N).
    apply nth_error_map_inv in X. exact X.
  Qed.

  Lemma keys_of_in q insts ks inst :
    keys_of q insts = Some ks -> In inst insts ->
    exists i x, nth_error insts i = Some inst /\ nth_error ks i = Some x /\ abscissa ofZ q inst = Some x.
  Proof.
    unfold keys_of. intros H I. apply all_some_spec in H.
    destruct (In_nth_error _ _ I) as [i N]. exists i.
    assert (X : nth_error (map Some ks) i = Some (abscissa ofZ q inst)) by (rewrite <- H; apply map_nth_error; exact N).
    apply nth_error_map_inv in X. destruct X as [x [Nx E]]. exists x. auto.
  Qed.

  Lemma numbered_nth (insts : list tree) i inst : nth_error insts i = Some inst -> nth_error (numbered insts) i = Some (i, inst).
  Proof.
    intro N. unfold numbered. apply nth_error_combine; [|exact N].
    apply (nth_error_seq _ 0 i). apply nth_error_Some. rewrite N. discriminate.
  Qed.

  Lemma vm_entry q insts ks i x inst :
    keys_of q insts = Some ks -> distinct eqb ks ->
    nth_error ks i = Some x -> nth_error insts i = Some inst ->
    In (x, (i, inst)) (vm_build eqb ks insts) /\ distinct eqb (map fst (vm_build eqb ks insts)) /\
    map fst (vm_build eqb ks insts) = ks.
  Proof.
    intros K D Nx Ni. pose proof (keys_of_length _ _ _ K) as L.
    rewrite (vm_build_distinct _ _ _ L D).
    assert (M : map fst (combine ks (numbered insts)) = ks).
    { apply map_fst_combine. unfold numbered. etransitivity; [|symmetry; apply combine_length]. rewrite seq_length. lia. }
    rewrite M. split; [|split; [exact D | reflexivity]].
    apply (nth_error_In _ i). apply nth_error_combine; [exact Nx | apply numbered_nth; exact Ni].
  Qed.

  (* the value handed to scipy for abscissa x is the one of the instance whose abscissa is x *)
  Lemma y_at_series q insts ks inst x p :
    keys_of q insts = Some ks -> allgood good ks -> distinct eqb ks -> In inst insts -> abscissa ofZ q inst = Some x ->
    y_at eqb ofZ (vm_build eqb ks insts) p x = value_at p inst.
  Proof.
    intros K GK D I A. destruct (keys_of_in _ _ _ _ K I) as [i [x' [Ni [Nx A']]]].
    rewrite A in A'. inversion A'. subst x'.
    destruct (vm_entry _ _ _ _ _ _ K D Nx Ni) as [E [Dv M]].
    assert (Gx : good x = true) by (apply GK; apply (nth_error_In _ _ Nx)).
    assert (Gm : allgood good (map fst (vm_build eqb ks insts))) by (rewrite M; exact GK).
    unfold y_at. rewrite (dict_get_eq leb eqb good OK _ _ _ _ Gm Dv E (eqb_refl _ _ _ OK x Gx)). reflexivity.
  Qed.

  (* ---------- known points ---------- *)
  Lemma known_point assign insts q qv v ks i inst k :
    num_of ofZ qv = Some v -> keys_of q insts = Some ks -> allgood good ks -> distinct eqb ks ->
    nth_error insts i = Some inst -> abscissa ofZ q inst = Some k -> eqb k v = true ->
    interp_at leb eqb ofZ interp mk assign insts q qv = OSame i.
  Proof.
    intros Hv K GK D Ni A E. unfold interp_at. fold (keys_of q insts). rewrite Hv, K.
    assert (Nk : nth_error ks i = Some k).
    { unfold keys_of in K. apply all_some_spec in K.
      assert (X : nth_error (map Some ks) i = Some (Some k)) by (rewrite <- K, <- A; apply map_nth_error; exact Ni).
      apply nth_error_map_inv in X. destruct X as [x [Nx Ex]]. inversion Ex. subst. exact Nx. }
    destruct (vm_entry _ _ _ _ _ _ K D Nk Ni) as [En [Dv M]].
    assert (Gm : allgood good (map fst (vm_build eqb ks insts))) by (rewrite M; exact GK).
    rewrite (dict_get_eq leb eqb good OK _ _ _ _ Gm Dv En E). reflexivity.
  Qed.

  Lemma same_sound assign insts q qv i :
    interp_at leb eqb ofZ interp mk assign insts q qv = OSame i ->
    forall ks, keys_of q insts = Some ks -> distinct eqb ks ->
    exists v inst k, num_of ofZ qv = Some v /\ nth_error insts i = Some inst /\
                     abscissa ofZ q inst = Some k /\ eqb k v = true.
  Proof.
    unfold interp_at. fold (keys_of q insts). intros H ks K D. rewrite K in H.
    destruct (num_of ofZ qv) as [v|]; [|discriminate].
    destruct (dict_get eqb v (vm_build eqb ks insts)) as [[j t]|] eqn:Dg.
    - inversion H. subst j. destruct (dict_get_some _ _ _ _ Dg) as [k [I E]].
      rewrite (vm_build_distinct _ _ _ (keys_of_length _ _ _ K) D) in I.
      destruct (in_combine_nth _ _ _ _ I) as [n [Nk Nn]].
      destruct (keys_of_nth _ _ _ _ _ K Nk) as [inst [Ni A]].
      rewrite (numbered_nth _ _ _ Ni) in Nn. inversion Nn. subst.
      exists v, t, k. auto.
    - destruct insts as [|template rest]; [discriminate|].
      destruct (fold_left _ _ _); [|discriminate]. destruct assign; [|discriminate].
      destruct (set _ _ _); discriminate.
  Qed.

  Lemma no_known_point insts q ks v :
    keys_of q insts = Some ks -> (forall k, In k ks -> eqb k v = false) -> distinct eqb ks ->
    dict_get eqb v (vm_build eqb ks insts) = None.
  Proof.
    intros K H D. apply dict_get_none. intros k I.
    rewrite (vm_build_distinct _ _ _ (keys_of_length _ _ _ K) D) in I.
    rewrite map_fst_combine in I; [apply H; exact I|].
    unfold numbered. etransitivity; [|symmetry; apply combine_length]. rewrite seq_length.
    rewrite (keys_of_length _ _ _ K). lia.
  Qed.

  (* ---------- per-leaf characterisation, frame, the variable ---------- *)
  Lemma template_abscissa q template rest ks :
    keys_of q (template :: rest) = Some ks ->
    exists a, get (qkeys q) template = Some a /\ num_of ofZ a <> None.
  Proof.
    intro K. destruct (keys_of_in _ _ _ template K (or_introl eq_refl)) as [i [x [_ [_ A]]]].
    unfold abscissa in A. destruct (get (qkeys q) template) as [a|]; [|discriminate].
    exists a. split; [reflexivity|]. rewrite A. discriminate.
  Qed.

  Lemma float_path_vs_variable q template a p :
    wf template = true -> get (qkeys q) template = Some a -> num_of ofZ a <> None ->
    In p (fpaths template) -> p <> qkeys q -> comparable (qkeys q) p = false.
  Proof.
    intros W G N I NE. destruct (comparable (qkeys q) p) eqn:C; [|reflexivity]. exfalso. apply NE.
    destruct (fpaths_get _ _ W I) as [v0 G0]. symmetry.
    eapply (leaf_paths_comparable ofZ); eauto. simpl. discriminate.
  Qed.

  Theorem per_leaf_raw assign template rest q qv r :
    wf template = true -> is_obj template ->
    interp_at leb eqb ofZ interp mk assign (template :: rest) q qv = ONew r ->
    exists v ks, num_of ofZ qv = Some v /\ keys_of q (template :: rest) = Some ks /\
      forall p, In p (fpaths template) -> (assign = true -> p <> qkeys q) ->
        exists y, leaf_value eqb ofZ interp (vm_build eqb ks (template :: rest))
                             (sort_keys leb (map fst (vm_build eqb ks (template :: rest)))) v p = Some y
                  /\ get p r = Some (mk y).
  Proof.
    intros W O H. destruct (interp_at_new _ _ _ _ _ H) as [v [ks [t0 [rest0 [Hv [K [E [Dg [r0 [Fo Fin]]]]]]]]]].
    inversion E. subst t0 rest0. exists v, ks. repeat split; auto.
    intros p Ip NE.
    pose proof (fold_inv _ template W (fpaths template) [] template r0 (fun p H => H) (inv_nil _ _) Fo) as [I1 _].
    destruct (I1 p Ip) as [y [Hy G]]. exists y. split; [exact Hy|].
    destruct assign; [|subst; exact G].
    destruct (template_abscissa _ _ _ _ K) as [a [Ga Na]].
    rewrite (get_set_other _ _ _ _ _ Fin); [exact G|].
    apply (float_path_vs_variable q template a); auto.
  Qed.

  Theorem per_leaf assign template rest q qv r :
    wf template = true -> is_obj template ->
    interp_at leb eqb ofZ interp mk assign (template :: rest) q qv = ONew r ->
    forall ks, keys_of q (template :: rest) = Some ks -> allgood good ks -> distinct eqb ks ->
    exists v, num_of ofZ qv = Some v /\
      forall p, In p (fpaths template) -> (assign = true -> p <> qkeys q) ->
        exists y ys, get p r = Some (mk y) /\ interp (sort_keys leb ks) ys v = Some y /\
          Forall2 (fun x y' => exists inst, In inst (template :: rest) /\ abscissa ofZ q inst = Some x /\
                                            value_at p inst = Some y') (sort_keys leb ks) ys.
  Proof.
    intros W O H ks K GK D. destruct (per_leaf_raw _ _ _ _ _ _ W O H) as [v [ks' [Hv [K' L]]]].
    rewrite K in K'. inversion K'. subst ks'. exists v. split; [exact Hv|].
    intros p Ip NE. destruct (L p Ip NE) as [y [Ly G]]. unfold leaf_value in Ly.
    destruct (yvals _ _ _ _ _) as [ys|] eqn:Y; [|discriminate].
    assert (M : map fst (vm_build eqb ks (template :: rest)) = ks).
    { rewrite (vm_build_distinct _ _ _ (keys_of_length _ _ _ K) D). apply map_fst_combine.
      unfold numbered. etransitivity; [|symmetry; apply combine_length]. rewrite seq_length.
      rewrite (keys_of_length _ _ _ K). lia. }
    rewrite M in *. exists y, ys. repeat split; auto.
    unfold yvals in Y. apply all_some_forall2 in Y.
    eapply Forall2_impl_in; [|exact Y]. intros x y' Ix Hy. simpl in Hy.
    assert (Ik : In x ks) by (apply (Permutation_in _ (sort_keys_perm leb ks)); exact Ix).
    destruct (In_nth_error _ _ Ik) as [i Nx].
    destruct (keys_of_nth _ _ _ _ _ K Nx) as [inst [Ni A]].
    exists inst. split; [apply (nth_error_In _ _ Ni)|]. split; [exact A|].
    rewrite <- (y_at_series _ _ _ _ _ p K GK D (nth_error_In _ _ Ni) A). exact Hy.
  Qed.

  (* what must not change: everything that is not below / above an interpolated leaf or the variable *)
  Theorem frame assign template rest q qv r :
    wf template = true -> is_obj template ->
    interp_at leb eqb ofZ interp mk assign (template :: rest) q qv = ONew r ->
    forall p', (forall p, In p (fpaths template) -> comparable p p' = false) ->
               (assign = true -> comparable (qkeys q) p' = false) ->
               get p' r = get p' template.
  Proof.
    intros W O H p' Hp Hq. destruct (interp_at_new _ _ _ _ _ H) as [v [ks [t0 [rest0 [Hv [K [E [Dg [r0 [Fo Fin]]]]]]]]]].
    inversion E. subst t0 rest0.
    pose proof (fold_inv _ template W (fpaths template) [] template r0 (fun p H => H) (inv_nil _ _) Fo) as [_ I2].
    destruct assign; [|subst; apply I2; exact Hp].
    rewrite (get_set_other _ _ _ _ _ Fin); [apply I2; exact Hp | apply Hq; reflexivity].
  Qed.

  (* the interpolation variable: with the final replacement kept it is exactly the requested value *)
  Theorem variable_assigned template rest q qv r :
    interp_at leb eqb ofZ interp mk true (template :: rest) q qv = ONew r -> get (qkeys q) r = Some qv.
  Proof.
    intro H. destruct (interp_at_new _ _ _ _ _ H) as [v [ks [t0 [rest0 [_ [_ [_ [_ [r0 [_ Fin]]]]]]]]]].
    apply (get_set_same _ _ _ _ Fin).
  Qed.

  (* with the final replacement discarded it is whatever the loop left there *)
  Theorem variable_discarded template rest q qv r :
    wf template = true -> is_obj template ->
    interp_at leb eqb ofZ interp mk false (template :: rest) q qv = ONew r ->
    forall ks, keys_of q (template :: rest) = Some ks -> allgood good ks -> distinct eqb ks ->
    (* the template holds a float at the variable, found by the walk *)
    In (qkeys q) (fpaths template) ->
    exists v, num_of ofZ qv = Some v /\
      (* the routine reproduces the identity data x -> x at v *)
      (interp (sort_keys leb ks) (sort_keys leb ks) v = Some v -> get (qkeys q) r = Some (mk v)).
  Proof.
    intros W O H ks K GK D Iq. destruct (per_leaf _ _ _ _ _ _ W O H ks K GK D) as [v [Hv L]].
    exists v. split; [exact Hv|]. intro Id.
    destruct (L _ Iq (fun e => ltac:(discriminate))) as [y [ys [G [Iy F]]]].
    assert (E : ys = sort_keys leb ks).
    { clear - F. induction F as [|x y' l m [inst [_ [A Va]]] F IH]; [reflexivity|]. f_equal; [|exact IH].
      unfold abscissa in A. unfold value_at in Va. rewrite A in Va. inversion Va. reflexivity. }
    subst ys. rewrite Id in Iy. inversion Iy. subst y. exact G.
  Qed.

  (* ---------- order independence ---------- *)
  Lemma keys_of_perm q insts insts' ks :
    keys_of q insts = Some ks -> Permutation insts insts' ->
    exists ks', keys_of q insts' = Some ks' /\ Permutation ks ks'.
  Proof.
    unfold keys_of. intros K P. apply all_some_spec in K.
    assert (P' : Permutation (map (abscissa ofZ q) insts') (map Some ks)).
    { rewrite <- K. apply Permutation_map. apply Permutation_sym. exact P. }
    apply Permutation_map_inv in P'. destruct P' as [ks' [E P'']].
    exists ks'. split; [apply all_some_spec; exact E | exact P''].
  Qed.

  Lemma leaf_value_perm q insts insts' ks ks' v p :
    keys_of q insts = Some ks -> keys_of q insts' = Some ks' -> Permutation insts insts' ->
    Permutation ks ks' -> allgood good ks -> distinct eqb ks ->
    leaf_value eqb ofZ interp (vm_build eqb ks insts) (sort_keys leb (map fst (vm_build eqb ks insts))) v p =
    leaf_value eqb ofZ interp (vm_build eqb ks' insts') (sort_keys leb (map fst (vm_build eqb ks' insts'))) v p.
  Proof.
    intros K K' P Pk GK D. pose proof (distinct_perm eqb _ _ D Pk) as D'.
    pose proof (allgood_perm good _ _ GK (Permutation_sym Pk)) as GK'.
    assert (M : forall i k (Kk : keys_of q i = Some k), distinct eqb k -> map fst (vm_build eqb k i) = k).
    { intros i k Kk Dk. rewrite (vm_build_distinct _ _ _ (keys_of_length _ _ _ Kk) Dk). apply map_fst_combine.
      unfold numbered. etransitivity; [|symmetry; apply combine_length]. rewrite seq_length.
      rewrite (keys_of_length _ _ _ Kk). lia. }
    rewrite (M _ _ K D), (M _ _ K' D'), <- (sort_keys_perm_eq leb eqb good OK _ _ GK D Pk).
    unfold leaf_value, yvals. erewrite all_some_ext; [reflexivity|].
    intros x Ix. assert (Ik : In x ks) by (apply (Permutation_in _ (sort_keys_perm leb ks)); exact Ix).
    destruct (In_nth_error _ _ Ik) as [i Nx]. destruct (keys_of_nth _ _ _ _ _ K Nx) as [inst [Ni A]].
    rewrite (y_at_series _ _ _ _ _ p K GK D (nth_error_In _ _ Ni) A).
    rewrite (y_at_series _ _ _ _ _ p K' GK' D' (Permutation_in _ P (nth_error_In _ _ Ni)) A). reflexivity.
  Qed.

  Definition same_shape (F : list path) (insts : list tree) : Prop :=
    forall t, In t insts -> wf t = true /\ is_obj t /\ fpaths t = F.

  Lemma order_free_same assign insts insts' q qv ks i :
    Permutation insts insts' -> keys_of q insts = Some ks -> allgood good ks -> distinct eqb ks ->
    interp_at leb eqb ofZ interp mk assign insts q qv = OSame i ->
    exists j, interp_at leb eqb ofZ interp mk assign insts' q qv = OSame j /\ nth_error insts' j = nth_error insts i.
  Proof.
    intros P K GK D H. destruct (same_sound _ _ _ _ _ H ks K D) as [v [inst [k [Hv [Ni [A E]]]]]].
    destruct (keys_of_perm _ _ _ _ K P) as [ks' [K' Pk]].
    destruct (In_nth_error _ _ (Permutation_in _ P (nth_error_In _ _ Ni))) as [j Nj].
    exists j. split; [|rewrite Ni; exact Nj].
    apply (known_point assign insts' q qv v ks' j inst k); auto.
    - apply (allgood_perm good _ _ GK (Permutation_sym Pk)).
    - apply (distinct_perm eqb _ _ D Pk).
  Qed.

  Lemma order_free_new assign insts insts' q qv ks F r :
    Permutation insts insts' -> keys_of q insts = Some ks -> allgood good ks -> distinct eqb ks -> same_shape F insts ->
    interp_at leb eqb ofZ interp mk assign insts q qv = ONew r ->
    exists r', interp_at leb eqb ofZ interp mk assign insts' q qv = ONew r' /\
               forall p, In p F -> get p r' = get p r.
  Proof.
    intros P K GK D Sh H.
    destruct (interp_at_new _ _ _ _ _ H) as [v [ks0 [template [rest [Hv [K0 [E [Dg [r0 [Fo Fin]]]]]]]]]].
    rewrite K in K0. inversion K0. subst ks0. clear K0.
    destruct (keys_of_perm _ _ _ _ K P) as [ks' [K' Pk]].
    pose proof (distinct_perm eqb _ _ D Pk) as D'.
    pose proof (allgood_perm good _ _ GK (Permutation_sym Pk)) as GK'.
    destruct insts' as [|template' rest']; [subst insts; apply Permutation_sym, Permutation_nil in P; discriminate|].
    assert (It : In template insts) by (subst insts; left; reflexivity).
    assert (It' : In template' insts) by (apply (Permutation_in _ (Permutation_sym P)); left; reflexivity).
    destruct (Sh _ It) as [W [O Fp]]. destruct (Sh _ It') as [W' [O' Fp']].
    (* no known point in the permuted series either *)
    assert (Dg' : dict_get eqb v (vm_build eqb ks' (template' :: rest')) = None).
    { apply (no_known_point _ q); auto. intros k Ik.
      destruct (eqb k v) eqn:Ek; [|reflexivity]. exfalso.
      apply (Permutation_in _ (Permutation_sym Pk)) in Ik. destruct (In_nth_error _ _ Ik) as [i Nk].
      destruct (keys_of_nth _ _ _ _ _ K Nk) as [inst [Ni A]].
      pose proof (known_point assign insts q qv v ks i inst k Hv K GK D Ni A Ek) as X. rewrite X in H. discriminate. }
    (* the same values are computed for every float path *)
    set (val := leaf_value eqb ofZ interp (vm_build eqb ks insts) (sort_keys leb (map fst (vm_build eqb ks insts))) v) in *.
    set (val' := leaf_value eqb ofZ interp (vm_build eqb ks' (template' :: rest'))
                            (sort_keys leb (map fst (vm_build eqb ks' (template' :: rest')))) v).
    assert (Ev : forall p, val p = val' p) by (intro p; apply (leaf_value_perm q); auto).
    subst insts.
    pose proof (fold_inv val template W (fpaths template) [] template r0 (fun p H => H) (inv_nil _ _) Fo) as [I1 I2].
    simpl in I1.
    destruct (fold_succeeds val' template' W' O' (fpaths template') [] template' (fun p H => H) (inv_nil _ _)) as [r0' Fo'].
    { intros p Ip. rewrite Fp', <- Fp in Ip. destruct (I1 p Ip) as [y [Hy _]]. exists y. rewrite <- Ev. exact Hy. }
    pose proof (fold_inv val' template' W' (fpaths template') [] template' r0' (fun p H => H) (inv_nil _ _) Fo') as [I1' I2'].
    simpl in I1'.
    assert (L0 : forall p, In p F -> get p r0' = get p r0).
    { intros p Ip. destruct (I1 p ltac:(rewrite Fp; exact Ip)) as [y [Hy G]].
      destruct (I1' p ltac:(rewrite Fp'; exact Ip)) as [y' [Hy' G']].
      rewrite <- Ev, Hy in Hy'. inversion Hy'. subst y'. rewrite G, G'. reflexivity. }
    assert (U : interp_at leb eqb ofZ interp mk assign (template' :: rest') q qv =
                if assign then match set (qkeys q) qv r0' with Some r' => ONew r' | None => OErr end else ONew r0').
    { unfold interp_at. fold (keys_of q (template' :: rest')). rewrite Hv, K', Dg', step_is_stepv.
      fold val'. rewrite Fo'. reflexivity. }
    destruct assign.
    - (* the final replacement succeeds on the permuted series as well *)
      assert (Nq : qkeys q <> []) by (intro Eq; rewrite Eq in Fin; discriminate).
      destruct (template_abscissa _ _ _ _ K') as [a' [Ga' Na']].
      destruct (template_abscissa _ _ _ _ K) as [a [Ga Na]].
      assert (Gq : exists c, get (qkeys q) r0' = Some c).
      { destruct (in_dec path_eq_dec (qkeys q) (fpaths template')) as [Iq|Iq].
        - destruct (I1' _ Iq) as [y [_ G]]. eexists; exact G.
        - rewrite I2'; [eexists; exact Ga'|]. intros p Ip. rewrite comparable_sym.
          apply (float_path_vs_variable q template' a'); auto. intro; subst; contradiction. }
      destruct Gq as [c Gq]. destruct (set_succeeds _ qv c r0' Nq Gq) as [r' S'].
      exists r'. split; [rewrite U, S'; reflexivity|].
      intros p Ip. destruct (path_eq_dec p (qkeys q)) as [->|NE].
      + rewrite (get_set_same _ _ _ _ S'), (get_set_same _ _ _ _ Fin). reflexivity.
      + rewrite (get_set_other _ _ _ _ _ S'), (get_set_other _ _ _ _ _ Fin); [apply L0; exact Ip | |].
        * apply (float_path_vs_variable q template a); auto. rewrite Fp. exact Ip.
        * apply (float_path_vs_variable q template' a'); auto. rewrite Fp'. exact Ip.
    - subst r. exists r0'. split; [exact U | exact L0].
  Qed.

  Theorem order_free assign insts insts' q qv ks F :
    Permutation insts insts' -> keys_of q insts = Some ks -> allgood good ks -> distinct eqb ks -> same_shape F insts ->
    match interp_at leb eqb ofZ interp mk assign insts q qv, interp_at leb eqb ofZ interp mk assign insts' q qv with
    | OSame i, OSame j => nth_error insts' j = nth_error insts i /\ nth_error insts i <> None
    | ONew r, ONew r' => forall p, In p F -> get p r' = get p r
    | OErr, OErr => True
    | _, _ => False
    end.
  Proof.
    intros P K GK D Sh.
    destruct (keys_of_perm _ _ _ _ K P) as [ks' [K' Pk]].
    pose proof (distinct_perm eqb _ _ D Pk) as D'.
    pose proof (allgood_perm good _ _ GK (Permutation_sym Pk)) as GK'.
    assert (Sh' : same_shape F insts') by (intros t It; apply Sh; apply (Permutation_in _ (Permutation_sym P)); exact It).
    destruct (interp_at leb eqb ofZ interp mk assign insts q qv) as [i|r|] eqn:H.
    - destruct (order_free_same _ _ _ _ _ _ _ P K GK D H) as [j [H' N]]. rewrite H'. split; [exact N|].
      destruct (same_sound _ _ _ _ _ H ks K D) as [v [inst [k [_ [Ni _]]]]]. rewrite Ni. discriminate.
    - destruct (order_free_new _ _ _ _ _ _ _ _ P K GK D Sh H) as [r' [H' L]]. rewrite H'. exact L.
    - destruct (interp_at leb eqb ofZ interp mk assign insts' q qv) as [j|r'|] eqn:H'; [| |exact I].
      + destruct (order_free_same _ _ _ _ _ _ _ (Permutation_sym P) K' GK' D' H') as [i [X _]]. rewrite X in H. discriminate.
      + destruct (order_free_new _ _ _ _ _ _ _ _ (Permutation_sym P) K' GK' D' Sh' H') as [r [X _]]. rewrite X in H. discriminate.
  Qed.
  (* ---------- definedness: a query on a well-formed series never raises ---------- *)
  Lemma all_some_length {A} (l : list (option A)) r : all_some l = Some r -> List.length r = List.length l.
  Proof. intro H. apply all_some_spec in H. rewrite H, map_length. reflexivity. Qed.

  Theorem defined assign insts q qv ks F v :
    insts <> [] -> keys_of q insts = Some ks -> allgood good ks -> distinct eqb ks -> same_shape F insts ->
    num_of ofZ qv = Some v ->
    (* the routine accepts these abscissae (e.g. at least two of them differ) *)
    (forall ys, List.length ys = List.length ks -> exists y, interp (sort_keys leb ks) ys v = Some y) ->
    interp_at leb eqb ofZ interp mk assign insts q qv <> OErr.
  Proof.
    intros NE K GK D Sh Hv Tot. unfold interp_at. fold (keys_of q insts). rewrite Hv, K.
    destruct (dict_get eqb v (vm_build eqb ks insts)) as [[i t]|] eqn:Dg; [discriminate|].
    destruct insts as [|template rest]; [contradiction|].
    destruct (Sh template (or_introl eq_refl)) as [W [O Fp]].
    assert (M : map fst (vm_build eqb ks (template :: rest)) = ks).
    { rewrite (vm_build_distinct _ _ _ (keys_of_length _ _ _ K) D). apply map_fst_combine.
      unfold numbered. etransitivity; [|symmetry; apply combine_length]. rewrite seq_length.
      rewrite (keys_of_length _ _ _ K). lia. }
    rewrite step_is_stepv, M.
    set (val := leaf_value eqb ofZ interp (vm_build eqb ks (template :: rest)) (sort_keys leb ks) v).
    destruct (fold_succeeds val template W O (fpaths template) [] template (fun p H => H) (inv_nil _ _)) as [r0 Fo].
    { intros p Ip. unfold val, leaf_value, yvals.
      destruct (all_some_total (y_at eqb ofZ (vm_build eqb ks (template :: rest)) p) (sort_keys leb ks)) as [ys Y].
      - intros x Ix. assert (Ik : In x ks) by (apply (Permutation_in _ (sort_keys_perm leb ks)); exact Ix).
        destruct (In_nth_error _ _ Ik) as [i Nx]. destruct (keys_of_nth _ _ _ _ _ K Nx) as [inst [Ni A]].
        rewrite (y_at_series _ _ _ _ _ p K GK D (nth_error_In _ _ Ni) A).
        destruct (Sh inst (nth_error_In _ _ Ni)) as [Wi [_ Fi]].
        destruct (fpaths_get p inst Wi ltac:(rewrite Fi, <- Fp; exact Ip)) as [v0 G].
        unfold value_at. rewrite G. exists v0. reflexivity.
      - rewrite Y. apply Tot. rewrite (all_some_length _ _ Y), map_length.
        apply Permutation_length. apply sort_keys_perm. }
    rewrite Fo. destruct assign; [|discriminate].
    pose proof (fold_inv val template W (fpaths template) [] template r0 (fun p H => H) (inv_nil _ _) Fo) as [I1 I2].
    simpl in I1.
    destruct (template_abscissa _ _ _ _ K) as [a [Ga Na]].
    assert (Nq : qkeys q <> []).
    { intro E. rewrite E in Ga. simpl in Ga. inversion Ga. subst a. destruct template; simpl in O; try contradiction; try (apply Na; reflexivity). }
    assert (Gq : exists c, get (qkeys q) r0 = Some c).
    { destruct (in_dec path_eq_dec (qkeys q) (fpaths template)) as [Iq|Iq].
      - destruct (I1 _ Iq) as [y [_ G]]. eexists; exact G.
      - rewrite I2; [eexists; exact Ga|]. intros p Ip. rewrite comparable_sym.
        apply (float_path_vs_variable q template a); auto. intro; subst; contradiction. }
    destruct Gq as [c Gq]. destruct (set_succeeds _ qv c r0 Nq Gq) as [r' S']. rewrite S'. discriminate.
  Qed.
End Main.
