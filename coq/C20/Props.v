(* C20 property theorems: statements only, each closed by `exact`.

   interp_at assign insts q qv  models  Interpolator(insts)[interp.<q> == qv]:
     OSame i = the i-th supplied instance itself, ONew r = a new instance r, OErr = raises.
   assign = false: result of the final replacing_for_path discarded (bare expression statement);
   assign = true : result kept.  Gen.assigns_final (regenerated from /repo on every run) says
   which of the two the code currently is; the correspondence check runs that variant.
   mk is the leaf that _interpolate's return value becomes: TF (a Python float / numpy.float64) or
   TA (a 0-d numpy array, which the float walk does not find); Gen.spline_returns_float selects it
   for the spline in the binary64 instance.

   The generic theorems are parametric in the number type V, its comparisons and a carrier `good : V -> bool`
   on which `<=` is a total preorder whose equivalence is `==` and which is closed under `==` (order_ok_on); all
   abscissae lie in the carrier; the query value needs no hypothesis (whatever == an abscissa is in the carrier).  Instances: Z and Q with carrier =
   everything (C20_order_laws_Z, C20_order_laws_Q) and binary64 with carrier = the non-NaN floats
   (C20_order_laws_f64, proved from Coq.Floats.FloatAxioms); the `_f64` theorems are the statements for the
   binary64 model that the correspondence check runs against the code (PrimFloat.leb / PrimFloat.eqb), with no
   hypothesis on the comparisons beyond `no NaN among the abscissae` (a NaN query value is covered: it equals no
   abscissa, so the query is off-node in every order). *)
From Coq Require Import List String Bool ZArith QArith Permutation Floats.PrimFloat.
From PAFCommon Require Import PyFloat.
From PAFC20 Require Import Gen Model Proofs1 Proofs2 Proofs3 Proofs4 Proofs5 Witness.
From PAFC20 Require Machine Proofs6 Witness6.
Import ListNotations.
Open Scope list_scope.

(* a query at the abscissa of an instance returns that very instance *)
Theorem C20_known_point :
  forall (V : Type) (leb eqb : V -> V -> bool) (ofZ : Z -> V) (interp : list V -> list V -> V -> option V) (mk : V -> tree V)
         (good : V -> bool),
  order_ok_on good leb eqb ->
  forall (assign : bool) (insts : list (tree V)) (q : list string) (qv : tree V) (v : V) (ks : list V)
         (i : nat) (inst : tree V) (k : V),
  num_of ofZ qv = Some v -> keys_of ofZ q insts = Some ks -> allgood good ks -> distinct eqb ks ->
  nth_error insts i = Some inst -> abscissa ofZ q inst = Some k -> eqb k v = true ->
  interp_at leb eqb ofZ interp mk assign insts q qv = OSame i.
Proof. exact @known_point. Qed.

(* and an input instance is returned only when it has the requested abscissa *)
Theorem C20_known_point_only :
  forall (V : Type) (leb eqb : V -> V -> bool) (ofZ : Z -> V) (interp : list V -> list V -> V -> option V) (mk : V -> tree V)
         (assign : bool) (insts : list (tree V)) (q : list string) (qv : tree V) (i : nat),
  interp_at leb eqb ofZ interp mk assign insts q qv = OSame i ->
  forall ks, keys_of ofZ q insts = Some ks -> distinct eqb ks ->
  exists v inst k, num_of ofZ qv = Some v /\ nth_error insts i = Some inst /\
                   abscissa ofZ q inst = Some k /\ eqb k v = true.
Proof. exact @same_sound. Qed.

(* otherwise every float leaf found in the first instance is interp(x, y, value) with x the sorted
   abscissae and y the values of that leaf in the instances holding those abscissae *)
Theorem C20_per_leaf :
  forall (V : Type) (leb eqb : V -> V -> bool) (ofZ : Z -> V) (interp : list V -> list V -> V -> option V) (mk : V -> tree V)
         (good : V -> bool),
  order_ok_on good leb eqb ->
  forall (assign : bool) (template : tree V) (rest : list (tree V)) (q : list string) (qv r : tree V),
  wf template = true -> is_obj template ->
  interp_at leb eqb ofZ interp mk assign (template :: rest) q qv = ONew r ->
  forall ks, keys_of ofZ q (template :: rest) = Some ks -> allgood good ks -> distinct eqb ks ->
  exists v, num_of ofZ qv = Some v /\
    forall p, In p (fpaths template) -> (assign = true -> p <> qkeys q) ->
      exists y ys, get p r = Some (mk y) /\ interp (sort_keys leb ks) ys v = Some y /\
        Forall2 (fun x y' => exists inst, In inst (template :: rest) /\ abscissa ofZ q inst = Some x /\
                                          value_at ofZ p inst = Some y') (sort_keys leb ks) ys.
Proof. exact @per_leaf. Qed.

(* nothing else changes: every path that is not above or below an interpolated leaf (or the
   variable, when it is assigned) reads as in the first instance *)
Theorem C20_frame :
  forall (V : Type) (leb eqb : V -> V -> bool) (ofZ : Z -> V) (interp : list V -> list V -> V -> option V) (mk : V -> tree V)
         (assign : bool) (template : tree V) (rest : list (tree V)) (q : list string) (qv r : tree V),
  wf template = true -> is_obj template ->
  interp_at leb eqb ofZ interp mk assign (template :: rest) q qv = ONew r ->
  forall p', (forall p, In p (fpaths template) -> comparable p p' = false) ->
             (assign = true -> comparable (qkeys q) p' = false) ->
             get p' r = get p' template.
Proof. exact @frame. Qed.

(* the interpolation variable equals the requested value (variant that keeps the result of the final
   replacing_for_path) ... *)
Theorem C20_variable :
  forall (V : Type) (leb eqb : V -> V -> bool) (ofZ : Z -> V) (interp : list V -> list V -> V -> option V) (mk : V -> tree V)
         (template : tree V) (rest : list (tree V)) (q : list string) (qv r : tree V),
  interp_at leb eqb ofZ interp mk true (template :: rest) q qv = ONew r -> get (qkeys q) r = Some qv.
Proof. exact @variable_assigned. Qed.

(* ... and that IS the code: with Gen.assigns_final as regenerated from the source *)
Theorem C20_variable_code :
  forall (V : Type) (leb eqb : V -> V -> bool) (ofZ : Z -> V) (interp : list V -> list V -> V -> option V) (mk : V -> tree V)
         (template : tree V) (rest : list (tree V)) (q : list string) (qv r : tree V),
  interp_at leb eqb ofZ interp mk assigns_final (template :: rest) q qv = ONew r -> get (qkeys q) r = Some qv.
Proof. exact @variable_assigned. Qed.

(* what both interpolators store in the result is a float leaf (so results can be interpolated again):
   stated with Gen.spline_returns_float as regenerated from the source; before /repo 3338de6 the spline
   stored a 0-d array (Witness.array_results_are_not_walked_legacy) *)
Theorem C20_leaf_code : forall m : method, leaf_F m = @TF PrimFloat.float.
Proof. exact leaf_code. Qed.

(* a query on a series of same-shape instances with distinct abscissae never raises, provided the
   external routine accepts those abscissae *)
Theorem C20_defined :
  forall (V : Type) (leb eqb : V -> V -> bool) (ofZ : Z -> V) (interp : list V -> list V -> V -> option V) (mk : V -> tree V)
         (good : V -> bool),
  order_ok_on good leb eqb ->
  forall (assign : bool) (insts : list (tree V)) (q : list string) (qv : tree V) (ks : list V) (F : list path) (v : V),
  insts <> [] -> keys_of ofZ q insts = Some ks -> allgood good ks -> distinct eqb ks -> same_shape F insts ->
  num_of ofZ qv = Some v ->
  (forall ys, List.length ys = List.length ks -> exists y, interp (sort_keys leb ks) ys v = Some y) ->
  interp_at leb eqb ofZ interp mk assign insts q qv <> OErr.
Proof. exact @defined. Qed.

(* the order in which the series is supplied does not matter: same instance at a known point, same
   interpolated leaves otherwise, an error in one order iff in the other *)
Theorem C20_order_free :
  forall (V : Type) (leb eqb : V -> V -> bool) (ofZ : Z -> V) (interp : list V -> list V -> V -> option V) (mk : V -> tree V)
         (good : V -> bool),
  order_ok_on good leb eqb ->
  forall (assign : bool) (insts insts' : list (tree V)) (q : list string) (qv : tree V) (ks : list V) (F : list path),
  Permutation insts insts' -> keys_of ofZ q insts = Some ks -> allgood good ks -> distinct eqb ks -> same_shape F insts ->
  match interp_at leb eqb ofZ interp mk assign insts q qv, interp_at leb eqb ofZ interp mk assign insts' q qv with
  | OSame i, OSame j => nth_error insts' j = nth_error insts i /\ nth_error insts i <> None
  | ONew r, ONew r' => forall p, In p F -> get p r' = get p r
  | OErr, OErr => True
  | _, _ => False
  end.
Proof. exact @order_free. Qed.


(* ---------- the order laws: theorems for Z, Q (every value) and binary64 (every non-NaN float) ---------- *)
Theorem C20_order_laws_Z : order_ok_on everything Z.leb Z.eqb.
Proof. exact Z_order_ok. Qed.

Theorem C20_order_laws_Q : order_ok_on everything Qle_bool Qeq_bool.
Proof. exact Q_order_ok. Qed.

(* Python's <= and == on floats that are not NaN (infinities, -0.0 == 0.0 included): <= total and transitive,
   antisymmetric up to ==, == an equivalence *)
Theorem C20_order_laws_f64 : order_ok_on (fun x => negb (PrimFloat.is_nan x)) PrimFloat.leb PrimFloat.eqb.
Proof. exact F_order_ok. Qed.

(* ... and the NaN is why a carrier is needed *)
Theorem C20_order_laws_f64_all_floats_refuted : ~ order_ok_on everything PrimFloat.leb PrimFloat.eqb.
Proof. exact F_order_everything_refuted. Qed.

(* ---------- binary64: the model the correspondence runs (comparisons = PrimFloat.leb / PrimFloat.eqb) ---------- *)
(* known point: the abscissa k of instance i == the value (so +0.0 finds -0.0); the value needs no hypothesis *)
Theorem C20_known_point_f64 :
  forall (ofZ : Z -> float) (interp : list float -> list float -> float -> option float) (mk : float -> tree float)
         (assign : bool) (insts : list (tree float)) (q : list string) (qv : tree float) (v : float) (ks : list float)
         (i : nat) (inst : tree float) (k : float),
  num_of ofZ qv = Some v -> keys_of ofZ q insts = Some ks -> no_nan ks -> distinct PrimFloat.eqb ks ->
  nth_error insts i = Some inst -> abscissa ofZ q inst = Some k -> PrimFloat.eqb k v = true ->
  interp_at PrimFloat.leb PrimFloat.eqb ofZ interp mk assign insts q qv = OSame i.
Proof. exact known_point_F. Qed.

Theorem C20_known_point_only_f64 :
  forall (ofZ : Z -> float) (interp : list float -> list float -> float -> option float) (mk : float -> tree float)
         (assign : bool) (insts : list (tree float)) (q : list string) (qv : tree float) (i : nat),
  interp_at PrimFloat.leb PrimFloat.eqb ofZ interp mk assign insts q qv = OSame i ->
  forall ks, keys_of ofZ q insts = Some ks -> distinct PrimFloat.eqb ks ->
  exists v inst k, num_of ofZ qv = Some v /\ nth_error insts i = Some inst /\
                   abscissa ofZ q inst = Some k /\ PrimFloat.eqb k v = true.
Proof. exact (@same_sound float PrimFloat.leb PrimFloat.eqb). Qed.

Theorem C20_per_leaf_f64 :
  forall (ofZ : Z -> float) (interp : list float -> list float -> float -> option float) (mk : float -> tree float)
         (assign : bool) (template : tree float) (rest : list (tree float)) (q : list string) (qv r : tree float),
  wf template = true -> is_obj template ->
  interp_at PrimFloat.leb PrimFloat.eqb ofZ interp mk assign (template :: rest) q qv = ONew r ->
  forall ks, keys_of ofZ q (template :: rest) = Some ks -> no_nan ks -> distinct PrimFloat.eqb ks ->
  exists v, num_of ofZ qv = Some v /\
    forall p, In p (fpaths template) -> (assign = true -> p <> qkeys q) ->
      exists y ys, get p r = Some (mk y) /\ interp (sort_keys PrimFloat.leb ks) ys v = Some y /\
        Forall2 (fun x y' => exists inst, In inst (template :: rest) /\ abscissa ofZ q inst = Some x /\
                                          value_at ofZ p inst = Some y') (sort_keys PrimFloat.leb ks) ys.
Proof. exact per_leaf_F. Qed.

(* the x handed to scipy: sorted by <=, a permutation of the abscissae, the same for every order of the series *)
Theorem C20_sorted_abscissae_f64 :
  forall ks : list float, no_nan ks ->
  Sorted.StronglySorted (fun a b => PrimFloat.leb a b = true) (sort_keys PrimFloat.leb ks) /\
  Permutation (sort_keys PrimFloat.leb ks) ks /\
  (forall ks', distinct PrimFloat.eqb ks -> Permutation ks ks' -> sort_keys PrimFloat.leb ks = sort_keys PrimFloat.leb ks').
Proof. exact sorted_abscissae_F. Qed.

Theorem C20_sorted_abscissae_nan_refuted :
  exists ks ks' : list float, distinct PrimFloat.eqb ks /\ Permutation ks ks' /\ sort_keys PrimFloat.leb ks <> sort_keys PrimFloat.leb ks'.
Proof. exact sorted_abscissae_nan_refuted. Qed.

Theorem C20_frame_f64 :
  forall (ofZ : Z -> float) (interp : list float -> list float -> float -> option float) (mk : float -> tree float)
         (assign : bool) (template : tree float) (rest : list (tree float)) (q : list string) (qv r : tree float),
  wf template = true -> is_obj template ->
  interp_at PrimFloat.leb PrimFloat.eqb ofZ interp mk assign (template :: rest) q qv = ONew r ->
  forall p', (forall p, In p (fpaths template) -> comparable p p' = false) ->
             (assign = true -> comparable (qkeys q) p' = false) ->
             get p' r = get p' template.
Proof. exact (@frame float PrimFloat.leb PrimFloat.eqb). Qed.

Theorem C20_defined_f64 :
  forall (ofZ : Z -> float) (interp : list float -> list float -> float -> option float) (mk : float -> tree float)
         (assign : bool) (insts : list (tree float)) (q : list string) (qv : tree float) (ks : list float) (F : list path) (v : float),
  insts <> [] -> keys_of ofZ q insts = Some ks -> no_nan ks -> distinct PrimFloat.eqb ks -> same_shape F insts ->
  num_of ofZ qv = Some v ->
  (forall ys, List.length ys = List.length ks -> exists y, interp (sort_keys PrimFloat.leb ks) ys v = Some y) ->
  interp_at PrimFloat.leb PrimFloat.eqb ofZ interp mk assign insts q qv <> OErr.
Proof. exact defined_F. Qed.

(* without `no_nan ks` the statement is false of the model (a NaN key is never == itself) *)
Theorem C20_defined_f64_nan_refuted :
  exists (interp : list float -> list float -> float -> option float)
         (insts : list (tree float)) (ks : list float) (F : list path) (qv : tree float) (v : float),
    insts <> [] /\ keys_of Z2F ["t"%string] insts = Some ks /\ distinct PrimFloat.eqb ks /\ same_shape F insts /\
    num_of Z2F qv = Some v /\
    (forall ys, List.length ys = List.length ks -> exists y, interp (sort_keys PrimFloat.leb ks) ys v = Some y) /\
    interp_at PrimFloat.leb PrimFloat.eqb Z2F interp TF true insts ["t"%string] qv = OErr.
Proof. exact (ex_intro _ left_value_F defined_nan_refuted). Qed.

(* "the abscissa of an instance" read as identity of the float instead of ==: false at NaN *)
Theorem C20_known_point_f64_identity_nan_refuted :
  exists (interp : list float -> list float -> float -> option float)
         (insts : list (tree float)) (ks : list float) (i : nat) (inst : tree float) (k : float),
    keys_of Z2F ["t"%string] insts = Some ks /\ distinct PrimFloat.eqb ks /\ nth_error insts i = Some inst /\
    abscissa Z2F ["t"%string] inst = Some k /\
    interp_at PrimFloat.leb PrimFloat.eqb Z2F interp TF true insts ["t"%string] (TF k) <> OSame i.
Proof. exact (ex_intro _ left_value_F known_point_identity_nan_refuted). Qed.

Theorem C20_order_free_f64 :
  forall (ofZ : Z -> float) (interp : list float -> list float -> float -> option float) (mk : float -> tree float)
         (assign : bool) (insts insts' : list (tree float)) (q : list string) (qv : tree float) (ks : list float) (F : list path),
  Permutation insts insts' -> keys_of ofZ q insts = Some ks -> no_nan ks -> distinct PrimFloat.eqb ks -> same_shape F insts ->
  match interp_at PrimFloat.leb PrimFloat.eqb ofZ interp mk assign insts q qv,
        interp_at PrimFloat.leb PrimFloat.eqb ofZ interp mk assign insts' q qv with
  | OSame i, OSame j => nth_error insts' j = nth_error insts i /\ nth_error insts i <> None
  | ONew r, ONew r' => forall p, In p F -> get p r' = get p r
  | OErr, OErr => True
  | _, _ => False
  end.
Proof. exact order_free_F. Qed.

(* what every in-quantifier query of a run decides by computation (Model.hyps_F, part of check_case) is exactly the
   hypotheses of the _f64 theorems for the binary64 instance of the correspondence (ofZ = Z2F) *)
Theorem C20_run_hypotheses_f64 :
  forall (insts : list (tree float)) (q : list string) (qv : tree float),
  hyps_F insts q qv = true ->
  exists ks v, keys_of Z2F q insts = Some ks /\ num_of Z2F qv = Some v /\ no_nan ks /\ PrimFloat.is_nan v = false /\
               distinct PrimFloat.eqb ks.
Proof. exact hyps_F_sound. Qed.

(* least squares (scipy.stats.linregress, exact arithmetic) followed by the code's own formula
   `slope * value + intercept` (Gen.li_eval_Q) reproduces data that are linear in the variable *)
Theorem C20_linear_exact :
  forall (a b : Q) (xs ys : list Q) (v r : Q),
  Forall2 (fun x y => y == a * x + b) xs ys -> linreg_Q xs ys v = Some r -> r == a * v + b.
Proof. exact linreg_exact. Qed.

Theorem C20_linear_defined :
  forall (xs ys : list Q) (v x y : Q), In x xs -> In y xs -> ~ x == y -> exists r, linreg_Q xs ys v = Some r.
Proof. exact linreg_defined. Qed.

(* linear trends: if a float leaf is a*t+b in every instance (t its abscissa) the interpolated leaf is
   a*value+b, for every routine that is exact on linear data (hypothesis for the spline) ... *)
Theorem C20_linear_trend :
  forall (interp : list Q -> list Q -> Q -> option Q) (assign : bool) (template : tree Q) (rest : list (tree Q))
         (q : list string) (qv r : tree Q) (ks : list Q) (a b : Q) (p : path),
  exact_on_affine interp ->
  wf template = true -> is_obj template ->
  interp_at_Q interp assign (template :: rest) q qv = ONew r ->
  keys_of inject_Z q (template :: rest) = Some ks -> distinct Qeq_bool ks ->
  In p (fpaths template) -> (assign = true -> p <> qkeys q) ->
  (forall inst t y, In inst (template :: rest) -> abscissa inject_Z q inst = Some t ->
                    value_at inject_Z p inst = Some y -> y == a * t + b) ->
  exists v y, num_of inject_Z qv = Some v /\ get p r = Some (TF y) /\ y == a * v + b.
Proof. exact linear_trend. Qed.

(* ... in particular for the linear interpolator, with no hypothesis on the routine *)
Theorem C20_linear_trend_lsq :
  forall (assign : bool) (template : tree Q) (rest : list (tree Q))
         (q : list string) (qv r : tree Q) (ks : list Q) (a b : Q) (p : path),
  wf template = true -> is_obj template ->
  interp_at_Q linreg_Q assign (template :: rest) q qv = ONew r ->
  keys_of inject_Z q (template :: rest) = Some ks -> distinct Qeq_bool ks ->
  In p (fpaths template) -> (assign = true -> p <> qkeys q) ->
  (forall inst t y, In inst (template :: rest) -> abscissa inject_Z q inst = Some t ->
                    value_at inject_Z p inst = Some y -> y == a * t + b) ->
  exists v y, num_of inject_Z qv = Some v /\ get p r = Some (TF y) /\ y == a * v + b.
Proof. exact linear_trend_lsq. Qed.

(* dict-valued attributes (switched by Gen.dict_paths_followed, regenerated from the source; /repo e3bcee5):
   the path followers index into dicts, so a dict is an attribute dict for child / put / wf and therefore
   for every theorem above (their hypothesis `wf template = true` admits dicts).  C20_dict_code stops
   compiling if the repair regresses. *)
Theorem C20_dict_code : dictok = true.
Proof. exact dict_code. Qed.

Theorem C20_dict_is_attribute_dict :
  forall (V : Type) (fs : list (string * tree V)) (s : string) (x : tree V),
  child (KS s) (TD fs) = child (KS s) (TO fs) /\
  put (KS s) x (TD fs) = Some (TD (assoc_set s x fs)) /\
  wf (TD fs) = wf (TO fs).
Proof. exact @dict_is_attribute_dict. Qed.

(* history: before e3bcee5 (getattr only) a float below a dict made every off-node query raise *)
Theorem C20_dict_not_followed_legacy :
  forall (V : Type) (fs : list (string * tree V)) (s : string),
  dictok = false -> child (KS s) (TD fs) = None /\ wf (TD fs) = false.
Proof. exact @dict_not_followed. Qed.

Print Assumptions C20_known_point.
Print Assumptions C20_per_leaf.
Print Assumptions C20_variable_code.
Print Assumptions C20_defined.
Print Assumptions C20_leaf_code.
Print Assumptions C20_dict_code.
Print Assumptions C20_order_free.
Print Assumptions C20_linear_exact.
Print Assumptions C20_linear_trend_lsq.
Print Assumptions C20_order_laws_f64.
Print Assumptions C20_known_point_f64.
Print Assumptions C20_per_leaf_f64.
Print Assumptions C20_defined_f64.
Print Assumptions C20_order_free_f64.
Print Assumptions C20_run_hypotheses_f64.

(* ---------- one interpolator object used many times (Machine.v) ----------
   The object holds the series (`instances`, a public attribute; the constructor keeps the caller's list) and a cache
   of earlier answers under an arbitrary policy `hit stored current`.  For EVERY sound policy (a hit implies equal
   fresh answers) every query of every history -- changes of the series, repeated queries, queries on other variables,
   queries that raise -- answers what a fresh interpolator over the current series answers. *)
Theorem C20_history_independent :
  forall (V : Type) (leb eqb : V -> V -> bool) (ofZ : Z -> V) (interp : list V -> list V -> V -> option V) (mk : V -> tree V)
         (assign : bool)
         (hit : Proofs6.iseries V * Proofs6.iquery V -> Proofs6.iseries V * Proofs6.iquery V -> bool),
  Machine.sound (Proofs6.iseries V) (Proofs6.iquery V) (outcome V) (Proofs6.fresh_answer V leb eqb ofZ interp mk assign) hit ->
  forall (s0 : Proofs6.iseries V) (ops : list (Machine.op (Proofs6.iseries V) (Proofs6.iquery V))),
  Machine.run (Proofs6.iseries V) (Proofs6.iquery V) (outcome V) (Proofs6.fresh_answer V leb eqb ofZ interp mk assign) hit
              (Machine.init (Proofs6.iseries V) (Proofs6.iquery V) (outcome V) s0) ops
  = Machine.expected (Proofs6.iseries V) (Proofs6.iquery V) (outcome V) (Proofs6.fresh_answer V leb eqb ofZ interp mk assign) s0 ops.
Proof. exact Proofs6.interp_history_independent. Qed.

(* the last query of any history depends on the series set last and on the query only *)
Theorem C20_last_query_fresh :
  forall (V : Type) (leb eqb : V -> V -> bool) (ofZ : Z -> V) (interp : list V -> list V -> V -> option V) (mk : V -> tree V)
         (assign : bool)
         (hit : Proofs6.iseries V * Proofs6.iquery V -> Proofs6.iseries V * Proofs6.iquery V -> bool),
  Machine.sound (Proofs6.iseries V) (Proofs6.iquery V) (outcome V) (Proofs6.fresh_answer V leb eqb ofZ interp mk assign) hit ->
  forall (s0 s : Proofs6.iseries V) (before : list (Machine.op (Proofs6.iseries V) (Proofs6.iquery V))) (q : Proofs6.iquery V),
  Machine.run (Proofs6.iseries V) (Proofs6.iquery V) (outcome V) (Proofs6.fresh_answer V leb eqb ofZ interp mk assign) hit
              (Machine.init (Proofs6.iseries V) (Proofs6.iquery V) (outcome V) s0) (before ++ [Machine.OSet s; Machine.OAsk q])
  = Machine.run (Proofs6.iseries V) (Proofs6.iquery V) (outcome V) (Proofs6.fresh_answer V leb eqb ofZ interp mk assign) hit
                (Machine.init (Proofs6.iseries V) (Proofs6.iquery V) (outcome V) s0) before
    ++ [Proofs6.fresh_answer V leb eqb ofZ interp mk assign s q].
Proof. exact Proofs6.interp_last_query_fresh. Qed.

(* the code as it is (no cache: _value_map is rebuilt by every __getitem__) is a sound policy *)
Theorem C20_code_policy_sound :
  forall (V : Type) (leb eqb : V -> V -> bool) (ofZ : Z -> V) (interp : list V -> list V -> V -> option V) (mk : V -> tree V)
         (assign : bool),
  Machine.sound (Proofs6.iseries V) (Proofs6.iquery V) (outcome V) (Proofs6.fresh_answer V leb eqb ofZ interp mk assign)
                Machine.never_hit.
Proof. exact Proofs6.interp_code_policy_sound. Qed.

(* memoising by the value alone (any path), or by path and value while the series is changed, is refuted *)
Theorem C20_cache_by_value_refuted :
  exists s0 ops, Witness6.run6 Witness6.hit_by_value s0 ops <> Witness6.expected6 s0 ops.
Proof. exact Witness6.cache_by_value_refuted. Qed.
Theorem C20_cache_ignoring_series_refuted :
  exists s0 ops, Witness6.run6 Witness6.hit_by_query s0 ops <> Witness6.expected6 s0 ops.
Proof. exact Witness6.cache_ignoring_series_refuted. Qed.
Print Assumptions C20_history_independent.
Print Assumptions C20_last_query_fresh.
Print Assumptions C20_code_policy_sound.
Print Assumptions C20_cache_by_value_refuted.
Print Assumptions C20_cache_ignoring_series_refuted.
