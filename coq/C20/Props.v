From Coq Require Import List.
From PAFC20 Require Import Gen Model Proofs.
Import ListNotations.
Theorem C20_placeholder : forall (V : Type) (t : tree V), get [] t = Some t.
Proof. exact (@get_nil). Qed.
Print Assumptions C20_placeholder.
