(* C20 lemmas, part 1: value trees -- get / set / the float-path walk. *)
From Coq Require Import List String Bool Arith Lia ZArith.
From PAFC20 Require Import Gen Model.
Import ListNotations.
Open Scope list_scope.

(* ---------- association lists, list update ---------- *)
Lemma assoc_set_same {A} (s : string) (x : A) fs : assoc s (assoc_set s x fs) = Some x.
Proof.
  induction fs as [|[k c] r IH]; simpl.
  - rewrite String.eqb_refl. reflexivity.
  - destruct (String.eqb k s) eqn:E; simpl; rewrite E; [reflexivity | exact IH].
Qed.

Lemma assoc_set_other {A} (s s' : string) (x : A) fs :
  s <> s' -> assoc s' (assoc_set s x fs) = assoc s' fs.
Proof.
  intro N. induction fs as [|[k c] r IH]; simpl.
  - destruct (String.eqb s s') eqn:E; [apply String.eqb_eq in E; contradiction | reflexivity].
  - destruct (String.eqb k s) eqn:E; simpl.
    + apply String.eqb_eq in E. subst k.
      destruct (String.eqb s s') eqn:E'; [apply String.eqb_eq in E'; contradiction | reflexivity].
    + rewrite IH. reflexivity.
Qed.

Lemma list_set_same {A} (i : nat) (x : A) l : i < List.length l -> nth_error (list_set i x l) i = Some x.
Proof.
  revert i. induction l as [|c r IH]; intros i H; simpl in *; [lia|].
  destruct i; simpl; [reflexivity | apply IH; lia].
Qed.

Lemma list_set_other {A} (i j : nat) (x : A) l : i <> j -> nth_error (list_set i x l) j = nth_error l j.
Proof.
  revert i j. induction l as [|c r IH]; intros i j N; simpl.
  - destruct i; reflexivity.
  - destruct i, j; simpl; try reflexivity; [contradiction | apply IH; lia].
Qed.

Lemma key_eqb_eq (a b : key) : key_eqb a b = true <-> a = b.
Proof.
  destruct a, b; simpl; split; intro H; try discriminate.
  - apply String.eqb_eq in H. subst. reflexivity.
  - inversion H. apply String.eqb_refl.
  - apply Nat.eqb_eq in H. subst. reflexivity.
  - inversion H. apply Nat.eqb_refl.
Qed.

(* prefix order on paths *)
Fixpoint is_prefix (p q : path) : bool :=
  match p, q with
  | [], _ => true
  | k :: p', k' :: q' => key_eqb k k' && is_prefix p' q'
  | _ :: _, [] => false
  end.
Definition comparable (p q : path) : bool := is_prefix p q || is_prefix q p.

Lemma is_prefix_app p q : is_prefix p q = true -> exists r, q = p ++ r.
Proof.
  revert q. induction p as [|k p IH]; intros q H; simpl in *.
  - exists q. reflexivity.
  - destruct q as [|k' q]; [discriminate|]. apply andb_true_iff in H. destruct H as [H1 H2].
    apply key_eqb_eq in H1. subst k'. destruct (IH q H2) as [r ->]. exists r. reflexivity.
Qed.

Lemma is_prefix_refl p : is_prefix p p = true.
Proof. induction p as [|k p IH]; simpl; [reflexivity|]. rewrite IH, andb_true_r. apply key_eqb_eq. reflexivity. Qed.

Lemma comparable_sym p q : comparable p q = comparable q p.
Proof. unfold comparable. apply orb_comm. Qed.

Lemma comparable_cons k p q : comparable (k :: p) (k :: q) = comparable p q.
Proof.
  unfold comparable. simpl. assert (E : key_eqb k k = true) by (apply key_eqb_eq; reflexivity).
  rewrite E. reflexivity.
Qed.

Section TreeLemmas.
  Context {V : Type}.
  Variable ofZ : Z -> V.
  Notation tree := (tree V).

  Lemma child_put_same k (x t t' : tree) : put k x t = Some t' -> child k t' = Some x.
  Proof.
    (* goal 6 = (KS, TD): handled first, so that the script does not depend on the value of dictok *)
    destruct k as [s|i], t; simpl; intro H.
    6: { destruct dictok eqn:D; [|discriminate H]. inversion H. simpl. try rewrite D. apply assoc_set_same. }
    all: try discriminate.
    - inversion H. simpl. apply assoc_set_same.
    - destruct (Nat.ltb i (List.length l)) eqn:E; [|discriminate]. inversion H. simpl.
      apply list_set_same. apply Nat.ltb_lt. exact E.
  Qed.

  Lemma child_put_other k k' (x t t' : tree) : put k x t = Some t' -> k <> k' -> child k' t' = child k' t.
  Proof.
    destruct k as [s|i], t; simpl; intros H N.
    6: { destruct dictok eqn:D; [|discriminate H]. inversion H. destruct k' as [s'|j]; simpl; [|reflexivity].
         try rewrite D. apply assoc_set_other. intro E. apply N. subst. reflexivity. }
    all: try discriminate.
    - inversion H. destruct k' as [s'|j]; simpl; [|reflexivity].
      apply assoc_set_other. intro E. apply N. subst. reflexivity.
    - destruct (Nat.ltb i (List.length l)) eqn:E; [|discriminate]. inversion H.
      destruct k' as [s'|j]; simpl; [reflexivity|].
      apply list_set_other. intro E'. apply N. subst. reflexivity.
  Qed.

  Lemma put_succeeds k (x c t : tree) : child k t = Some c -> exists t', put k x t = Some t'.
  Proof.
    destruct k as [s|i], t; simpl; intro H.
    6: { destruct dictok; [eexists; reflexivity | discriminate H]. }
    all: try discriminate.
    - eexists. reflexivity.
    - assert (L : i < List.length l) by (apply nth_error_Some; rewrite H; discriminate).
      apply Nat.ltb_lt in L. rewrite L. eexists. reflexivity.
  Qed.

  Lemma set_cons2 k k2 r (x t : tree) :
    set (k :: k2 :: r) x t =
    match child k t with
    | Some c => match set (k2 :: r) x c with Some c' => put k c' t | None => None end
    | None => None
    end.
  Proof. reflexivity. Qed.

  (* replacing_for_path puts the value at the path ... *)
  Lemma get_set_same p : forall (x t t' : tree), set p x t = Some t' -> get p t' = Some x.
  Proof.
    induction p as [|k r IH]; intros x t t' H; [discriminate|].
    destruct r as [|k2 r].
    - simpl in H. simpl. rewrite (child_put_same _ _ _ _ H). reflexivity.
    - rewrite set_cons2 in H. destruct (child k t) as [c|] eqn:C; [|discriminate].
      destruct (set (k2 :: r) x c) as [c'|] eqn:S; [|discriminate].
      change (get (k :: k2 :: r) t') with (match child k t' with Some c0 => get (k2 :: r) c0 | None => None end).
      rewrite (child_put_same _ _ _ _ H). apply (IH _ _ _ S).
  Qed.

  (* ... and leaves every incomparable path alone *)
  Lemma get_set_other p : forall p' (x t t' : tree),
    set p x t = Some t' -> comparable p p' = false -> get p' t' = get p' t.
  Proof.
    induction p as [|k r IH]; intros p' x t t' H N; [discriminate|].
    destruct p' as [|k' r']; [unfold comparable in N; simpl in N; discriminate|].
    destruct (key_eqb k k') eqn:E.
    - apply key_eqb_eq in E. subst k'. rewrite comparable_cons in N.
      destruct r as [|k2 r]; [unfold comparable in N; simpl in N; discriminate|].
      rewrite set_cons2 in H. destruct (child k t) as [c|] eqn:C; [|discriminate].
      destruct (set (k2 :: r) x c) as [c'|] eqn:S; [|discriminate].
      simpl. rewrite (child_put_same _ _ _ _ H), C. apply (IH _ _ _ _ S N).
    - assert (NE : k <> k') by (intro; subst; rewrite (proj2 (key_eqb_eq k' k') eq_refl) in E; discriminate).
      assert (P : exists y, put k y t = Some t').
      { destruct r as [|k2 r]; [exists x; exact H|].
        rewrite set_cons2 in H. destruct (child k t) as [c|]; [|discriminate].
        destruct (set (k2 :: r) x c) as [c'|]; [|discriminate]. exists c'. exact H. }
      destruct P as [y P]. simpl. rewrite (child_put_other _ _ _ _ _ P NE). reflexivity.
  Qed.

  Lemma set_succeeds p : forall (x y t : tree), p <> [] -> get p t = Some y -> exists t', set p x t = Some t'.
  Proof.
    induction p as [|k r IH]; intros x y t N H; [contradiction|].
    simpl in H. destruct (child k t) as [c|] eqn:C; [|discriminate].
    destruct r as [|k2 r].
    - apply (put_succeeds _ _ _ _ C).
    - rewrite set_cons2, C. destruct (IH x y c) as [c' S]; [discriminate | exact H |].
      rewrite S. apply (put_succeeds _ _ _ _ C).
  Qed.

  Lemma get_app p : forall q (t : tree),
    get (p ++ q) t = match get p t with Some c => get q c | None => None end.
  Proof.
    induction p as [|k p IH]; intros q t; simpl; [reflexivity|].
    destruct (child k t); [apply IH | reflexivity].
  Qed.

  Lemma get_below_leaf q (t : tree) :
    (forall fs, t <> TO fs) -> (forall fs, t <> TD fs) -> (forall l, t <> TL l) -> q <> [] -> get q t = None.
  Proof.
    intros HO HD HL N. destruct q as [|k q]; [contradiction|].
    destruct t; try (exfalso; eapply HO; reflexivity); try (exfalso; eapply HD; reflexivity);
      try (exfalso; eapply HL; reflexivity); destruct k; reflexivity.
  Qed.

  (* ---------- the walk ---------- *)
  Lemma obj_paths_in (f : tree -> list path) fs p :
    In p (obj_paths f fs) -> exists k c p', p = KS k :: p' /\ In (k, c) fs /\ private k = false /\ In p' (f c).
  Proof.
    induction fs as [|[k c] r IH]; simpl; intro H; [contradiction|].
    apply in_app_or in H. destruct H as [H|H].
    - destruct (private k) eqn:P; [contradiction|]. apply in_map_iff in H. destruct H as [p' [<- H]].
      exists k, c, p'. repeat split; auto.
    - destruct (IH H) as [k' [c' [p' [E [I [P F]]]]]]. exists k', c', p'. repeat split; auto.
  Qed.

  Lemma list_paths_in (f : tree -> list path) l : forall i0 p,
    In p (list_paths f i0 l) -> exists j c p', p = KI (i0 + j) :: p' /\ nth_error l j = Some c /\ In p' (f c).
  Proof.
    induction l as [|c r IH]; simpl; intros i0 p H; [contradiction|].
    apply in_app_or in H. destruct H as [H|H].
    - apply in_map_iff in H. destruct H as [p' [<- H]]. exists 0, c, p'. rewrite Nat.add_0_r. repeat split; auto.
    - destruct (IH _ _ H) as [j [c' [p' [E [I F]]]]]. exists (S j), c', p'.
      replace (i0 + S j) with (S i0 + j) by lia. repeat split; auto.
  Qed.

  Lemma obj_paths_intro (f : tree -> list path) fs k c p' :
    In (k, c) fs -> private k = false -> In p' (f c) -> In (KS k :: p') (obj_paths f fs).
  Proof.
    induction fs as [|[k0 c0] r IH]; simpl; intros I P F; [contradiction|].
    apply in_or_app. destruct I as [I|I].
    - inversion I. subst. left. rewrite P. apply in_map. exact F.
    - right. apply IH; assumption.
  Qed.

  Lemma list_paths_intro (f : tree -> list path) l : forall i0 j c p',
    nth_error l j = Some c -> In p' (f c) -> In (KI (i0 + j) :: p') (list_paths f i0 l).
  Proof.
    induction l as [|c0 r IH]; intros i0 j c p' N F; [destruct j; discriminate|].
    simpl. apply in_or_app. destruct j as [|j]; simpl in N.
    - inversion N. subst. left. rewrite Nat.add_0_r. apply in_map. exact F.
    - right. replace (i0 + S j) with (S i0 + j) by lia. apply (IH _ _ c); assumption.
  Qed.

  Lemma assoc_in_nodup {A} (s : string) (c : A) fs :
    nodup_strings (map fst fs) = true -> In (s, c) fs -> assoc s fs = Some c.
  Proof.
    induction fs as [|[k c0] r IH]; simpl; intros N I; [contradiction|].
    apply andb_true_iff in N. destruct N as [N1 N2].
    destruct I as [I|I].
    - inversion I. subst. rewrite String.eqb_refl. reflexivity.
    - destruct (String.eqb k s) eqn:E.
      + apply String.eqb_eq in E. subst k. exfalso.
        apply negb_true_iff in N1. assert (X : existsb (String.eqb s) (map fst r) = true).
        { apply existsb_exists. exists s. split; [|apply String.eqb_refl].
          apply in_map_iff. exists (s, c). auto. }
        rewrite X in N1. discriminate.
      + apply IH; assumption.
  Qed.

  (* every path the walk reports leads to a float leaf *)
  Lemma fpaths_get p : forall t : tree, wf t = true -> In p (fpaths t) -> exists v, get p t = Some (TF v).
  Proof.
    induction p as [|k p IH]; intros t W H.
    - destruct t; simpl in H; try contradiction.
      + exists v. reflexivity.
      + apply obj_paths_in in H. destruct H as [k [c [p' [E _]]]]. discriminate.
      + apply obj_paths_in in H. destruct H as [k [c [p' [E _]]]]. discriminate.
      + apply list_paths_in in H. destruct H as [j [c [p' [E _]]]]. discriminate.
    - destruct t; simpl in H; try contradiction.
      + destruct H as [H|[]]. discriminate.
      + apply obj_paths_in in H. destruct H as [s [c [p' [E [I [P F]]]]]]. inversion E. subst k p'.
        simpl in W. apply andb_true_iff in W. destruct W as [W1 W2].
        simpl. rewrite (assoc_in_nodup _ _ _ W1 I). apply IH; [|exact F].
        rewrite forallb_forall in W2. apply (W2 (s, c) I).
      + apply obj_paths_in in H. destruct H as [s [c [p' [E [I [P F]]]]]]. inversion E. subst k p'.
        simpl in W. apply andb_true_iff in W. destruct W as [W0 W2]. apply andb_true_iff in W0. destruct W0 as [D W1].
        simpl. rewrite D, (assoc_in_nodup _ _ _ W1 I). apply IH; [|exact F].
        rewrite forallb_forall in W2. apply (W2 (s, c) I).
      + apply list_paths_in in H. destruct H as [j [c [p' [E [N F]]]]]. inversion E. subst k p'.
        simpl in W. simpl. rewrite N. apply IH; [|exact F].
        rewrite forallb_forall in W. apply W. apply (nth_error_In _ _ N).
  Qed.

  (* two paths that both end in a numeric leaf and are comparable are the same path *)
  Lemma leaf_paths_comparable p q (t : tree) a b :
    get p t = Some a -> get q t = Some b -> num_of ofZ a <> None -> num_of ofZ b <> None ->
    comparable p q = true -> p = q.
  Proof.
    assert (K : forall p q (t a b : tree), get p t = Some a -> get q t = Some b -> num_of ofZ a <> None ->
                is_prefix p q = true -> p = q).
    { clear. intros p q t a b Ha Hb Na P. destruct (is_prefix_app _ _ P) as [r ->].
      rewrite get_app, Ha in Hb. destruct r as [|k r]; [rewrite app_nil_r; reflexivity|].
      rewrite get_below_leaf in Hb; [discriminate | | | | discriminate];
        intros ? E; subst a; apply Na; reflexivity. }
    intros Ha Hb Na Nb C. apply orb_true_iff in C. destruct C as [C|C].
    - eapply K; eauto.
    - symmetry. eapply K; eauto.
  Qed.

  Lemma fpaths_incomparable (t : tree) p p' :
    wf t = true -> In p (fpaths t) -> In p' (fpaths t) -> p <> p' -> comparable p p' = false.
  Proof.
    intros W H H' N. destruct (comparable p p') eqn:C; [|reflexivity]. exfalso. apply N.
    destruct (fpaths_get _ _ W H) as [v G]. destruct (fpaths_get _ _ W H') as [v' G'].
    eapply leaf_paths_comparable; eauto; simpl; discriminate.
  Qed.
End TreeLemmas.
