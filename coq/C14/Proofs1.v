(* C14 proofs, part 1: SneakyPool.map as it is in the pinned tree -- for EVERY schedule. *)
From Coq Require Import List Bool Arith Lia Permutation.
From PAFC14 Require Import Model Lib.
Import ListNotations.

Section Map.
Context {R E : Type}.
Local Notation item := (nat * outcome R E)%type.
Local Notation pool := (pool R E).
Local Notation mstate := (mstate R E).

(* the jobs that `process = self.processes[i % len(self.processes)]` sends to process w, in input order *)
Definition filterw (n w : nat) (l : list item) : list item := filter (fun it : item => fst it mod n =? w) l.

Definition dist (n : nat) (jobs : list item) (qs : list (list item)) : list (list item) :=
  fold_left (fun qs (it : item) => upd qs (fst it mod n) (fun q => q ++ [it])) jobs qs.

Lemma dist_length n jobs qs : length (dist n jobs qs) = length qs.
Proof.
  unfold dist. revert qs; induction jobs as [|j jobs IH]; intro qs; simpl; auto.
  rewrite IH. apply upd_length.
Qed.

Lemma dist_concat n jobs qs : 0 < n -> length qs = n -> Permutation (concat (dist n jobs qs)) (concat qs ++ jobs).
Proof.
  intros Hn. unfold dist. revert qs; induction jobs as [|j jobs IH]; intros qs Hl; simpl.
  - rewrite app_nil_r. reflexivity.
  - rewrite IH by (rewrite upd_length; exact Hl).
    rewrite concat_upd_snoc by (rewrite Hl; apply Nat.mod_upper_bound; lia).
    simpl. apply Permutation_middle.
Qed.

Lemma dist_qnth n jobs qs w : 0 < n -> length qs = n -> w < n ->
  qnth (dist n jobs qs) w = qnth qs w ++ filterw n w jobs.
Proof.
  intros Hn. unfold dist, filterw. revert qs; induction jobs as [|j jobs IH]; intros qs Hl Hw; simpl.
  - rewrite app_nil_r. reflexivity.
  - rewrite IH by (rewrite ?upd_length; auto).
    destruct (fst j mod n =? w) eqn:Ej.
    + apply Nat.eqb_eq in Ej. rewrite Ej. rewrite qnth_upd_same by lia. rewrite <- app_assoc. reflexivity.
    + apply Nat.eqb_neq in Ej. rewrite qnth_upd_other by exact Ej. reflexivity.
Qed.

Lemma filterw_in n w (l : list item) it : In it (filterw n w l) -> fst it mod n = w.
Proof. unfold filterw. intro H. apply filter_In in H. destruct H as [_ H]. apply Nat.eqb_eq. exact H. Qed.

(* ---------------- the invariant of one call of map ---------------- *)
Definition inv (n : nat) (jobs : list item) (p0 : pool) (pm : pool * mstate) : Prop :=
  wf n (fst pm) /\
  Permutation jobs (concat (pend (fst pm)) ++ concat (resq (fst pm)) ++ taken (snd pm)) /\
  count (snd pm) = length (taken (snd pm)) /\
  target (snd pm) = length jobs /\
  exc (snd pm) = last_exc (taken (snd pm)) None /\
  (done (snd pm) = true -> target (snd pm) <= count (snd pm)) /\
  (exists ev, elog (fst pm) = elog p0 ++ ev /\ Permutation ev (concat (resq (fst pm)) ++ taken (snd pm))) /\
  (forall w, w < n ->
     filterw n w (taken (snd pm)) ++ qnth (resq (fst pm)) w ++ qnth (pend (fst pm)) w = filterw n w jobs).

Ltac split8 := refine (conj _ (conj _ (conj _ (conj _ (conj _ (conj _ (conj _ _))))))).

Lemma inv_start n jobs p0 : 0 < n -> wf n p0 -> clean p0 -> inv n jobs p0 (start jobs p0).
Proof.
  intros Hn [Wp Wr] [Cp Cr]. unfold inv, start, submit, init_m, wf; simpl.
  fold (dist (length (pend p0)) jobs (pend p0)). rewrite Wp.
  split8.
  - split; [rewrite dist_length; exact Wp | exact Wr].
  - rewrite dist_concat by auto. rewrite Cp, Cr. simpl. rewrite app_nil_r. reflexivity.
  - reflexivity.
  - reflexivity.
  - reflexivity.
  - intro H. apply Nat.eqb_eq in H. lia.
  - exists []. rewrite app_nil_r, Cr. split; auto.
  - intros w Hw. rewrite dist_qnth by auto. rewrite !(concat_nil_qnth _ w) by assumption. reflexivity.
Qed.

Lemma inv_stepF n jobs p0 w p m : inv n jobs p0 (p, m) -> inv n jobs p0 (stepF w p, m).
Proof.
  intros (W & Pm & Cn & Tg & Ex & Dn & (ev & Ee & Ep) & Or). simpl in *.
  unfold stepF. destruct (qnth (pend p) w) as [|it rest] eqn:Hq.
  { unfold inv; simpl. split8; auto. exists ev; auto. }
  destruct W as [Wp Wr]. pose proof (qnth_cons_lt _ _ _ _ Hq) as Hw. rewrite Wp in Hw.
  unfold inv, wf; simpl. split8; [ | | exact Cn | exact Tg | exact Ex | exact Dn | | ].
  - rewrite !upd_length. auto.
  - rewrite Pm. apply (perm_move_12 _ _ _ _ _ it).
    + apply concat_upd_tail. exact Hq.
    + apply concat_upd_snoc. lia.
  - exists (ev ++ [it]). split.
    + rewrite Ee, app_assoc. reflexivity.
    + rewrite <- Permutation_cons_append. rewrite Ep.
      rewrite (concat_upd_snoc (resq p) w it) by lia. reflexivity.
  - intros w' Hw'. rewrite <- (Or w' Hw'). destruct (Nat.eq_dec w w') as [<-|Ne].
    + rewrite !qnth_upd_same by lia. rewrite Hq. rewrite <- !app_assoc. reflexivity.
    + rewrite !qnth_upd_other by exact Ne. reflexivity.
Qed.

Lemma inv_take n jobs p0 pm : 0 < n -> inv n jobs p0 pm -> inv n jobs p0 (take pm).
Proof.
  intros Hn. destruct pm as [p m]. intros (W & Pm & Cn & Tg & Ex & Dn & (ev & Ee & Ep) & Or). simpl in *.
  unfold take. destruct (qnth (resq p) (cursor m)) as [|it rest] eqn:Hq.
  { unfold inv; simpl. split8; auto. exists ev; auto. }
  destruct W as [Wp Wr]. pose proof (qnth_cons_lt _ _ _ _ Hq) as Hc. rewrite Wr in Hc.
  assert (Hit : fst it mod n = cursor m).
  { apply (filterw_in n (cursor m) jobs). rewrite <- (Or _ Hc). rewrite Hq.
    apply in_or_app; right. left; reflexivity. }
  unfold inv, wf; simpl. split8; [ | | | exact Tg | | | | ].
  - rewrite upd_length. auto.
  - rewrite Pm. apply perm_move_23. apply concat_upd_tail. exact Hq.
  - rewrite app_length. simpl. lia.
  - rewrite last_exc_app, Ex. reflexivity.
  - intro H. specialize (Dn H). lia.
  - exists ev. split; auto. rewrite Ep.
    rewrite (concat_upd_tail (resq p) (cursor m) it rest Hq). simpl.
    rewrite app_assoc. rewrite <- Permutation_cons_append. reflexivity.
  - intros w Hw. rewrite <- (Or w Hw). unfold filterw. rewrite filter_app_single.
    destruct (Nat.eq_dec (cursor m) w) as [<-|Ne].
    + rewrite Hit, Nat.eqb_refl. rewrite qnth_upd_same by lia. rewrite Hq.
      rewrite <- !app_assoc. reflexivity.
    + rewrite Hit. replace (cursor m =? w) with false by (symmetry; apply Nat.eqb_neq; exact Ne).
      rewrite app_nil_r. rewrite qnth_upd_other by exact Ne. reflexivity.
Qed.

Lemma inv_next n jobs p0 p m k : inv n jobs p0 (p, m) -> inv n jobs p0 (p, next k m).
Proof.
  intros (W & Pm & Cn & Tg & Ex & Dn & Ev & Or). simpl in *.
  unfold next. destruct (S (cursor m) <? k); unfold inv; simpl;
    (split8; [exact W | exact Pm | exact Cn | exact Tg | exact Ex | | exact Ev | exact Or]); auto.
  intro H. apply Nat.leb_le in H. exact H.
Qed.

Lemma inv_stepP n jobs p0 pm : 0 < n -> inv n jobs p0 pm -> inv n jobs p0 (stepP pm).
Proof.
  intros Hn H. unfold stepP. destruct (done (snd pm)); auto.
  pose proof (inv_take _ _ _ _ Hn H) as H1. destruct (take pm) as [p1 m1].
  apply inv_next. exact H1.
Qed.

Lemma inv_step n jobs p0 pm a : 0 < n -> inv n jobs p0 pm -> inv n jobs p0 (step pm a).
Proof.
  intros Hn H. destruct a as [w|]; simpl.
  - destruct pm as [p m]. apply inv_stepF. exact H.
  - apply inv_stepP; auto.
Qed.

Lemma inv_run n jobs p0 sched pm : 0 < n -> inv n jobs p0 pm -> inv n jobs p0 (run sched pm).
Proof.
  intro Hn. unfold run. revert pm; induction sched as [|a sched IH]; intros pm H; simpl; auto.
  apply IH. apply inv_step; auto.
Qed.

(* ---------------- what the invariant gives when the call has finished ---------------- *)
Lemma inv_done n jobs p0 p m : inv n jobs p0 (p, m) -> done m = true ->
  Permutation (taken m) jobs /\ clean p /\ wf n p /\
  (exists ev, elog p = elog p0 ++ ev /\ Permutation ev jobs) /\
  (forall w, w < n -> filterw n w (taken m) = filterw n w jobs) /\
  exc m = last_exc (taken m) None.
Proof.
  intros (W & Pm & Cn & Tg & Ex & Dn & (ev & Ee & Ep) & Or) D. simpl in *. specialize (Dn D).
  rewrite app_assoc in Pm. apply perm_length_sub in Pm; [|lia].
  destruct Pm as [Hnil Pm]. apply app_eq_nil in Hnil. destruct Hnil as [Hp Hr].
  refine (conj _ (conj _ (conj W (conj _ (conj _ Ex))))).
  - symmetry. exact Pm.
  - split; assumption.
  - exists ev. split; auto. rewrite Ep, Hr. simpl. symmetry. exact Pm.
  - intros w Hw. rewrite <- (Or w Hw). rewrite !(concat_nil_qnth _ w) by assumption. rewrite !app_nil_r. reflexivity.
Qed.

(* every schedule, every batch on a pool with empty queues: the items taken are a permutation of the jobs,
   every job was evaluated exactly once during the call, nothing is left in any queue *)
Theorem map_conservation n (jobs : list item) (p0 : pool) sched p m :
  0 < n -> wf n p0 -> clean p0 -> run sched (start jobs p0) = (p, m) -> done m = true ->
  Permutation (taken m) jobs /\ clean p /\ wf n p /\ (exists ev, elog p = elog p0 ++ ev /\ Permutation ev jobs).
Proof.
  intros Hn W C Hr D. pose proof (inv_run n jobs p0 sched _ Hn (inv_start n jobs p0 Hn W C)) as I.
  rewrite Hr in I. destruct (inv_done _ _ _ _ _ I D) as (A & B & C' & D' & _). auto.
Qed.

Theorem map_yields_permutation n (jobs : list item) (p0 : pool) sched p m :
  0 < n -> wf n p0 -> clean p0 -> run sched (start jobs p0) = (p, m) -> done m = true ->
  Permutation (yields (taken m)) (yields jobs).
Proof.
  intros Hn W C Hr D. destruct (map_conservation n jobs p0 sched p m Hn W C Hr D) as (A & _).
  unfold yields. apply Permutation_flat_map'. exact A.
Qed.

(* an exception is reported exactly when a job of THIS batch failed, and it is one of this batch's *)
Theorem map_exception_reported n (jobs : list item) (p0 : pool) sched p m :
  0 < n -> wf n p0 -> clean p0 -> run sched (start jobs p0) = (p, m) -> done m = true ->
  (exc m = None <-> (forall it, In it jobs -> is_exc it = false)) /\
  (forall it, exc m = Some it -> In it jobs /\ is_exc it = true).
Proof.
  intros Hn W C Hr D. pose proof (inv_run n jobs p0 sched _ Hn (inv_start n jobs p0 Hn W C)) as I.
  rewrite Hr in I. destruct (inv_done _ _ _ _ _ I D) as (A & _ & _ & _ & _ & Ex).
  rewrite Ex. split.
  - rewrite last_exc_none, failures_nil_iff. split; intros H it Hi; apply H.
    + apply (Permutation_in it (Permutation_sym A)). exact Hi.
    + apply (Permutation_in it A). exact Hi.
  - intros it H. apply last_exc_some in H. destruct H as [Hi He]. split; auto.
    apply (Permutation_in it A). exact Hi.
Qed.

(* per process, results are discovered in input order (a result queue is FIFO and fed in order) *)
Theorem map_worker_order n (jobs : list item) (p0 : pool) sched p m w :
  0 < n -> wf n p0 -> clean p0 -> run sched (start jobs p0) = (p, m) -> done m = true -> w < n ->
  filterw n w (taken m) = filterw n w jobs.
Proof.
  intros Hn W C Hr D Hw. pose proof (inv_run n jobs p0 sched _ Hn (inv_start n jobs p0 Hn W C)) as I.
  rewrite Hr in I. destruct (inv_done _ _ _ _ _ I D) as (_ & _ & _ & _ & Or & _). apply Or. exact Hw.
Qed.

Lemma filterw_one (l : list item) : filterw 1 0 l = l.
Proof.
  unfold filterw. induction l as [|x l IH]; cbn [filter]; auto.
  rewrite Nat.mod_1_r. cbn [Nat.eqb]. rewrite IH. reflexivity.
Qed.

(* with ONE process, map is serial evaluation: same results in the same order, same exception *)
Theorem map_order_single (jobs : list item) (p0 : pool) sched p m :
  wf 1 p0 -> clean p0 -> run sched (start jobs p0) = (p, m) -> done m = true ->
  taken m = jobs /\ yields (taken m) = yields jobs /\ exc m = last_exc jobs None.
Proof.
  intros W C Hr D.
  pose proof (inv_run 1 jobs p0 sched _ Nat.lt_0_1 (inv_start 1 jobs p0 Nat.lt_0_1 W C)) as I.
  rewrite Hr in I. destruct (inv_done _ _ _ _ _ I D) as (_ & _ & _ & _ & Or & Ex).
  specialize (Or 0 Nat.lt_0_1). rewrite !filterw_one in Or. rewrite Ex, Or. auto.
Qed.

(* ---------------- sequences of batches on one pool ---------------- *)
Lemma run_app sched1 sched2 (pm : pool * mstate) : run (sched1 ++ sched2) pm = run sched2 (run sched1 pm).
Proof. unfold run. apply fold_left_app. Qed.

Lemma fresh_wf n : wf n (@fresh R E n).
Proof. unfold wf, fresh; simpl. rewrite !repeat_length. auto. Qed.
Lemma fresh_clean n : clean (@fresh R E n).
Proof. unfold clean, fresh; simpl. rewrite !concat_repeat_nil. auto. Qed.

(* what a caller of one finished call observes *)
Definition batch_good (outs : list (outcome R E)) (o : batch_obs R E) : Prop :=
  Permutation (bo_yields o) (yields_of outs) /\
  bo_pend o = repeat 0 (length (bo_pend o)) /\ bo_resq o = repeat 0 (length (bo_resq o)) /\
  bo_evals o = repeat 1 (length outs) /\
  (bo_raised o = None <-> (forall e, ~ In (Exc e) outs)) /\
  (forall e, bo_raised o = Some e -> In (Exc e) outs).

Lemma evals_once (outs : list (outcome R E)) (ev : list item) :
  Permutation ev (enum outs) -> map (fun k => count_tag k ev) (seq 0 (length outs)) = repeat 1 (length outs).
Proof.
  intro H. transitivity (map (fun _ : nat => 1) (seq 0 (length outs))).
  - apply map_ext_in. intros k Hk. apply in_seq in Hk.
    rewrite (count_tag_perm _ _ k H). apply count_tag_enum. lia.
  - rewrite map_const_repeat, seq_length. reflexivity.
Qed.

Lemma in_enum_exc (outs : list (outcome R E)) (it : item) :
  In it (enum outs) -> In (snd it) outs.
Proof. intro H. rewrite <- (map_snd_enum outs). apply in_map. exact H. Qed.

Lemma exc_in_enum (outs : list (outcome R E)) e : In (Exc e) outs -> exists k, In (k, Exc e) (enum outs).
Proof.
  intro H. rewrite <- (map_snd_enum outs) in H. apply in_map_iff in H. destruct H as [[k o] [Ho Hi]].
  simpl in Ho. subst o. exists k. exact Hi.
Qed.

Lemma batch_current_good n (outs : list (outcome R E)) sched (p0 p1 : pool) o :
  0 < n -> wf n p0 -> clean p0 -> batch false outs sched p0 = (p1, o) -> bo_done o = true ->
  wf n p1 /\ clean p1 /\ batch_good outs o.
Proof.
  intros Hn W C Hb D. unfold batch in Hb. destruct (run_batch outs sched p0) as [p m] eqn:Hr.
  inversion Hb; subst p1 o; clear Hb. simpl in D. unfold run_batch in Hr.
  destruct (map_conservation n _ _ _ _ _ Hn W C Hr D) as (A & Cl & W1 & (ev & Ee & Ep)).
  destruct (map_exception_reported n _ _ _ _ _ Hn W C Hr D) as (X1 & X2).
  split; [exact W1|]. split; [exact Cl|]. destruct Cl as [Cp Cr]. unfold batch_good, observe; simpl.
  repeat split.
  - rewrite <- yields_enum. unfold yields. apply Permutation_flat_map'. exact A.
  - rewrite map_length. apply map_length_concat_nil. exact Cp.
  - rewrite map_length. apply map_length_concat_nil. exact Cr.
  - rewrite Ee. rewrite skipn_app, skipn_all, Nat.sub_diag. simpl. apply evals_once. exact Ep.
  - intros H e Hin. destruct (exc_in_enum _ _ Hin) as [k Hk].
    assert (Hx : exc m = None).
    { apply exc_value_none; auto. intros it Hit. apply (X2 it Hit). }
    apply X1 with (it := (k, Exc e)) in Hx; auto. discriminate.
  - intro H. assert (Hx : exc m = None).
    { apply X1. intros [k [r|e]] Hi; auto. apply in_enum_exc in Hi. simpl in Hi. elim (H e Hi). }
    rewrite Hx. reflexivity.
  - intros e H. destruct (exc m) as [[k [r|e']]|] eqn:Hx; simpl in H; try discriminate.
    inversion H; subst e'. destruct (X2 _ eq_refl) as [Hi _]. apply in_enum_exc in Hi. exact Hi.
Qed.

(* for EVERY sequence of batches (each with its own schedule) on one pool: every call that finishes hands
   back exactly its own batch -- nothing of an earlier batch, failed or not, is attributed to a later one *)
Theorem map_batches n (bs : list (list (outcome R E) * list action)) (p0 : pool) :
  0 < n -> wf n p0 -> clean p0 ->
  Forall (fun o => bo_done o = true) (batches false bs p0) ->
  Forall2 (fun b o => batch_good (fst b) o) bs (batches false bs p0).
Proof.
  intros Hn. revert p0; induction bs as [|[outs sched] bs IH]; intros p0 W C HD; cbn [batches] in *; [constructor|].
  destruct (batch false outs sched p0) as [p1 o] eqn:Hb. inversion HD as [|? ? Hd1 Hd2]; subst.
  destruct (batch_current_good n outs sched p0 p1 o Hn W C Hb Hd1) as (W1 & C1 & G).
  constructor; auto.
Qed.

End Map.
