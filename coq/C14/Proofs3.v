(* C14 proofs, part 3: Process.run_jobs for EVERY schedule, and the callers that key results by job number. *)
From Coq Require Import List Bool Arith Lia Permutation Sorted.
From PAFC14 Require Import Model Lib.
Import ListNotations.

Section Jobs.
Context {R E : Type}.
Local Notation item := (nat * outcome R E)%type.
Local Notation jstate := (jstate R E).

Definition jinv (nw : nat) (jobs : list item) (s : jstate) : Prop :=
  (length (jrq s) = nw /\ length (jalive s) = nw) /\
  Permutation jobs (jq s ++ concat (jrq s) ++ jtaken s) /\
  jcount s = length (jtaken s) + length (failures (jtaken s)) /\
  jtarget s = length jobs /\
  jexc s = last_exc (jtaken s) None /\
  (jdone s = true -> jtarget s <= jcount s).

Ltac split6 := refine (conj _ (conj _ (conj _ (conj _ (conj _ _))))).

Lemma jinv_start nw jobs : jinv nw jobs (jstart nw jobs).
Proof.
  unfold jinv, jstart; simpl. split6; [ | | reflexivity | reflexivity | reflexivity | ].
  - rewrite !repeat_length. auto.
  - rewrite concat_repeat_nil. simpl. rewrite app_nil_r. reflexivity.
  - intro H. apply Nat.eqb_eq in H. lia.
Qed.

Lemma nth_true_lt (l : list bool) w : nth w l false = true -> w < length l.
Proof.
  intro H. destruct (Nat.lt_ge_cases w (length l)) as [L|L]; auto.
  rewrite nth_overflow in H by lia. discriminate.
Qed.

Lemma jinv_jexit nw jobs w s : jinv nw jobs s -> jinv nw jobs (jexit w s).
Proof.
  intros ([Lr La] & Pm & Cn & Tg & Ex & Dn). unfold jinv, jexit; simpl.
  split6; [ | exact Pm | exact Cn | exact Tg | exact Ex | exact Dn]. rewrite upd_length. auto.
Qed.

Lemma jinv_stepT nw jobs fixed w s : jinv nw jobs s -> jinv nw jobs (stepT fixed w s).
Proof.
  intros H. unfold stepT.
  destruct (nth w (jalive s) false) eqn:Al; [|exact H].
  destruct (jvis s); [|destruct fixed; [exact H | apply jinv_jexit; exact H]].
  destruct (jq s) as [|it r] eqn:Hq; [apply jinv_jexit; exact H|].
  destruct H as ([Lr La] & Pm & Cn & Tg & Ex & Dn). apply nth_true_lt in Al.
  unfold jinv; simpl. split6; [ | | exact Cn | exact Tg | exact Ex | exact Dn].
  - rewrite upd_length. auto.
  - rewrite Pm, Hq. apply (perm_move_12 _ _ _ _ _ it); [reflexivity|]. apply concat_upd_snoc. lia.
Qed.

Lemma jinv_stepV nw jobs s : jinv nw jobs s -> jinv nw jobs (stepV s).
Proof. intros H. exact H. Qed.

Lemma failures_snoc (l : list item) x : failures (l ++ [x]) = failures l ++ (if is_exc x then [x] else []).
Proof. unfold failures. apply filter_app_single. Qed.

Lemma jinv_stepJP nw jobs s : jinv nw jobs s -> jinv nw jobs (stepJP s).
Proof.
  intros ([Lr La] & Pm & Cn & Tg & Ex & Dn). unfold stepJP.
  destruct (jdone s) eqn:D; [unfold jinv; split6; auto|].
  destruct (qnth (jrq s) (jcur s)) as [|it rest] eqn:Hq.
  - destruct (S (jcur s) <? length (jrq s)); unfold jinv; simpl;
      (split6; [split; assumption | exact Pm | exact Cn | exact Tg | exact Ex | ]); auto.
    intro H. apply Nat.leb_le in H. exact H.
  - unfold jinv; simpl. split6; [ | | | exact Tg | | ].
    + rewrite upd_length. auto.
    + rewrite Pm. apply Permutation_app_head. apply perm_move_23 with (a := []). apply concat_upd_tail. exact Hq.
    + rewrite failures_snoc, !app_length, Cn. destruct (is_exc it); simpl; lia.
    + rewrite last_exc_app, Ex. reflexivity.
    + intro H. specialize (Dn H). destruct (is_exc it); lia.
Qed.

Lemma jinv_run nw jobs fixed sched s : jinv nw jobs s -> jinv nw jobs (jrun fixed sched s).
Proof.
  unfold jrun. revert s; induction sched as [|a sched IH]; intros s H; simpl; auto.
  apply IH. destruct a; simpl; [apply jinv_stepT | apply jinv_stepJP | apply jinv_stepV]; exact H.
Qed.

(* whatever the caller has seen when it stops looking is a state of the full system *)
Lemma jrun_obs_done fixed sched (s : jstate) : jdone s = true -> jrun_obs fixed sched s = s.
Proof.
  intro D. unfold jrun_obs. induction sched as [|a sched IH]; simpl; auto.
  unfold jstep_obs at 2. rewrite D. exact IH.
Qed.

Lemma jrun_obs_prefix fixed sched (s : jstate) : exists sched', jrun_obs fixed sched s = jrun fixed sched' s.
Proof.
  revert s; induction sched as [|a sched IH]; intro s.
  - exists []. reflexivity.
  - destruct (jdone s) eqn:D.
    + exists []. rewrite jrun_obs_done by exact D. reflexivity.
    + destruct (IH (jstep fixed s a)) as [sched' H]. exists (a :: sched').
      unfold jrun_obs, jrun in *. simpl. unfold jstep_obs at 2. rewrite D. exact H.
Qed.

(* every schedule: nothing is invented, nothing is delivered twice *)
Theorem jobs_conservation nw (jobs : list item) fixed sched :
  exists rest, Permutation jobs (jtaken (jrun fixed sched (jstart nw jobs)) ++ rest).
Proof.
  destruct (jinv_run nw jobs fixed sched _ (jinv_start nw jobs)) as (_ & Pm & _).
  exists (jq (jrun fixed sched (jstart nw jobs)) ++ concat (jrq (jrun fixed sched (jstart nw jobs)))).
  etransitivity; [exact Pm|]. rewrite app_assoc. apply Permutation_app_comm.
Qed.

Lemma failures_sub (l a b : list item) : Permutation l (a ++ b) -> failures l = [] -> failures b = [].
Proof.
  intros H Hl. rewrite failures_nil_iff in *. intros it Hi. apply Hl.
  apply (Permutation_in it (Permutation_sym H)). apply in_or_app. auto.
Qed.

(* every schedule: if no job fails, a finished call has delivered every result exactly once, and reports nothing *)
Theorem jobs_complete nw (jobs : list item) fixed sched s :
  s = jrun fixed sched (jstart nw jobs) -> jdone s = true -> (forall it, In it jobs -> is_exc it = false) ->
  Permutation (jtaken s) jobs /\ jexc s = None.
Proof.
  intros -> D Hok. destruct (jinv_run nw jobs fixed sched _ (jinv_start nw jobs)) as (_ & Pm & Cn & Tg & Ex & Dn).
  set (s := jrun fixed sched (jstart nw jobs)) in *. specialize (Dn D).
  assert (Hf : failures (jtaken s) = []).
  { rewrite app_assoc in Pm. apply (failures_sub _ _ _ Pm). apply failures_nil_iff. exact Hok. }
  rewrite Hf in Cn. simpl in Cn. rewrite app_assoc in Pm. apply perm_length_sub in Pm; [|lia].
  destruct Pm as [_ Pm]. split; [symmetry; exact Pm|]. rewrite Ex. apply last_exc_none. exact Hf.
Qed.

(* every schedule: if some job fails, a finished call reports an exception of one of ITS failing jobs *)
Theorem jobs_exception_reported nw (jobs : list item) fixed sched s :
  s = jrun fixed sched (jstart nw jobs) -> jdone s = true -> (exists it, In it jobs /\ is_exc it = true) ->
  exists it, jexc s = Some it /\ In it jobs /\ is_exc it = true.
Proof.
  intros -> D [bad [Hb He]]. destruct (jinv_run nw jobs fixed sched _ (jinv_start nw jobs)) as (_ & Pm & Cn & Tg & Ex & Dn).
  set (s := jrun fixed sched (jstart nw jobs)) in *. specialize (Dn D).
  rewrite Ex. destruct (last_exc (jtaken s) None) as [it|] eqn:Hx.
  - exists it. split; auto. apply last_exc_some in Hx. destruct Hx as [Hi Hx]. split; auto.
    apply (Permutation_in it (Permutation_sym Pm)). apply in_or_app; right. apply in_or_app; right. exact Hi.
  - exfalso. apply last_exc_none in Hx. rewrite Hx in Cn. simpl in Cn.
    rewrite app_assoc in Pm. apply perm_length_sub in Pm; [|lia]. destruct Pm as [_ Pm].
    rewrite failures_nil_iff in Hx. specialize (Hx bad (Permutation_in bad Pm Hb)). congruence.
Qed.

(* ---------------- results keyed by job number ---------------- *)
Lemma lookup_none (l : list item) k : ~ In k (map fst l) -> lookup k l = None.
Proof.
  induction l as [|[j o] l IH]; simpl; intro H; auto.
  rewrite IH by tauto. destruct (j =? k) eqn:Ej; auto. apply Nat.eqb_eq in Ej. subst. tauto.
Qed.

Lemma lookup_in (l : list item) k o : NoDup (map fst l) -> In (k, o) l -> lookup k l = Some o.
Proof.
  induction l as [|[j o'] l IH]; simpl; intros Hn Hi; [tauto|].
  inversion Hn as [|? ? Hj Hn']; subst. destruct Hi as [Heq|Hi].
  - inversion Heq; subst. rewrite lookup_none by exact Hj. rewrite Nat.eqb_refl. reflexivity.
  - rewrite (IH Hn' Hi). reflexivity.
Qed.

Lemma summaries_from (l : list item) : forall (outs : list (outcome R E)) s,
  (forall k o, In (k, o) (combine (seq s (length outs)) outs) -> lookup k l = Some o) ->
  map (fun k => lookup k l) (seq s (length outs)) = map Some outs.
Proof.
  induction outs as [|o outs IH]; intros s H; simpl; auto.
  f_equal.
  - apply H. simpl. auto.
  - apply IH. intros k o' Hi. apply H. simpl. auto.
Qed.

Lemma perm_enum_nodup (l : list item) (outs : list (outcome R E)) : Permutation l (enum outs) -> NoDup (map fst l).
Proof.
  intro H. apply (Permutation_NoDup (l := seq 0 (length outs))); [|apply seq_NoDup].
  rewrite <- map_fst_enum. apply Permutation_map. symmetry. exact H.
Qed.

(* ResultBuilder: whatever the arrival order, slot k holds the result of job k *)
Theorem keyed_summaries (outs : list (outcome R E)) (l : list item) :
  Permutation l (enum outs) -> summaries (length outs) l = map Some outs.
Proof.
  intro H. unfold summaries. apply summaries_from. intros k o Hi. apply lookup_in.
  - apply (perm_enum_nodup l outs H).
  - apply (Permutation_in _ (Permutation_sym H)). exact Hi.
Qed.

Definition le_num (a b : item) : Prop := fst a <= fst b.

Lemma insert_num_perm (x : item) l : Permutation (insert_num x l) (x :: l).
Proof.
  induction l as [|y l IH]; simpl; auto. destruct (fst x <? fst y); auto.
  rewrite IH. apply perm_swap.
Qed.

Lemma insert_num_sorted (x : item) l : StronglySorted le_num l -> StronglySorted le_num (insert_num x l).
Proof.
  induction l as [|y l IH]; intro H; simpl.
  - constructor; constructor.
  - inversion H as [|? ? Hs Hf]; subst. destruct (fst x <? fst y) eqn:Exy.
    + apply Nat.ltb_lt in Exy. constructor; auto. constructor.
      * unfold le_num. lia.
      * eapply Forall_impl; [|exact Hf]. unfold le_num. intros a Ha. lia.
    + apply Nat.ltb_ge in Exy. constructor; auto.
      apply (Permutation_Forall (Permutation_sym (insert_num_perm x l))). constructor; auto.
Qed.

Lemma sorted_results_spec (l : list item) : forall acc, StronglySorted le_num acc ->
  StronglySorted le_num (fold_left (fun acc x => insert_num x acc) l acc) /\
  Permutation (fold_left (fun acc x => insert_num x acc) l acc) (acc ++ l).
Proof.
  induction l as [|x l IH]; intros acc H; simpl.
  - rewrite app_nil_r. auto.
  - destruct (IH (insert_num x acc) (insert_num_sorted x acc H)) as [S P]. split; auto.
    rewrite P. rewrite insert_num_perm. simpl. apply Permutation_middle.
Qed.

Lemma sorted_unique (l1 : list item) : forall l2,
  StronglySorted le_num l1 -> StronglySorted le_num l2 -> NoDup (map fst l1) -> Permutation l1 l2 -> l1 = l2.
Proof.
  induction l1 as [|a l1 IH]; intros l2 S1 S2 N P.
  - apply Permutation_nil in P. auto.
  - destruct l2 as [|b l2]; [apply Permutation_sym, Permutation_nil in P; discriminate|].
    inversion S1 as [|? ? S1' F1]; inversion S2 as [|? ? S2' F2]; subst.
    inversion N as [|? ? Na N']; subst.
    assert (Hab : a = b).
    { assert (Ia : In a (b :: l2)) by (apply (Permutation_in a P); left; auto).
      assert (Ib : In b (a :: l1)) by (apply (Permutation_in b (Permutation_sym P)); left; auto).
      destruct Ia as [->|Ia]; auto. destruct Ib as [->|Ib]; auto.
      rewrite Forall_forall in F1, F2. pose proof (F1 b Ib) as L1. pose proof (F2 a Ia) as L2.
      unfold le_num in *. exfalso. apply Na. replace (fst a) with (fst b) by lia.
      apply in_map. exact Ib. }
    subst b. f_equal. apply IH; auto. apply Permutation_cons_inv in P. exact P.
Qed.

Lemma enum_sorted (outs : list (outcome R E)) : StronglySorted le_num (enum outs).
Proof.
  unfold enum. generalize 0. induction outs as [|o outs IH]; intro s; simpl; constructor; auto.
  apply Forall_forall. intros [k o'] Hi. apply in_combine_l in Hi. apply in_seq in Hi. unfold le_num; simpl. lia.
Qed.

(* Sensitivity.run: whatever the arrival order, the sorted results are the serial list *)
Theorem keyed_sorted (outs : list (outcome R E)) (l : list item) :
  Permutation l (enum outs) -> sorted_results l = enum outs.
Proof.
  intro H. unfold sorted_results.
  destruct (sorted_results_spec l [] (SSorted_nil _)) as [S P]. simpl in P.
  apply sorted_unique; auto.
  - apply enum_sorted.
  - apply (perm_enum_nodup _ outs). rewrite P. exact H.
  - rewrite P. exact H.
Qed.

Lemma good_all (l : list item) : (forall it, In it l -> is_exc it = false) -> good l = l.
Proof.
  unfold good. induction l as [|x l IH]; simpl; intro H; auto.
  rewrite (H x (or_introl eq_refl)). simpl. f_equal. apply IH. intros it Hi. apply H. auto.
Qed.

(* run_jobs + ResultBuilder / sorted: for EVERY schedule (which worker takes which job, when the main loop looks)
   a finished call on non-failing jobs gives exactly the serial results in job order *)
Theorem jobs_keyed_serial nw (outs : list (outcome R E)) fixed sched s :
  s = jrun fixed sched (jstart nw (enum outs)) -> jdone s = true -> (forall e, ~ In (Exc e) outs) ->
  summaries (length outs) (good (jtaken s)) = map Some outs /\ sorted_results (good (jtaken s)) = enum outs.
Proof.
  intros Hs D Hok.
  assert (Hno : forall it : item, In it (enum outs) -> is_exc it = false).
  { intros [k [r|e]] Hi; auto. exfalso. apply (Hok e). rewrite <- (map_snd_enum outs).
    change (Exc e) with (snd (k, @Exc R E e)). apply in_map. exact Hi. }
  destruct (jobs_complete nw _ fixed sched s Hs D Hno) as [P _].
  rewrite good_all.
  - split; [apply keyed_summaries | apply keyed_sorted]; exact P.
  - intros it Hi. apply Hno. apply (Permutation_in it P). exact Hi.
Qed.

(* ---------------- the start-up race of Process.run ---------------- *)

(* REFUTED termination, code as it is: a worker that looks at the shared queue before the parent's feeder thread
   has flushed the jobs exits; when every worker does, the main loop polls forever *)
Lemma stuck_forever (s : jstate) k : stepJP s = s -> jrun false (repeat JP k) s = s.
Proof.
  intro H. unfold jrun. induction k as [|k IH]; simpl; auto. rewrite H. exact IH.
Qed.

(* the repaired worker loop (blocking get, one StopCommand per worker queued behind the jobs): a worker only
   leaves when every job has been taken -- in every reachable state with jobs still queued all workers are there *)
Definition workers_stay (s : jstate) : Prop := jq s <> [] -> Forall (fun b => b = true) (jalive s).

Lemma Forall_upd {A} (P : A -> Prop) (l : list A) i f : Forall P l -> (forall x, P x -> P (f x)) -> Forall P (upd l i f).
Proof.
  intros H Hf. revert i; induction H as [|x l Hx Hl IH]; intros [|i]; simpl; constructor; auto.
Qed.

Lemma workers_stay_run nw (jobs : list item) sched :
  workers_stay (jrun true sched (jstart nw jobs)).
Proof.
  assert (H0 : workers_stay (jstart nw jobs)).
  { intros _. unfold jstart; simpl. clear. induction nw; simpl; constructor; auto. }
  unfold jrun. generalize dependent (jstart nw jobs). induction sched as [|a sched IH]; intros s H; simpl; auto.
  apply IH. destruct a as [w| |]; simpl.
  - unfold stepT. destruct (nth w (jalive s) false); [|exact H]. destruct (jvis s); [|exact H].
    destruct (jq s) as [|it r] eqn:Hq.
    + intro Hne. simpl in Hne. rewrite Hq in Hne. congruence.
    + intros _. simpl. apply H. rewrite Hq. discriminate.
  - unfold stepJP. destruct (jdone s); [exact H|]. destruct (qnth (jrq s) (jcur s)); [|exact H].
    destruct (S (jcur s) <? length (jrq s)); exact H.
  - exact H.
Qed.

End Jobs.
