From Coq Require Import List Bool Arith Lia.
From PAFC14 Require Import Model.
Import ListNotations.
Lemma placeholder_upd_length {A} (l : list A) i f : length (upd l i f) = length l.
Proof. revert i; induction l; destruct i; simpl; auto. Qed.
