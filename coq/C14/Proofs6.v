(* C14 proofs, part 6: termination for the code as it is NOW -- the ordered blocking map (sneaky.py after c80ac95)
   and run_jobs with the sentinel worker loop (process.py after 67a753d; the statement holds for both loops). *)
From Coq Require Import List Bool Arith Lia Permutation.
From PAFC14 Require Import Model Lib Proofs1 Proofs2 Proofs3.
Import ListNotations.

Section MapFixLive.
Context {R E : Type}.
Local Notation item := (nat * outcome R E)%type.
Local Notation pool := (pool R E).
Local Notation fstate := (fstate R E).

(* the main process takes everything it can: after [advance] it has finished or waits on an empty queue *)
Lemma advance_max n : forall todo (rq : list (list item)) tk ex,
  match advance n todo rq tk ex with
  | (todo', rq', _, _) => todo' = [] \/ exists i r, todo' = i :: r /\ qnth rq' (i mod n) = []
  end.
Proof.
  induction todo as [|i r IH]; intros rq tk ex; cbn [advance]; [left; reflexivity|].
  destruct (qnth rq (i mod n)) as [|it q] eqn:Hq.
  - right. exists i, r. auto.
  - apply IH.
Qed.

Definition waits (pf : pool * fstate) : Prop :=
  ftodo (snd pf) = [] \/ exists i r, ftodo (snd pf) = i :: r /\ qnth (resq (fst pf)) (i mod length (resq (fst pf))) = [].

Lemma advance_length n : forall todo (rq : list (list item)) tk ex,
  match advance n todo rq tk ex with (_, rq', _, _) => length rq' = length rq end.
Proof.
  induction todo as [|i r IH]; intros rq tk ex; cbn [advance]; auto.
  destruct (qnth rq (i mod n)) as [|it q]; auto.
  specialize (IH (upd rq (i mod n) (fun _ => q)) (tk ++ [it]) (if is_exc it then Some it else ex)).
  destruct (advance n r (upd rq (i mod n) (fun _ => q)) (tk ++ [it]) (if is_exc it then Some it else ex)) as [[[a b] c] d].
  rewrite IH. apply upd_length.
Qed.

Lemma fadvance_waits (pf : pool * fstate) : waits (fadvance pf).
Proof.
  destruct pf as [p f]. unfold fadvance, waits.
  pose proof (advance_max (length (resq p)) (ftodo f) (resq p) (ftaken f) (fexc f)) as H.
  pose proof (advance_length (length (resq p)) (ftodo f) (resq p) (ftaken f) (fexc f)) as L.
  destruct (advance (length (resq p)) (ftodo f) (resq p) (ftaken f) (fexc f)) as [[[todo' rq'] tk'] ex'].
  cbn [fst snd ftodo resq]. rewrite L. exact H.
Qed.

Lemma frun_waits sched : forall pf, waits pf -> waits (frun sched pf).
Proof.
  unfold frun. induction sched as [|a sched IH]; intros pf H; simpl; auto.
  apply IH. destruct a; cbn [fstep]; apply fadvance_waits.
Qed.

(* the map as it is now: EVERY schedule in which every job of the batch gets evaluated ends the call, and the call
   has then taken the items in input order *)
Theorem mapfix_terminates n (jobs : list item) (p0 : pool) sched :
  0 < n -> wf n p0 -> clean p0 ->
  concat (pend (fst (frun sched (fstart jobs p0)))) = [] ->
  fdone (snd (frun sched (fstart jobs p0))) = true.
Proof.
  intros Hn W C Hp.
  pose proof (finv_frun n jobs p0 sched _ Hn (finv_fstart n jobs p0 Hn W C)) as I.
  assert (Wt : waits (frun sched (fstart jobs p0))).
  { apply frun_waits. unfold fstart. apply fadvance_waits. }
  destruct (frun sched (fstart jobs p0)) as [p f]. unfold waits in Wt. cbn [fst snd] in *.
  destruct I as ([Wp Wr] & _ & _ & (rem & Hj & Ht & Ho)). cbn [fst snd] in *.
  unfold fdone. destruct Wt as [Hz|(i & r & Hi & Hq)]; [rewrite Hz; reflexivity|]. exfalso.
  rewrite Hi in Ht. destruct rem as [|r0 rem]; [discriminate|]. cbn [map] in Ht. inversion Ht; subst i.
  rewrite Wr in Hq. assert (Hc : fst r0 mod n < n) by (apply Nat.mod_upper_bound; lia).
  pose proof (Ho _ Hc) as Hoc. rewrite Hq, filterw_cons_same in Hoc.
  rewrite (concat_nil_qnth _ (fst r0 mod n) Hp) in Hoc. discriminate.
Qed.

Theorem batch_fixed_complete_schedule n (outs : list (outcome R E)) (p0 : pool) sched :
  0 < n -> wf n p0 -> clean p0 ->
  concat (pend (fst (frun sched (fstart (enum outs) p0)))) = [] ->
  bo_done (snd (batch true outs sched p0)) = true /\ batch_exact outs (snd (batch true outs sched p0)).
Proof.
  intros Hn W C Hp. pose proof (mapfix_terminates n (enum outs) p0 sched Hn W C Hp) as D.
  destruct (batch true outs sched p0) as [p1 o] eqn:Hb.
  assert (Do : bo_done o = true).
  { unfold batch, frun_batch in Hb. destruct (frun sched (fstart (enum outs) p0)) as [p f]. inversion Hb; subst. exact D. }
  split; [exact Do|]. destruct (batch_fixed_exact n outs sched p0 p1 o Hn W C Hb Do) as (_ & _ & G). exact G.
Qed.

End MapFixLive.

Section JobsLive.
Context {R E : Type}.
Local Notation item := (nat * outcome R E)%type.
Local Notation jstate := (jstate R E).

Lemma jrun_JP_done fixed k (s : jstate) : jdone s = true -> jrun fixed (repeat JP k) s = s.
Proof.
  intro D. unfold jrun. induction k as [|k IH]; simpl; auto.
  unfold stepJP at 1. rewrite D. exact IH.
Qed.

Lemma jrun_app fixed a b (s : jstate) : jrun fixed (a ++ b) s = jrun fixed b (jrun fixed a s).
Proof. unfold jrun. apply fold_left_app. Qed.

(* the sweep position stays inside the worker list *)
Lemma jstep_shape nw fixed (s : jstate) a : 0 < nw -> length (jrq s) = nw -> jcur s < nw ->
  length (jrq (jstep fixed s a)) = nw /\ jcur (jstep fixed s a) < nw.
Proof.
  intros Hn L C. destruct a as [w| |]; cbn [jstep].
  - unfold stepT, jexit. destruct (nth w (jalive s) false); auto. destruct (jvis s).
    + destruct (jq s); cbn [jrq jcur]; rewrite ?upd_length; auto.
    + destruct fixed; cbn [jrq jcur]; auto.
  - unfold stepJP. destruct (jdone s); auto. destruct (qnth (jrq s) (jcur s)).
    + destruct (S (jcur s) <? length (jrq s)) eqn:H; cbn [jrq jcur]; auto.
      apply Nat.ltb_lt in H. split; auto. lia.
    + cbn [jrq jcur]. rewrite upd_length. auto.
  - unfold stepV. cbn [jrq jcur]. auto.
Qed.

Lemma jcur_lt nw (jobs : list item) fixed sched : 0 < nw ->
  jcur (jrun fixed sched (jstart nw jobs)) < nw.
Proof.
  intro Hn.
  assert (G : forall sched (s : jstate), length (jrq s) = nw -> jcur s < nw ->
                              length (jrq (jrun fixed sched s)) = nw /\ jcur (jrun fixed sched s) < nw).
  { clear sched. unfold jrun. induction sched as [|a sched IH]; intros s L C; simpl; auto.
    destruct (jstep_shape nw fixed s a Hn L C) as [L1 C1]. apply IH; auto. }
  apply G; unfold jstart; simpl; auto. apply repeat_length.
Qed.

Lemma concat_upd_tail_length {A} (l : list (list A)) i x r :
  qnth l i = x :: r -> length (concat l) = S (length (concat (upd l i (fun _ => r)))).
Proof. intro H. pose proof (concat_upd_tail l i x r H) as P. apply Permutation_length in P. exact P. Qed.

(* from any point of a sweep to its end: every queue from the sweep position on is emptied *)
Lemma to_wrap nw (jobs : list item) fixed : forall N (s : jstate),
  jinv nw jobs s -> jdone s = false -> jcur s < nw -> (nw - jcur s) + length (concat (jrq s)) <= N ->
  exists j s', jrun fixed (repeat JP j) s = s' /\
    j + length (concat (jrq s')) <= (nw - jcur s) + length (concat (jrq s)) /\
    jcur s' = 0 /\ jdone s' = (jtarget s' <=? jcount s') /\ jq s' = jq s /\ jinv nw jobs s' /\
    (forall i, jcur s <= i < nw -> qnth (jrq s') i = []) /\
    (forall i, i < jcur s -> qnth (jrq s') i = qnth (jrq s) i).
Proof.
  induction N as [|N IH]; intros s I D C M; [lia|].
  pose proof (jinv_stepJP nw jobs s I) as I1.
  assert (Lr : length (jrq s) = nw) by (destruct I as ([L _] & _); exact L).
  unfold stepJP in I1. rewrite D in I1.
  destruct (qnth (jrq s) (jcur s)) as [|it rest] eqn:Hq.
  - destruct (S (jcur s) <? length (jrq s)) eqn:Hlt.
    + apply Nat.ltb_lt in Hlt. rewrite Lr in Hlt.
      destruct (IH _ I1) as (j & s' & Hr & Hb & C0 & Dn & Hjq & I' & He & Hk); cbn [jdone jcur jrq]; try lia; auto.
      exists (S j), s'. cbn [repeat]. unfold jrun in *. cbn [fold_left jstep]. unfold stepJP at 1. rewrite D, Hq.
      replace (S (jcur s) <? length (jrq s)) with true by (symmetry; apply Nat.ltb_lt; lia).
      split; [exact Hr|]. cbn [jcur jrq jq] in *. split; [lia|]. split; [exact C0|]. split; [exact Dn|].
      split; [exact Hjq|]. split; [exact I'|]. split.
      * intros i Hi. destruct (Nat.eq_dec i (jcur s)) as [->|Ne]; [rewrite Hk by lia; exact Hq | apply He; lia].
      * intros i Hi. apply Hk. lia.
    + apply Nat.ltb_ge in Hlt. rewrite Lr in Hlt. eexists 1, _. cbn [repeat]. unfold jrun. cbn [fold_left jstep].
      unfold stepJP. rewrite D, Hq. replace (S (jcur s) <? length (jrq s)) with false by (symmetry; apply Nat.ltb_ge; lia).
      split; [reflexivity|]. cbn [jcur jrq jq jdone jtarget jcount]. split; [lia|]. split; auto. split; auto. split; auto.
      split; [exact I1|]. split; [|auto]. intros i Hi. assert (i = jcur s) by lia. subst i. exact Hq.
  - pose proof (concat_upd_tail_length _ _ _ _ Hq) as Hlen.
    destruct (IH _ I1) as (j & s' & Hr & Hb & C0 & Dn & Hjq & I' & He & Hk); cbn [jdone jcur jrq]; try lia; auto.
    exists (S j), s'. cbn [repeat]. unfold jrun in *. cbn [fold_left jstep]. unfold stepJP at 1. rewrite D, Hq.
    split; [exact Hr|]. cbn [jcur jrq jq] in *. split; [lia|]. split; [exact C0|]. split; [exact Dn|].
    split; [exact Hjq|]. split; [exact I'|]. split; [exact He|].
    intros i Hi. rewrite Hk by exact Hi. apply qnth_upd_other. lia.
Qed.

(* run_jobs (both worker loops): once every job has been taken from the shared queue -- in the model a take includes
   the evaluation and the put -- the collection loop ends within jdrain_fuel further polls, wherever the sweep stands *)
Theorem jobs_terminates nw (jobs : list item) fixed sched :
  0 < nw -> jq (jrun fixed sched (jstart nw jobs)) = [] ->
  jdone (jrun fixed (sched ++ repeat JP (jdrain_fuel nw (length jobs))) (jstart nw jobs)) = true.
Proof.
  intros Hn Hq. rewrite jrun_app.
  pose proof (jinv_run nw jobs fixed sched _ (jinv_start nw jobs)) as I.
  pose proof (jcur_lt nw jobs fixed sched Hn) as C.
  set (s := jrun fixed sched (jstart nw jobs)) in *.
  destruct (jdone s) eqn:D; [rewrite jrun_JP_done by exact D; exact D|].
  assert (R0 : length (concat (jrq s)) <= length jobs).
  { destruct I as (_ & Pm & _). apply Permutation_length in Pm. rewrite !app_length in Pm. lia. }
  destruct (to_wrap nw jobs fixed _ s I D C (le_n _)) as (j1 & s1 & Hr1 & Hb1 & C1 & Dn1 & Hjq1 & I1 & He1 & _).
  assert (Fin : exists j, j <= 2 * nw + length jobs /\ jdone (jrun fixed (repeat JP j) s) = true).
  { destruct (jdone s1) eqn:D1.
    - exists j1. split; [lia|]. rewrite Hr1. exact D1.
    - assert (C1' : jcur s1 < nw) by lia.
      destruct (to_wrap nw jobs fixed _ s1 I1 D1 C1' (le_n _)) as (j2 & s2 & Hr2 & Hb2 & C2 & Dn2 & Hjq2 & I2 & He2 & _).
      exists (j1 + j2). split; [rewrite C1 in Hb2; lia|].
      rewrite repeat_app, jrun_app, Hr1, Hr2. rewrite Dn2. apply Nat.leb_le.
      assert (Lr2 : length (jrq s2) = nw) by (destruct I2 as ([L _] & _); exact L).
      assert (Cr : concat (jrq s2) = []).
      { apply qnth_all_nil_concat. intros i Hi. apply He2. rewrite C1. lia. }
      destruct I2 as (_ & Pm & Cn & Tg & _). rewrite Hjq2, Hjq1, Hq, Cr in Pm. simpl in Pm.
      apply Permutation_length in Pm. lia. }
  destruct Fin as (j & Hj & Dj).
  unfold jdrain_fuel.
  replace ((2 * length jobs + 2) * nw + length jobs) with (j + ((2 * length jobs + 2) * nw + length jobs - j)) by nia.
  rewrite repeat_app, jrun_app. rewrite jrun_JP_done; exact Dj.
Qed.

Lemma consume_no_failure (l : list item) : forall acc, (forall it, In it l -> is_exc it = false) -> consume l acc = (None, acc ++ l).
Proof.
  induction l as [|[k [r|e]] l IH]; intros acc H; cbn [consume snd].
  - rewrite app_nil_r. reflexivity.
  - rewrite IH by (intros it Hi; apply H; right; exact Hi). rewrite <- app_assoc. reflexivity.
  - specialize (H (k, Exc e) (or_introl eq_refl)). discriminate.
Qed.

Lemma consume_failure (l : list item) : forall acc, (exists it, In it l /\ is_exc it = true) ->
  exists e k, fst (consume l acc) = Some e /\ In (k, Exc e) l.
Proof.
  induction l as [|[k [r|e]] l IH]; intros acc [it [Hi He]]; cbn [consume snd].
  - destruct Hi.
  - destruct Hi as [<-|Hi]; [discriminate|]. destruct (IH (acc ++ [(k, Ok r)]) (ex_intro _ it (conj Hi He))) as (e & k' & H1 & H2).
    exists e, k'. split; auto. right; exact H2.
  - exists e, k. split; auto. left; reflexivity.
Qed.

(* callers of run_jobs: if a job fails, the consumer of a finished call meets an exception of one of the jobs;
   if none fails it stores every result (keyed: C14_jobs_keyed_serial) *)
Theorem callers_exception nw (jobs : list item) fixed sched s :
  s = jrun fixed sched (jstart nw jobs) -> jdone s = true -> (exists it, In it jobs /\ is_exc it = true) ->
  exists e k, fst (consume (jtaken s) []) = Some e /\ In (k, Exc e) jobs.
Proof.
  intros Hs D Hf. destruct (jobs_exception_reported nw jobs fixed sched s Hs D Hf) as (it & Hx & Hi & He).
  assert (Hin : In it (jtaken s)).
  { subst s. destruct (jinv_run nw jobs fixed sched _ (jinv_start nw jobs)) as (_ & _ & _ & _ & Ex & _).
    rewrite Ex in Hx. apply last_exc_some in Hx. tauto. }
  destruct (consume_failure (jtaken s) [] (ex_intro _ it (conj Hin He))) as (e & k & H1 & H2).
  exists e, k. split; auto.
  subst s. destruct (jobs_conservation nw jobs fixed sched) as [rest Pm].
  apply (Permutation_in _ (Permutation_sym Pm)). apply in_or_app. left. exact H2.
Qed.

End JobsLive.
