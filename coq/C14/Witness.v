(* C14 witnesses: `_refuted` statements by vm_compute, and non-vacuity of the theorems' hypotheses. *)
From Coq Require Import List Bool Arith ZArith Lia Permutation.
From PAFC14 Require Import Model Lib Proofs1 Proofs2 Proofs3 Proofs4 Proofs6 Proofs7.
Import ListNotations.

Definition o2 : list (outcome nat nat) := [Ok 10; Ok 20].

(* FINDING: two processes, the second one finishes first -> map yields [20; 10] for inputs whose serial
   results are [10; 20] *)
Lemma map_order_refuted :
  exists (outs : list (outcome nat nat)) (sched : list action) p m,
    run sched (start (enum outs) (fresh 2)) = (p, m) /\ done m = true /\
    yields (taken m) <> yields (enum outs).
Proof.
  exists o2, [F 1; P; P; F 0; P; P].
  eexists. eexists. split; [vm_compute; reflexivity|]. split; [reflexivity|].
  vm_compute. discriminate.
Qed.

(* FINDING (same root cause, seen through the initializer): with 2 cores the figure of merit of point 1 is
   attached to point 0 and vice versa *)
Lemma init_pairs_refuted :
  exists (stream : list (nat * outcome (option nat) nat)) scheds res,
    samples_from_model false 2 2 stream scheds = IOk res /\
    ~ (forall x v, In (x, v) res -> In (x, Ok (Some v)) stream).
Proof.
  exists [(0, Ok (Some 10)); (1, Ok (Some 20))], [[F 1; P; P; F 0]].
  eexists. split; [vm_compute; reflexivity|].
  intro H. specialize (H 0 20 (or_introl eq_refl)). simpl in H.
  destruct H as [H|[H|[]]]; inversion H.
Qed.

(* the hypothesis `clean` of the no-residue theorems is needed: an item left in a result queue (e.g. by a caller
   that abandoned the generator of an earlier call) is handed out by the next call *)
Example stale_item_is_attributed_to_the_next_call :
  let p0 : pool nat nat := Pool [[]; []] [[(7, Ok 99)]; []] [] in
  bo_yields (snd (batch false [Ok 1] [F 0] p0)) = [99].
Proof. vm_compute. reflexivity. Qed.

(* run_jobs counts an exception twice: a finished (raising) call may not have delivered every good result *)
Example jobs_early_exit :
  let s := run_jobs 1 [Exc 5; Ok 1; Ok 2] [T 0; JP; JP; T 0; JP; JP; T 0] in
  jdone s = true /\ map fst (jtaken s) = [0; 1] /\ exc_value (jexc s) = Some 5.
Proof. vm_compute. auto. Qed.

(* FINDING: the start-up race of Process.run.  One worker, one job; the worker looks at the shared queue before the
   parent's feeder thread has made the job visible ([T 0] before [V]) and exits; from then on the main loop
   polls forever: no number of further polls (nor the late [V]) ends the call, the job is never evaluated *)
Lemma jobs_termination_refuted :
  exists (nw : nat) (outs : list (outcome nat nat)) (sched : list jaction),
    forall k, let s := jrun false (sched ++ repeat JP k) (jstart nw (enum outs)) in
              jdone s = false /\ jtaken s = [] /\ jq s = enum outs.
Proof.
  exists 1, [Ok 7], [T 0; V]. intro k. cbv zeta. unfold jrun. rewrite fold_left_app.
  change (fold_left (jstep false) [T 0; V] (jstart 1 (enum [Ok 7])))
    with (J [(0, @Ok nat nat 7)] [[]] [false] true 0 0 1 None [] false).
  fold (jrun false (repeat JP k) (J [(0, @Ok nat nat 7)] [[]] [false] true 0 0 1 None [] false)).
  rewrite stuck_forever by reflexivity. simpl. auto.
Qed.

(* the same schedule with the repaired worker loop: the worker waits, takes the job, the call ends *)
Example jobsfix_same_schedule_terminates :
  let s := jrun true [T 0; V; T 0; JP; JP] (@jstart nat nat 1 (enum [Ok 7])) in
  jdone s = true /\ map fst (jtaken s) = [0].
Proof. vm_compute. auto. Qed.

(* ---- non-vacuity: finished runs exist for the shapes the theorems talk about ---- *)
Example nonvacuous_map_three_processes_with_failure :
  let r := run_batch [Ok 1; Exc 2; Ok 3; Ok 4] [F 2; P; F 0; F 1; P; P; P; F 0] (@fresh nat nat 3) in
  done (snd r) = true /\ yields (taken (snd r)) = [3; 1; 4] /\ exc_value (exc (snd r)) = Some 2.
Proof. vm_compute. auto. Qed.

Example nonvacuous_hypotheses_fresh : wf 3 (@fresh nat nat 3) /\ clean (@fresh nat nat 3) /\ 0 < 3.
Proof. split; [apply fresh_wf|]. split; [apply fresh_clean|lia]. Qed.

Example nonvacuous_mapfix :
  let r := frun_batch [Ok 1; Exc 2; Ok 3; Ok 4] [F 2; P; F 0; F 1; P; P; P; F 0] (@fresh nat nat 3) in
  fdone (snd r) = true /\ yields (ftaken (snd r)) = [1; 3; 4] /\ exc_value (fexc (snd r)) = Some 2.
Proof. vm_compute. auto. Qed.

Example nonvacuous_batches :
  Forall (fun o => bo_done o = true)
    (batches false [([Ok 1; Exc 2], [F 1; F 0]); ([Ok 3; Ok 4; Ok 5], [F 0; F 0; P; F 1])] (@fresh nat nat 2)).
Proof. vm_compute. repeat constructor. Qed.

Example nonvacuous_jobs_ok :
  let s := jrun false [V; T 1; T 0; JP; T 1; JP; JP; JP; JP; JP] (@jstart nat nat 2 (enum [Ok 1; Ok 2; Ok 3])) in
  jdone s = true /\ map fst (jtaken s) = [1; 0; 2].
Proof. vm_compute. auto. Qed.

Example nonvacuous_jobs_failure :
  let s := jrun false [V; T 0; T 0; JP; JP; JP] (@jstart nat nat 1 (enum [Ok 1; Exc 2])) in
  jdone s = true /\ exc_value (jexc s) = Some 2.
Proof. vm_compute. auto. Qed.

Example nonvacuous_init_single :
  samples_from_model false 1 2 [(0, Ok (Some 10)); (1, @Ok (option nat) nat None); (2, Ok (Some 30))] [[F 0]; [F 0]; [F 0]]
  = IOk [(0, 10); (2, 30)].
Proof. vm_compute. reflexivity. Qed.

Example nonvacuous_init_fixed :
  samples_from_model true 2 2 [(0, Ok (Some 10)); (1, @Ok (option nat) nat (Some 20))] [[F 1; P; P; F 0]]
  = IOk [(0, 10); (1, 20)].
Proof. vm_compute. reflexivity. Qed.

(* the hypothesis of the termination theorem: schedules after which every job has been evaluated exist *)
Example nonvacuous_every_job_evaluated :
  concat (pend (fst (run [F 1; P; F 0] (start (enum [@Ok nat nat 1; Ok 2]) (fresh 2))))) = [].
Proof. vm_compute. reflexivity. Qed.

(* hypotheses of the termination theorems for the code as it is now *)
Example nonvacuous_mapfix_every_job_evaluated :
  concat (pend (fst (frun [F 1; P; F 0] (fstart (enum [@Ok nat nat 1; Ok 2]) (fresh 2))))) = [].
Proof. vm_compute. reflexivity. Qed.

Example nonvacuous_jobs_every_job_taken :
  jq (jrun true [T 0; V; T 0; T 1; JP] (@jstart nat nat 2 (enum [Ok 1; Exc 2]))) = [].
Proof. vm_compute. reflexivity. Qed.

(* ---------------- hardening sweep (Proofs7) ---------------- *)
(* non-vacuity of C14_jobs_keyed_any_numbering: jobs queued as numbers 2, 0, 1; two workers; a finished call *)
Example nonvacuous_any_numbering :
  let jobs : list (nat * outcome nat nat) := [(2, Ok 30); (0, Ok 10); (1, Ok 20)] in
  let s := jrun true ([V; T 1; T 0; T 1] ++ repeat JP 20) (jstart 2 jobs) in
  jdone s = true /\ Permutation jobs (enum [Ok 10; Ok 20; Ok 30]) /\
  sorted_results (good (jtaken s)) = enum [Ok 10; Ok 20; Ok 30] /\ map fst (jtaken s) <> [0; 1; 2].
Proof.
  split; [vm_compute; reflexivity|]. split.
  - cbn. apply (Permutation_cons_app [(0, Ok 10); (1, Ok 20)] [] (2, Ok 30)). cbn.
    apply Permutation_refl.
  - split; [vm_compute; reflexivity|]. vm_compute. discriminate.
Qed.

(* non-vacuity of C14_numbering_history_free, and what the counter does for unnumbered jobs in between *)
Example nonvacuous_numbering : explicit [Some 0; Some 2; Some 1] /\
  assign false 57 [Some 0; None; Some 2; None; Some 1] = ([0; 57; 2; 58; 1], 59).
Proof. split; [intros sp [H|[H|[H|[]]]]; subst; discriminate | reflexivity]. Qed.

(* non-vacuity of C14_sneakier_fresh_uses_partial: two uses, the second after the first has deleted the cache *)
Example nonvacuous_sneakier_fresh_uses :
  sneakier false (concat (map fresh_use [(0, 3%Z, [[1; 2]; [5]]%Z); (1, 100%Z, [[1]]%Z)])) [] None None
  = [Some [4; 7]; Some [16]; Some [101]]%Z.
Proof. vm_compute. reflexivity. Qed.
