(* C14 proofs, part 4: AbstractInitializer.samples_from_model -- batches of min(remaining, n_cores) points
   through pool.map, values zipped with the points by position. *)
From Coq Require Import List Bool Arith Lia Permutation.
From PAFC14 Require Import Model Lib Proofs1 Proofs2.
Import ListNotations.

Lemma firstn_add {A} (a b : nat) (l : list A) : firstn (a + b) l = firstn a l ++ firstn b (skipn a l).
Proof.
  revert l; induction a as [|a IH]; intro l; simpl; auto.
  destruct l as [|x l]; simpl.
  - rewrite firstn_nil. reflexivity.
  - f_equal. apply IH.
Qed.

Section Init.
Context {X V E : Type}.
Local Notation point := (X * outcome (option V) E)%type.

(* the situations in which pool.map returns results by position: the repaired map with any number of
   processes, the current map with one process *)
Definition inorder (fixed : bool) (n : nat) : Prop := (fixed = true /\ 0 < n) \/ (fixed = false /\ n = 1).

Lemma batch_inorder fixed n (outs : list (outcome (option V) E)) sched p0 p1 o :
  inorder fixed n -> wf n p0 -> clean p0 -> batch fixed outs sched p0 = (p1, o) -> bo_done o = true ->
  wf n p1 /\ clean p1 /\ batch_exact outs o.
Proof.
  intros [[-> Hn]|[-> ->]] W C Hb D.
  - apply (batch_fixed_exact n outs sched p0 p1 o Hn W C Hb D).
  - apply (batch_single_exact outs sched p0 p1 o W C Hb D).
Qed.

Lemma keep_valid (pts : list point) :
  (forall e, ~ In (Exc e) (map snd pts)) ->
  keep (combine (yields_of (map snd pts)) (map fst pts)) = valid pts.
Proof.
  unfold keep, valid, yields_of. induction pts as [|[x [[v|]|e]] pts IH]; intro H; simpl; auto.
  - f_equal. apply IH. intros e Hi. apply (H e). simpl. auto.
  - apply IH. intros e Hi. apply (H e). simpl. auto.
  - exfalso. apply (H e). simpl. auto.
Qed.

Lemma valid_app (a b : list point) : valid (a ++ b) = valid a ++ valid b.
Proof. unfold valid. apply flat_map_app. Qed.

Lemma valid_length (a : list point) : length (valid a) <= length a.
Proof.
  unfold valid. induction a as [|[x [[v|]|e]] a IH]; simpl; lia.
Qed.

Lemma valid_in (pts : list point) x v : In (x, v) (valid pts) -> In (x, Ok (Some v)) pts.
Proof.
  unfold valid. induction pts as [|[x' [[v'|]|e]] pts IH]; simpl; intro H; auto.
  - destruct H as [H|H]; [inversion H; subst; auto | auto].
Qed.

(* whenever map returns results by position, the accepted (point, value) pairs are exactly the points of a
   prefix of the stream that evaluate to a value, in stream order, each with ITS OWN value: what serial
   evaluation one point after another gives -- for every schedule and every number of cores *)
Lemma init_loop_serial fixed n : inorder fixed n ->
  forall fuel total (stream : list point) scheds p acc res,
  wf n p -> clean p -> init_loop fixed fuel n total stream scheds p acc = IOk res ->
  (exists k, res = acc ++ valid (firstn k stream)) /\ (length acc <= total -> length res = total).
Proof.
  intro Hin. induction fuel as [|fuel IH]; intros total stream scheds p acc res W C H.
  - revert H. cbn [init_loop]. destruct (total <=? length acc) eqn:Ht; intro H; [|discriminate].
    inversion H; subst. apply Nat.leb_le in Ht. split; [exists 0; simpl; rewrite app_nil_r; auto | lia].
  - revert H. cbn [init_loop]. cbv zeta. destruct (total <=? length acc) eqn:Ht.
    { intro H. inversion H; subst. apply Nat.leb_le in Ht. split; [exists 0; simpl; rewrite app_nil_r; auto | lia]. }
    apply Nat.leb_gt in Ht.
    set (bsz := Nat.min (total - length acc) n).
    match goal with |- context [if ?c then IStuck else _] => destruct c end; [intro H0; discriminate H0|].
    match goal with |- context [let (_, _) := ?b in _] => destruct b as [p1 o] eqn:Hb end.
    destruct (bo_done o) eqn:D; cbn [negb]; cbv iota; [|intro H0; discriminate H0].
    destruct (bo_raised o) eqn:Hr; cbv iota; [intro H0; discriminate H0|]. intro H.
    destruct (batch_inorder fixed n _ _ _ _ _ Hin W C Hb D) as (W1 & C1 & Ex).
    pose proof (exact_raised_none _ _ Ex Hr) as Hno.
    destruct Ex as (Hy & _). rewrite Hy, keep_valid in H by exact Hno.
    destruct (IH _ _ _ _ _ _ W1 C1 H) as [[k Hk] Hl]. split.
    + exists (bsz + k). rewrite Hk, firstn_add, valid_app, app_assoc. reflexivity.
    + intro Hle. apply Hl. rewrite app_length. pose proof (valid_length (firstn bsz stream)) as L1.
      pose proof (firstn_le_length bsz stream) as L2.
      pose proof (Nat.le_min_l (total - length acc) n) as L3. fold bsz in L3. clearbody bsz.
      apply (Nat.le_trans _ (length acc + (total - length acc))); [apply Nat.add_le_mono_l; eapply Nat.le_trans; [exact L1 | eapply Nat.le_trans; [exact L2 | exact L3]] | lia].
Qed.

Theorem init_serial fixed n total (stream : list point) scheds res :
  inorder fixed n -> samples_from_model fixed n total stream scheds = IOk res ->
  (exists k, res = valid (firstn k stream)) /\ length res = total /\
  (forall x v, In (x, v) res -> In (x, Ok (Some v)) stream).
Proof.
  intros Hin H. unfold samples_from_model in H.
  destruct (init_loop_serial fixed n Hin _ _ _ _ _ _ _ (fresh_wf n) (fresh_clean n) H) as [[k Hk] Hl].
  simpl in Hk. split; [exists k; exact Hk|]. split; [apply Hl; simpl; lia|].
  intros x v Hi. rewrite Hk in Hi. apply valid_in in Hi.
  rewrite <- (firstn_skipn k stream). apply in_or_app. auto.
Qed.

End Init.
