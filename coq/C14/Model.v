(* C14 model: the process pools and job runners of autofit/non_linear/parallel as transition
   systems over explicit FIFO queues, driven by a schedule (a list of scheduling choices).
   Executable definitions only; proofs are in Proofs*.v.

   SneakyPool.map (sneaky.py):   job i of a batch goes to the job queue of process i mod n; a worker
     takes the head of its job queue, evaluates it and appends the result (or the exception) to its
     own result queue (action [F w]); the main loop sweeps the processes, one `queue.empty()` test
     per process and sweep (action [P]), takes at most one item from a non-empty queue, yields
     non-exceptions at once, remembers the last exception, tests `count < target` only between two
     sweeps and raises the remembered exception at the end.
   Process.run_jobs (process.py): one shared job queue filled before the workers start; worker w takes
     the next job, or exits when the queue is empty (action [T w]); the main loop empties the result
     queue of one process after the other (one `queue.empty()` test = action [JP]), yields every item
     (exceptions too), counts an exception twice, raises AssertionError at the end.
   AbstractInitializer.samples_from_model (initializer.py): batches of min(remaining, n_cores) points,
     `zip(pool.map(...), units, parameters)` pairs the k-th yielded value with the k-th point.
   ResultBuilder.add / Sensitivity.run: results keyed by job number / kept sorted by job number.

   [*_fix] definitions model the proposed repair of SneakyPool.map (proposed_fixes/C14-map-order.diff):
   `for i in range(len(jobs)): item = self.processes[i % n].queue.get()`. *)
From Coq Require Import List Bool Arith ZArith Lia.
Import ListNotations.

Fixpoint upd {A} (l : list A) (i : nat) (f : A -> A) : list A :=
  match l, i with
  | [], _ => []
  | x :: r, O => f x :: r
  | x :: r, S i' => x :: upd r i' f
  end.

Definition qnth {A} (l : list (list A)) (i : nat) : list A := nth i l [].

Inductive outcome (R E : Type) := Ok (r : R) | Exc (e : E).
Arguments Ok {R E} r.
Arguments Exc {R E} e.

Inductive action := F (w : nat) | P.
Inductive jaction := T (w : nat) | JP | V.

Section Pools.
Context {R E : Type}.

(* a job / a result item: position in its batch (the job number) and what evaluating it gives *)
Local Notation item := (nat * outcome R E)%type.

Definition is_exc (it : item) : bool := match snd it with Exc _ => true | Ok _ => false end.
Definition enum (outs : list (outcome R E)) : list item := combine (seq 0 (length outs)) outs.
(* what a generator that skips exceptions yields *)
Definition yields (l : list item) : list R :=
  flat_map (fun it : item => match snd it with Ok r => [r] | Exc _ => [] end) l.
Definition failures (l : list item) : list item := filter is_exc l.
Fixpoint last_exc (l : list item) (acc : option item) : option item :=
  match l with
  | [] => acc
  | it :: r => last_exc r (if is_exc it then Some it else acc)
  end.

(* ---------------- SneakyPool ---------------- *)
Record pool := Pool {
  pend : list (list item);      (* job_queue of every process *)
  resq : list (list item);      (* result queue of every process *)
  elog : list item              (* evaluation log: every evaluation ever performed, oldest first *)
}.
Definition fresh (n : nat) : pool := Pool (repeat [] n) (repeat [] n) [].

Record mstate := M {
  cursor : nat;                 (* position of the `for process in self.processes` sweep *)
  count : nat;
  target : nat;
  exc : option item;            (* `exception` *)
  taken : list item;            (* every item taken from a result queue, in the order of discovery *)
  done : bool                   (* the `while count < target` loop has been left *)
}.

Definition submit (jobs : list item) (p : pool) : pool :=
  let n := length (pend p) in
  Pool (fold_left (fun qs (it : item) => upd qs (fst it mod n) (fun q => q ++ [it])) jobs (pend p))
       (resq p) (elog p).

Definition stepF (w : nat) (p : pool) : pool :=
  match qnth (pend p) w with
  | [] => p
  | it :: rest => Pool (upd (pend p) w (fun _ => rest)) (upd (resq p) w (fun q => q ++ [it])) (elog p ++ [it])
  end.

(* one `if not process.queue.empty(): item = process.queue.get(); ...` at the sweep position *)
Definition take (pm : pool * mstate) : pool * mstate :=
  let (p, m) := pm in
  match qnth (resq p) (cursor m) with
  | [] => pm
  | it :: rest =>
      (Pool (pend p) (upd (resq p) (cursor m) (fun _ => rest)) (elog p),
       M (cursor m) (S (count m)) (target m) (if is_exc it then Some it else exc m) (taken m ++ [it]) (done m))
  end.
(* next process of the sweep; `while count < target` is tested between two sweeps *)
Definition next (n : nat) (m : mstate) : mstate :=
  if S (cursor m) <? n then M (S (cursor m)) (count m) (target m) (exc m) (taken m) (done m)
  else M 0 (count m) (target m) (exc m) (taken m) (target m <=? count m).
Definition stepP (pm : pool * mstate) : pool * mstate :=
  if done (snd pm) then pm else
  let (p1, m1) := take pm in (p1, next (length (resq (fst pm))) m1).

Definition step (pm : pool * mstate) (a : action) : pool * mstate :=
  match a with
  | F w => (stepF w (fst pm), snd pm)
  | P => stepP pm
  end.
Definition run (sched : list action) (pm : pool * mstate) : pool * mstate := fold_left step sched pm.

Definition init_m (jobs : list item) : mstate := M 0 0 (length jobs) None [] (length jobs =? 0).
Definition start (jobs : list item) (p : pool) : pool * mstate := (submit jobs p, init_m jobs).
(* enough extra polls for the main loop to finish once every job has been evaluated *)
Definition drain_fuel (n k : nat) : nat := (k + 2) * n.
Definition run_batch (outs : list (outcome R E)) (sched : list action) (p : pool) : pool * mstate :=
  run (sched ++ repeat P (drain_fuel (length (resq p)) (length outs))) (start (enum outs) p).

Definition clean (p : pool) : Prop := concat (pend p) = [] /\ concat (resq p) = [].
Definition wf (n : nat) (p : pool) : Prop := length (pend p) = n /\ length (resq p) = n.

(* what one call of map shows: yielded values, raised exception, left-over queue lengths, and how often
   each job of the batch was evaluated during the call *)
Definition count_tag (k : nat) (l : list item) : nat := length (filter (fun it : item => fst it =? k) l).
Record batch_obs := BO {
  bo_yields : list R; bo_raised : option E; bo_pend : list nat; bo_resq : list nat; bo_evals : list nat; bo_done : bool }.
Definition exc_value (x : option item) : option E :=
  match x with Some (_, Exc e) => Some e | _ => None end.

(* ---------------- the repaired map: ordered blocking collection ---------------- *)
Fixpoint advance (n : nat) (todo : list nat) (rq : list (list item)) (tk : list item) (ex : option item)
  : list nat * list (list item) * list item * option item :=
  match todo with
  | [] => ([], rq, tk, ex)
  | i :: r =>
      match qnth rq (i mod n) with
      | [] => (todo, rq, tk, ex)
      | it :: q => advance n r (upd rq (i mod n) (fun _ => q)) (tk ++ [it]) (if is_exc it then Some it else ex)
      end
  end.
Record fstate := FS { ftodo : list nat; fexc : option item; ftaken : list item }.
Definition fadvance (pf : pool * fstate) : pool * fstate :=
  let (p, f) := pf in
  match advance (length (resq p)) (ftodo f) (resq p) (ftaken f) (fexc f) with
  | (todo, rq, tk, ex) => (Pool (pend p) rq (elog p), FS todo ex tk)
  end.
Definition fstep (pf : pool * fstate) (a : action) : pool * fstate :=
  match a with
  | F w => fadvance (stepF w (fst pf), snd pf)
  | P => fadvance pf
  end.
Definition frun (sched : list action) (pf : pool * fstate) : pool * fstate := fold_left fstep sched pf.
Definition fstart (jobs : list item) (p : pool) : pool * fstate :=
  fadvance (submit jobs p, FS (map fst jobs) None []).
Definition frun_batch (outs : list (outcome R E)) (sched : list action) (p : pool) : pool * fstate :=
  frun sched (fstart (enum outs) p).
Definition fdone (f : fstate) : bool := match ftodo f with [] => true | _ => false end.

(* uniform view of one batch for the callers *)
Definition observe (p0 p1 : pool) (n : nat) (tk : list item) (ex : option item) (d : bool) : batch_obs :=
  BO (yields tk) (exc_value ex) (map (@length item) (pend p1)) (map (@length item) (resq p1))
     (map (fun k => count_tag k (skipn (length (elog p0)) (elog p1))) (seq 0 n)) d.
Definition batch (fixed : bool) (outs : list (outcome R E)) (sched : list action) (p : pool) : pool * batch_obs :=
  if fixed then
    let (p1, f) := frun_batch outs sched p in (p1, observe p p1 (length outs) (ftaken f) (fexc f) (fdone f))
  else
    let (p1, m) := run_batch outs sched p in (p1, observe p p1 (length outs) (taken m) (exc m) (done m)).

Fixpoint batches (fixed : bool) (bs : list (list (outcome R E) * list action)) (p : pool) : list batch_obs :=
  match bs with
  | [] => []
  | (outs, sched) :: r => let (p1, o) := batch fixed outs sched p in o :: batches fixed r p1
  end.

(* ---------------- Process.run_jobs ---------------- *)
Record jstate := J {
  jq : list item;               (* the shared job queue *)
  jrq : list (list item);       (* result queue of every worker *)
  jalive : list bool;
  jvis : bool;                  (* the parent's queue feeder thread has flushed the jobs into the pipe *)
  jcur : nat;
  jcount : nat;                 (* process_count *)
  jtarget : nat;                (* total *)
  jexc : option item;
  jtaken : list item;           (* every yielded item (exceptions are yielded too) *)
  jdone : bool
}.
Definition jstart (workers : nat) (jobs : list item) : jstate :=
  J jobs (repeat [] workers) (repeat true workers) false 0 0 (length jobs) None [] (length jobs =? 0).

Definition jexit (w : nat) (s : jstate) : jstate :=
  J (jq s) (jrq s) (upd (jalive s) w (fun _ => false)) (jvis s) (jcur s) (jcount s) (jtarget s) (jexc s) (jtaken s) (jdone s).

(* one turn of the worker loop.  As it is: `if self.job_queue.empty(): break` -- also when the jobs queued by
   the parent are not visible yet.  [fixed] = proposed_fixes/C14-run-jobs-sentinel.diff: blocking get(), one
   StopCommand per worker behind the jobs (a worker only leaves when every job has been taken). *)
Definition stepT (fixed : bool) (w : nat) (s : jstate) : jstate :=
  if nth w (jalive s) false then
    if jvis s then
      match jq s with
      | [] => jexit w s
      | it :: r => J r (upd (jrq s) w (fun q => q ++ [it])) (jalive s) (jvis s) (jcur s) (jcount s) (jtarget s) (jexc s) (jtaken s) (jdone s)
      end
    else if fixed then s else jexit w s
  else s.

Definition stepV (s : jstate) : jstate :=
  J (jq s) (jrq s) (jalive s) true (jcur s) (jcount s) (jtarget s) (jexc s) (jtaken s) (jdone s).

Definition stepJP (s : jstate) : jstate :=
  if jdone s then s else
  match qnth (jrq s) (jcur s) with
  | it :: rest =>    (* `while not process.queue.empty(): result = process.queue.get(); ...; yield result` *)
      J (jq s) (upd (jrq s) (jcur s) (fun _ => rest)) (jalive s) (jvis s) (jcur s)
        (if is_exc it then S (S (jcount s)) else S (jcount s)) (jtarget s)
        (if is_exc it then Some it else jexc s) (jtaken s ++ [it]) (jdone s)
  | [] =>            (* next process; `while process_count < total` is tested between two sweeps *)
      if S (jcur s) <? length (jrq s)
      then J (jq s) (jrq s) (jalive s) (jvis s) (S (jcur s)) (jcount s) (jtarget s) (jexc s) (jtaken s) (jdone s)
      else J (jq s) (jrq s) (jalive s) (jvis s) 0 (jcount s) (jtarget s) (jexc s) (jtaken s) (jtarget s <=? jcount s)
  end.

Definition jstep (fixed : bool) (s : jstate) (a : jaction) : jstate :=
  match a with T w => stepT fixed w s | JP => stepJP s | V => stepV s end.
Definition jrun (fixed : bool) (sched : list jaction) (s : jstate) : jstate := fold_left (jstep fixed) sched s.
Definition jdrain_fuel (workers k : nat) : nat := (2 * k + 2) * workers + k.
(* what can be observed of a call: the caller stops looking once the generator has returned or raised
   (workers may go on taking jobs afterwards; their results are never read) *)
Definition jstep_obs (fixed : bool) (s : jstate) (a : jaction) : jstate := if jdone s then s else jstep fixed s a.
Definition jrun_obs (fixed : bool) (sched : list jaction) (s : jstate) : jstate := fold_left (jstep_obs fixed) sched s.
(* the steered runs of the correspondence open the workers' gates long after the jobs have been flushed *)
Definition run_jobs (workers : nat) (outs : list (outcome R E)) (sched : list jaction) : jstate :=
  jrun_obs false (V :: sched ++ repeat JP (jdrain_fuel workers (length outs))) (jstart workers (enum outs)).

(* the same call on jobs that carry ANY numbers (the k-th job of the shared queue need not be job number k) *)
Definition run_jobs_items (workers : nat) (jobs : list item) (sched : list jaction) : jstate :=
  jrun_obs false (V :: sched ++ repeat JP (jdrain_fuel workers (length jobs))) (jstart workers jobs).

(* ---------------- callers that key results by job number ---------------- *)
Fixpoint lookup (k : nat) (l : list item) : option (outcome R E) :=
  match l with
  | [] => None
  | (j, o) :: r => match lookup k r with Some o' => Some o' | None => if j =? k then Some o else None end
  end.
(* ResultBuilder: `_job_result_dict[number] = job_result` (latest wins); sample_summaries reads range(total) *)
Definition summaries (total : nat) (l : list item) : list (option (outcome R E)) :=
  map (fun k => lookup k l) (seq 0 total).
(* Sensitivity.run: `results.append(result); results = sorted(results)` (stable, ordered by number) *)
Fixpoint insert_num (x : item) (l : list item) : list item :=
  match l with
  | [] => [x]
  | y :: r => if fst x <? fst y then x :: l else y :: insert_num x r
  end.
Definition sorted_results (l : list item) : list item := fold_left (fun acc x => insert_num x acc) l [].
Definition good (l : list item) : list item := filter (fun it => negb (is_exc it)) l.
(* the consumer loops of GridSearch._fit / Sensitivity.run: every yielded result is stored until the first yielded
   exception, which ends the loop (Sensitivity: `raise result`; GridSearch: `builder.add(exception)` fails) *)
Fixpoint consume (l : list item) (acc : list item) : option E * list item :=
  match l with
  | [] => (None, acc)
  | it :: r => match snd it with Exc e => (Some e, acc) | Ok _ => consume r (acc ++ [it]) end
  end.

End Pools.

Arguments pool : clear implicits.
Arguments mstate : clear implicits.
Arguments fstate : clear implicits.
Arguments jstate : clear implicits.
Arguments batch_obs : clear implicits.
Notation item R E := (nat * outcome R E)%type (only parsing).

(* ---------------- AbstractInitializer.samples_from_model ---------------- *)
Section Initializer.
Context {X V E : Type}.
(* a drawn point and what `figure_of_metric` makes of it: a value, None (resample), or an exception *)
Definition point := (X * outcome (option V) E)%type.
Inductive init_result := IOk (acc : list (X * V)) | IRaised (e : E) | IStuck.

Definition keep (pairs : list (option V * X)) : list (X * V) :=
  flat_map (fun pr : option V * X => match fst pr with Some v => [(snd pr, v)] | None => [] end) pairs.
(* serial meaning: the accepted points of a prefix of the stream, with their own values *)
Definition valid (pts : list point) : list (X * V) :=
  flat_map (fun pt : point => match snd pt with Ok (Some v) => [(fst pt, v)] | _ => [] end) pts.

Fixpoint init_loop (fixed : bool) (fuel n total : nat) (stream : list point) (scheds : list (list action))
         (p : pool (option V) E) (acc : list (X * V)) : init_result :=
  if total <=? length acc then IOk acc else
  match fuel with
  | O => IStuck
  | S fuel' =>
      let bsz := Nat.min (total - length acc) n in
      let pts := firstn bsz stream in
      if length pts <? bsz then IStuck else
      let (p1, o) := batch fixed (map snd pts) (hd [] scheds) p in
      if negb (bo_done o) then IStuck else
      match bo_raised o with
      | Some e => IRaised e
      | None => init_loop fixed fuel' n total (skipn bsz stream) (tl scheds) p1
                          (acc ++ keep (combine (bo_yields o) (map fst pts)))
      end
  end.
Definition samples_from_model (fixed : bool) (n total : nat) (stream : list point) (scheds : list (list action)) :=
  init_loop fixed (S (length stream)) n total stream scheds (fresh n) [].
End Initializer.
Arguments init_result : clear implicits.

(* ---------------- job numbering: AbstractJob.__init__ and the class-level counter `_number = count()` ---------------- *)
(* a job built with an explicit number keeps it; one built without draws the next value of the counter, which is
   shared by every job class of the process (SneakyJob draws from it on every map).  [zero_is_missing] = the slip
   `number or next(counter)`: an explicit 0 is taken for "no number". *)
Definition assign1 (zero_is_missing : bool) (c : nat) (spec : option nat) : nat * nat :=
  match spec with
  | Some k => if zero_is_missing && (k =? 0) then (c, S c) else (k, c)
  | None => (c, S c)
  end.
Fixpoint assign (zero_is_missing : bool) (c : nat) (specs : list (option nat)) : list nat * nat :=
  match specs with
  | [] => ([], c)
  | sp :: r => let (k, c1) := assign1 zero_is_missing c sp in
               let (l, c2) := assign zero_is_missing c1 r in (k :: l, c2)
  end.

(* ---------------- SneakierPool and the class-global FunctionCache (sneaky.py) ---------------- *)
(* [SConstruct id m]: SneakierPool(fitness = m*x+1) -- `initializer(...)` overwrites the ONE class-global slot;
   [SEnter id]: `with pool:` -- mp.Pool forks here, the workers keep whatever the slot holds at this moment;
   [SMap xs]: `pool.map(pool.fitness, xs)` inside the open block; [SExit]: __exit__ deletes the slot.
   [install_at_enter] = the proposed repair: __enter__ re-installs the pool's own functions before it forks. *)
Inductive sop := SConstruct (id : nat) (m : Z) | SEnter (id : nat) | SMap (xs : list Z) | SExit.
Definition slot_eval (slot : option Z) (xs : list Z) : option (list Z) :=
  match slot with Some g => Some (map (fun x => g * x + 1)%Z xs) | None => None end.
Fixpoint own (pools : list (nat * Z)) (id : nat) : option Z :=
  match pools with [] => None | (i, m) :: r => if i =? id then Some m else own r id end.
Fixpoint sneakier (install_at_enter : bool) (ops : list sop) (pools : list (nat * Z)) (slot forked : option Z)
  : list (option (list Z)) :=
  match ops with
  | [] => []
  | SConstruct id m :: r => sneakier install_at_enter r ((id, m) :: pools) (Some m) forked
  | SEnter id :: r =>
      let s := if install_at_enter then own pools id else slot in sneakier install_at_enter r pools s s
  | SMap xs :: r => slot_eval forked xs :: sneakier install_at_enter r pools slot forked
  | SExit :: r => sneakier install_at_enter r pools None None
  end.
(* serial meaning: every map gives the function of the pool whose block is open, on its own inputs *)
Fixpoint sneakier_serial (ops : list sop) (pools : list (nat * Z)) (cur : option Z) : list (option (list Z)) :=
  match ops with
  | [] => []
  | SConstruct id m :: r => sneakier_serial r ((id, m) :: pools) cur
  | SEnter id :: r => sneakier_serial r pools (own pools id)
  | SMap xs :: r => slot_eval cur xs :: sneakier_serial r pools cur
  | SExit :: r => sneakier_serial r pools None
  end.

(* ---------------- correspondence cases ---------------- *)
Fixpoint list_eqb {A} (eqb : A -> A -> bool) (a b : list A) : bool :=
  match a, b with
  | [], [] => true
  | x :: a', y :: b' => eqb x y && list_eqb eqb a' b'
  | _, _ => false
  end.
Definition opt_eqb {A} (eqb : A -> A -> bool) (a b : option A) : bool :=
  match a, b with Some x, Some y => eqb x y | None, None => true | _, _ => false end.
Definition obs_eqb (a b : batch_obs Z Z) : bool :=
  list_eqb Z.eqb (bo_yields a) (bo_yields b) && opt_eqb Z.eqb (bo_raised a) (bo_raised b)
  && list_eqb Nat.eqb (bo_pend a) (bo_pend b) && list_eqb Nat.eqb (bo_resq a) (bo_resq b)
  && list_eqb Nat.eqb (bo_evals a) (bo_evals b) && Bool.eqb (bo_done a) (bo_done b).
Definition pairZ_eqb (a b : Z * Z) : bool := Z.eqb (fst a) (fst b) && Z.eqb (snd a) (snd b).
Definition init_eqb (a b : init_result Z Z Z) : bool :=
  match a, b with
  | IOk x, IOk y => list_eqb pairZ_eqb x y
  | IRaised e, IRaised e' => Z.eqb e e'
  | IStuck, IStuck => true
  | _, _ => false
  end.
(* how a yielded item of run_jobs looks from outside: a JobResult carries its number, an exception does not *)
Definition jobs_view (it : item Z Z) : option nat * Z :=
  match snd it with Ok v => (Some (fst it), v) | Exc e => (None, e) end.
Definition view_eqb (a b : option nat * Z) : bool := opt_eqb Nat.eqb (fst a) (fst b) && Z.eqb (snd a) (snd b).
Definition okval (o : option (outcome Z Z)) : option Z := match o with Some (Ok v) => Some v | _ => None end.
Definition numval (it : item Z Z) : nat * Z := (fst it, match snd it with Ok v => v | Exc e => e end).
Definition nz_eqb (a b : nat * Z) : bool := Nat.eqb (fst a) (fst b) && Z.eqb (snd a) (snd b).

Inductive case :=
| CSmap (fixed : bool) (procs : nat) (bs : list (list (outcome Z Z) * list action)) (expected : list (batch_obs Z Z))
| CInit (fixed : bool) (n total : nat) (stream : list (Z * outcome (option Z) Z)) (scheds : list (list action))
        (expected : init_result Z Z Z)
| CJobs (workers : nat) (outs : list (outcome Z Z)) (sched : list jaction)
        (items : list (option nat * Z)) (raised : option Z) (summ : list (option Z)) (srt : list (nat * Z))
        (evals : list nat)
(* real GridSearch.fit / Sensitivity.run on number_of_cores = workers + 1: [raised] = None (returned), Some (Some c)
   (the exception of cell c), Some None (some other exception: never what the code as it is now -- both consumer
   loops re-raise the yielded exception, grid search since 74ff428 -- does, so it never matches); [stored] = index column of
   results.csv (arrival order, or sorted for Sensitivity); [final] = what the returned result holds per cell *)
(* run_jobs on jobs that carry the numbers [nums] (in queue order) *)
| CJobsN (workers : nat) (nums : list nat) (outs : list (outcome Z Z)) (sched : list jaction)
        (items : list (option nat * Z)) (raised : option Z) (summ : list (option Z)) (srt : list (nat * Z))
        (evals : list nat)
(* job numbering: counter before, what each constructed job asked for, the numbers they got, counter after *)
| CNumbers (before : nat) (specs : list (option nat)) (numbers : list nat) (after : nat)
(* SneakierPool histories: observed result per map (None = the map failed) *)
| CSneakier (ops : list sop) (results : list (option (list Z)))
| CCaller (sorted_csv : bool) (workers : nat) (outs : list (outcome Z Z)) (sched : list jaction)
          (raised : option (option Z)) (stored : list nat) (final : list (option Z)).

Definition check_case (c : case) : bool :=
  match c with
  | CSmap fixed procs bs e => list_eqb obs_eqb (batches fixed bs (fresh procs)) e
  | CInit fixed n total stream scheds e => init_eqb (samples_from_model fixed n total stream scheds) e
  | CJobs workers outs sched items raised summ srt evals =>
      let s := run_jobs workers outs sched in
      jdone s
      && list_eqb view_eqb (map jobs_view (jtaken s)) items
      && opt_eqb Z.eqb (exc_value (jexc s)) raised
      && list_eqb (opt_eqb Z.eqb) (map okval (summaries (length outs) (good (jtaken s)))) summ
      && list_eqb nz_eqb (map numval (sorted_results (good (jtaken s)))) srt
      && list_eqb Nat.eqb (map (fun k => if existsb (fun it : item Z Z => fst it =? k) (jq s) then 0 else 1) (seq 0 (length outs))) evals
  | CJobsN workers nums outs sched items raised summ srt evals =>
      let s := run_jobs_items workers (combine nums outs) sched in
      Nat.eqb (length nums) (length outs) && jdone s
      && list_eqb view_eqb (map jobs_view (jtaken s)) items
      && opt_eqb Z.eqb (exc_value (jexc s)) raised
      && list_eqb (opt_eqb Z.eqb) (map okval (summaries (length outs) (good (jtaken s)))) summ
      && list_eqb nz_eqb (map numval (sorted_results (good (jtaken s)))) srt
      && list_eqb Nat.eqb (map (fun k => if existsb (fun it : item Z Z => fst it =? k) (jq s) then 0 else 1) (seq 0 (length outs))) evals
  | CNumbers before specs numbers after =>
      let (l, c) := assign false before specs in list_eqb Nat.eqb l numbers && Nat.eqb c after
  | CSneakier ops results =>
      list_eqb (opt_eqb (list_eqb Z.eqb)) (sneakier true ops [] None None) results
  | CCaller sorted_csv workers outs sched raised stored final =>
      let s := run_jobs workers outs sched in
      let (r, acc) := consume (jtaken s) [] in
      (match raised, r with
       | None, None => jdone s
       | Some (Some c), Some e => Z.eqb c e
       | _, _ => false
       end)
      && list_eqb Nat.eqb (map fst (if sorted_csv then sorted_results acc else acc)) stored
      && (match r with
          | None => list_eqb (opt_eqb Z.eqb) (map okval (summaries (length outs) acc)) final
          | Some _ => true
          end)
  end.
