(* C14 proofs, part 5: termination of SneakyPool.map (code as it is) -- once every job of the batch has been
   evaluated, a bounded number of further polls ends the call, wherever the sweep stands. *)
From Coq Require Import List Bool Arith Lia Permutation.
From PAFC14 Require Import Model Lib Proofs1.
Import ListNotations.

Section Live.
Context {R E : Type}.
Local Notation item := (nat * outcome R E)%type.
Local Notation pool := (pool R E).
Local Notation mstate := (mstate R E).

(* the sweep position stays inside the process list; between two sweeps an unfinished call still misses results *)
Definition binv (n : nat) (m : mstate) : Prop :=
  cursor m < n /\ (cursor m = 0 -> done m = false -> count m < target m).

Lemma take_facts (p : pool) (m : mstate) :
  let pm := take (p, m) in
  pend (fst pm) = pend p /\ cursor (snd pm) = cursor m /\ done (snd pm) = done m /\ target (snd pm) = target m /\
  count m <= count (snd pm) /\
  (qnth (resq p) (cursor m) <> [] -> count (snd pm) = S (count m)) /\
  (forall i, i <> cursor m -> qnth (resq (fst pm)) i = qnth (resq p) i) /\
  length (resq (fst pm)) = length (resq p).
Proof.
  unfold take. destruct (qnth (resq p) (cursor m)) as [|it rest] eqn:Hq; simpl.
  - repeat split; auto. intro H; congruence.
  - repeat split; auto.
    + intros i Hi. apply qnth_upd_other. auto.
    + apply upd_length.
Qed.

Lemma binv_start n (jobs : list item) p0 : 0 < n -> binv n (snd (start jobs p0)).
Proof.
  intro Hn. unfold binv, start, init_m; simpl. split; auto.
  intros _ H. apply Nat.eqb_neq in H. lia.
Qed.

Lemma binv_step n (pm : pool * mstate) a : 0 < n -> length (resq (fst pm)) = n -> binv n (snd pm) -> binv n (snd (step pm a)).
Proof.
  intros Hn Hl B. destruct a as [w|]; simpl; [exact B|].
  unfold stepP. destruct (done (snd pm)) eqn:D; [exact B|].
  destruct B as [Hc Hb]. destruct pm as [p m]. cbn [fst snd] in *.
  pose proof (take_facts p m) as F. destruct (take (p, m)) as [p1 m1].
  cbn [fst snd] in F. destruct F as (_ & Fc & Fd & Ft & Fn & _). rewrite Hl. unfold next. rewrite Fc.
  destruct (S (cursor m) <? n) eqn:Hlt; unfold binv; cbn [snd cursor done count target].
  - apply Nat.ltb_lt in Hlt. split; auto. intro H; discriminate.
  - split; auto. intros _ H. apply Nat.leb_gt in H. exact H.
Qed.

Lemma run_P_done k (pm : pool * mstate) : done (snd pm) = true -> run (repeat P k) pm = pm.
Proof.
  intro D. unfold run. induction k as [|k IH]; simpl; auto.
  unfold stepP at 1. rewrite D. exact IH.
Qed.

Lemma drain_length n (jobs : list item) p0 p m :
  inv n jobs p0 (p, m) -> concat (pend p) = [] -> length (concat (resq p)) + count m = target m.
Proof.
  intros (_ & Pm & Cn & Tg & _) Hp. simpl in *. apply Permutation_length in Pm.
  rewrite Hp in Pm. simpl in Pm. rewrite app_length in Pm. lia.
Qed.

Lemma concat_nonempty_qnth {A} (l : list (list A)) : concat l <> [] -> exists i, i < length l /\ qnth l i <> [].
Proof.
  unfold qnth. induction l as [|q l IH]; simpl; intro H; [congruence|].
  destruct q as [|x q].
  - destruct (IH H) as (i & Hi & Hq). exists (S i). split; [lia|exact Hq].
  - exists 0. split; [lia|discriminate].
Qed.

(* from any point of an unfinished sweep to the end of that sweep *)
Lemma to_boundary n (jobs : list item) p0 : 0 < n -> forall d p m,
  inv n jobs p0 (p, m) -> concat (pend p) = [] -> done m = false -> cursor m + d = n -> 0 < d ->
  exists p' m', run (repeat P d) (p, m) = (p', m') /\ inv n jobs p0 (p', m') /\ concat (pend p') = [] /\
    cursor m' = 0 /\ done m' = (target m' <=? count m') /\ count m <= count m' /\
    ((exists i, cursor m <= i < n /\ qnth (resq p) i <> []) -> count m < count m').
Proof.
  intro Hn. induction d as [|d IH]; intros p m I Hp D Hc Hd; [lia|].
  assert (Wr : length (resq p) = n) by (destruct I as ([_ W] & _); exact W).
  cbn [repeat]. unfold run. cbn [fold_left step]. fold (run (repeat P d) (stepP (p, m))).
  pose proof (inv_take n jobs p0 (p, m) Hn I) as I1.
  pose proof (take_facts p m) as F.
  unfold stepP. cbn [snd fst]. rewrite D. destruct (take (p, m)) as [p1 m1]. cbn [fst snd] in F.
  destruct F as (Fp & Fc & Fd & Ft & Fn & Fs & Fo & Fl).
  pose proof (inv_next n jobs p0 p1 m1 (length (resq p)) I1) as I2.
  unfold next in *. rewrite Wr in *. rewrite Fc in *.
  destruct (S (cursor m) <? n) eqn:Hlt.
  - apply Nat.ltb_lt in Hlt.
    destruct (IH p1 (M (S (cursor m)) (count m1) (target m1) (exc m1) (taken m1) (done m1)) I2) as (p' & m' & Hr & I' & Hp' & C0 & Dn & Cn & Ex);
      simpl; try congruence; try lia.
    exists p', m'. split; [exact Hr|]. split; [exact I'|]. split; [exact Hp'|]. split; [exact C0|]. split; [exact Dn|].
    simpl in Cn. split; [lia|]. intros (i & Hi & Hq). destruct (Nat.eq_dec i (cursor m)) as [->|Ne].
    + specialize (Fs Hq). lia.
    + assert (count m1 < count m'); [|lia]. apply Ex. exists i. simpl. split; [lia|]. rewrite Fo by exact Ne. exact Hq.
  - apply Nat.ltb_ge in Hlt. assert (d = 0) by lia. subst d. cbn [repeat]. unfold run; cbn [fold_left].
    eexists. eexists. split; [reflexivity|]. split; [exact I2|]. simpl. split; [congruence|]. split; auto. split; auto.
    split; [exact Fn|]. intros (i & Hi & Hq). assert (i = cursor m) by lia. subst i. specialize (Fs Hq). lia.
Qed.

(* from the start of a sweep: at most one sweep per missing result *)
Lemma from_boundary n (jobs : list item) p0 : 0 < n -> forall r p m,
  inv n jobs p0 (p, m) -> concat (pend p) = [] -> cursor m = 0 -> done m = (target m <=? count m) ->
  length (concat (resq p)) <= r ->
  done (snd (run (repeat P (r * n)) (p, m))) = true.
Proof.
  intro Hn. induction r as [|r IH]; intros p m I Hp C0 Dn Hr.
  - simpl. unfold run; simpl. rewrite Dn. apply Nat.leb_le.
    pose proof (drain_length n jobs p0 p m I Hp). lia.
  - destruct (done m) eqn:D.
    { rewrite run_P_done by exact D. exact D. }
    symmetry in Dn. apply Nat.leb_gt in Dn.
    pose proof (drain_length n jobs p0 p m I Hp) as L.
    assert (Hne : concat (resq p) <> []) by (intro H0; rewrite H0 in L; simpl in L; lia).
    destruct (concat_nonempty_qnth _ Hne) as (i & Hi & Hq).
    assert (Wr : length (resq p) = n) by (destruct I as ([_ W] & _); exact W).
    destruct (to_boundary n jobs p0 Hn n p m I Hp D) as (p' & m' & Hrun & I' & Hp' & C0' & Dn' & Cn & Ex); try lia.
    assert (Hlt : count m < count m') by (apply Ex; exists i; split; [lia|exact Hq]).
    simpl. rewrite repeat_app, run_app, Hrun.
    apply IH; auto.
    pose proof (drain_length n jobs p0 p' m' I' Hp') as L'.
    assert (target m' = target m).
    { destruct I as (_ & _ & _ & T1 & _). destruct I' as (_ & _ & _ & T2 & _). simpl in *. congruence. }
    lia.
Qed.

(* code as it is: every schedule after which every job of the batch has been evaluated leads to a finished call
   within (|jobs| + 2) * n further polls *)
Theorem map_terminates n (jobs : list item) (p0 : pool) sched :
  0 < n -> wf n p0 -> clean p0 ->
  concat (pend (fst (run sched (start jobs p0)))) = [] ->
  done (snd (run (sched ++ repeat P (drain_fuel n (length jobs))) (start jobs p0))) = true.
Proof.
  intros Hn W C Hp. rewrite run_app.
  pose proof (inv_run n jobs p0 sched _ Hn (inv_start n jobs p0 Hn W C)) as I.
  assert (B : binv n (snd (run sched (start jobs p0)))).
  { assert (G : forall s0 pm, inv n jobs p0 pm -> binv n (snd pm) -> binv n (snd (run s0 pm))).
    { clear - Hn. unfold run. induction s0 as [|a s IH]; intros pm I B; simpl; auto. apply IH.
      - apply inv_step; auto.
      - apply binv_step; auto. destruct I as ([_ Wr] & _). exact Wr. }
    apply G; [apply inv_start; auto | apply binv_start; auto]. }
  destruct (run sched (start jobs p0)) as [p m] eqn:Hr. simpl in *.
  destruct (done m) eqn:D.
  { rewrite run_P_done by exact D. exact D. }
  destruct B as [Bc Bb].
  assert (Tg : target m = length jobs) by (destruct I as (_ & _ & _ & T & _); exact T).
  set (d := n - cursor m).
  destruct (to_boundary n jobs p0 Hn d p m I Hp D) as (p' & m' & Hrun & I' & Hp' & C0' & Dn' & Cn & _); try (unfold d; lia).
  pose proof (drain_length n jobs p0 p' m' I' Hp') as L'.
  assert (Tg' : target m' = length jobs) by (destruct I' as (_ & _ & _ & T & _); exact T).
  unfold drain_fuel.
  replace ((length jobs + 2) * n) with (d + (length jobs * n + (n - d + n))) by (unfold d; nia).
  rewrite repeat_app, run_app, Hrun. rewrite repeat_app, run_app.
  pose proof (from_boundary n jobs p0 Hn (length jobs) p' m' I' Hp' C0' Dn') as Fin.
  rewrite run_P_done; apply Fin; lia.
Qed.

(* in terms of what a caller sees: run_batch adds exactly this many polls, so the call is observed finished *)
Corollary run_batch_finishes n (outs : list (outcome R E)) (p0 : pool) sched :
  0 < n -> wf n p0 -> clean p0 ->
  concat (pend (fst (run sched (start (enum outs) p0)))) = [] ->
  done (snd (run_batch outs sched p0)) = true.
Proof.
  intros Hn W C Hp. unfold run_batch. destruct W as [Wp Wr]. rewrite Wr.
  rewrite <- (enum_length outs). apply map_terminates; auto. split; auto.
Qed.

(* headline for the code as it is: EVERY schedule that lets every job of the batch be evaluated gives a finished
   call whose observables are those of serial evaluation up to the order of the yielded values *)
Theorem batch_complete_schedule n (outs : list (outcome R E)) (p0 : pool) sched :
  0 < n -> wf n p0 -> clean p0 ->
  concat (pend (fst (run sched (start (enum outs) p0)))) = [] ->
  bo_done (snd (batch false outs sched p0)) = true /\ batch_good outs (snd (batch false outs sched p0)).
Proof.
  intros Hn W C Hp. pose proof (run_batch_finishes n outs p0 sched Hn W C Hp) as D.
  destruct (batch false outs sched p0) as [p1 o] eqn:Hb.
  assert (Do : bo_done o = true).
  { unfold batch in Hb. destruct (run_batch outs sched p0) as [p m]. inversion Hb; subst. exact D. }
  split; [exact Do|]. destruct (batch_current_good n outs sched p0 p1 o Hn W C Hb Do) as (_ & _ & G). exact G.
Qed.

End Live.
