(* C14 proofs, part 7 (hardening sweep): answers depend on the CURRENT inputs only, not on the history of uses.
   - run_jobs on jobs that carry any numbering (queue order <> number order);
   - AbstractJob numbering: explicit numbers are independent of the class-level counter (and of how far earlier maps /
     earlier job classes have drawn from it); the slip `number or next(counter)` is refuted;
   - SneakierPool and the class-global FunctionCache as a state machine with an explicit cache policy: the policy of the
     code as it is (slot written at construction, read at fork, deleted at exit) is right exactly for the in-tree usage
     (construct, enter at once, map..., exit) and refuted for two pools alive at once / a pool entered twice; the
     policy "install at enter" is right for EVERY history. *)
From Coq Require Import List Bool Arith ZArith Lia Permutation.
From PAFC14 Require Import Model Lib Proofs1 Proofs2 Proofs3.
Import ListNotations.

Section AnyNumbering.
Context {R E : Type}.
Local Notation item := (nat * outcome R E)%type.

(* run_jobs + ResultBuilder / sorted(results) when the jobs are queued in ANY order of their numbers: for every
   schedule a finished call on non-failing jobs gives the results in NUMBER order (outs' = the outcomes listed by
   number), whatever the queue order was *)
Theorem jobs_keyed_any_numbering nw (jobs : list item) (outs' : list (outcome R E)) fixed sched s :
  s = jrun fixed sched (jstart nw jobs) -> jdone s = true ->
  Permutation jobs (enum outs') -> (forall e, ~ In (Exc e) outs') ->
  summaries (length outs') (good (jtaken s)) = map Some outs' /\ sorted_results (good (jtaken s)) = enum outs'.
Proof.
  intros Hs D Pj Hok.
  assert (Hno' : forall it : item, In it (enum outs') -> is_exc it = false).
  { intros [k [r|e]] Hi; auto. exfalso. apply (Hok e). rewrite <- (map_snd_enum outs').
    change (Exc e) with (snd (k, @Exc R E e)). apply in_map. exact Hi. }
  assert (Hno : forall it : item, In it jobs -> is_exc it = false).
  { intros it Hi. apply Hno'. apply (Permutation_in it Pj). exact Hi. }
  destruct (jobs_complete nw _ fixed sched s Hs D Hno) as [P _].
  assert (P' : Permutation (jtaken s) (enum outs')) by (eapply Permutation_trans; eauto).
  rewrite good_all.
  - split; [apply keyed_summaries | apply keyed_sorted]; exact P'.
  - intros it Hi. apply Hno. apply (Permutation_in it P). exact Hi.
Qed.
End AnyNumbering.

(* ---------------- job numbering ---------------- *)
Definition explicit (specs : list (option nat)) : Prop := forall sp, In sp specs -> sp <> None.
Definition asked (specs : list (option nat)) : list nat := map (fun sp => match sp with Some k => k | None => 0 end) specs.

(* explicit numbers are kept and the counter is not touched, wherever the counter stands *)
Theorem numbering_history_free : forall specs c, explicit specs -> assign false c specs = (asked specs, c).
Proof.
  induction specs as [|sp r IH]; intros c Hx; [reflexivity|].
  cbn [assign asked map].
  destruct sp as [k|]; [|exfalso; apply (Hx None); [left; reflexivity|reflexivity]].
  cbn [assign1 andb]. rewrite IH; [reflexivity|].
  intros sp Hi. apply Hx. right. exact Hi.
Qed.

(* numbers drawn from the counter: the counter only grows, by the number of jobs built without a number *)
Theorem numbering_counter : forall specs c,
  snd (assign false c specs) = c + length (filter (fun sp => match sp with None => true | Some _ => false end) specs).
Proof.
  induction specs as [|sp r IH]; intros c; cbn [assign filter length]; [cbn; lia|].
  destruct sp as [k|]; cbn [assign1 andb].
  - specialize (IH c). destruct (assign false c r) as [l c2]. cbn in *. exact IH.
  - specialize (IH (S c)). destruct (assign false (S c) r) as [l c2]. cbn in *. lia.
Qed.

(* REFUTED for the slip `number or next(counter)`: job 0 of a second batch gets a number of the counter *)
Lemma numbering_zero_is_missing_refuted :
  exists specs c, explicit specs /\ fst (assign true c specs) <> asked specs.
Proof.
  exists [Some 0; Some 1], 5. split.
  - intros sp [H|[H|[]]]; subst; discriminate.
  - vm_compute. discriminate.
Qed.

(* ---------------- SneakierPool / FunctionCache ---------------- *)
(* policy "install at enter": right for EVERY history of constructions, blocks and maps *)
Theorem sneakier_install_at_enter : forall ops pools slot forked,
  sneakier true ops pools slot forked = sneakier_serial ops pools forked.
Proof.
  induction ops as [|op r IH]; intros pools slot forked; [reflexivity|].
  destruct op as [id m|id|xs|]; cbn [sneakier sneakier_serial].
  - apply IH.
  - apply IH.
  - f_equal. apply IH.
  - apply IH.
Qed.

(* the in-tree usage: `with SneakierPool(...) as pool: pool.map(...); pool.map(...)` -- constructed and entered at once *)
Definition fresh_use (u : nat * Z * list (list Z)) : list sop :=
  match u with (id, m, xss) => SConstruct id m :: SEnter id :: map SMap xss ++ [SExit] end.

Lemma own_head pools id m : own ((id, m) :: pools) id = Some m.
Proof. cbn [own]. rewrite Nat.eqb_refl. reflexivity. Qed.

Lemma sneakier_maps b xss : forall rest pools slot forked,
  sneakier b (map SMap xss ++ rest) pools slot forked =
  map (slot_eval forked) xss ++ sneakier b rest pools slot forked.
Proof.
  induction xss as [|xs r IH]; intros rest pools slot forked; [reflexivity|].
  cbn [map app sneakier]. rewrite IH. reflexivity.
Qed.

Lemma serial_maps xss : forall rest pools cur,
  sneakier_serial (map SMap xss ++ rest) pools cur =
  map (slot_eval cur) xss ++ sneakier_serial rest pools cur.
Proof.
  induction xss as [|xs r IH]; intros rest pools cur; [reflexivity|].
  cbn [map app sneakier_serial]. rewrite IH. reflexivity.
Qed.

(* PARTIAL (the code as it is): every history made of such uses, one after the other, gives the serial results,
   whatever earlier pools left in the class-global cache *)
Theorem sneakier_fresh_uses : forall us pools slot forked cur,
  sneakier false (concat (map fresh_use us)) pools slot forked = sneakier_serial (concat (map fresh_use us)) pools cur.
Proof.
  induction us as [|[[id m] xss] r IH]; intros pools slot forked cur; [reflexivity|].
  cbn [map concat fresh_use app sneakier sneakier_serial].
  rewrite own_head. rewrite <- !app_assoc. rewrite sneakier_maps, serial_maps.
  cbn [app sneakier sneakier_serial]. f_equal. apply IH.
Qed.

(* REFUTED (known finding sneakier-two-pools-constructed): two pools constructed before the first is used *)
Lemma sneakier_two_pools_refuted :
  exists ops, sneakier false ops [] None None <> sneakier_serial ops [] None.
Proof.
  exists [SConstruct 0 3; SConstruct 1 100; SEnter 0; SMap [1; 2; 3]; SExit; SEnter 1; SMap [1; 2]; SExit]%Z.
  vm_compute. discriminate.
Qed.

(* REFUTED (same cache, second trigger): ONE pool whose with-block is entered a second time *)
Lemma sneakier_reenter_refuted :
  exists ops, sneakier false ops [] None None <> sneakier_serial ops [] None.
Proof.
  exists [SConstruct 0 3; SEnter 0; SMap [1; 2]; SExit; SEnter 0; SMap [4]; SExit]%Z.
  vm_compute. discriminate.
Qed.
