(* C14 property theorems: statements only, each closed by `exact`.
   Model: coq/C14/Model.v.  A schedule is a list of scheduling choices ([F w]: worker w finishes its next job,
   [P]: one poll of the main loop; [T w]: worker w takes the next job of run_jobs, [JP]: one poll, [V]: the queued jobs become visible); every
   theorem quantifies over ALL schedules, batch contents, process counts (and sequences of batches). *)
From Coq Require Import List Bool Arith Permutation.
From PAFC14 Require Import Model Lib Proofs1 Proofs2 Proofs3 Proofs4 Proofs5 Witness.
Import ListNotations.

(* ---- SneakyPool.map as it is (results yielded in the order of discovery) ---- *)

(* FULL: a finished call on a pool with empty queues has taken exactly the jobs of this batch (as a multiset),
   has evaluated each of them exactly once, and leaves every queue empty *)
Theorem C14_map_once_no_residue : forall (R E : Type) n (jobs : list (nat * outcome R E)) (p0 : pool R E) sched p m,
  0 < n -> wf n p0 -> clean p0 -> run sched (start jobs p0) = (p, m) -> done m = true ->
  Permutation (taken m) jobs /\ clean p /\ wf n p /\ (exists ev, elog p = elog p0 ++ ev /\ Permutation ev jobs).
Proof. exact @map_conservation. Qed.

(* FULL: the yielded values are a permutation of the serial results *)
Theorem C14_map_yields_permutation : forall (R E : Type) n (jobs : list (nat * outcome R E)) (p0 : pool R E) sched p m,
  0 < n -> wf n p0 -> clean p0 -> run sched (start jobs p0) = (p, m) -> done m = true ->
  Permutation (yields (taken m)) (yields jobs).
Proof. exact @map_yields_permutation. Qed.

(* FULL: an exception is raised iff a job of this batch failed, and it is one of this batch's exceptions *)
Theorem C14_map_exception_reported : forall (R E : Type) n (jobs : list (nat * outcome R E)) (p0 : pool R E) sched p m,
  0 < n -> wf n p0 -> clean p0 -> run sched (start jobs p0) = (p, m) -> done m = true ->
  (exc m = None <-> (forall it, In it jobs -> is_exc it = false)) /\
  (forall it, exc m = Some it -> In it jobs /\ is_exc it = true).
Proof. exact @map_exception_reported. Qed.

(* FULL: every sequence of batches on one pool, failures included: each finished call hands back its own batch
   (values a permutation of its serial results, each input evaluated once, all queues empty afterwards, an
   exception iff one of ITS jobs failed) -- nothing can be attributed to a later batch *)
Theorem C14_map_batches_no_residue : forall (R E : Type) n (bs : list (list (outcome R E) * list action)) (p0 : pool R E),
  0 < n -> wf n p0 -> clean p0 ->
  Forall (fun o => bo_done o = true) (batches false bs p0) ->
  Forall2 (fun b o => batch_good (fst b) o) bs (batches false bs p0).
Proof. exact @map_batches. Qed.

(* FULL (termination): once every job of the batch has been evaluated, (|jobs| + 2) * n further polls end the call,
   wherever the sweep stands *)
Theorem C14_map_terminates : forall (R E : Type) n (jobs : list (nat * outcome R E)) (p0 : pool R E) sched,
  0 < n -> wf n p0 -> clean p0 ->
  concat (pend (fst (run sched (start jobs p0)))) = [] ->
  done (snd (run (sched ++ repeat P (drain_fuel n (length jobs))) (start jobs p0))) = true.
Proof. exact @map_terminates. Qed.

(* FULL (headline): EVERY schedule in which every job gets evaluated gives a finished call that yields a permutation
   of the serial results, evaluated each input once, left no residue, and raised iff a job of the batch failed *)
Theorem C14_map_complete_schedule : forall (R E : Type) n (outs : list (outcome R E)) (p0 : pool R E) sched,
  0 < n -> wf n p0 -> clean p0 ->
  concat (pend (fst (run sched (start (enum outs) p0)))) = [] ->
  bo_done (snd (batch false outs sched p0)) = true /\ batch_good outs (snd (batch false outs sched p0)).
Proof. exact @batch_complete_schedule. Qed.

(* REFUTED (the finding): positional order -- two processes, the second finishes first *)
Theorem C14_map_order_refuted :
  exists (outs : list (outcome nat nat)) (sched : list action) p m,
    run sched (start (enum outs) (fresh 2)) = (p, m) /\ done m = true /\
    yields (taken m) <> yields (enum outs).
Proof. exact map_order_refuted. Qed.

(* PARTIAL: order holds per process (the jobs of process w are discovered in input order) ... *)
Theorem C14_map_worker_order_partial : forall (R E : Type) n (jobs : list (nat * outcome R E)) (p0 : pool R E) sched p m w,
  0 < n -> wf n p0 -> clean p0 -> run sched (start jobs p0) = (p, m) -> done m = true -> w < n ->
  filterw n w (taken m) = filterw n w jobs.
Proof. exact @map_worker_order. Qed.

(* PARTIAL: ... hence with ONE process map equals serial evaluation, by position, exception included *)
Theorem C14_map_order_single_partial : forall (R E : Type) (jobs : list (nat * outcome R E)) (p0 : pool R E) sched p m,
  wf 1 p0 -> clean p0 -> run sched (start jobs p0) = (p, m) -> done m = true ->
  taken m = jobs /\ yields (taken m) = yields jobs /\ exc m = last_exc jobs None.
Proof. exact @map_order_single. Qed.

(* ---- the repaired map (proposed_fixes/C14-map-order.diff): ordered blocking collection ---- *)

(* FULL: every schedule, every number of processes: items taken in input order, serial exception, each job
   evaluated once, queues empty *)
Theorem C14_mapfix_order : forall (R E : Type) n (jobs : list (nat * outcome R E)) (p0 : pool R E) sched p f,
  0 < n -> wf n p0 -> clean p0 -> frun sched (fstart jobs p0) = (p, f) -> fdone f = true ->
  ftaken f = jobs /\ fexc f = last_exc jobs None /\ clean p /\ wf n p /\
  (exists ev, elog p = elog p0 ++ ev /\ Permutation ev jobs).
Proof. exact @mapfix_order. Qed.

Theorem C14_mapfix_batches : forall (R E : Type) n (bs : list (list (outcome R E) * list action)) (p0 : pool R E),
  0 < n -> wf n p0 -> clean p0 ->
  Forall (fun o => bo_done o = true) (batches true bs p0) ->
  Forall2 (fun b o => batch_exact (fst b) o) bs (batches true bs p0).
Proof. exact @mapfix_batches. Qed.

(* ---- Process.run_jobs ---- *)

(* FULL: every schedule: what has been delivered is a sub-multiset of the jobs (nothing invented or doubled) *)
Theorem C14_jobs_conservation : forall (R E : Type) nw (jobs : list (nat * outcome R E)) fixed sched,
  exists rest, Permutation jobs (jtaken (jrun fixed sched (jstart nw jobs)) ++ rest).
Proof. exact @jobs_conservation. Qed.

(* FULL: if no job fails a finished call has delivered every result exactly once and raises nothing *)
Theorem C14_jobs_complete : forall (R E : Type) nw (jobs : list (nat * outcome R E)) fixed sched s,
  s = jrun fixed sched (jstart nw jobs) -> jdone s = true -> (forall it, In it jobs -> is_exc it = false) ->
  Permutation (jtaken s) jobs /\ jexc s = None.
Proof. exact @jobs_complete. Qed.

(* FULL: if a job fails a finished call raises, with an exception of one of its own failing jobs *)
Theorem C14_jobs_exception_reported : forall (R E : Type) nw (jobs : list (nat * outcome R E)) fixed sched s,
  s = jrun fixed sched (jstart nw jobs) -> jdone s = true -> (exists it, In it jobs /\ is_exc it = true) ->
  exists it, jexc s = Some it /\ In it jobs /\ is_exc it = true.
Proof. exact @jobs_exception_reported. Qed.

(* what a caller observes (it stops looking when the generator ends) is a state of the full system *)
Theorem C14_jobs_observation : forall (R E : Type) fixed sched (s : jstate R E),
  exists sched', jrun_obs fixed sched s = jrun fixed sched' s.
Proof. exact @jrun_obs_prefix. Qed.

(* REFUTED (second finding): a call of run_jobs need not end -- every worker looks at the shared queue before
   the parent's feeder thread has flushed the jobs ([T 0] before [V]) and exits; the main loop polls forever and
   the job is never evaluated *)
Theorem C14_jobs_termination_refuted :
  exists (nw : nat) (outs : list (outcome nat nat)) (sched : list jaction),
    forall k, let s := jrun false (sched ++ repeat JP k) (jstart nw (enum outs)) in
              jdone s = false /\ jtaken s = [] /\ jq s = enum outs.
Proof. exact jobs_termination_refuted. Qed.

(* repaired worker loop (proposed_fixes/C14-run-jobs-sentinel.diff): in every reachable state with jobs still
   queued every worker is still there *)
Theorem C14_jobsfix_workers_stay : forall (R E : Type) nw (jobs : list (nat * outcome R E)) sched,
  workers_stay (jrun true sched (jstart nw jobs)).
Proof. exact @workers_stay_run. Qed.

(* ---- callers keyed by job number: ResultBuilder.add / Sensitivity.run sorted(results) ---- *)
Theorem C14_keyed_summaries : forall (R E : Type) (outs : list (outcome R E)) (l : list (nat * outcome R E)),
  Permutation l (enum outs) -> summaries (length outs) l = map Some outs.
Proof. exact @keyed_summaries. Qed.

Theorem C14_keyed_sorted : forall (R E : Type) (outs : list (outcome R E)) (l : list (nat * outcome R E)),
  Permutation l (enum outs) -> sorted_results l = enum outs.
Proof. exact @keyed_sorted. Qed.

(* FULL: run_jobs + keyed callers: every schedule gives the serial results in job order *)
Theorem C14_jobs_keyed_serial : forall (R E : Type) nw (outs : list (outcome R E)) fixed sched s,
  s = jrun fixed sched (jstart nw (enum outs)) -> jdone s = true -> (forall e, ~ In (Exc e) outs) ->
  summaries (length outs) (good (jtaken s)) = map Some outs /\ sorted_results (good (jtaken s)) = enum outs.
Proof. exact @jobs_keyed_serial. Qed.

(* ---- AbstractInitializer.samples_from_model (zip of map with the points, by position) ---- *)

(* PARTIAL (current map: one core only) / FULL (repaired map: any number of cores), [inorder]: the accepted
   (point, value) pairs are the valid points of a prefix of the stream, in order, each with its own value *)
Theorem C14_init_serial_partial : forall (X V E : Type) fixed n total (stream : list (X * outcome (option V) E)) scheds res,
  inorder fixed n -> samples_from_model fixed n total stream scheds = IOk res ->
  (exists k, res = valid (firstn k stream)) /\ length res = total /\
  (forall x v, In (x, v) res -> In (x, Ok (Some v)) stream).
Proof. exact @init_serial. Qed.

(* REFUTED (same finding): two cores, current map: values attached to the wrong points *)
Theorem C14_init_pairs_refuted :
  exists (stream : list (nat * outcome (option nat) nat)) scheds res,
    samples_from_model false 2 2 stream scheds = IOk res /\
    ~ (forall x v, In (x, v) res -> In (x, Ok (Some v)) stream).
Proof. exact init_pairs_refuted. Qed.

Print Assumptions C14_map_once_no_residue.
Print Assumptions C14_map_batches_no_residue.
Print Assumptions C14_map_complete_schedule.
Print Assumptions C14_map_order_refuted.
Print Assumptions C14_mapfix_order.
Print Assumptions C14_jobs_keyed_serial.
Print Assumptions C14_jobs_termination_refuted.
Print Assumptions C14_init_serial_partial.
