From Coq Require Import List Bool Arith.
From PAFC14 Require Import Model Proofs.
Import ListNotations.
Theorem C14_placeholder : forall (A : Type) (l : list A) i f, length (upd l i f) = length l.
Proof. exact @placeholder_upd_length. Qed.
