(* C14 property theorems: statements only, each closed by `exact`.
   Model: coq/C14/Model.v.  A schedule is a list of scheduling choices ([F w]: worker w finishes its next job,
   [P]: the main process gets a turn; [T w]: worker w takes the next job of run_jobs, [JP]: one poll of its
   collection loop, [V]: the queued jobs become visible); every theorem quantifies over ALL schedules, batch
   contents, process counts (and sequences of batches).
   Sections A-C are about the code as it is now (sneaky.py after c80ac95, process.py after 67a753d; the
   correspondence runs `batches true` / `samples_from_model true` / `run_jobs`).  Section D keeps the machine-checked
   record of what the code did before the two repairs (models selected by C14_MAP_FIXED=0).
   Not in the model: the main thread building the next job while the queue's feeder thread pickles the previous one
   (the model treats jobs as given); the one interference found there (job-pickling-race, fixed by e882fb2) is held by
   the harness obligation regression:job-pickling-race (pickle_walk case), not by a theorem. *)
From Coq Require Import List Bool Arith ZArith Permutation.
From PAFC14 Require Import Model Lib Proofs1 Proofs2 Proofs3 Proofs4 Proofs5 Proofs6 Proofs7 Witness.
Import ListNotations.

(* ================= A. SneakyPool.map (ordered blocking collection) ================= *)

(* FULL: every schedule, every number of processes: a finished call has taken the items in input order (so it
   yields exactly the serial results by position), has evaluated each job exactly once and leaves every queue
   empty.  The exception it raises is the one of the LAST failing input ([last_exc]: the loop keeps collecting and
   overwrites `exception`; a serial loop would have stopped at the first failing input) *)
Theorem C14_map_order : forall (R E : Type) n (jobs : list (nat * outcome R E)) (p0 : pool R E) sched p f,
  0 < n -> wf n p0 -> clean p0 -> frun sched (fstart jobs p0) = (p, f) -> fdone f = true ->
  ftaken f = jobs /\ fexc f = last_exc jobs None /\ clean p /\ wf n p /\
  (exists ev, elog p = elog p0 ++ ev /\ Permutation ev jobs).
Proof. exact @mapfix_order. Qed.

(* FULL: every sequence of batches on one pool, failures included: each finished call hands back exactly its own
   batch -- nothing can be attributed to a later batch *)
Theorem C14_map_batches : forall (R E : Type) n (bs : list (list (outcome R E) * list action)) (p0 : pool R E),
  0 < n -> wf n p0 -> clean p0 ->
  Forall (fun o => bo_done o = true) (batches true bs p0) ->
  Forall2 (fun b o => batch_exact (fst b) o) bs (batches true bs p0).
Proof. exact @mapfix_batches. Qed.

(* FULL (termination): EVERY schedule in which every job of the batch gets evaluated ends the call *)
Theorem C14_map_terminates : forall (R E : Type) n (jobs : list (nat * outcome R E)) (p0 : pool R E) sched,
  0 < n -> wf n p0 -> clean p0 ->
  concat (pend (fst (frun sched (fstart jobs p0)))) = [] ->
  fdone (snd (frun sched (fstart jobs p0))) = true.
Proof. exact @mapfix_terminates. Qed.

(* FULL (headline): every such schedule gives a finished call whose observables are exactly those of serial
   evaluation: values by position, each input evaluated once, no residue *)
Theorem C14_map_complete_schedule : forall (R E : Type) n (outs : list (outcome R E)) (p0 : pool R E) sched,
  0 < n -> wf n p0 -> clean p0 ->
  concat (pend (fst (frun sched (fstart (enum outs) p0)))) = [] ->
  bo_done (snd (batch true outs sched p0)) = true /\ batch_exact outs (snd (batch true outs sched p0)).
Proof. exact @batch_fixed_complete_schedule. Qed.

(* ================= B. Process.run_jobs and its callers ================= *)
(* [fixed] selects the worker loop: true = blocking get + StopCommand sentinels (the code as it is now),
   false = the earlier `if job_queue.empty(): break`.  Safety holds for both. *)

(* FULL: every schedule: what has been delivered is a sub-multiset of the jobs (nothing invented or doubled) *)
Theorem C14_jobs_conservation : forall (R E : Type) nw (jobs : list (nat * outcome R E)) fixed sched,
  exists rest, Permutation jobs (jtaken (jrun fixed sched (jstart nw jobs)) ++ rest).
Proof. exact @jobs_conservation. Qed.

(* FULL: if no job fails a finished call has delivered every result exactly once and raises nothing *)
Theorem C14_jobs_complete : forall (R E : Type) nw (jobs : list (nat * outcome R E)) fixed sched s,
  s = jrun fixed sched (jstart nw jobs) -> jdone s = true -> (forall it, In it jobs -> is_exc it = false) ->
  Permutation (jtaken s) jobs /\ jexc s = None.
Proof. exact @jobs_complete. Qed.

(* FULL: if a job fails a finished call raises, with an exception of one of its own failing jobs *)
Theorem C14_jobs_exception_reported : forall (R E : Type) nw (jobs : list (nat * outcome R E)) fixed sched s,
  s = jrun fixed sched (jstart nw jobs) -> jdone s = true -> (exists it, In it jobs /\ is_exc it = true) ->
  exists it, jexc s = Some it /\ In it jobs /\ is_exc it = true.
Proof. exact @jobs_exception_reported. Qed.

(* what a caller observes (it stops looking when the generator ends) is a state of the full system *)
Theorem C14_jobs_observation : forall (R E : Type) fixed sched (s : jstate R E),
  exists sched', jrun_obs fixed sched s = jrun fixed sched' s.
Proof. exact @jrun_obs_prefix. Qed.

(* FULL (sentinel worker loop): in every reachable state with jobs still queued every worker is still there *)
Theorem C14_jobs_workers_stay : forall (R E : Type) nw (jobs : list (nat * outcome R E)) sched,
  workers_stay (jrun true sched (jstart nw jobs)).
Proof. exact @workers_stay_run. Qed.

(* FULL (termination): once every job has been taken from the shared queue (a take includes evaluation and put),
   jdrain_fuel further polls end the collection loop, wherever the sweep stands *)
Theorem C14_jobs_terminates : forall (R E : Type) nw (jobs : list (nat * outcome R E)) fixed sched,
  0 < nw -> jq (jrun fixed sched (jstart nw jobs)) = [] ->
  jdone (jrun fixed (sched ++ repeat JP (jdrain_fuel nw (length jobs))) (jstart nw jobs)) = true.
Proof. exact @jobs_terminates. Qed.

(* callers keyed by job number: ResultBuilder.add / Sensitivity.run sorted(results) *)
Theorem C14_keyed_summaries : forall (R E : Type) (outs : list (outcome R E)) (l : list (nat * outcome R E)),
  Permutation l (enum outs) -> summaries (length outs) l = map Some outs.
Proof. exact @keyed_summaries. Qed.

Theorem C14_keyed_sorted : forall (R E : Type) (outs : list (outcome R E)) (l : list (nat * outcome R E)),
  Permutation l (enum outs) -> sorted_results l = enum outs.
Proof. exact @keyed_sorted. Qed.

(* FULL: run_jobs + keyed callers: every schedule gives the serial results in job order *)
Theorem C14_jobs_keyed_serial : forall (R E : Type) nw (outs : list (outcome R E)) fixed sched s,
  s = jrun fixed sched (jstart nw (enum outs)) -> jdone s = true -> (forall e, ~ In (Exc e) outs) ->
  summaries (length outs) (good (jtaken s)) = map Some outs /\ sorted_results (good (jtaken s)) = enum outs.
Proof. exact @jobs_keyed_serial. Qed.

(* FULL: the consumer loops of GridSearch._fit (since 74ff428) and Sensitivity.run ([consume]: store every yielded
   result, re-raise the first yielded exception): if a job fails, what the caller of a finished parallel run is told
   is the exception of one of the failing jobs -- as with number_of_cores = 1 (before 74ff428 the grid search
   reported an AttributeError of ResultBuilder.add instead; pinned by obligation regression:grid-parallel-failing-cell) *)
Theorem C14_callers_exception : forall (R E : Type) nw (jobs : list (nat * outcome R E)) fixed sched s,
  s = jrun fixed sched (jstart nw jobs) -> jdone s = true -> (exists it, In it jobs /\ is_exc it = true) ->
  exists e k, fst (consume (jtaken s) []) = Some e /\ In (k, Exc e) jobs.
Proof. exact @callers_exception. Qed.

(* ================= C. AbstractInitializer.samples_from_model ================= *)

(* FULL for the code as it is ([inorder true n]: any number of cores; also [inorder false 1]: the old map with one
   core): the accepted (point, value) pairs are the valid points of a prefix of the stream, in order, each with its
   own value, exactly total_points of them *)
Theorem C14_init_serial : forall (X V E : Type) fixed n total (stream : list (X * outcome (option V) E)) scheds res,
  inorder fixed n -> samples_from_model fixed n total stream scheds = IOk res ->
  (exists k, res = valid (firstn k stream)) /\ length res = total /\
  (forall x v, In (x, v) res -> In (x, Ok (Some v)) stream).
Proof. exact @init_serial. Qed.

(* ================= D. record of the code before the repairs (C14_MAP_FIXED=0 models) ================= *)

(* polling map: every sequence of batches hands back its own batch up to the ORDER of the yielded values *)
Theorem C14_map_batches_legacy : forall (R E : Type) n (bs : list (list (outcome R E) * list action)) (p0 : pool R E),
  0 < n -> wf n p0 -> clean p0 ->
  Forall (fun o => bo_done o = true) (batches false bs p0) ->
  Forall2 (fun b o => batch_good (fst b) o) bs (batches false bs p0).
Proof. exact @map_batches. Qed.

Theorem C14_map_complete_schedule_legacy : forall (R E : Type) n (outs : list (outcome R E)) (p0 : pool R E) sched,
  0 < n -> wf n p0 -> clean p0 ->
  concat (pend (fst (run sched (start (enum outs) p0)))) = [] ->
  bo_done (snd (batch false outs sched p0)) = true /\ batch_good outs (snd (batch false outs sched p0)).
Proof. exact @batch_complete_schedule. Qed.

(* PARTIAL: order held per process only *)
Theorem C14_map_worker_order_legacy_partial : forall (R E : Type) n (jobs : list (nat * outcome R E)) (p0 : pool R E) sched p m w,
  0 < n -> wf n p0 -> clean p0 -> run sched (start jobs p0) = (p, m) -> done m = true -> w < n ->
  filterw n w (taken m) = filterw n w jobs.
Proof. exact @map_worker_order. Qed.

(* REFUTED (finding sneaky-map-completion-order, fixed by c80ac95): positional order *)
Theorem C14_map_order_legacy_refuted :
  exists (outs : list (outcome nat nat)) (sched : list action) p m,
    run sched (start (enum outs) (fresh 2)) = (p, m) /\ done m = true /\
    yields (taken m) <> yields (enum outs).
Proof. exact map_order_refuted. Qed.

Theorem C14_init_pairs_legacy_refuted :
  exists (stream : list (nat * outcome (option nat) nat)) scheds res,
    samples_from_model false 2 2 stream scheds = IOk res /\
    ~ (forall x v, In (x, v) res -> In (x, Ok (Some v)) stream).
Proof. exact init_pairs_refuted. Qed.

(* REFUTED (finding run-jobs-startup-race, fixed by 67a753d): termination with the `empty()` worker loop *)
Theorem C14_jobs_termination_legacy_refuted :
  exists (nw : nat) (outs : list (outcome nat nat)) (sched : list jaction),
    forall k, let s := jrun false (sched ++ repeat JP k) (jstart nw (enum outs)) in
              jdone s = false /\ jtaken s = [] /\ jq s = enum outs.
Proof. exact jobs_termination_refuted. Qed.

(* ================= E. the answer depends on the current inputs only, not on the history of uses ================= *)

(* FULL: jobs queued in ANY order of their numbers (outs' = the outcomes listed by number): every schedule of a finished
   call gives ResultBuilder / sorted(results) in NUMBER order *)
Theorem C14_jobs_keyed_any_numbering : forall (R E : Type) nw (jobs : list (nat * outcome R E)) (outs' : list (outcome R E)) fixed sched s,
  s = jrun fixed sched (jstart nw jobs) -> jdone s = true ->
  Permutation jobs (enum outs') -> (forall e, ~ In (Exc e) outs') ->
  summaries (length outs') (good (jtaken s)) = map Some outs' /\ sorted_results (good (jtaken s)) = enum outs'.
Proof. exact @jobs_keyed_any_numbering. Qed.

(* FULL: explicit job numbers do not depend on the class-level counter AbstractJob._number (on how many SneakyJobs or
   unnumbered jobs earlier batches have built), and leave it alone *)
Theorem C14_numbering_history_free : forall specs c, explicit specs -> assign false c specs = (asked specs, c).
Proof. exact numbering_history_free. Qed.

Theorem C14_numbering_counter : forall specs c,
  snd (assign false c specs) = c + length (filter (fun sp => match sp with None => true | Some _ => false end) specs).
Proof. exact numbering_counter. Qed.

(* REFUTED for the slip `number or next(counter)` (seeded change explicit-job-number-zero-falsy) *)
Theorem C14_numbering_zero_is_missing_refuted :
  exists specs c, explicit specs /\ fst (assign true c specs) <> asked specs.
Proof. exact numbering_zero_is_missing_refuted. Qed.

(* SneakierPool and the class-global FunctionCache as a state machine with an explicit cache policy.
   FULL for the policy "install at enter" (proposed_fixes/C14-sneakier-install-at-enter.diff): EVERY history of
   constructions, with-blocks and maps gives each pool's own function on its own inputs *)
Theorem C14_sneakier_install_at_enter : forall ops pools slot forked,
  sneakier true ops pools slot forked = sneakier_serial ops pools forked.
Proof. exact sneakier_install_at_enter. Qed.

(* PARTIAL for the code as it is (slot written at construction, read at fork, deleted at exit): right for every
   sequence of in-tree uses `with SneakierPool(...) as p: p.map(..); p.map(..)`, whatever the cache held before *)
Theorem C14_sneakier_fresh_uses_partial : forall us pools slot forked cur,
  sneakier false (concat (map fresh_use us)) pools slot forked = sneakier_serial (concat (map fresh_use us)) pools cur.
Proof. exact sneakier_fresh_uses. Qed.

(* REFUTED (known finding sneakier-two-pools-constructed; second trigger: one pool entered twice) *)
Theorem C14_sneakier_two_pools_refuted : exists ops, sneakier false ops [] None None <> sneakier_serial ops [] None.
Proof. exact sneakier_two_pools_refuted. Qed.

Theorem C14_sneakier_reenter_refuted : exists ops, sneakier false ops [] None None <> sneakier_serial ops [] None.
Proof. exact sneakier_reenter_refuted. Qed.

Print Assumptions C14_map_order.
Print Assumptions C14_map_complete_schedule.
Print Assumptions C14_jobs_terminates.
Print Assumptions C14_jobs_keyed_serial.
Print Assumptions C14_callers_exception.
Print Assumptions C14_init_serial.
Print Assumptions C14_jobs_keyed_any_numbering.
Print Assumptions C14_numbering_history_free.
Print Assumptions C14_sneakier_install_at_enter.
Print Assumptions C14_sneakier_fresh_uses_partial.
