(* C14 proofs, part 2: the repaired SneakyPool.map (ordered blocking collection) -- full positional
   order for EVERY schedule and every number of processes; and the "exact" view of a batch shared by the
   repaired map and the one-process case of the current map. *)
From Coq Require Import List Bool Arith Lia Permutation.
From PAFC14 Require Import Model Lib Proofs1.
Import ListNotations.

Section MapFix.
Context {R E : Type}.
Local Notation item := (nat * outcome R E)%type.
Local Notation pool := (pool R E).
Local Notation fstate := (fstate R E).

Definition finv (n : nat) (jobs : list item) (p0 : pool) (pf : pool * fstate) : Prop :=
  wf n (fst pf) /\
  (exists ev, elog (fst pf) = elog p0 ++ ev /\ Permutation jobs (concat (pend (fst pf)) ++ ev)) /\
  fexc (snd pf) = last_exc (ftaken (snd pf)) None /\
  (exists rem, ftaken (snd pf) ++ rem = jobs /\ ftodo (snd pf) = map fst rem /\
     forall w, w < n -> qnth (resq (fst pf)) w ++ qnth (pend (fst pf)) w = filterw n w rem).

Lemma filterw_cons_same n (x : item) l : filterw n (fst x mod n) (x :: l) = x :: filterw n (fst x mod n) l.
Proof. unfold filterw. cbn [filter]. rewrite Nat.eqb_refl. reflexivity. Qed.
Lemma filterw_cons_other n w (x : item) l : fst x mod n <> w -> filterw n w (x :: l) = filterw n w l.
Proof. intro H. unfold filterw. cbn [filter]. apply Nat.eqb_neq in H. rewrite H. reflexivity. Qed.

Lemma advance_inv n (jobs : list item) (pq : list (list item)) : 0 < n ->
  forall rem rq tk ex,
  length rq = n -> tk ++ rem = jobs -> ex = last_exc tk None ->
  (forall w, w < n -> qnth rq w ++ qnth pq w = filterw n w rem) ->
  match advance n (map fst rem) rq tk ex with
  | (todo', rq', tk', ex') =>
      length rq' = n /\ ex' = last_exc tk' None /\
      exists rem', tk' ++ rem' = jobs /\ todo' = map fst rem' /\
                   forall w, w < n -> qnth rq' w ++ qnth pq w = filterw n w rem'
  end.
Proof.
  intro Hn. induction rem as [|r0 rem IH]; intros rq tk ex Hl Hj He Ho; cbn [map advance].
  - split; auto. split; auto. exists []. auto.
  - set (c := fst r0 mod n). assert (Hc : c < n) by (apply Nat.mod_upper_bound; lia).
    destruct (qnth rq c) as [|it q] eqn:Hq.
    + split; auto. split; auto. exists (r0 :: rem). auto.
    + pose proof (Ho c Hc) as Hoc. rewrite Hq in Hoc. unfold c in Hoc. rewrite filterw_cons_same in Hoc.
      simpl in Hoc. inversion Hoc as [[Hit Hrest]]. subst it. fold c in Hrest.
      apply IH.
      * rewrite upd_length. exact Hl.
      * rewrite <- app_assoc. exact Hj.
      * rewrite last_exc_app, He. reflexivity.
      * intros w Hw. destruct (Nat.eq_dec c w) as [<-|Ne].
        -- rewrite qnth_upd_same by lia. exact Hrest.
        -- rewrite qnth_upd_other by exact Ne. rewrite (Ho w Hw).
           apply filterw_cons_other. exact Ne.
Qed.

Lemma finv_fadvance n jobs p0 pf : 0 < n -> finv n jobs p0 pf -> finv n jobs p0 (fadvance pf).
Proof.
  intros Hn. destruct pf as [p f]. intros ([Wp Wr] & Ev & Ex & (rem & Hj & Ht & Ho)). simpl in *.
  unfold fadvance. rewrite Wr, Ht.
  pose proof (advance_inv n jobs (pend p) Hn rem (resq p) (ftaken f) (fexc f) Wr Hj Ex Ho) as A.
  destruct (advance n (map fst rem) (resq p) (ftaken f) (fexc f)) as [[[todo' rq'] tk'] ex'].
  destruct A as (Hl & He & rem' & Hj' & Ht' & Ho').
  unfold finv, wf; simpl. refine (conj (conj Wp Hl) (conj Ev (conj He _))).
  exists rem'. auto.
Qed.

Lemma finv_stepF n jobs p0 w p f : finv n jobs p0 (p, f) -> finv n jobs p0 (stepF w p, f).
Proof.
  intros ([Wp Wr] & (ev & Ee & Ep) & Ex & (rem & Hj & Ht & Ho)). simpl in *.
  unfold stepF. destruct (qnth (pend p) w) as [|it rest] eqn:Hq.
  { unfold finv, wf; simpl. refine (conj (conj Wp Wr) (conj _ (conj Ex _))).
    - exists ev; auto.
    - exists rem; auto. }
  pose proof (qnth_cons_lt _ _ _ _ Hq) as Hw. rewrite Wp in Hw.
  unfold finv, wf; simpl. refine (conj _ (conj _ (conj Ex _))).
  - rewrite !upd_length. auto.
  - exists (ev ++ [it]). split.
    + rewrite Ee, app_assoc. reflexivity.
    + rewrite Ep. rewrite (concat_upd_tail (pend p) w it rest Hq). simpl.
      rewrite app_assoc. rewrite <- Permutation_cons_append. reflexivity.
  - exists rem. split; auto. split; auto. intros w' Hw'. rewrite <- (Ho w' Hw').
    destruct (Nat.eq_dec w w') as [<-|Ne].
    + rewrite !qnth_upd_same by lia. rewrite Hq, <- app_assoc. reflexivity.
    + rewrite !qnth_upd_other by exact Ne. reflexivity.
Qed.

Lemma finv_fstep n jobs p0 pf a : 0 < n -> finv n jobs p0 pf -> finv n jobs p0 (fstep pf a).
Proof.
  intros Hn H. destruct a as [w|]; cbn [fstep].
  - apply (finv_fadvance n jobs p0 (stepF w (fst pf), snd pf) Hn). destruct pf as [p f]. apply finv_stepF. exact H.
  - apply finv_fadvance; auto.
Qed.

Lemma finv_frun n jobs p0 sched pf : 0 < n -> finv n jobs p0 pf -> finv n jobs p0 (frun sched pf).
Proof.
  intro Hn. unfold frun. revert pf; induction sched as [|a sched IH]; intros pf H; simpl; auto.
  apply IH. apply finv_fstep; auto.
Qed.

Lemma finv_fstart n jobs p0 : 0 < n -> wf n p0 -> clean p0 -> finv n jobs p0 (fstart jobs p0).
Proof.
  intros Hn [Wp Wr] [Cp Cr]. unfold fstart. apply finv_fadvance; auto.
  unfold finv, wf, submit; simpl. fold (dist (length (pend p0)) jobs (pend p0)). rewrite Wp.
  refine (conj (conj _ Wr) (conj _ (conj eq_refl _))).
  - rewrite dist_length. exact Wp.
  - exists []. rewrite !app_nil_r. split; auto. rewrite dist_concat by auto. rewrite Cp. reflexivity.
  - exists jobs. split; auto. split; auto. intros w Hw. rewrite dist_qnth by auto.
    rewrite !(concat_nil_qnth _ w) by assumption. reflexivity.
Qed.

(* the repaired map: for EVERY schedule and EVERY number of processes a finished call has taken the items
   in input order (so it yields exactly the serial results, by position), reports the serial run's last
   exception, evaluated every job exactly once and left every queue empty *)
Theorem mapfix_order n (jobs : list item) (p0 : pool) sched p f :
  0 < n -> wf n p0 -> clean p0 -> frun sched (fstart jobs p0) = (p, f) -> fdone f = true ->
  ftaken f = jobs /\ fexc f = last_exc jobs None /\ clean p /\ wf n p /\
  (exists ev, elog p = elog p0 ++ ev /\ Permutation ev jobs).
Proof.
  intros Hn W C Hr D. pose proof (finv_frun n jobs p0 sched _ Hn (finv_fstart n jobs p0 Hn W C)) as I.
  rewrite Hr in I. destruct I as ([Wp Wr] & (ev & Ee & Ep) & Ex & (rem & Hj & Ht & Ho)). simpl in *.
  unfold fdone in D. destruct (ftodo f) eqn:Htodo; [|discriminate].
  symmetry in Ht. apply map_eq_nil in Ht. subst rem. rewrite app_nil_r in Hj.
  assert (Hq : forall w, w < n -> qnth (resq p) w = [] /\ qnth (pend p) w = []).
  { intros w Hw. specialize (Ho w Hw). unfold filterw in Ho. simpl in Ho. apply app_eq_nil in Ho. exact Ho. }
  assert (Cp : concat (pend p) = []).
  { apply qnth_all_nil_concat. intros i Hi. rewrite Wp in Hi. apply (Hq i Hi). }
  assert (Cr : concat (resq p) = []).
  { apply qnth_all_nil_concat. intros i Hi. rewrite Wr in Hi. apply (Hq i Hi). }
  rewrite Ex, Hj. refine (conj eq_refl (conj eq_refl (conj (conj Cp Cr) (conj (conj Wp Wr) _)))).
  exists ev. split; auto. rewrite Ep, Cp. reflexivity.
Qed.

(* ---------------- the exact view of a finished call ---------------- *)
Definition batch_exact (outs : list (outcome R E)) (o : batch_obs R E) : Prop :=
  bo_yields o = yields_of outs /\
  bo_raised o = exc_value (last_exc (enum outs) None) /\
  bo_pend o = repeat 0 (length (bo_pend o)) /\ bo_resq o = repeat 0 (length (bo_resq o)) /\
  bo_evals o = repeat 1 (length outs).

Lemma batch_fixed_exact n (outs : list (outcome R E)) sched (p0 p1 : pool) o :
  0 < n -> wf n p0 -> clean p0 -> batch true outs sched p0 = (p1, o) -> bo_done o = true ->
  wf n p1 /\ clean p1 /\ batch_exact outs o.
Proof.
  intros Hn W C Hb D. unfold batch in Hb. destruct (frun_batch outs sched p0) as [p f] eqn:Hr.
  inversion Hb; subst p1 o; clear Hb. simpl in D. unfold frun_batch in Hr.
  destruct (mapfix_order n _ _ _ _ _ Hn W C Hr D) as (A & Ex & Cl & W1 & (ev & Ee & Ep)).
  split; [exact W1|]. split; [exact Cl|]. destruct Cl as [Cp Cr]. unfold batch_exact, observe; simpl.
  refine (conj _ (conj _ (conj _ (conj _ _)))).
  - rewrite A. apply yields_enum.
  - rewrite Ex. reflexivity.
  - rewrite map_length. apply map_length_concat_nil. exact Cp.
  - rewrite map_length. apply map_length_concat_nil. exact Cr.
  - rewrite Ee. rewrite skipn_app, skipn_all, Nat.sub_diag. simpl. apply evals_once. exact Ep.
Qed.

Lemma batch_single_exact (outs : list (outcome R E)) sched (p0 p1 : pool) o :
  wf 1 p0 -> clean p0 -> batch false outs sched p0 = (p1, o) -> bo_done o = true ->
  wf 1 p1 /\ clean p1 /\ batch_exact outs o.
Proof.
  intros W C Hb D. unfold batch in Hb. destruct (run_batch outs sched p0) as [p m] eqn:Hr.
  inversion Hb; subst p1 o; clear Hb. simpl in D. unfold run_batch in Hr.
  destruct (map_conservation 1 _ _ _ _ _ Nat.lt_0_1 W C Hr D) as (_ & Cl & W1 & (ev & Ee & Ep)).
  destruct (map_order_single _ _ _ _ _ W C Hr D) as (A & _ & Ex).
  split; [exact W1|]. split; [exact Cl|]. destruct Cl as [Cp Cr]. unfold batch_exact, observe; simpl.
  refine (conj _ (conj _ (conj _ (conj _ _)))).
  - rewrite A. apply yields_enum.
  - rewrite Ex. reflexivity.
  - rewrite map_length. apply map_length_concat_nil. exact Cp.
  - rewrite map_length. apply map_length_concat_nil. exact Cr.
  - rewrite Ee. rewrite skipn_app, skipn_all, Nat.sub_diag. simpl. apply evals_once. exact Ep.
Qed.

Lemma exact_raised_none (outs : list (outcome R E)) o :
  batch_exact outs o -> bo_raised o = None -> forall e, ~ In (Exc e) outs.
Proof.
  intros (_ & Hr & _) Hn e Hin. rewrite Hr in Hn.
  apply exc_value_none in Hn; [|intros it Hit; apply (last_exc_some _ _ Hit)].
  apply last_exc_none in Hn. rewrite failures_nil_iff in Hn.
  destruct (exc_in_enum _ _ Hin) as [k Hk]. specialize (Hn _ Hk). discriminate.
Qed.

(* sequences of batches through the repaired map: every finished call returns exactly the serial results *)
Theorem mapfix_batches n (bs : list (list (outcome R E) * list action)) (p0 : pool) :
  0 < n -> wf n p0 -> clean p0 ->
  Forall (fun o => bo_done o = true) (batches true bs p0) ->
  Forall2 (fun b o => batch_exact (fst b) o) bs (batches true bs p0).
Proof.
  intros Hn. revert p0; induction bs as [|[outs sched] bs IH]; intros p0 W C HD; cbn [batches] in *; [constructor|].
  destruct (batch true outs sched p0) as [p1 o] eqn:Hb. inversion HD as [|? ? Hd1 Hd2]; subst.
  destruct (batch_fixed_exact n outs sched p0 p1 o Hn W C Hb Hd1) as (W1 & C1 & G).
  constructor; auto.
Qed.

End MapFix.
