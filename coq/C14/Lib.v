(* List / queue-array lemmas used by the C14 proofs. *)
From Coq Require Import List Bool Arith Lia Permutation.
From PAFC14 Require Import Model.
Import ListNotations.

Lemma upd_length {A} (l : list A) i f : length (upd l i f) = length l.
Proof. revert i; induction l as [|x l IH]; intros [|i]; simpl; auto. Qed.

Lemma qnth_upd_same {A} (l : list (list A)) i f : i < length l -> qnth (upd l i f) i = f (qnth l i).
Proof.
  unfold qnth. revert i; induction l as [|x l IH]; intros [|i] H; simpl in *; try lia; auto.
  apply IH; lia.
Qed.

Lemma qnth_upd_other {A} (l : list (list A)) i j f : i <> j -> qnth (upd l i f) j = qnth l j.
Proof.
  unfold qnth. revert i j; induction l as [|x l IH]; intros [|i] [|j] H; simpl in *; auto; try congruence.
Qed.

Lemma qnth_cons_lt {A} (l : list (list A)) i x r : qnth l i = x :: r -> i < length l.
Proof.
  unfold qnth. intro H. destruct (Nat.lt_ge_cases i (length l)) as [L|L]; auto.
  rewrite nth_overflow in H by lia. discriminate.
Qed.

Lemma concat_upd_snoc {A} (l : list (list A)) i (x : A) :
  i < length l -> Permutation (concat (upd l i (fun q => q ++ [x]))) (x :: concat l).
Proof.
  revert i; induction l as [|q l IH]; intros [|i] H; simpl in *; try lia.
  - rewrite <- app_assoc. simpl. symmetry. apply Permutation_middle.
  - rewrite (IH i) by lia. symmetry. apply Permutation_middle.
Qed.

Lemma concat_upd_tail {A} (l : list (list A)) i (x : A) r :
  qnth l i = x :: r -> Permutation (concat l) (x :: concat (upd l i (fun _ => r))).
Proof.
  unfold qnth. revert i; induction l as [|q l IH]; intros [|i] H; simpl in *; try discriminate.
  - subst q. reflexivity.
  - rewrite (IH i H). symmetry. apply Permutation_middle.
Qed.

Lemma concat_nil_qnth {A} (l : list (list A)) i : concat l = [] -> qnth l i = [].
Proof.
  unfold qnth. revert i; induction l as [|q l IH]; intros i H; simpl in *.
  - destruct i; reflexivity.
  - apply app_eq_nil in H. destruct H as [-> H]. destruct i; auto.
Qed.

Lemma concat_repeat_nil {A} n : concat (repeat (@nil A) n) = [].
Proof. induction n; simpl; auto. Qed.

Lemma qnth_all_nil_concat {A} (l : list (list A)) : (forall i, i < length l -> qnth l i = []) -> concat l = [].
Proof.
  unfold qnth. induction l as [|q l IH]; intro H; simpl; auto.
  pose proof (H 0 ltac:(simpl; lia)) as H0. simpl in H0. subst q. simpl.
  apply IH. intros i Hi. apply (H (S i)). simpl; lia.
Qed.

Lemma map_length_concat_nil {A} (l : list (list A)) : concat l = [] -> map (@length A) l = repeat 0 (length l).
Proof.
  induction l as [|q l IH]; simpl; intro H; auto.
  apply app_eq_nil in H. destruct H as [-> H]. simpl. f_equal. auto.
Qed.

(* moving one element between the three parts of a conserved multiset *)
Lemma perm_move_12 {A} (a a' b b' c : list A) x :
  Permutation a (x :: a') -> Permutation b' (x :: b) -> Permutation (a ++ b ++ c) (a' ++ b' ++ c).
Proof.
  intros Ha Hb. rewrite Ha, Hb. simpl. apply Permutation_middle.
Qed.

Lemma perm_move_23 {A} (a b b' c : list A) x :
  Permutation b (x :: b') -> Permutation (a ++ b ++ c) (a ++ b' ++ c ++ [x]).
Proof.
  intro Hb. rewrite Hb. apply Permutation_app_head. simpl.
  rewrite app_assoc. rewrite <- Permutation_cons_append. reflexivity.
Qed.

Lemma filter_app_single {A} (f : A -> bool) l x : filter f (l ++ [x]) = filter f l ++ (if f x then [x] else []).
Proof. rewrite filter_app. simpl. destruct (f x); reflexivity. Qed.

Lemma Permutation_filter {A} (f : A -> bool) l l' : Permutation l l' -> Permutation (filter f l) (filter f l').
Proof.
  induction 1; simpl; auto.
  - destruct (f x); auto.
  - destruct (f x), (f y); auto. apply perm_swap.
  - etransitivity; eauto.
Qed.

Lemma Permutation_flat_map' {A B} (f : A -> list B) l l' : Permutation l l' -> Permutation (flat_map f l) (flat_map f l').
Proof.
  induction 1; simpl; auto.
  - apply Permutation_app_head; auto.
  - rewrite !app_assoc. apply Permutation_app_tail. apply Permutation_app_comm.
  - etransitivity; eauto.
Qed.

Lemma perm_length_sub {A} (l a b : list A) : Permutation l (a ++ b) -> length l <= length b -> a = [] /\ Permutation l b.
Proof.
  intros H L. pose proof (Permutation_length H) as E. rewrite app_length in E.
  destruct a as [|x a]; [split; auto|]. simpl in E. lia.
Qed.

Lemma map_const_repeat {A B} (c : B) (l : list A) : map (fun _ => c) l = repeat c (length l).
Proof. induction l; simpl; auto. f_equal; auto. Qed.

Section Items.
Context {R E : Type}.
Local Notation item := (nat * outcome R E)%type.

Lemma last_exc_app (l : list item) (x : item) acc :
  last_exc (l ++ [x]) acc = if is_exc x then Some x else last_exc l acc.
Proof. revert acc; induction l as [|y l IH]; intro acc; simpl; auto. Qed.

Lemma last_exc_none (l : list item) : last_exc l None = None <-> failures l = [].
Proof.
  induction l as [|x l IH] using rev_ind; simpl; [tauto|].
  rewrite last_exc_app. unfold failures in *. rewrite filter_app_single.
  destruct (is_exc x); split; intro H; try discriminate.
  - apply app_eq_nil in H. destruct H; discriminate.
  - rewrite app_nil_r. tauto.
  - rewrite app_nil_r in H. tauto.
Qed.

Lemma last_exc_some (l : list item) it : last_exc l None = Some it -> In it l /\ is_exc it = true.
Proof.
  induction l as [|x l IH] using rev_ind; simpl; [discriminate|].
  rewrite last_exc_app. destruct (is_exc x) eqn:Ex; intro H.
  - inversion H; subst. split; auto. apply in_or_app; right; left; auto.
  - destruct (IH H). split; auto. apply in_or_app; auto.
Qed.

Lemma failures_nil_iff (l : list item) : failures l = [] <-> (forall it, In it l -> is_exc it = false).
Proof.
  unfold failures. induction l as [|x l IH]; simpl; [split; auto; intros _ ? []|].
  destruct (is_exc x) eqn:Ex; split; intro H; try discriminate.
  - specialize (H x (or_introl eq_refl)). congruence.
  - intros it [<-|Hi]; auto. apply IH; auto.
  - apply IH. intros it Hi. apply H; auto.
Qed.

Lemma yields_app (a b : list item) : yields (a ++ b) = yields a ++ yields b.
Proof. unfold yields. apply flat_map_app. Qed.

Lemma exc_value_none (x : option item) :
  (forall it, x = Some it -> is_exc it = true) -> exc_value x = None -> x = None.
Proof.
  intros H. destruct x as [[k [r|e]]|]; simpl; intro; auto; try discriminate.
  specialize (H _ eq_refl). discriminate.
Qed.

(* tags of an enumeration *)
Lemma enum_length (outs : list (outcome R E)) : length (enum outs) = length outs.
Proof. unfold enum. rewrite combine_length, seq_length. lia. Qed.

Lemma count_tag_combine_seq (outs : list (outcome R E)) s k :
  count_tag k (combine (seq s (length outs)) outs) = if (s <=? k) && (k <? s + length outs) then 1 else 0.
Proof.
  unfold count_tag. revert s; induction outs as [|o outs IH]; intro s; simpl.
  - destruct (s <=? k) eqn:A, (k <? s + 0) eqn:B; simpl; auto.
    apply Nat.leb_le in A. apply Nat.ltb_lt in B. lia.
  - destruct (s =? k) eqn:Es; simpl.
    + apply Nat.eqb_eq in Es; subst. rewrite IH.
      replace (S k <=? k) with false by (symmetry; apply Nat.leb_gt; lia). simpl.
      rewrite Nat.leb_refl. replace (k <? k + S (length outs)) with true by (symmetry; apply Nat.ltb_lt; lia).
      reflexivity.
    + rewrite IH. apply Nat.eqb_neq in Es.
      destruct (S s <=? k) eqn:A, (s <=? k) eqn:B, (k <? S s + length outs) eqn:C, (k <? s + S (length outs)) eqn:D;
        simpl; auto; exfalso;
        rewrite ?Nat.leb_le, ?Nat.leb_gt, ?Nat.ltb_lt, ?Nat.ltb_ge in *; lia.
Qed.

Lemma count_tag_enum (outs : list (outcome R E)) k : k < length outs -> count_tag k (enum outs) = 1.
Proof.
  intro H. unfold enum. rewrite count_tag_combine_seq. simpl.
  replace (k <? length outs) with true by (symmetry; apply Nat.ltb_lt; lia). reflexivity.
Qed.

Lemma count_tag_perm (l l' : list item) k : Permutation l l' -> count_tag k l = count_tag k l'.
Proof. intro H. unfold count_tag. apply Permutation_length. apply Permutation_filter. exact H. Qed.

Lemma map_fst_enum (outs : list (outcome R E)) : map fst (enum outs) = seq 0 (length outs).
Proof.
  unfold enum. generalize 0. induction outs as [|o outs IH]; intro s; simpl; auto. f_equal. apply IH.
Qed.

Lemma map_snd_enum (outs : list (outcome R E)) : map snd (enum outs) = outs.
Proof.
  unfold enum. generalize 0. induction outs as [|o outs IH]; intro s; simpl; auto. f_equal. apply IH.
Qed.

(* what a batch yields depends on the outcomes only *)
Definition yields_of (outs : list (outcome R E)) : list R :=
  flat_map (fun o => match o with Ok r => [r] | Exc _ => [] end) outs.
Lemma yields_map_snd (l : list item) : yields l = yields_of (map snd l).
Proof. unfold yields, yields_of. induction l as [|x l IH]; simpl; auto. rewrite IH. reflexivity. Qed.
Lemma yields_enum (outs : list (outcome R E)) : yields (enum outs) = yields_of outs.
Proof. rewrite yields_map_snd, map_snd_enum. reflexivity. Qed.

End Items.
