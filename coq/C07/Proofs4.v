(* C07 lemmas, part 4: the rounding formula (generated, exact arithmetic) separates values that are
   more than one resolution apart and identifies values within half a resolution of a grid point. *)
From Coq Require Import ZArith QArith Qround Lqa Lia.
From PAFCommon Require Import PyNum.
From PAFC07 Require Import Gen.

Lemma Qround_half_even_bounds (x : Q) :
  x - (1 # 2) <= inject_Z (Qround_half_even x) /\ inject_Z (Qround_half_even x) <= x + (1 # 2).
Proof.
  unfold Qround_half_even.
  pose proof (Qfloor_le x) as F1. pose proof (Qlt_floor x) as F2.
  rewrite inject_Z_plus in F2. change (inject_Z 1) with 1 in F2.
  set (f := Qfloor x) in *.
  destruct (Qlt_bool (x - inject_Z f) (1 # 2)) eqn:E1.
  - apply Qlt_bool_iff in E1. split; lra.
  - apply Qlt_bool_false_iff in E1.
    destruct (Qlt_bool (1 # 2) (x - inject_Z f)) eqn:E2.
    + rewrite inject_Z_plus. change (inject_Z 1) with 1. split; lra.
    + apply Qlt_bool_false_iff in E2.
      destruct (Z.even f); [|rewrite inject_Z_plus; change (inject_Z 1) with 1]; split; lra.
Qed.

Lemma round8_Q_separates (r a b : Q) : 0 < r -> a + r < b -> round8_Q r a < round8_Q r b.
Proof.
  intros Hr Hab. unfold round8_Q.
  set (x := a / r). set (y := b / r).
  assert (Hxy : x + 1 < y).
  { unfold x, y.
    assert (E : b / r - a / r == (b - a) / r) by (field; lra).
    assert (L : 1 < (b - a) / r) by (apply Qlt_shift_div_l; lra).
    lra. }
  destruct (Qround_half_even_bounds x) as [_ U]. destruct (Qround_half_even_bounds y) as [L _].
  apply Qmult_lt_l; [exact Hr | lra].
Qed.

Lemma round8_Q_grid (r a : Q) (k : Z) :
  0 < r -> inject_Z k * r - r * (1 # 2) < a -> a < inject_Z k * r + r * (1 # 2) ->
  round8_Q r a == r * inject_Z k.
Proof.
  intros Hr L U. unfold round8_Q.
  assert (E : Qround_half_even (a / r) = k).
  { apply Qround_half_even_between.
    - apply Qlt_shift_div_l; [exact Hr | lra].
    - apply Qlt_shift_div_r; [exact Hr | lra]. }
  rewrite E. reflexivity.
Qed.

Lemma resolution_positive : 0 < resolution_Q.
Proof. reflexivity. Qed.

(* the statements for the generated constant *)
Lemma rounding_separates (a b : Q) :
  a + resolution_Q < b -> round8_Q resolution_Q a < round8_Q resolution_Q b.
Proof. apply round8_Q_separates. exact resolution_positive. Qed.

Lemma rounding_grid (a : Q) (k : Z) :
  inject_Z k * resolution_Q - resolution_Q * (1 # 2) < a -> a < inject_Z k * resolution_Q + resolution_Q * (1 # 2) ->
  round8_Q resolution_Q a == resolution_Q * inject_Z k.
Proof. apply round8_Q_grid. exact resolution_positive. Qed.
