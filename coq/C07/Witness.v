(* Non-vacuity examples for C07: concrete objects meeting the hypotheses of the theorems, and the
   model run on small inputs (all by kernel evaluation). *)
From Coq Require Import ZArith QArith List Bool String Ascii.
From Coq Require Import Floats.PrimFloat.
From PAFCommon Require Import PyFloat PyNum.
From Coq Require Import Permutation.
From PAFC07 Require Import Gen Model Proofs1 Proofs2 Proofs3 Proofs4 Proofs5 Proofs6 Proofs7 Proofs8 Proofs9 Refute.
Import ListNotations.
Open Scope string_scope.
Open Scope list_scope.

Definition model1 : node :=
  NColl 5 0 [("lens", A2 3 (u01 1) (NFloat 2)); ("source", A2 4 (g12 2) (u01 1))].
(* the same composition built in another order, with other ids and labels *)
Definition model1' : node :=
  NColl 50 0 [("lens", NModel 31 "other" "c07_classes.A2" ["a"; "b"] [("a", u01 17); ("b", NFloat 2)]);
              ("source", NModel 12 "label" "c07_classes.A2" ["a"; "b"] [("a", g12 3); ("b", u01 17)])].

Example tokens_of_a_fit :
  tokens ps0 (fit_obj emcee model1 (Some "tag")) =
  ["Emcee"; "nwalkers"; "30"; "Collection"; "item_number"; "0";
   "lens"; "Model"; "cls"; "c07_classes.A2"; "a"; "UniformPrior"; "lower_limit"; "0.0"; "upper_limit"; "1.0"; "b"; "2.0";
   "source"; "Model"; "cls"; "c07_classes.A2"; "a"; "GaussianPrior"; "lower_limit"; "0.0"; "upper_limit"; "3.0";
   "mean"; "1.0"; "sigma"; "2.0"; "b"; "UniformPrior"; "lower_limit"; "0.0"; "upper_limit"; "1.0"; "tag"].
Proof. vm_compute. reflexivity. Qed.

(* stability: the hypotheses hold for genuinely different objects *)
Example erase_hypothesis_holds : model1 <> model1' /\ erase model1 = erase model1'.
Proof. split; [discriminate | vm_compute; reflexivity]. Qed.

Example strip_hypothesis_holds : reify model1 <> reify model1' /\ strip (reify model1) = strip (reify model1').
Proof. split; [discriminate | vm_compute; reflexivity]. Qed.

(* reload: the reloadable fragment is inhabited by a model with nesting, sharing, constants, a tuple *)
Definition model2 : node :=
  NColl 5 0 [("g", NModel 3 "" "c07_classes.P2" ["c"; "pos"]
                    [("c", u01 1); ("pos", NTuple 9 [("pos_0", u01 1); ("pos_1", NFloat 0.5)])]);
             ("h", NModel 4 "" "c07_classes.H2" ["inner"; "s"]
                    [("inner", NInst "Plain" ["p"; "q"] None [("p", NFloat 1); ("q", NFloat 2); ("derived", NFloat 3)]);
                     ("s", g12 2)])].
Example reload_ok_inhabited : reload_ok model2 = true /\ reload_ok emcee = true.
Proof. split; vm_compute; reflexivity. Qed.

(* the compositions that used to change on reload are inside the guard now: arithmetic priors under any
   variable names, list-built collections, LogGaussian priors, the Drawer search *)
Example reload_ok_repaired :
  reload_ok arith_model = true /\ reload_ok list_coll = true /\ reload_ok log_gaussian_model = true /\ reload_ok drawer = true /\
  reload_ok negated_model = true /\ reload_ok negated_sum_model = true.
Proof. repeat split; vm_compute; reflexivity. Qed.

(* history: the guard used to exclude every ModifiedPrior (reload was None before 8d274ac) *)
Example modified_prior_reloads_now :
  reload negated_model = Some negated_model /\ exists t', reload negated_sum_model = Some t' /\
  tokens ps0 (reify t') = tokens ps0 (reify negated_sum_model).
Proof. split; [vm_compute; reflexivity|]. eexists. split; [vm_compute; reflexivity | vm_compute; reflexivity]. Qed.

Example reload_arith_same_tokens :
  exists t', reload arith_model = Some t' /\ t' <> arith_model /\ tokens ps0 (reify t') = tokens ps0 (reify arith_model).
Proof. eexists. split; [vm_compute; reflexivity|]. split; [discriminate | vm_compute; reflexivity]. Qed.

(* the facts read from the source, as they are now (the proofs of Proofs2/3/5 depend on them) *)
Example code_facts :
  compound_idf = Some ["left"; "right"] /\ modified_idf = Some ["prior"] /\
  reload_restores_item_number = true /\ log_gaussian_dict = true /\ drawer_json_readable = true /\ sets_sorted = true /\
  modified_prior_storable = true /\ instance_only_when_exact = true.
Proof. repeat split. Qed.

(* contexts exist: the `b` attribute of the model stored under "source" *)
Example nframe_inhabited :
  nframe (fun x => NColl 5 0 ([("lens", A2 3 (u01 1) (NFloat 2))] ++
                              ("source", (fun y => NModel 4 "" "c07_classes.A2" ["a"; "b"] ([("a", g12 2)] ++ ("b", (fun z => z) y) :: [])) x) :: [])).
Proof. apply NFColl; [reflexivity|]. apply NFModel; [reflexivity|]. constructor. Qed.

Example frame_inhabited :
  frame (fun x => OSeq ([OStr "head"] ++ (fun y => ODict ([("_skipped", OInt 1)] ++ ("key", (fun z => z) y) :: [])) x :: [])).
Proof. apply FSeq. apply FDict; [reflexivity|]. constructor. Qed.

(* leaves: the hypotheses on tokens are satisfiable *)
Example float_tokens_differ : float_token ps0 1 <> float_token ps0 0x1.00000055e63b9p+0.
Proof. vm_compute. discriminate. Qed.

Example float_tokens_agree_below_resolution : float_token ps0 1 = float_token ps0 0x1.0000000225c18p+0.   (* 1 + 5e-10 *)
Proof. vm_compute. reflexivity. Qed.

Example nodot_class_names : nodot "Model" = true /\ nodot "Collection" = true /\ nodot "1.0" = false.
Proof. repeat split. Qed.

Example search_setting_hypotheses :
  visible "nwalkers" = true /\ mem "nwalkers" ["nwalkers"] = true /\ ~ In "nwalkers" (map fst (@nil (string * node))).
Proof. repeat split; intros []. Qed.

(* rounding over exact numbers: hypotheses hold, e.g. 1 and 1 + 1.5e-8 *)
Example rounding_hypothesis_holds : (1 + resolution_Q < 1 + (3 # 200000000))%Q.
Proof. reflexivity. Qed.

Example rounding_grid_hypothesis_holds :
  (inject_Z 100000000 * resolution_Q - resolution_Q * (1 # 2) < 1 /\ 1 < inject_Z 100000000 * resolution_Q + resolution_Q * (1 # 2))%Q.
Proof. split; reflexivity. Qed.

(* the walk raises on nan and on a missing declared field, and not below skipped keys *)
Example raises_examples :
  raises (ODict [("a", OFloat nan)]) = true /\ raises (ODict [("_a", OFloat nan); ("id", OExc)]) = false /\
  raises (OInst "Broken" (info_fields ["present"; "absent"] false) [("present", OFloat 1)]) = true.
Proof. repeat split. Qed.

(* the theorems compose: the upper limit of a prior nested in a model inside a collection changes by 2e-8,
   hence the joined description of the whole fit changes *)
Definition ctx1 : node -> node :=
  fun x => NColl 5 0 ([("lens", A2 3 (u01 1) (NFloat 2))] ++
                      ("source", (fun y => NModel 4 "" "c07_classes.A2" ["a"; "b"] ([("a", g12 2)] ++ ("b", (fun z => z) y) :: [])) x) :: []).
Example sensitivity_composed :
  joined ps0 (fit_obj emcee (ctx1 (NPrior 1 FUniform 0 1 0 0)) (Some "tag")) <>
  joined ps0 (fit_obj emcee (ctx1 (NPrior 9 FUniform 0 0x1.00000055e63b9p+0 0 0)) (Some "tag")).
Proof.
  apply (sensitive_model ps0 "Emcee" ["nwalkers"] [("nwalkers", NInt 30)] (Some "tag") ctx1).
  - exact nframe_inhabited.
  - apply leaf_prior_upper. exact float_tokens_differ.
Qed.

(* binary64 sweep: the ranges are inhabited and the predicate is what it says on one point *)
Example swept_range_inhabited : in_swept_range 100000001 /\ grid_ok 100000001 = true.
Proof. split; [right; left; split; [discriminate | reflexivity] | vm_compute; reflexivity]. Qed.

(* key rename / added item hypotheses *)
Example key_hypotheses : visible "lens" = true /\ visible "lens_renamed" = true /\ "lens" <> "lens_renamed".
Proof. repeat split; discriminate. Qed.

(* sets: two iteration orders of {a, b, mass} are permutations of each other and are described alike;
   history (before 9943127 the walk followed the iteration order): the two orders themselves differ *)
Example set_orders : Permutation ["mass"; "a"; "b"] ["b"; "mass"; "a"] /\
  tokens ps0 (OSet ["mass"; "a"; "b"]) = ["a"; "b"; "mass"] /\ tokens ps0 (OSet ["b"; "mass"; "a"]) = ["a"; "b"; "mass"].
Proof.
  repeat split; try (vm_compute; reflexivity).
  apply (Permutation_trans (l' := ["b"; "mass"; "a"])); [|reflexivity].
  apply (Permutation_cons_app ["b"] ["a"] "mass"). apply perm_swap.
Qed.
Example set_order_legacy_refuted : ["mass"; "a"; "b"] <> ["b"; "mass"; "a"].
Proof. discriminate. Qed.

(* histories: a search built with tag "d0" whose paths held "old", then fitted with tags d1, none, d1 *)
Example history_example :
  map (tokens ps0) (run_history emcee (mkpaths (Some "old")) [(NFloat 1, Some "d1"); (NFloat 1, None); (NFloat 2, Some "d1")]) =
  [["Emcee"; "nwalkers"; "30"; "1.0"; "d1"]; ["Emcee"; "nwalkers"; "30"; "1.0"]; ["Emcee"; "nwalkers"; "30"; "2.0"; "d1"]].
Proof. vm_compute. reflexivity. Qed.

(* ---------------- derived models ---------------- *)
(* a positional collection nested in a keyword collection; a grid-search cell over prior 1 *)
Definition positional : node :=
  NColl 7 0 [("gaussians", NColl 6 2 [("0", A2 3 (u01 1) (NFloat 2)); ("1", A2 4 (g12 2) (u01 1))]); ("extra", A2 5 (u01 8) (NFloat 1))].
Definition cell : list (Z * node) := [(1%Z, NPrior 1 FUniform 0 0.5 0 0)].

(* the facts read from the source, as they are now (C07_derived_*_partial depends on the first; the second is the
   recorded finding derived-tuple-member-order: when it is repaired this example and C07_derived_same_identifier_refuted
   change, and the guard tuples_ok can be dropped from the _partial theorems through derive_is_subst with ord = true) *)
Example derive_facts_now : derive_copies_item_number = true /\ tuple_derive_keeps_order = false.
Proof. split; reflexivity. Qed.

Example derived_cell_is_hand_composed :
  derive cell positional =
  NColl 7 0 [("gaussians", NColl 6 2 [("0", A2 3 (NPrior 1 FUniform 0 0.5 0 0) (NFloat 2)); ("1", A2 4 (g12 2) (NPrior 1 FUniform 0 0.5 0 0))]);
             ("extra", A2 5 (u01 8) (NFloat 1))] /\
  tokens ps0 (reify (derive cell positional)) <> tokens ps0 (reify positional).
Proof. split; [vm_compute; reflexivity | vm_compute; discriminate]. Qed.

(* the guards of the C07_derived_* theorems are met *)
Example derived_guards :
  priors_only cell = true /\ forallb priors_only [cell; []] = true /\ tuples_ok positional = true /\
  reload_ok emcee = true /\ reload_ok (subst cell positional) = true /\
  tuples_ok (NModel 3 "" "c07_classes.P2" ["c"; "pos"] [("c", NFloat 1); ("pos", NTuple 2 [("pos_0", u01 1); ("pos_1", NFloat 2)])]) = true.
Proof. repeat split; vm_compute; reflexivity. Qed.

(* with both facts true a tuple with a fixed member first is derived in its own order *)
Example derived_tuple_in_order : derive_gen true true [] mixed_tuple = mixed_tuple /\ derive_gen true false [] mixed_tuple <> mixed_tuple.
Proof. split; [vm_compute; reflexivity|]. vm_compute. intro H. inversion H. Qed.

(* what the theorems would lose without `collection.item_number = self.item_number`: the derived copy of a positional
   collection is described differently from the original (and from what its own files are read back to) *)
Example derive_without_item_number_differs :
  tokens ps0 (reify (derive_gen false true [] positional)) <> tokens ps0 (reify positional) /\
  (exists m', reload (derive_gen false true [] positional) = Some m' /\
              tokens ps0 (reify m') <> tokens ps0 (reify (derive_gen false true [] positional))).
Proof. split; [vm_compute; discriminate|]. eexists. split; [vm_compute; reflexivity | vm_compute; discriminate]. Qed.
