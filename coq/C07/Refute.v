(* C07: the parts of the full statement that the faithful model does NOT satisfy, each with a
   concrete witness evaluated by the kernel.  Every witness is replayed on the implementation by
   the harness (findings/C07-*.py). *)
From Coq Require Import ZArith List Bool String Ascii.
From Coq Require Import Floats.PrimFloat.
From PAFCommon Require Import PyFloat.
From PAFC07 Require Import Gen Model Proofs1 Proofs2.
Import ListNotations.
Open Scope string_scope.
Open Scope list_scope.

(* concrete pieces *)
Definition ps0 : float -> string :=
  str_table [(0%float, "0.0"); (1%float, "1.0"); (2%float, "2.0"); (3%float, "3.0"); (0.5%float, "0.5");
             (0x1.00000055e63b9p+0%float, "1.00000002")].
Definition u01 (pid : Z) : node := NPrior pid FUniform 0 1 0 0.
Definition g12 (pid : Z) : node := NPrior pid FGaussian 0 3 1 2.
Definition A2 (mid : Z) (a b : node) : node := NModel mid "A20" "c07_classes.A2" ["a"; "b"] [("a", a); ("b", b)].
Definition emcee : node := NSearch "Emcee" ["nwalkers"] [("nwalkers", NInt 30)].

(* ---- sharing: ids are skipped and nothing else records identity ---- *)
Fixpoint prior_ids (n : node) : list Z :=
  let all := (fix go (l : list (string * node)) : list Z :=
                match l with [] => [] | kv :: r => match kv with (_, v) => prior_ids v ++ go r end end) in
  match n with
  | NPrior pid _ _ _ _ _ => [pid]
  | NTuple _ ms => all ms
  | NBinop _ _ _ _ l r => prior_ids l ++ prior_ids r
  | NUnop _ _ _ a => prior_ids a
  | NModel _ _ _ _ attrs | NColl _ _ attrs | NInst _ _ _ attrs | NSearch _ _ attrs => all attrs
  | _ => []
  end.
Fixpoint first_index (x : Z) (l : list Z) : nat :=
  match l with [] => 0 | y :: r => if Z.eqb x y then 0 else S (first_index x r) end.
(* which places hold the same parameter: position of the first occurrence of each id *)
Definition sharing_pattern (n : node) : list nat := map (fun x => first_index x (prior_ids n)) (prior_ids n).

Definition shared_model : node := A2 7 (g12 1) (g12 1).
Definition unshared_model : node := A2 7 (g12 1) (g12 2).

Lemma sharing_witness :
  sharing_pattern shared_model <> sharing_pattern unshared_model /\
  forall ps, tokens ps (reify shared_model) = tokens ps (reify unshared_model).
Proof. split; [vm_compute; discriminate | intro ps; reflexivity]. Qed.

Lemma sharing_refuted :
  ~ (forall ps t t', tokens ps (reify t) = tokens ps (reify t') -> sharing_pattern t = sharing_pattern t').
Proof.
  intro H. destruct sharing_witness as [N E]. exact (N (H ps0 _ _ (E ps0))).
Qed.

(* ---- reload: compositions whose identifier changes, or cannot be computed, after reading back ---- *)
Definition arith_model : node := A2 7 (NBinop 8 "SumPrior" "xx" "other" (u01 1) (NFloat 1)) (g12 2).
Definition list_coll : node := NColl 9 2 [("0", A2 7 (u01 1) (NFloat 2)); ("1", A2 8 (u01 2) (NFloat 2))].
Definition fixed_inside : node := NColl 9 0 [("a", A2 7 (NFloat 1) (NFloat 2)); ("b", A2 8 (u01 1) (NFloat 2))].
Definition log_gaussian_model : node := A2 7 (NPrior 1 FLogGaussian 0 3 1 2) (NFloat 2).
Definition negated_model : node := A2 7 (NUnop 8 "NegativePrior" "xx" (u01 1)) (NFloat 2).
Definition negated_sum_model : node :=
  A2 7 (NUnop 8 "NegativePrior" "xx" (NBinop 9 "SumPrior" "aa" "bb" (u01 1) (g12 2))) (NFloat 2).
Definition drawer : node := NSearch "Drawer" ["total_draws"] [("total_draws", NInt 3)].

Definition changes_on_reload (t : node) : Prop :=
  exists t', reload t = Some t' /\ forall ps, tokens ps (reify t') <> tokens ps (reify t).

(* a component without free parameters comes back as a plain object *)
Lemma reload_changes_fixed_model : changes_on_reload fixed_inside.
Proof. eexists. split; [vm_compute; reflexivity|]. intros ps H. vm_compute in H. discriminate H. Qed.

(* (history: before 8d274ac `reload negated_model = None /\ reload negated_sum_model = None` held here -- -x / abs x
   never survived; they are inside Proofs2.reload_ok now, see Witness.reload_ok_repaired) *)

(* a component without free parameters that carries an extra attribute (or a tuple) is NOT written as an
   instance any more (0b56c35): it comes back as the same Model *)
Definition fixed_with_extra : node :=
  NColl 9 0 [("a", NModel 7 "A20" "c07_classes.A2" ["a"; "b"] [("a", NFloat 1); ("b", NFloat 2); ("note", NInt 3)]);
             ("b", A2 8 (u01 1) (NFloat 2))].

Lemma fixed_with_extra_reloads : reload_ok fixed_with_extra = true /\ reload fixed_with_extra = Some fixed_with_extra.
Proof. split; vm_compute; reflexivity. Qed.

Lemma roundtrip_refuted :
  ~ (forall t, exists t', reload t = Some t' /\ forall ps, tokens ps (reify t') = tokens ps (reify t)).
Proof.
  intro H. destruct (H fixed_inside) as [t' [R E]].
  destruct reload_changes_fixed_model as [t'' [R' N]]. rewrite R in R'. inversion R'. subst t''.
  exact (N ps0 (E ps0)).
Qed.

(* ---- fixed values no branch of the walk applies to are dropped: numpy integer / float32 / bool
   scalars, complex numbers; constructor arguments of a plain object that are keyword-only or stored
   under another attribute name ---- *)
Definition np3 : obj := OOther "numpy.int64(3)" false.
Definition np4 : obj := OOther "numpy.int64(4)" false.
Lemma dropped_value_refuted :
  np3 <> np4 /\ forall ps C, frame C -> tokens ps (C np3) = tokens ps (C np4).
Proof.
  split; [discriminate|]. intros ps C HC. destruct (frame_tokens ps C HC) as [pre [post T]].
  rewrite !T. reflexivity.
Qed.

Definition kwonly (v : float) : node := NInst "KW" [] None [("p", NFloat v)].   (* def __init__(self, *, p) *)
Lemma dropped_argument_refuted :
  kwonly 1 <> kwonly 5 /\ forall ps, tokens ps (reify (kwonly 1)) = tokens ps (reify (kwonly 5)).
Proof.
  split; [|intro ps; reflexivity].
  intro H. injection H as H. apply (f_equal (fun f => PrimFloat.eqb f 1)) in H. vm_compute in H. discriminate H.
Qed.

(* ---- values of different types with one token ---- *)
Lemma type_collapse_refuted :
  NStr "1.0" <> NFloat 1 /\ NStr "True" <> NBool true /\ NStr "3" <> NInt 3 /\
  tokens ps0 (reify (NStr "1.0")) = tokens ps0 (reify (NFloat 1)) /\
  (forall ps, tokens ps (reify (NStr "True")) = tokens ps (reify (NBool true))) /\
  (forall ps, tokens ps (reify (NStr "3")) = tokens ps (reify (NInt 3))).
Proof. repeat split; try discriminate; try (intro ps); vm_compute; reflexivity. Qed.

(* ---- the order in which the items of a collection were given is visible ---- *)
Definition coll_xy : node := NColl 9 0 [("x", A2 1 (u01 1) (NFloat 2)); ("y", A2 2 (g12 2) (NFloat 3))].
Definition coll_yx : node := NColl 9 0 [("y", A2 2 (g12 2) (NFloat 3)); ("x", A2 1 (u01 1) (NFloat 2))].
Lemma item_order_refuted : forall ps, tokens ps (reify coll_xy) <> tokens ps (reify coll_yx).
Proof. intros ps H. vm_compute in H. discriminate H. Qed.

(* ---- the flat description: no end markers, separator not escaped ---- *)
Definition regroup_a : node :=
  NColl 9 0 [("group", NColl 8 0 [("m1", A2 1 (u01 1) (NFloat 2))]); ("m2", A2 2 (u01 2) (NFloat 3))].
Definition regroup_b : node :=
  NColl 9 0 [("group", NColl 8 0 [("m1", A2 1 (u01 1) (NFloat 2)); ("m2", A2 2 (u01 2) (NFloat 3))])].

Lemma regroup_witness :
  erase regroup_a <> erase regroup_b /\ forall ps, tokens ps (reify regroup_a) = tokens ps (reify regroup_b).
Proof. split; [vm_compute; discriminate | intro ps; reflexivity]. Qed.

Definition dot_a : node := NModel 1 "" "c07_classes.A1" ["u"] [("u", u01 1); ("note", NStr "p.q")].
Definition dot_b : node := NModel 1 "" "c07_classes.A1" ["u"] [("u", u01 1); ("note", NStr "p"); ("q", NNone)].

Lemma dot_join_witness :
  (forall ps, tokens ps (reify dot_a) <> tokens ps (reify dot_b)) /\
  forall ps, joined ps (fit_obj emcee dot_a None) = joined ps (fit_obj emcee dot_b None).
Proof. split; intro ps; [intro H; vm_compute in H; discriminate H | reflexivity]. Qed.

(* the full sensitivity statement (different compositions never share a joined description) fails *)
Lemma injective_refuted :
  ~ (forall ps s m m' tag, joined ps (fit_obj s m tag) = joined ps (fit_obj s m' tag) -> erase m = erase m').
Proof.
  intro H. destruct regroup_witness as [N E]. apply N. apply (H ps0 emcee _ _ None).
  unfold joined. rewrite !fit_tokens_eq. rewrite (E ps0). reflexivity.
Qed.
