From Coq Require Import ZArith List Bool String Ascii.
From PAFC07 Require Import Gen Model.
Import ListNotations.
Open Scope string_scope.
Lemma id_not_visible : visible "id" = false.
Proof. reflexivity. Qed.
