(* C07 lemmas, part 8: one search object fitted many times -- the identifier of the k-th fit is a function
   of the k-th (search, model, tag) only, whatever was fitted before and whatever tag the paths held. *)
From Coq Require Import List Bool String.
From Coq Require Import Floats.PrimFloat.
From PAFC07 Require Import Gen Model.
Import ListNotations.

Lemma fit_step_tag (st : paths_state) (t : option string) : ptag (fit_step st t) = t.
Proof. reflexivity. Qed.

Lemma history_independent (s : node) :
  forall (h : list (node * option string)) (st : paths_state) (k : nat) (m : node) (t : option string),
    nth_error h k = Some (m, t) -> nth_error (run_history s st h) k = Some (fit_obj s m t).
Proof.
  induction h as [|[m0 t0] r IH]; intros st k m t H.
  - destruct k; discriminate H.
  - destruct k as [|k]; cbn [nth_error run_history] in *.
    + inversion H; subst. rewrite fit_step_tag. reflexivity.
    + apply IH. exact H.
Qed.

(* in terms of identifiers, and of two histories / two initial states *)
Lemma history_identifier (md5 : string -> string) (ps : float -> string) (s : node)
      (h h' : list (node * option string)) (st st' : paths_state) (k k' : nat) (m : node) (t : option string) :
  nth_error h k = Some (m, t) -> nth_error h' k' = Some (m, t) ->
  option_map (ident md5 ps) (nth_error (run_history s st h) k) =
  option_map (ident md5 ps) (nth_error (run_history s st' h') k').
Proof. intros H H'. rewrite (history_independent s h st k m t H), (history_independent s h' st' k' m t H'). reflexivity. Qed.
