From Coq Require Import ZArith List Bool String Ascii.
From PAFC07 Require Import Gen Model Proofs.
Open Scope string_scope.
Theorem C07_id_skipped : visible "id" = false.
Proof. exact id_not_visible. Qed.
Print Assumptions C07_id_skipped.
