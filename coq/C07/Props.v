(* C07 property theorems: statements only, each closed by `exact`.
   ps = Python str(float) (oracle), md5 = hashlib.md5 (hypothesis: injective). *)
From Coq Require Import ZArith QArith List Bool String Ascii.
From Coq Require Import Floats.PrimFloat.
From PAFCommon Require Import PyFloat PyNum.
From Coq Require Import Permutation.
From PAFC07 Require Import Gen Model Proofs1 Proofs2 Proofs3 Proofs4 Proofs5 Proofs6 Proofs7 Proofs8 Proofs9 Refute.
Import ListNotations.
Open Scope string_scope.
Open Scope list_scope.

(* ---------------- stable: the identifier depends only on what `strip` keeps ---------------- *)
(* everything below a skipped key (ids, labels, private state), every attribute that is not an identifier
   field / constructor argument, is invisible to the description and to the exceptions of the walk *)
Theorem C07_stable : forall (ps : float -> string) (o o' : obj),
  strip o = strip o' -> tokens ps o = tokens ps o' /\ raises o = raises o'.
Proof. exact stable_obj. Qed.

Theorem C07_stable_identifier : forall (md5 : string -> string) (ps : float -> string) (o o' : obj),
  strip o = strip o' -> ident md5 ps o = ident md5 ps o'.
Proof. exact stable_ident. Qed.

(* compositions that differ only in ids (creation order, copies) and labels have the same identifier *)
Theorem C07_stable_ids_labels : forall (md5 : string -> string) (ps : float -> string) (s s' m m' : node) (tag : option string),
  erase s = erase s' -> erase m = erase m' -> ident md5 ps (fit_obj s m tag) = ident md5 ps (fit_obj s' m' tag).
Proof. exact stable_fit. Qed.

(* a set of strings is described in sorted order: the iteration order of the process (hash seed) is invisible *)
Theorem C07_stable_set_order : forall (md5 : string -> string) (ps : float -> string) (C : obj -> obj) (l l' : list string),
  frame C -> Permutation l l' -> ident md5 ps (C (OSet l)) = ident md5 ps (C (OSet l')).
Proof. exact set_order_irrelevant_ctx. Qed.

(* one search object fitted again and again: the k-th fit describes the k-th (search, model, tag), whatever the
   history before it and whatever tag its paths object held at the start *)
Theorem C07_history_independent : forall (s : node) (h : list (node * option string)) (st : paths_state) (k : nat)
                                         (m : node) (t : option string),
  nth_error h k = Some (m, t) -> nth_error (run_history s st h) k = Some (fit_obj s m t).
Proof. exact history_independent. Qed.

Theorem C07_history_identifier : forall (md5 : string -> string) (ps : float -> string) (s : node)
      (h h' : list (node * option string)) (st st' : paths_state) (k k' : nat) (m : node) (t : option string),
  nth_error h k = Some (m, t) -> nth_error h' k' = Some (m, t) ->
  option_map (ident md5 ps) (nth_error (run_history s st h) k) =
  option_map (ident md5 ps) (nth_error (run_history s st' h') k').
Proof. exact history_identifier. Qed.

(* SearchOutput.id (tag always passed, possibly None) describes the fit exactly as AbstractPaths does *)
Theorem C07_output_id_same : forall (ps : float -> string) (s m : node) (tag : option string),
  tokens ps (fit_obj_output s m tag) = tokens ps (fit_obj s m tag).
Proof. exact fit_output_same. Qed.

(* ---------------- reload from the fit's own files ---------------- *)
(* every composition inside the guard (everything but exactly rebuildable components without a free parameter;
   arithmetic priors under ANY caller-derived names, list-built collections, all prior families, all searches)
   reloads to a possibly different tree with the same visible part.  (Since 8d274ac / 0b56c35 the guard also
   contains -x / abs x and every parameter-free component the constructor cannot rebuild exactly.) *)
Theorem C07_roundtrip_same_description : forall n : node,
  reload_ok n = true -> exists n', reload n = Some n' /\ strip (reify n') = strip (reify n).
Proof. exact reload_same. Qed.

Theorem C07_roundtrip_partial : forall (md5 : string -> string) (ps : float -> string) (s m : node) (tag : option string),
  reload_ok s = true -> reload_ok m = true ->
  exists s' m', reload s = Some s' /\ reload m = Some m' /\
                ident md5 ps (fit_obj_output s' m' tag) = ident md5 ps (fit_obj s m tag).
Proof. exact roundtrip_partial. Qed.

(* the full statement (every composition reloads to the same description) does not hold *)
Theorem C07_roundtrip_refuted :
  ~ (forall t, exists t', reload t = Some t' /\ forall ps, tokens ps (reify t') = tokens ps (reify t)).
Proof. exact roundtrip_refuted. Qed.

Theorem C07_roundtrip_fixed_model_refuted : changes_on_reload fixed_inside.
Proof. exact reload_changes_fixed_model. Qed.

(* only the EXACT parameter-free component still changes: one with an extra attribute reloads unchanged *)
Theorem C07_roundtrip_inexact_fixed_model : reload_ok fixed_with_extra = true /\ reload fixed_with_extra = Some fixed_with_extra.
Proof. exact fixed_with_extra_reloads. Qed.

(* ---------------- sensitive: local changes are visible in the joined description ---------------- *)
(* in any context (any object around it, through visible selected keys and sequences), a change whose own
   terminated description changes, changes the joined description of the whole *)
Theorem C07_sensitive_context : forall (ps : float -> string) (C : obj -> obj) (x y : obj),
  frame C -> tokens ps (C x) <> [] -> tokens ps (C y) <> [] ->
  cat_t (tokens ps x) <> cat_t (tokens ps y) -> joined ps (C x) <> joined ps (C y).
Proof. exact frame_sensitive. Qed.

Theorem C07_sensitive_token : forall (ps : float -> string) (C : obj -> obj) (x y : obj) (pre post : list string) (a b : string),
  frame C -> tokens ps x = pre ++ a :: post -> tokens ps y = pre ++ b :: post -> a <> b ->
  joined ps (C x) <> joined ps (C y).
Proof. exact sensitive_token. Qed.

Theorem C07_sensitive_head : forall (ps : float -> string) (C : obj -> obj) (x y : obj) (a b : string) (r r' : list string),
  frame C -> tokens ps x = a :: r -> tokens ps y = b :: r' -> nodot a = true -> nodot b = true -> a <> b ->
  joined ps (C x) <> joined ps (C y).
Proof. exact sensitive_head. Qed.

Theorem C07_sensitive_appears : forall (ps : float -> string) (C : obj -> obj) (x y : obj) (b : string) (r : list string),
  frame C -> tokens ps x = [] -> tokens ps y = b :: r -> tokens ps (C x) <> [] ->
  joined ps (C x) <> joined ps (C y).
Proof. exact sensitive_appears. Qed.

(* the same for fits: a change anywhere inside the model composition ... *)
Theorem C07_sensitive_model : forall (ps : float -> string) c fs sattrs tag (NC : node -> node) (n n' : node),
  nframe NC -> cat_t (tokens ps (reify n)) <> cat_t (tokens ps (reify n')) ->
  joined ps (fit_obj (NSearch c fs sattrs) (NC n) tag) <> joined ps (fit_obj (NSearch c fs sattrs) (NC n') tag).
Proof. exact sensitive_model. Qed.

(* ... of one identifying search setting, of the search class, of the unique tag *)
Theorem C07_sensitive_search_setting : forall (ps : float -> string) c fs a1 k a2 m tag v v',
  visible k = true -> mem k fs = true -> ~ In k (map fst a1) ->
  cat_t (tokens ps (reify v)) <> cat_t (tokens ps (reify v')) ->
  joined ps (fit_obj (NSearch c fs (a1 ++ (k, v) :: a2)) m tag) <> joined ps (fit_obj (NSearch c fs (a1 ++ (k, v') :: a2)) m tag).
Proof. exact sensitive_search. Qed.

Theorem C07_sensitive_search_class : forall (ps : float -> string) c c' fs fs' a a' m m' tag tag',
  nodot c = true -> nodot c' = true -> c <> c' ->
  joined ps (fit_obj (NSearch c fs a) m tag) <> joined ps (fit_obj (NSearch c' fs' a') m' tag').
Proof. exact sensitive_search_class. Qed.

Theorem C07_sensitive_tag : forall (ps : float -> string) c fs sattrs m t t', t <> t' ->
  joined ps (fit_obj (NSearch c fs sattrs) m (Some t)) <> joined ps (fit_obj (NSearch c fs sattrs) m (Some t')).
Proof. exact sensitive_tag. Qed.

Theorem C07_sensitive_tag_presence : forall (ps : float -> string) c fs sattrs m t,
  joined ps (fit_obj (NSearch c fs sattrs) m None) <> joined ps (fit_obj (NSearch c fs sattrs) m (Some t)).
Proof. exact sensitive_tag_presence. Qed.

(* which local changes change their own description (to be used with the three theorems above) *)
Theorem C07_leaf_fixed_value : forall (ps : float -> string) a b, float_token ps a <> float_token ps b ->
  cat_t (tokens ps (reify (NFloat a))) <> cat_t (tokens ps (reify (NFloat b))).
Proof. exact leaf_float. Qed.

Theorem C07_leaf_int : forall (ps : float -> string) a b, a <> b ->
  cat_t (tokens ps (reify (NInt a))) <> cat_t (tokens ps (reify (NInt b))).
Proof. exact leaf_int. Qed.

Theorem C07_leaf_bool : forall (ps : float -> string) a b, a <> b ->
  cat_t (tokens ps (reify (NBool a))) <> cat_t (tokens ps (reify (NBool b))).
Proof. exact leaf_bool. Qed.

Theorem C07_leaf_str : forall (ps : float -> string) a b, a <> b ->
  cat_t (tokens ps (reify (NStr a))) <> cat_t (tokens ps (reify (NStr b))).
Proof. exact leaf_str. Qed.

Theorem C07_leaf_prior_family : forall (ps : float -> string) pid pid' fam fam' lo hi m s lo' hi' m' s', fam <> fam' ->
  cat_t (tokens ps (reify (NPrior pid fam lo hi m s))) <> cat_t (tokens ps (reify (NPrior pid' fam' lo' hi' m' s'))).
Proof. exact leaf_prior_family. Qed.

Theorem C07_leaf_prior_lower : forall (ps : float -> string) pid pid' fam lo lo' hi m s, float_token ps lo <> float_token ps lo' ->
  cat_t (tokens ps (reify (NPrior pid fam lo hi m s))) <> cat_t (tokens ps (reify (NPrior pid' fam lo' hi m s))).
Proof. exact leaf_prior_lower. Qed.

Theorem C07_leaf_prior_upper : forall (ps : float -> string) pid pid' fam lo hi hi' m s, float_token ps hi <> float_token ps hi' ->
  cat_t (tokens ps (reify (NPrior pid fam lo hi m s))) <> cat_t (tokens ps (reify (NPrior pid' fam lo hi' m s))).
Proof. exact leaf_prior_upper. Qed.

Theorem C07_leaf_prior_mean : forall (ps : float -> string) pid pid' fam lo hi m m' s,
  fam_has_ms fam = true -> float_token ps m <> float_token ps m' ->
  cat_t (tokens ps (reify (NPrior pid fam lo hi m s))) <> cat_t (tokens ps (reify (NPrior pid' fam lo hi m' s))).
Proof. exact leaf_prior_mean. Qed.

Theorem C07_leaf_prior_sigma : forall (ps : float -> string) pid pid' fam lo hi m s s',
  fam_has_ms fam = true -> float_token ps s <> float_token ps s' ->
  cat_t (tokens ps (reify (NPrior pid fam lo hi m s))) <> cat_t (tokens ps (reify (NPrior pid' fam lo hi m s'))).
Proof. exact leaf_prior_sigma. Qed.

Theorem C07_leaf_model_class : forall (ps : float -> string) mid mid' lbl lbl' cls cls' cargs cargs' attrs, cls <> cls' ->
  cat_t (tokens ps (reify (NModel mid lbl cls cargs attrs))) <> cat_t (tokens ps (reify (NModel mid' lbl' cls' cargs' attrs))).
Proof. exact leaf_model_class. Qed.

Theorem C07_leaf_head : forall (ps : float -> string) n n' a b r r',
  tokens ps (reify n) = a :: r -> tokens ps (reify n') = b :: r' -> nodot a = true -> nodot b = true -> a <> b ->
  cat_t (tokens ps (reify n)) <> cat_t (tokens ps (reify n')).
Proof. exact leaf_head. Qed.

Theorem C07_leaf_none_to_value : forall (ps : float -> string) n b r, tokens ps (reify n) = b :: r ->
  cat_t (tokens ps (reify NNone)) <> cat_t (tokens ps (reify n)).
Proof. exact leaf_none_to_value. Qed.

(* fixed values: tokens differ when the roundings differ (repr injective), and in exact arithmetic the generated
   formula separates values more than RESOLUTION apart and identifies values within RESOLUTION/2 of a grid point *)
Theorem C07_float_token_differs : forall (ps : float -> string),
  (forall x y, ps x = ps y -> fbits_eqb x y = true) ->
  forall a b, fbits_eqb (round8 a) (round8 b) = false -> float_token ps a <> float_token ps b.
Proof. exact float_token_differs. Qed.

Theorem C07_rounding_separates : forall a b : Q,
  a + resolution_Q < b -> round8_Q resolution_Q a < round8_Q resolution_Q b.
Proof. exact rounding_separates. Qed.

Theorem C07_rounding_grid : forall (a : Q) (k : Z),
  inject_Z k * resolution_Q - resolution_Q * (1 # 2) < a -> a < inject_Z k * resolution_Q + resolution_Q * (1 # 2) ->
  round8_Q resolution_Q a == resolution_Q * inject_Z k.
Proof. exact rounding_grid. Qed.

(* the attribute names arithmetic priors take from the caller's variables are invisible (for the code as it is:
   the proofs read CompoundPrior / ModifiedPrior.__identifier_fields__ from the regenerated Gen.v) *)
Theorem C07_stable_binop_names : forall (ps : float -> string) mid mid' c ln rn ln' rn' l r,
  tokens ps (reify (NBinop mid c ln rn l r)) = tokens ps (reify (NBinop mid' c ln' rn' l r)).
Proof. exact binop_names_irrelevant. Qed.

Theorem C07_stable_unop_name : forall (ps : float -> string) mid mid' c pn pn' a,
  tokens ps (reify (NUnop mid c pn a)) = tokens ps (reify (NUnop mid' c pn' a)).
Proof. exact unop_name_irrelevant. Qed.

(* renamed component / parameter, one more item / attribute (leaves for C07_sensitive_model) *)
Theorem C07_leaf_collection_key : forall (ps : float -> string) mid mid' n a1 k k' v a2,
  visible k = true -> visible k' = true -> k <> k' ->
  cat_t (tokens ps (reify (NColl mid n (a1 ++ (k, v) :: a2)))) <> cat_t (tokens ps (reify (NColl mid' n (a1 ++ (k', v) :: a2)))).
Proof. exact leaf_collection_key. Qed.

Theorem C07_leaf_model_attribute_name : forall (ps : float -> string) mid mid' lbl lbl' cls cargs a1 k k' v a2,
  visible k = true -> visible k' = true -> k <> k' ->
  cat_t (tokens ps (reify (NModel mid lbl cls cargs (a1 ++ (k, v) :: a2)))) <>
  cat_t (tokens ps (reify (NModel mid' lbl' cls cargs (a1 ++ (k', v) :: a2)))).
Proof. exact leaf_model_attribute_name. Qed.

Theorem C07_leaf_collection_item_added : forall (ps : float -> string) mid mid' n a1 k v a2,
  visible k = true ->
  cat_t (tokens ps (reify (NColl mid n (a1 ++ a2)))) <> cat_t (tokens ps (reify (NColl mid' n (a1 ++ (k, v) :: a2)))).
Proof. exact leaf_collection_item_added. Qed.

Theorem C07_leaf_model_attribute_added : forall (ps : float -> string) mid mid' lbl lbl' cls cargs a1 k v a2,
  visible k = true ->
  cat_t (tokens ps (reify (NModel mid lbl cls cargs (a1 ++ a2)))) <>
  cat_t (tokens ps (reify (NModel mid' lbl' cls cargs (a1 ++ (k, v) :: a2)))).
Proof. exact leaf_model_attribute_added. Qed.

(* binary64, ranges stated: on 3 x 4096 consecutive points of the 1e-8 grid (near 0, 1 and 1000) grid points are
   fixed points of the rounding, neighbours differ, +0.25 / +0.75 of a step are identified with the point below /
   above, and values 1.5 steps apart are separated *)
Theorem C07_rounding_binary64 : forall n : Z, in_swept_range n -> grid_ok n = true.
Proof. exact grid_rounding_F. Qed.

(* ---------------- the full sensitivity statement does not hold ---------------- *)
(* which places share a parameter is invisible *)
Theorem C07_sensitive_sharing_refuted :
  ~ (forall ps t t', tokens ps (reify t) = tokens ps (reify t') -> sharing_pattern t = sharing_pattern t').
Proof. exact sharing_refuted. Qed.

(* fixed values the walk has no branch for are dropped; so are keyword-only / renamed constructor arguments *)
Theorem C07_sensitive_dropped_value_refuted :
  np3 <> np4 /\ forall ps C, frame C -> tokens ps (C np3) = tokens ps (C np4).
Proof. exact dropped_value_refuted. Qed.

Theorem C07_sensitive_dropped_argument_refuted :
  kwonly 1 <> kwonly 5 /\ forall ps, tokens ps (reify (kwonly 1)) = tokens ps (reify (kwonly 5)).
Proof. exact dropped_argument_refuted. Qed.

(* values of different types share a token *)
Theorem C07_sensitive_type_collapse_refuted :
  NStr "1.0" <> NFloat 1 /\ NStr "True" <> NBool true /\ NStr "3" <> NInt 3 /\
  tokens ps0 (reify (NStr "1.0")) = tokens ps0 (reify (NFloat 1)) /\
  (forall ps, tokens ps (reify (NStr "True")) = tokens ps (reify (NBool true))) /\
  (forall ps, tokens ps (reify (NStr "3")) = tokens ps (reify (NInt 3))).
Proof. exact type_collapse_refuted. Qed.

(* the order in which the items of a collection were given is visible *)
Theorem C07_stable_item_order_refuted : forall ps, tokens ps (reify coll_xy) <> tokens ps (reify coll_yx).
Proof. exact item_order_refuted. Qed.

(* different compositions with one joined description (no end markers; separator not escaped) *)
Theorem C07_sensitive_injective_refuted :
  ~ (forall ps s m m' tag, joined ps (fit_obj s m tag) = joined ps (fit_obj s m' tag) -> erase m = erase m').
Proof. exact injective_refuted. Qed.

Theorem C07_sensitive_dot_join_refuted :
  (forall ps, tokens ps (reify dot_a) <> tokens ps (reify dot_b)) /\
  forall ps, joined ps (fit_obj emcee dot_a None) = joined ps (fit_obj emcee dot_b None).
Proof. exact dot_join_witness. Qed.

(* ---------------- models derived by the library ---------------- *)
(* mapper_from_prior_arguments / mapper_from_partial_prior_arguments (a grid-search cell) / prior passing / with_limits
   all go through gaussian_prior_model_for_arguments.  derive_gen keep ord is its model; keep (the new Collection takes over
   item_number) and ord (a new TuplePrior keeps the order of its members) are read from the source.
   With both true: any number of derivations in a row, on any composition (positional collections and tuples at any
   depth), give a fit with the identifier of the same composition written by hand with the new priors. *)
Theorem C07_derived_same_identifier : forall (md5 : string -> string) (ps : float -> string) (s : node)
      (steps : list (list (Z * node))) (n : node) (tag : option string),
  forallb priors_only steps = true ->
  ident md5 ps (fit_obj s (derive_all_gen true true steps n) tag) = ident md5 ps (fit_obj s (subst_all steps n) tag).
Proof. exact derived_same_identifier. Qed.

(* the code as it is (derive = derive_gen with the facts read from the source; the proof uses keep = true and holds for
   either value of ord): for every composition whose tuples list their free members before their fixed ones *)
Theorem C07_derived_same_identifier_partial : forall (md5 : string -> string) (ps : float -> string) (s : node)
      (a : list (Z * node)) (n : node) (tag : option string),
  priors_only a = true -> tuples_ok n = true ->
  ident md5 ps (fit_obj s (derive a n) tag) = ident md5 ps (fit_obj s (subst a n) tag).
Proof. exact derived_same_identifier_partial. Qed.

(* a copy in which every prior stands for itself has the identifier of the original *)
Theorem C07_derived_copy_same_identifier : forall (md5 : string -> string) (ps : float -> string) (s n : node) (tag : option string),
  tuples_ok n = true -> ident md5 ps (fit_obj s (derive [] n) tag) = ident md5 ps (fit_obj s n tag).
Proof. exact derived_copy_same_identifier. Qed.

(* ... and what SearchOutput recomputes from the files of a fit of the derived model is the identifier of the model
   composed by hand, which is the folder the fit wrote to *)
Theorem C07_derived_roundtrip_partial : forall (md5 : string -> string) (ps : float -> string) (s : node) (a : list (Z * node))
      (n : node) (tag : option string),
  priors_only a = true -> tuples_ok n = true -> reload_ok s = true -> reload_ok (subst a n) = true ->
  exists s' m', reload s = Some s' /\ reload (derive a n) = Some m' /\
                ident md5 ps (fit_obj_output s' m' tag) = ident md5 ps (fit_obj s (subst a n) tag) /\
                ident md5 ps (fit_obj s (derive a n) tag) = ident md5 ps (fit_obj s (subst a n) tag).
Proof. exact derived_roundtrip. Qed.

(* outside the guard the full statement fails on the code as it is: a derived TuplePrior lists its priors first *)
Theorem C07_derived_same_identifier_refuted :
  exists (ps : float -> string) (s : node) (a : list (Z * node)) (n : node) (tag : option string),
    priors_only a = true /\ tuples_ok n = false /\
    tokens ps (fit_obj s (derive a n) tag) <> tokens ps (fit_obj s (subst a n) tag).
Proof. exact derived_tuple_witness. Qed.

Print Assumptions C07_stable.
Print Assumptions C07_derived_same_identifier.
Print Assumptions C07_derived_same_identifier_partial.
Print Assumptions C07_derived_roundtrip_partial.
Print Assumptions C07_stable_ids_labels.
Print Assumptions C07_roundtrip_same_description.
Print Assumptions C07_rounding_binary64.
Print Assumptions C07_sensitive_context.
Print Assumptions C07_sensitive_model.
Print Assumptions C07_rounding_separates.
Print Assumptions C07_sensitive_sharing_refuted.
