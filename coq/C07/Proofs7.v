(* C07 lemmas, part 7: sets of strings are described in sorted order, hence independently of the
   iteration order (hash seed) of the process. *)
From Coq Require Import List Bool String Ascii NArith Lia Permutation Sorted.
From Coq Require Import Floats.PrimFloat.
From PAFC07 Require Import Gen Model Proofs1 Proofs2.
Import ListNotations.


Lemma ascii_compare_N (a b : ascii) : Ascii.compare a b = N.compare (N_of_ascii a) (N_of_ascii b).
Proof. reflexivity. Qed.

Lemma ascii_lt_trans a b c : Ascii.compare a b = Lt -> Ascii.compare b c = Lt -> Ascii.compare a c = Lt.
Proof. rewrite !ascii_compare_N, !N.compare_lt_iff. lia. Qed.

Lemma str_lt_trans : forall a b c, String.compare a b = Lt -> String.compare b c = Lt -> String.compare a c = Lt.
Proof.
  induction a as [|x a IH]; intros [|y b] [|z c]; cbn; try congruence.
  destruct (Ascii.compare x y) eqn:E1; destruct (Ascii.compare y z) eqn:E2; try congruence; intros H1 H2.
  - apply Ascii.compare_eq_iff in E1, E2. subst. rewrite (proj2 (N.compare_eq_iff _ _) eq_refl : Ascii.compare z z = Eq). eauto.
  - apply Ascii.compare_eq_iff in E1. subst. rewrite E2. reflexivity.
  - apply Ascii.compare_eq_iff in E2. subst. rewrite E1. reflexivity.
  - rewrite (ascii_lt_trans _ _ _ E1 E2). reflexivity.
Qed.

Lemma str_compare_refl : forall c, String.compare c c = Eq.
Proof.
  induction c as [|x c IH]; cbn; [reflexivity|].
  rewrite (proj2 (N.compare_eq_iff _ _) eq_refl : Ascii.compare x x = Eq). exact IH.
Qed.

Lemma leb_trans a b c : String.leb a b = true -> String.leb b c = true -> String.leb a c = true.
Proof.
  unfold String.leb. destruct (String.compare a b) eqn:E1; destruct (String.compare b c) eqn:E2; try discriminate; intros _ _.
  - apply String.compare_eq_iff in E1, E2. subst. rewrite str_compare_refl. reflexivity.
  - apply String.compare_eq_iff in E1. subst. rewrite E2. reflexivity.
  - apply String.compare_eq_iff in E2. subst. rewrite E1. reflexivity.
  - rewrite (str_lt_trans _ _ _ E1 E2). reflexivity.
Qed.

Definition sorted := StronglySorted (fun a b => String.leb a b = true).

Lemma sinsert_perm x l : Permutation (x :: l) (sinsert x l).
Proof.
  induction l as [|y r IH]; cbn; [reflexivity|]. destruct (String.leb x y); [reflexivity|].
  rewrite perm_swap. apply perm_skip. exact IH.
Qed.
Lemma ssort_perm l : Permutation l (ssort l).
Proof. induction l as [|x r IH]; cbn; [constructor|]. rewrite <- sinsert_perm. apply perm_skip. exact IH. Qed.

Lemma sinsert_sorted x l : sorted l -> sorted (sinsert x l).
Proof.
  induction l as [|y r IH]; intro H; cbn.
  - constructor; constructor.
  - inversion H as [|? ? Hr Hy]; subst. destruct (String.leb x y) eqn:E.
    + constructor; [exact H|]. constructor; [exact E|].
      rewrite Forall_forall in *. intros z Hz. apply (leb_trans x y z E). apply Hy. exact Hz.
    + constructor; [apply IH; exact Hr|].
      assert (Hyx : String.leb y x = true) by (destruct (String.leb_total x y); congruence).
      apply (Permutation_Forall (sinsert_perm x r)). constructor; assumption.
Qed.
Lemma ssort_sorted l : sorted (ssort l).
Proof. induction l; cbn; [constructor | apply sinsert_sorted; assumption]. Qed.

Lemma sorted_perm_eq : forall l l', sorted l -> sorted l' -> Permutation l l' -> l = l'.
Proof.
  induction l as [|x l IH]; intros l' Hs Hs' P.
  - apply Permutation_nil in P. subst. reflexivity.
  - destruct l' as [|y l']; [apply Permutation_sym, Permutation_nil in P; discriminate|].
    inversion Hs as [|? ? Hl Hx]; subst. inversion Hs' as [|? ? Hl' Hy]; subst.
    assert (x = y).
    { assert (Ix : In x (y :: l')) by (apply (Permutation_in _ P); left; reflexivity).
      assert (Iy : In y (x :: l)) by (apply (Permutation_in _ (Permutation_sym P)); left; reflexivity).
      destruct Ix as [e|Ix]; [congruence|]. destruct Iy as [e|Iy]; [congruence|].
      rewrite Forall_forall in Hx, Hy. apply String.leb_antisym; [apply Hx; exact Iy | apply Hy; exact Ix]. }
    subst y. f_equal. apply IH; try assumption. exact (Permutation_cons_inv P).
Qed.

Lemma ssort_perm_invariant l l' : Permutation l l' -> ssort l = ssort l'.
Proof.
  intro P. apply sorted_perm_eq; try apply ssort_sorted.
  rewrite <- (ssort_perm l), <- (ssort_perm l'). exact P.
Qed.

Lemma sets_are_sorted : sets_sorted = true.
Proof. reflexivity. Qed.

(* two iteration orders of one set give one description, in any context *)
Lemma set_order_irrelevant (ps : float -> string) (l l' : list string) :
  Permutation l l' -> tokens ps (OSet l) = tokens ps (OSet l').
Proof. intro P. cbn [tokens]. rewrite sets_are_sorted. apply ssort_perm_invariant. exact P. Qed.

Lemma set_order_irrelevant_ctx (md5 : string -> string) (ps : float -> string) (C : obj -> obj) (l l' : list string) :
  frame C -> Permutation l l' -> ident md5 ps (C (OSet l)) = ident md5 ps (C (OSet l')).
Proof.
  intros HC P. unfold ident, joined. destruct (frame_tokens ps C HC) as [pre [post T]].
  rewrite !T, (set_order_irrelevant ps l l' P). reflexivity.
Qed.
