(* C07 lemmas, part 3: contexts inside a composition; every single-field perturbation class. *)
From Coq Require Import ZArith List Bool String Ascii Lia.
From Coq Require Import Floats.PrimFloat.
From PAFCommon Require Import PyFloat.
From PAFC07 Require Import Gen Model Proofs1 Proofs2.
Import ListNotations.
Open Scope string_scope.
Open Scope list_scope.

(* where inside a composition tree a change happens *)
Definition excl_list (ex : option (list string)) : list string := match ex with Some e => e | None => [] end.

Inductive nframe : (node -> node) -> Prop :=
| NFHole : nframe (fun x => x)
| NFModel mid lbl cls cargs a1 k a2 NC :
    visible k = true -> nframe NC -> nframe (fun x => NModel mid lbl cls cargs (a1 ++ (k, NC x) :: a2))
| NFColl mid n a1 k a2 NC :
    visible k = true -> nframe NC -> nframe (fun x => NColl mid n (a1 ++ (k, NC x) :: a2))
| NFTuple mid a1 k a2 NC :
    visible k = true -> nframe NC -> nframe (fun x => NTuple mid (a1 ++ (k, NC x) :: a2))
(* operands of arithmetic priors are read through the declared identifier fields left / right / prior,
   whatever attribute names the caller's variables gave them *)
| NFBinopL mid c ln rn r NC : nframe NC -> nframe (fun x => NBinop mid c ln rn (NC x) r)
| NFBinopR mid c ln rn l NC : nframe NC -> nframe (fun x => NBinop mid c ln rn l (NC x))
| NFUnop mid c pn NC : nframe NC -> nframe (fun x => NUnop mid c pn (NC x))
| NFInst c cargs ex a1 k a2 NC :
    visible k = true -> mem k ("self" :: cargs) && negb (mem k (excl_list ex)) = true ->
    nframe NC -> nframe (fun x => NInst c cargs ex (a1 ++ (k, NC x) :: a2)).

Lemma reify_entries_app a b : reify_entries (a ++ b) = reify_entries a ++ reify_entries b.
Proof. unfold reify_entries. apply map_app. Qed.

Lemma nframe_frame : forall NC, nframe NC -> exists C, frame C /\ forall x, reify (NC x) = C (reify x).
Proof.
  intros NC H.
  induction H as [|mid lbl cls cargs a1 k a2 NC Hv HN [C [FC E]]|mid n a1 k a2 NC Hv HN [C [FC E]]
                 |mid a1 k a2 NC Hv HN [C [FC E]]
                 |mid c ln rn r NC HN [C [FC E]]|mid c ln rn l NC HN [C [FC E]]|mid c pn NC HN [C [FC E]]
                 |c cargs ex a1 k a2 NC Hv Hs HN [C [FC E]]].
  - exists (fun x => x). split; [constructor | reflexivity].
  - exists (fun y => OInst "Model" info_mo
                      ((("id", OInt mid) :: ("_label", OStr lbl) :: ("cls", OClass cls) :: reify_entries a1)
                         ++ (k, C y) :: reify_entries a2)).
    split.
    + apply FInst; [exact Hv | reflexivity | left; reflexivity | exact FC].
    + intro x. cbn [reify]. rewrite reify_go, reify_entries_app. cbn [reify_entries map fst snd].
      rewrite E. reflexivity.
  - exists (fun y => OInst "Collection" info_mo
                      ((("id", OInt mid) :: ("item_number", OInt n) :: reify_entries a1) ++ (k, C y) :: reify_entries a2)).
    split.
    + apply FInst; [exact Hv | reflexivity | left; reflexivity | exact FC].
    + intro x. cbn [reify]. rewrite reify_go, reify_entries_app. cbn [reify_entries map fst snd].
      rewrite E. reflexivity.
  - exists (fun y => OInst "TuplePrior" info_mo ((("id", OInt mid) :: reify_entries a1) ++ (k, C y) :: reify_entries a2)).
    split.
    + apply FInst; [exact Hv | reflexivity | left; reflexivity | exact FC].
    + intro x. cbn [reify]. rewrite reify_go, reify_entries_app. cbn [reify_entries map fst snd].
      rewrite E. reflexivity.
  - exists (fun y => OInst c (info_fields ["left"; "right"] true) ([("id", OInt mid)] ++ ("left", C y) :: [("right", reify r)])).
    split.
    + apply FInst; [reflexivity | reflexivity | right; cbn; intros [F|[]]; discriminate F | exact FC].
    + intro x. cbn [reify]. rewrite compound_fields_declared, E. reflexivity.
  - exists (fun y => OInst c (info_fields ["left"; "right"] true) ([("id", OInt mid); ("left", reify l)] ++ ("right", C y) :: [])).
    split.
    + apply FInst; [reflexivity | reflexivity | right; cbn; intros [F|[F|[]]]; discriminate F | exact FC].
    + intro x. cbn [reify]. rewrite compound_fields_declared, E. reflexivity.
  - exists (fun y => OInst c (info_fields ["prior"] true) ([("id", OInt mid)] ++ ("prior", C y) :: [])).
    split.
    + apply FInst; [reflexivity | reflexivity | right; cbn; intros [F|[]]; discriminate F | exact FC].
    + intro x. cbn [reify]. rewrite modified_fields_declared, E. reflexivity.
  - exists (fun y => OInst c (info_plain cargs ex) (reify_entries a1 ++ (k, C y) :: reify_entries a2)).
    split.
    + apply FInst; [exact Hv | | left; destruct ex; reflexivity | exact FC].
      unfold sel_of, info_plain. cbn [idf is_mo ctor excl]. cbn [selected]. destruct ex; exact Hs.
    + intro x. cbn [reify]. rewrite reify_go, reify_entries_app. cbn [reify_entries map fst snd].
      rewrite E. reflexivity.
Qed.

Section Sensitive.
  Variable ps : float -> string.

  Lemma tokens_search_nonempty c fs attrs : tokens ps (reify (NSearch c fs attrs)) <> [].
  Proof. cbn [reify]. rewrite tokens_inst. discriminate. Qed.

  Definition tag_list (tag : option string) : list obj := match tag with Some t => [OStr t] | None => [] end.

  Lemma fit_tokens s m tag :
    tokens ps (fit_obj s m tag) = tokens ps (reify s) ++ tokens ps (reify m) ++ flat_map (tokens ps) (tag_list tag).
  Proof. unfold fit_obj. rewrite tokens_seq. cbn [flat_map]. destruct tag; reflexivity. Qed.

  (* a change anywhere inside the model *)
  Lemma sensitive_model c fs sattrs tag NC n n' :
    nframe NC ->
    cat_t (tokens ps (reify n)) <> cat_t (tokens ps (reify n')) ->
    joined ps (fit_obj (NSearch c fs sattrs) (NC n) tag) <> joined ps (fit_obj (NSearch c fs sattrs) (NC n') tag).
  Proof.
    intros HN D. destruct (nframe_frame NC HN) as [C [FC E]].
    set (s := NSearch c fs sattrs).
    assert (FF : frame (fun y => OSeq ([reify s] ++ C y :: tag_list tag))) by (apply FSeq; exact FC).
    assert (R : forall x, fit_obj s (NC x) tag = (fun y => OSeq ([reify s] ++ C y :: tag_list tag)) (reify x)).
    { intro x. unfold fit_obj. rewrite E. destruct tag; reflexivity. }
    rewrite (R n), (R n').
    apply (frame_sensitive ps (fun y => OSeq ([reify s] ++ C y :: tag_list tag)) (reify n) (reify n') FF); [| |exact D];
      cbn beta; rewrite tokens_seq; cbn [app flat_map]; intro Z; apply app_eq_nil in Z; destruct Z as [Z _];
      exact (tokens_search_nonempty c fs sattrs Z).
  Qed.

  (* a change of one identifying search setting *)
  Lemma sensitive_search c fs a1 k a2 m tag v v' :
    visible k = true -> mem k fs = true -> ~ In k (map fst a1) ->
    cat_t (tokens ps (reify v)) <> cat_t (tokens ps (reify v')) ->
    joined ps (fit_obj (NSearch c fs (a1 ++ (k, v) :: a2)) m tag) <> joined ps (fit_obj (NSearch c fs (a1 ++ (k, v') :: a2)) m tag).
  Proof.
    intros Hv Hm Hu D.
    set (C := fun y => OSeq ([] ++ (fun z => OInst c (info_fields fs false) (reify_entries a1 ++ (k, (fun w => w) z) :: reify_entries a2)) y
                              :: reify m :: tag_list tag)).
    assert (FF : frame C).
    { apply FSeq. apply FInst; [exact Hv | exact Hm | right | constructor].
      unfold reify_entries. rewrite map_map. cbn [fst]. exact Hu. }
    assert (R : forall x, fit_obj (NSearch c fs (a1 ++ (k, x) :: a2)) m tag = C (reify x)).
    { intro x. unfold fit_obj, C. cbn [reify app]. rewrite reify_go, reify_entries_app. cbn [reify_entries map fst snd].
      destruct tag; reflexivity. }
    rewrite (R v), (R v').
    apply (frame_sensitive ps C (reify v) (reify v') FF); [| |exact D];
      unfold C; rewrite tokens_seq; cbn [app flat_map]; rewrite tokens_inst; discriminate.
  Qed.

  (* another search class *)
  Lemma sensitive_search_class c c' fs fs' a a' m m' tag tag' :
    nodot c = true -> nodot c' = true -> c <> c' ->
    joined ps (fit_obj (NSearch c fs a) m tag) <> joined ps (fit_obj (NSearch c' fs' a') m' tag').
  Proof.
    intros Hc Hc' N E. unfold joined in E.
    apply concat_inj_cat_t in E.
    - rewrite !fit_tokens in E. cbn [reify] in E. rewrite !tokens_inst in E. cbn [app] in E.
      exact (N (cat_t_head c c' _ _ Hc Hc' E)).
    - rewrite fit_tokens. cbn [reify]. rewrite tokens_inst. discriminate.
    - rewrite fit_tokens. cbn [reify]. rewrite tokens_inst. discriminate.
  Qed.

  (* the unique tag *)
  Lemma sensitive_tag c fs sattrs m t t' :
    t <> t' ->
    joined ps (fit_obj (NSearch c fs sattrs) m (Some t)) <> joined ps (fit_obj (NSearch c fs sattrs) m (Some t')).
  Proof.
    intros N E. unfold joined in E. apply concat_inj_cat_t in E.
    - rewrite !fit_tokens in E. cbn [tag_list flat_map tokens app] in E.
      rewrite !app_assoc in E. apply cat_t_mid in E. exact (N E).
    - rewrite fit_tokens. intro Z. apply app_eq_nil in Z. destruct Z as [Z _]. exact (tokens_search_nonempty c fs sattrs Z).
    - rewrite fit_tokens. intro Z. apply app_eq_nil in Z. destruct Z as [Z _]. exact (tokens_search_nonempty c fs sattrs Z).
  Qed.

  Lemma sensitive_tag_presence c fs sattrs m t :
    joined ps (fit_obj (NSearch c fs sattrs) m None) <> joined ps (fit_obj (NSearch c fs sattrs) m (Some t)).
  Proof.
    intro E. unfold joined in E. apply concat_inj_cat_t in E.
    - rewrite !fit_tokens in E. cbn [tag_list flat_map tokens app] in E.
      rewrite !cat_t_app in E. apply append_inj_l in E. apply append_inj_l in E.
      exact (cat_t_nil_cons t [] E).
    - rewrite fit_tokens. intro Z. apply app_eq_nil in Z. destruct Z as [Z _]. exact (tokens_search_nonempty c fs sattrs Z).
    - rewrite fit_tokens. intro Z. apply app_eq_nil in Z. destruct Z as [Z _]. exact (tokens_search_nonempty c fs sattrs Z).
  Qed.

  (* ---------- leaves: which local changes change their own description ---------- *)
  Lemma leaf_float a b : float_token ps a <> float_token ps b ->
    cat_t (tokens ps (reify (NFloat a))) <> cat_t (tokens ps (reify (NFloat b))).
  Proof.
    intros H E. cbn [reify tokens] in E. apply (cat_t_mid [] []) in E. exact (H E).
  Qed.

  Lemma leaf_int a b : a <> b -> cat_t (tokens ps (reify (NInt a))) <> cat_t (tokens ps (reify (NInt b))).
  Proof. intros H E. cbn [reify tokens] in E. apply (cat_t_mid [] []) in E. apply str_of_Z_inj in E. exact (H E). Qed.

  Lemma leaf_bool a b : a <> b -> cat_t (tokens ps (reify (NBool a))) <> cat_t (tokens ps (reify (NBool b))).
  Proof. intros H E. cbn [reify tokens] in E. apply (cat_t_mid [] []) in E. apply str_of_bool_inj in E. exact (H E). Qed.

  Lemma leaf_str a b : a <> b -> cat_t (tokens ps (reify (NStr a))) <> cat_t (tokens ps (reify (NStr b))).
  Proof. intros H E. cbn [reify tokens] in E. apply (cat_t_mid [] []) in E. exact (H E). Qed.

  Lemma leaf_none_to_value n b r : tokens ps (reify n) = b :: r ->
    cat_t (tokens ps (reify NNone)) <> cat_t (tokens ps (reify n)).
  Proof. intros H. rewrite H. cbn [reify tokens]. apply cat_t_nil_cons. Qed.

  Lemma leaf_prior_family pid pid' fam fam' lo hi m s lo' hi' m' s' : fam <> fam' ->
    cat_t (tokens ps (reify (NPrior pid fam lo hi m s))) <> cat_t (tokens ps (reify (NPrior pid' fam' lo' hi' m' s'))).
  Proof.
    intros N E. rewrite !tokens_prior in E.
    apply cat_t_head in E; try apply fam_name_nodot. apply fam_name_inj in E. exact (N E).
  Qed.

  Lemma leaf_prior_lower pid pid' fam lo lo' hi m s : float_token ps lo <> float_token ps lo' ->
    cat_t (tokens ps (reify (NPrior pid fam lo hi m s))) <> cat_t (tokens ps (reify (NPrior pid' fam lo' hi m s))).
  Proof.
    intros H E. rewrite !tokens_prior in E.
    apply (cat_t_mid [fam_name fam; "lower_limit"]) in E. exact (H E).
  Qed.

  Lemma leaf_prior_upper pid pid' fam lo hi hi' m s : float_token ps hi <> float_token ps hi' ->
    cat_t (tokens ps (reify (NPrior pid fam lo hi m s))) <> cat_t (tokens ps (reify (NPrior pid' fam lo hi' m s))).
  Proof.
    intros H E. rewrite !tokens_prior in E.
    apply (cat_t_mid [fam_name fam; "lower_limit"; float_token ps lo; "upper_limit"]) in E.
    exact (H E).
  Qed.

  Lemma leaf_prior_mean pid pid' fam lo hi m m' s : fam_has_ms fam = true -> float_token ps m <> float_token ps m' ->
    cat_t (tokens ps (reify (NPrior pid fam lo hi m s))) <> cat_t (tokens ps (reify (NPrior pid' fam lo hi m' s))).
  Proof.
    intros Hf H E. rewrite !tokens_prior, Hf in E.
    apply (cat_t_mid [fam_name fam; "lower_limit"; float_token ps lo; "upper_limit"; float_token ps hi; "mean"]) in E.
    exact (H E).
  Qed.

  Lemma leaf_prior_sigma pid pid' fam lo hi m s s' : fam_has_ms fam = true -> float_token ps s <> float_token ps s' ->
    cat_t (tokens ps (reify (NPrior pid fam lo hi m s))) <> cat_t (tokens ps (reify (NPrior pid' fam lo hi m s'))).
  Proof.
    intros Hf H E. rewrite !tokens_prior, Hf in E.
    apply (cat_t_mid [fam_name fam; "lower_limit"; float_token ps lo; "upper_limit"; float_token ps hi; "mean"; float_token ps m; "sigma"] []) in E.
    exact (H E).
  Qed.

  Lemma leaf_model_class mid mid' lbl lbl' cls cls' cargs cargs' attrs : cls <> cls' ->
    cat_t (tokens ps (reify (NModel mid lbl cls cargs attrs))) <> cat_t (tokens ps (reify (NModel mid' lbl' cls' cargs' attrs))).
  Proof.
    intros N E. cbn [reify] in E. rewrite !reify_go, !tokens_inst in E.
    change (sel_of info_mo) with SAll in E. cbn [select] in E.
    unfold tok_entries in E. cbn [map fst snd] in E. rewrite !emit_dict_cons in E.
    rewrite id_invisible, label_invisible in E. cbn [app tokens] in E.
    change (visible "cls") with true in E. cbn iota in E. cbn [app] in E.
    apply (cat_t_mid ["Model"; "cls"]) in E. exact (N E).
  Qed.

  (* a prior versus a fixed value, a model versus a collection, ...: different first tokens *)
  Lemma leaf_head n n' a b r r' :
    tokens ps (reify n) = a :: r -> tokens ps (reify n') = b :: r' -> nodot a = true -> nodot b = true -> a <> b ->
    cat_t (tokens ps (reify n)) <> cat_t (tokens ps (reify n')).
  Proof. intros T T' Ha Hb N E. rewrite T, T' in E. exact (N (cat_t_head a b r r' Ha Hb E)). Qed.
End Sensitive.

(* when str(float) is injective on bit patterns (repr round-trips binary64), two fixed values whose
   roundings differ have different tokens *)
Lemma float_token_differs (ps : float -> string) :
  (forall x y, ps x = ps y -> fbits_eqb x y = true) ->
  forall a b, fbits_eqb (round8 a) (round8 b) = false -> float_token ps a <> float_token ps b.
Proof. intros ps_inj a b H E. apply ps_inj in E. unfold float_token in E. congruence. Qed.

