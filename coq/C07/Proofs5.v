(* C07 lemmas, part 5: renamed keys, added attributes / items; names of negated priors. *)
From Coq Require Import ZArith List Bool String Ascii Lia.
From Coq Require Import Floats.PrimFloat.
From PAFCommon Require Import PyFloat.
From PAFC07 Require Import Gen Model Proofs1 Proofs2 Proofs3.
Import ListNotations.
Open Scope string_scope.
Open Scope list_scope.

Lemma length_cat_t_cons (k : string) (r : list string) :
  String.length (cat_t (k :: r)) = (String.length k + 1 + String.length (cat_t r))%nat.
Proof. cbn [cat_t]. rewrite sep_is_dot, !length_append. cbn. lia. Qed.

(* inserting tokens is visible *)
Lemma cat_t_insert (pre post mid : list string) (k : string) :
  cat_t (pre ++ post) <> cat_t (pre ++ k :: mid ++ post).
Proof.
  rewrite !cat_t_app. intro H. apply append_inj_l in H.
  apply (f_equal String.length) in H.
  change (k :: mid ++ post) with ((k :: mid) ++ post) in H.
  rewrite cat_t_app, length_append, length_cat_t_cons in H. lia.
Qed.

Section Keys.
  Variable ps : float -> string.

  Lemma emit_entry_split (d1 d2 : list (string * obj)) (k : string) (v : obj) :
    visible k = true ->
    emit_dict (tok_entries ps (d1 ++ (k, v) :: d2)) =
    emit_dict (tok_entries ps d1) ++ k :: tokens ps v ++ emit_dict (tok_entries ps d2).
  Proof.
    intro Hv. rewrite tok_entries_app. cbn [tok_entries map fst snd].
    rewrite emit_dict_app, emit_dict_cons, Hv. reflexivity.
  Qed.

  Lemma tokens_coll mid n attrs :
    tokens ps (reify (NColl mid n attrs)) =
    "Collection" :: "item_number" :: str_of_Z n :: emit_dict (tok_entries ps (reify_entries attrs)).
  Proof. cbn [reify]. rewrite reify_go, tokens_inst. reflexivity. Qed.

  Lemma tokens_model mid lbl cls cargs attrs :
    tokens ps (reify (NModel mid lbl cls cargs attrs)) =
    "Model" :: "cls" :: cls :: emit_dict (tok_entries ps (reify_entries attrs)).
  Proof. cbn [reify]. rewrite reify_go, tokens_inst. reflexivity. Qed.

  (* a component stored under another name *)
  Lemma leaf_collection_key mid mid' n a1 k k' v a2 :
    visible k = true -> visible k' = true -> k <> k' ->
    cat_t (tokens ps (reify (NColl mid n (a1 ++ (k, v) :: a2)))) <>
    cat_t (tokens ps (reify (NColl mid' n (a1 ++ (k', v) :: a2)))).
  Proof.
    intros Hk Hk' N E. rewrite !tokens_coll, !reify_entries_app in E. cbn [reify_entries map fst snd] in E.
    fold (reify_entries a2) in E.
    rewrite (emit_entry_split _ _ k _ Hk), (emit_entry_split _ _ k' _ Hk') in E.
    apply (cat_t_mid ("Collection" :: "item_number" :: str_of_Z n :: emit_dict (tok_entries ps (reify_entries a1)))) in E.
    exact (N E).
  Qed.

  Lemma leaf_model_attribute_name mid mid' lbl lbl' cls cargs a1 k k' v a2 :
    visible k = true -> visible k' = true -> k <> k' ->
    cat_t (tokens ps (reify (NModel mid lbl cls cargs (a1 ++ (k, v) :: a2)))) <>
    cat_t (tokens ps (reify (NModel mid' lbl' cls cargs (a1 ++ (k', v) :: a2)))).
  Proof.
    intros Hk Hk' N E. rewrite !tokens_model, !reify_entries_app in E. cbn [reify_entries map fst snd] in E.
    fold (reify_entries a2) in E.
    rewrite (emit_entry_split _ _ k _ Hk), (emit_entry_split _ _ k' _ Hk') in E.
    apply (cat_t_mid ("Model" :: "cls" :: cls :: emit_dict (tok_entries ps (reify_entries a1)))) in E.
    exact (N E).
  Qed.

  (* one more item / attribute *)
  Lemma leaf_collection_item_added mid mid' n a1 k v a2 :
    visible k = true ->
    cat_t (tokens ps (reify (NColl mid n (a1 ++ a2)))) <>
    cat_t (tokens ps (reify (NColl mid' n (a1 ++ (k, v) :: a2)))).
  Proof.
    intros Hk E. rewrite !tokens_coll, !reify_entries_app in E. cbn [reify_entries map fst snd] in E.
    fold (reify_entries a2) in E.
    rewrite (emit_entry_split _ _ k _ Hk) in E. rewrite tok_entries_app, emit_dict_app in E.
    exact (cat_t_insert ("Collection" :: "item_number" :: str_of_Z n :: emit_dict (tok_entries ps (reify_entries a1)))
                        (emit_dict (tok_entries ps (reify_entries a2))) (tokens ps (reify v)) k E).
  Qed.

  Lemma leaf_model_attribute_added mid mid' lbl lbl' cls cargs a1 k v a2 :
    visible k = true ->
    cat_t (tokens ps (reify (NModel mid lbl cls cargs (a1 ++ a2)))) <>
    cat_t (tokens ps (reify (NModel mid' lbl' cls cargs (a1 ++ (k, v) :: a2)))).
  Proof.
    intros Hk E. rewrite !tokens_model, !reify_entries_app in E. cbn [reify_entries map fst snd] in E.
    fold (reify_entries a2) in E.
    rewrite (emit_entry_split _ _ k _ Hk) in E. rewrite tok_entries_app, emit_dict_app in E.
    exact (cat_t_insert ("Model" :: "cls" :: cls :: emit_dict (tok_entries ps (reify_entries a1)))
                        (emit_dict (tok_entries ps (reify_entries a2))) (tokens ps (reify v)) k E).
  Qed.

  (* the attribute names arithmetic priors take from the caller's variables do not enter the description *)
  Lemma binop_names_irrelevant mid mid' c ln rn ln' rn' l r :
    tokens ps (reify (NBinop mid c ln rn l r)) = tokens ps (reify (NBinop mid' c ln' rn' l r)).
  Proof. cbn [reify]. rewrite compound_fields_declared. reflexivity. Qed.

  Lemma unop_name_irrelevant mid mid' c pn pn' a :
    tokens ps (reify (NUnop mid c pn a)) = tokens ps (reify (NUnop mid' c pn' a)).
  Proof. cbn [reify]. rewrite modified_fields_declared. reflexivity. Qed.
End Keys.
