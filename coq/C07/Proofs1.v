(* C07 lemmas, part 1: structure of the walk; what the walk cannot see (stability). *)
From Coq Require Import ZArith List Bool String Ascii Lia.
From Coq Require Import Floats.PrimFloat.
From PAFCommon Require Import PyFloat.
From PAFC07 Require Import Gen Model.
Import ListNotations.
Open Scope string_scope.
Open Scope list_scope.

(* ---------- induction principles for the nested inductives ---------- *)
Section ObjInd.
  Variable P : obj -> Prop.
  Hypothesis HClass : forall p, P (OClass p).
  Hypothesis HExc : P OExc.
  Hypothesis HInst : forall c i d, Forall (fun kv => P (snd kv)) d -> P (OInst c i d).
  Hypothesis HDict : forall d, Forall (fun kv => P (snd kv)) d -> P (ODict d).
  Hypothesis HFloat : forall f, P (OFloat f).
  Hypothesis HStr : forall s, P (OStr s).
  Hypothesis HInt : forall z, P (OInt z).
  Hypothesis HBool : forall b, P (OBool b).
  Hypothesis HSeq : forall l, Forall P l -> P (OSeq l).
  Hypothesis HNone : P ONone.
  Hypothesis HOther : forall d r, P (OOther d r).
  Hypothesis HSet : forall l, P (OSet l).

  Fixpoint obj_ind' (o : obj) : P o :=
    match o with
    | OClass p => HClass p
    | OExc => HExc
    | OInst c i d =>
        HInst c i d ((fix go (l : list (string * obj)) : Forall (fun kv => P (snd kv)) l :=
                        match l with
                        | [] => Forall_nil _
                        | kv :: r => Forall_cons kv (obj_ind' (snd kv)) (go r)
                        end) d)
    | ODict d =>
        HDict d ((fix go (l : list (string * obj)) : Forall (fun kv => P (snd kv)) l :=
                    match l with
                    | [] => Forall_nil _
                    | kv :: r => Forall_cons kv (obj_ind' (snd kv)) (go r)
                    end) d)
    | OFloat f => HFloat f
    | OStr s => HStr s
    | OInt z => HInt z
    | OBool b => HBool b
    | OSeq l =>
        HSeq l ((fix go (l : list obj) : Forall P l :=
                   match l with
                   | [] => Forall_nil _
                   | x :: r => Forall_cons x (obj_ind' x) (go r)
                   end) l)
    | ONone => HNone
    | OOther d r => HOther d r
    | OSet l => HSet l
    end.
End ObjInd.

Section NodeInd.
  Variable P : node -> Prop.
  Hypothesis HPrior : forall pid fam lo hi m s, P (NPrior pid fam lo hi m s).
  Hypothesis HFloat : forall v, P (NFloat v).
  Hypothesis HInt : forall z, P (NInt z).
  Hypothesis HBool : forall b, P (NBool b).
  Hypothesis HStr : forall s, P (NStr s).
  Hypothesis HNone : P NNone.
  Hypothesis HOther : forall d, P (NOther d).
  Hypothesis HTuple : forall mid ms, Forall (fun kv => P (snd kv)) ms -> P (NTuple mid ms).
  Hypothesis HBinop : forall mid c ln rn l r, P l -> P r -> P (NBinop mid c ln rn l r).
  Hypothesis HUnop : forall mid c pn a, P a -> P (NUnop mid c pn a).
  Hypothesis HModel : forall mid lbl cls cargs attrs, Forall (fun kv => P (snd kv)) attrs -> P (NModel mid lbl cls cargs attrs).
  Hypothesis HColl : forall mid n attrs, Forall (fun kv => P (snd kv)) attrs -> P (NColl mid n attrs).
  Hypothesis HInst : forall c cargs ex attrs, Forall (fun kv => P (snd kv)) attrs -> P (NInst c cargs ex attrs).
  Hypothesis HSearch : forall c fs attrs, Forall (fun kv => P (snd kv)) attrs -> P (NSearch c fs attrs).

  Fixpoint node_ind' (n : node) : P n :=
    let go := (fix go (l : list (string * node)) : Forall (fun kv => P (snd kv)) l :=
                 match l with
                 | [] => Forall_nil _
                 | kv :: r => Forall_cons kv (node_ind' (snd kv)) (go r)
                 end) in
    match n with
    | NPrior pid fam lo hi m s => HPrior pid fam lo hi m s
    | NFloat v => HFloat v
    | NInt z => HInt z
    | NBool b => HBool b
    | NStr s => HStr s
    | NNone => HNone
    | NOther d => HOther d
    | NTuple mid ms => HTuple mid ms (go ms)
    | NBinop mid c ln rn l r => HBinop mid c ln rn l r (node_ind' l) (node_ind' r)
    | NUnop mid c pn a => HUnop mid c pn a (node_ind' a)
    | NModel mid lbl cls cargs attrs => HModel mid lbl cls cargs attrs (go attrs)
    | NColl mid k attrs => HColl mid k attrs (go attrs)
    | NInst c cargs ex attrs => HInst c cargs ex attrs (go attrs)
    | NSearch c fs attrs => HSearch c fs attrs (go attrs)
    end.
End NodeInd.

(* ---------- the nested fixpoints are maps ---------- *)
Definition tok_entries (ps : float -> string) (d : list (string * obj)) : list (string * list string) :=
  map (fun kv => (fst kv, tokens ps (snd kv))) d.
Definition raise_entries (d : list (string * obj)) : list (string * bool) :=
  map (fun kv => (fst kv, raises (snd kv))) d.
Definition strip_entries (s : sel) (d : list (string * obj)) : list (string * obj) :=
  flat_map (fun kv =>
              if selected s (fst kv)
              then (if visible (fst kv) then [(fst kv, strip (snd kv))]
                    else if is_fields s then [(fst kv, ONone)] else [])
              else []) d.
Definition strip_dict (d : list (string * obj)) : list (string * obj) :=
  flat_map (fun kv => if visible (fst kv) then [(fst kv, strip (snd kv))] else []) d.
Definition reify_entries (l : list (string * node)) : list (string * obj) :=
  map (fun kv => (fst kv, reify (snd kv))) l.
Definition erase_entries (l : list (string * node)) : list (string * node) :=
  map (fun kv => (fst kv, erase (snd kv))) l.
Definition reload_entries (l : list (string * node)) : list (string * option node) :=
  map (fun kv => (fst kv, reload (snd kv))) l.

Lemma tokens_inst ps c i d :
  tokens ps (OInst c i d) = c :: emit_dict (select (sel_of i) [] (tok_entries ps d)).
Proof.
  cbn [tokens]. f_equal. f_equal. f_equal. unfold tok_entries.
  induction d as [|[k v] r IH]; [reflexivity|]. cbn [map fst snd]. rewrite <- IH. reflexivity.
Qed.

Lemma tokens_dict ps d : tokens ps (ODict d) = emit_dict (tok_entries ps d).
Proof.
  cbn [tokens]. f_equal. unfold tok_entries.
  induction d as [|[k v] r IH]; [reflexivity|]. cbn [map fst snd]. rewrite <- IH. reflexivity.
Qed.

Lemma tokens_seq ps l : tokens ps (OSeq l) = flat_map (tokens ps) l.
Proof.
  cbn [tokens]. induction l as [|x r IH]; [reflexivity|]. cbn [flat_map]. rewrite <- IH. reflexivity.
Qed.

Lemma raises_inst c i d :
  raises (OInst c i d) =
  (match idf i with
   | Some fs => existsb (fun k => match lookup k (raise_entries d) with None => true | Some _ => false end) fs
   | None => false
   end) || any_visible (select (sel_of i) false (raise_entries d)).
Proof.
  cbn [raises].
  assert (E : (fix go (l : list (string * obj)) : list (string * bool) :=
                 match l with [] => [] | kv :: r => match kv with (k, v) => (k, raises v) :: go r end end) d
              = raise_entries d).
  { unfold raise_entries. induction d as [|[k v] r IH]; [reflexivity|]. cbn [map fst snd]. rewrite <- IH. reflexivity. }
  rewrite E. reflexivity.
Qed.

Lemma raises_dict d : raises (ODict d) = any_visible (raise_entries d).
Proof.
  cbn [raises]. f_equal. unfold raise_entries.
  induction d as [|[k v] r IH]; [reflexivity|]. cbn [map fst snd]. rewrite <- IH. reflexivity.
Qed.

Lemma raises_seq l : raises (OSeq l) = existsb raises l.
Proof.
  cbn [raises]. induction l as [|x r IH]; [reflexivity|]. cbn [existsb]. rewrite <- IH. reflexivity.
Qed.

Lemma strip_inst c i d : strip (OInst c i d) = OInst c i (strip_entries (sel_of i) d).
Proof.
  cbn [strip]. f_equal. unfold strip_entries.
  induction d as [|[k v] r IH]; [reflexivity|]. cbn [flat_map fst snd]. rewrite <- IH.
  destruct (selected (sel_of i) k); [|reflexivity].
  destruct (visible k); [reflexivity|]. destruct (is_fields (sel_of i)); reflexivity.
Qed.

Lemma strip_odict d : strip (ODict d) = ODict (strip_dict d).
Proof.
  cbn [strip]. f_equal. unfold strip_dict.
  induction d as [|[k v] r IH]; [reflexivity|]. cbn [flat_map fst snd]. rewrite <- IH.
  destruct (visible k); reflexivity.
Qed.

Lemma strip_seq l : strip (OSeq l) = OSeq (map strip l).
Proof.
  reflexivity.
Qed.

Lemma reify_go l :
  (fix go (l : list (string * node)) : list (string * obj) :=
     match l with [] => [] | kv :: r => match kv with (k, v) => (k, reify v) :: go r end end) l = reify_entries l.
Proof. unfold reify_entries. induction l as [|[k v] r IH]; [reflexivity|]. cbn [map fst snd]. rewrite <- IH. reflexivity. Qed.

Lemma erase_go l :
  (fix go (l : list (string * node)) : list (string * node) :=
     match l with [] => [] | kv :: r => match kv with (k, v) => (k, erase v) :: go r end end) l = erase_entries l.
Proof. unfold erase_entries. induction l as [|[k v] r IH]; [reflexivity|]. cbn [map fst snd]. rewrite <- IH. reflexivity. Qed.

Lemma reload_go l :
  (fix go (l : list (string * node)) : list (string * option node) :=
     match l with [] => [] | kv :: r => match kv with (k, v) => (k, reload v) :: go r end end) l = reload_entries l.
Proof. unfold reload_entries. induction l as [|[k v] r IH]; [reflexivity|]. cbn [map fst snd]. rewrite <- IH. reflexivity. Qed.

(* ---------- association-list facts ---------- *)
Lemma mem_true_iff k l : mem k l = true <-> In k l.
Proof.
  unfold mem. rewrite existsb_exists. split.
  - intros [x [Hin E]]. apply String.eqb_eq in E. subst. exact Hin.
  - intro H. exists k. split; [exact H | apply String.eqb_refl].
Qed.

Lemma lookup_map_value {A B} (f : A -> B) k (d : list (string * A)) :
  lookup k (map (fun kv => (fst kv, f (snd kv))) d) = option_map f (lookup k d).
Proof.
  induction d as [|[k' v] r IH]; [reflexivity|]. cbn [map lookup fst snd].
  destruct (String.eqb k k'); [reflexivity | exact IH].
Qed.

Lemma emit_dict_app a b : emit_dict (a ++ b) = emit_dict a ++ emit_dict b.
Proof. unfold emit_dict. apply flat_map_app. Qed.

Lemma emit_dict_cons k t r : emit_dict ((k, t) :: r) = (if visible k then k :: t else []) ++ emit_dict r.
Proof. reflexivity. Qed.

(* ---------- the walk sees an object only through `strip` ---------- *)
Section Stable.
  Variable ps : float -> string.

  (* lookups of visible selected keys are preserved by strip_entries *)
  Lemma lookup_strip_entries s d k :
    selected s k = true -> visible k = true ->
    lookup k (strip_entries s d) = option_map strip (lookup k d).
  Proof.
    intros Hs Hv. unfold strip_entries. induction d as [|[k' v] r IH]; [reflexivity|].
    cbn [flat_map fst snd lookup].
    destruct (String.eqb k k') eqn:E.
    - apply String.eqb_eq in E. subst k'. rewrite Hs, Hv. cbn [app lookup]. rewrite String.eqb_refl. reflexivity.
    - destruct (selected s k'); [|exact IH].
      destruct (visible k').
      + cbn [app lookup]. rewrite E. exact IH.
      + destruct (is_fields s); [cbn [app lookup]; rewrite E|]; exact IH.
  Qed.

  (* presence of a selected key is preserved for declared fields *)
  Lemma lookup_strip_entries_presence fs d k :
    mem k fs = true ->
    (lookup k (strip_entries (SFields fs) d) = None <-> lookup k d = None).
  Proof.
    intros Hs. unfold strip_entries. induction d as [|[k' v] r IH]; [tauto|].
    cbn [flat_map fst snd lookup selected is_fields].
    destruct (String.eqb k k') eqn:E.
    - apply String.eqb_eq in E. subst k'. rewrite Hs.
      destruct (visible k); cbn [app lookup]; rewrite String.eqb_refl; split; discriminate.
    - destruct (mem k' fs); [|exact IH].
      destruct (visible k'); cbn [app lookup]; rewrite E; exact IH.
  Qed.

  Lemma tokens_strip : forall o, tokens ps (strip o) = tokens ps o.
  Proof.
    induction o as [p| |c i d IH|d IH|f|s|z|b|l IH| |dd rr|ss] using obj_ind'; try reflexivity.
    - (* OInst *)
      rewrite strip_inst, !tokens_inst. f_equal.
      destruct (sel_of i) as [fs| |args ex] eqn:Es; cbn [select].
      + (* declared fields *)
        assert (G : forall k, visible k = true -> mem k fs = true ->
                    lookup k (tok_entries ps (strip_entries (SFields fs) d)) = lookup k (tok_entries ps d)).
        { intros k Hv Hm. unfold tok_entries. rewrite !lookup_map_value.
          rewrite (lookup_strip_entries (SFields fs) d k Hm Hv).
          clear - IH. induction d as [|[k' v] r IHd]; [reflexivity|].
          cbn [lookup]. inversion IH as [|? ? Hv' Hr]; subst.
          destruct (String.eqb k k'); [cbn [option_map]; f_equal; exact Hv' | apply IHd; exact Hr]. }
        assert (Sub : forall l seen, (forall k, In k l -> mem k fs = true) ->
                  emit_dict (map (fun k => (k, match lookup k (tok_entries ps (strip_entries (SFields fs) d)) with Some v => v | None => [] end)) (dedupe seen l))
                  = emit_dict (map (fun k => (k, match lookup k (tok_entries ps d) with Some v => v | None => [] end)) (dedupe seen l))).
        { induction l as [|k l IHl]; intros seen Hl; [reflexivity|].
          cbn [dedupe]. destruct (mem k seen).
          - apply IHl. intros k' Hk'. apply Hl. right. exact Hk'.
          - cbn [map]. rewrite !emit_dict_cons. cbn [fst snd].
            rewrite (IHl (k :: seen)) by (intros k' Hk'; apply Hl; right; exact Hk').
            destruct (visible k) eqn:Hv; [|reflexivity].
            rewrite (G k Hv) by (apply Hl; left; reflexivity). reflexivity. }
        apply (Sub fs []). intros k Hk. apply mem_true_iff. exact Hk.
      + (* whole __dict__ *)
        unfold tok_entries, strip_entries. cbn [selected is_fields].
        induction d as [|[k v] r IHd]; [reflexivity|].
        inversion IH as [|? ? Hv Hr]; subst. cbn [flat_map map fst snd].
        destruct (visible k) eqn:Ev.
        * cbn [app map fst snd]. rewrite !emit_dict_cons. rewrite Ev. cbn [snd] in Hv. rewrite Hv.
          f_equal. apply IHd. exact Hr.
        * cbn [app]. rewrite emit_dict_cons, Ev. cbn [app]. apply IHd. exact Hr.
      + (* constructor arguments minus excluded fields *)
        unfold tok_entries, strip_entries. cbn [selected is_fields].
        induction d as [|[k v] r IHd]; [reflexivity|].
        inversion IH as [|? ? Hv Hr]; subst. cbn [flat_map map filter fst snd].
        destruct (mem k args && negb (mem k ex)) eqn:Ek.
        * destruct (visible k) eqn:Ev.
          -- cbn [app map filter fst snd]. rewrite Ek. rewrite !emit_dict_cons. rewrite Ev. cbn [snd] in Hv. rewrite Hv.
             f_equal. apply IHd. exact Hr.
          -- cbn [app]. rewrite emit_dict_cons, Ev. cbn [app]. apply IHd. exact Hr.
        * apply IHd. exact Hr.
    - (* ODict *)
      rewrite strip_odict, !tokens_dict. unfold tok_entries, strip_dict.
      induction d as [|[k v] r IHd]; [reflexivity|].
      inversion IH as [|? ? Hv Hr]; subst. cbn [flat_map map fst snd].
      destruct (visible k) eqn:Ev.
      + cbn [app map fst snd]. rewrite !emit_dict_cons. rewrite Ev. cbn [snd] in Hv. rewrite Hv.
        f_equal. apply IHd. exact Hr.
      + cbn [app]. rewrite emit_dict_cons, Ev. cbn [app]. apply IHd. exact Hr.
    - (* OSeq *)
      rewrite strip_seq, !tokens_seq.
      induction l as [|x r IHl]; [reflexivity|].
      inversion IH as [|? ? Hx Hr]; subst. cbn [map flat_map]. rewrite Hx. f_equal. apply IHl. exact Hr.
  Qed.
End Stable.

Lemma existsb_ext_in_local {A} (f g : A -> bool) (l : list A) :
  (forall x, In x l -> f x = g x) -> existsb f l = existsb g l.
Proof.
  induction l as [|x r IH]; intro H; [reflexivity|]. cbn [existsb].
  rewrite (H x) by (left; reflexivity). rewrite IH; [reflexivity|]. intros y Hy. apply H. right. exact Hy.
Qed.

Lemma any_visible_cons k b r : any_visible ((k, b) :: r) = (visible k && b) || any_visible r.
Proof. reflexivity. Qed.

Lemma raises_strip : forall o, raises (strip o) = raises o.
Proof.
  induction o as [p| |c i d IH|d IH|f|s|z|b|l IH| |dd rr|ss] using obj_ind'; try reflexivity.
  - rewrite strip_inst, !raises_inst.
    unfold sel_of. destruct (idf i) as [fs|] eqn:Ei.
    + (* declared fields *)
      f_equal.
      * (* missing-field test *)
        apply existsb_ext_in_local. intros k Hk.
        assert (Hm : mem k fs = true) by (apply mem_true_iff; exact Hk).
        unfold raise_entries. rewrite !lookup_map_value.
        pose proof (lookup_strip_entries_presence fs d k Hm) as [P1 P2].
        destruct (lookup k (strip_entries (SFields fs) d)) eqn:E1; destruct (lookup k d) eqn:E2; cbn [option_map]; try reflexivity.
        -- specialize (P2 eq_refl). discriminate.
        -- specialize (P1 eq_refl). discriminate.
      * cbn [select].
        assert (G : forall k, visible k = true -> mem k fs = true ->
                    lookup k (raise_entries (strip_entries (SFields fs) d)) = lookup k (raise_entries d)).
        { intros k Hv Hm. unfold raise_entries. rewrite !lookup_map_value.
          rewrite (lookup_strip_entries (SFields fs) d k Hm Hv).
          clear - IH. induction d as [|[k' v] r IHd]; [reflexivity|].
          cbn [lookup]. inversion IH as [|? ? Hv' Hr]; subst.
          destruct (String.eqb k k'); [cbn [option_map]; f_equal; exact Hv' | apply IHd; exact Hr]. }
        assert (Sub : forall l seen, (forall k, In k l -> mem k fs = true) ->
                  any_visible (map (fun k => (k, match lookup k (raise_entries (strip_entries (SFields fs) d)) with Some v => v | None => false end)) (dedupe seen l))
                  = any_visible (map (fun k => (k, match lookup k (raise_entries d) with Some v => v | None => false end)) (dedupe seen l))).
        { induction l as [|k l IHl]; intros seen Hl; [reflexivity|].
          cbn [dedupe]. destruct (mem k seen).
          - apply IHl. intros k' Hk'. apply Hl. right. exact Hk'.
          - cbn [map]. rewrite !any_visible_cons.
            rewrite (IHl (k :: seen)) by (intros k' Hk'; apply Hl; right; exact Hk').
            destruct (visible k) eqn:Hv; [|reflexivity].
            rewrite (G k Hv) by (apply Hl; left; reflexivity). reflexivity. }
        apply (Sub fs []). intros k Hk. apply mem_true_iff. exact Hk.
    + cbn [orb]. destruct (is_mo i); cbn [select].
      * unfold raise_entries, strip_entries. cbn [selected is_fields].
        induction d as [|[k v] r IHd]; [reflexivity|].
        inversion IH as [|? ? Hv Hr]; subst. cbn [flat_map map fst snd].
        destruct (visible k) eqn:Ev.
        -- cbn [app map fst snd]. rewrite !any_visible_cons. rewrite Ev. cbn [snd] in Hv. rewrite Hv.
           f_equal. apply IHd. exact Hr.
        -- cbn [app]. rewrite any_visible_cons, Ev. cbn [andb orb]. apply IHd. exact Hr.
      * set (ex := match excl i with Some e => e | None => [] end).
        unfold raise_entries, strip_entries. cbn [selected is_fields].
        induction d as [|[k v] r IHd]; [reflexivity|].
        inversion IH as [|? ? Hv Hr]; subst. cbn [flat_map map filter fst snd].
        destruct (mem k (ctor i) && negb (mem k ex)) eqn:Ek.
        -- destruct (visible k) eqn:Ev.
           ++ cbn [app map filter fst snd]. rewrite Ek. rewrite !any_visible_cons. rewrite Ev. cbn [snd] in Hv. rewrite Hv.
              f_equal. apply IHd. exact Hr.
           ++ cbn [app]. rewrite any_visible_cons, Ev. cbn [andb orb]. apply IHd. exact Hr.
        -- apply IHd. exact Hr.
  - rewrite strip_odict, !raises_dict. unfold raise_entries, strip_dict.
    induction d as [|[k v] r IHd]; [reflexivity|].
    inversion IH as [|? ? Hv Hr]; subst. cbn [flat_map map fst snd].
    destruct (visible k) eqn:Ev.
    + cbn [app map fst snd]. rewrite !any_visible_cons. rewrite Ev. cbn [snd] in Hv. rewrite Hv.
      f_equal. apply IHd. exact Hr.
    + cbn [app]. rewrite any_visible_cons, Ev. cbn [andb orb]. apply IHd. exact Hr.
  - rewrite strip_seq, !raises_seq.
    induction l as [|x r IHl]; [reflexivity|].
    inversion IH as [|? ? Hx Hr]; subst. cbn [map existsb]. rewrite Hx. f_equal. apply IHl. exact Hr.
Qed.

(* the statement used in Props: objects with the same visible part are indistinguishable *)
Lemma stable_obj (ps : float -> string) (o o' : obj) :
  strip o = strip o' -> tokens ps o = tokens ps o' /\ raises o = raises o'.
Proof.
  intro H. split.
  - rewrite <- (tokens_strip ps o), <- (tokens_strip ps o'), H. reflexivity.
  - rewrite <- (raises_strip o), <- (raises_strip o'), H. reflexivity.
Qed.

Lemma stable_ident (md5 : string -> string) (ps : float -> string) (o o' : obj) :
  strip o = strip o' -> ident md5 ps o = ident md5 ps o'.
Proof. intro H. unfold ident, joined. destruct (stable_obj ps o o' H) as [E _]. rewrite E. reflexivity. Qed.

(* ---------- ids and labels of a composition are below skipped keys ---------- *)
Lemma strip_entries_reify_erase s l :
  Forall (fun kv => strip (reify (erase (snd kv))) = strip (reify (snd kv))) l ->
  strip_entries s (reify_entries (erase_entries l)) = strip_entries s (reify_entries l).
Proof.
  intro H. unfold strip_entries, reify_entries, erase_entries.
  induction l as [|[k v] r IH]; [reflexivity|].
  inversion H as [|? ? Hv Hr]; subst. cbn [map flat_map fst snd]. cbn [snd] in Hv.
  rewrite Hv. f_equal. apply IH. exact Hr.
Qed.

Lemma id_invisible : visible "id" = false.
Proof. reflexivity. Qed.
Lemma label_invisible : visible "_label" = false.
Proof. reflexivity. Qed.

Lemma strip_entries_cons s k v r :
  strip_entries s ((k, v) :: r) =
  (if selected s k then (if visible k then [(k, strip v)] else if is_fields s then [(k, ONone)] else []) else [])
  ++ strip_entries s r.
Proof. reflexivity. Qed.

Lemma strip_reify_erase : forall n, strip (reify (erase n)) = strip (reify n).
Proof.
  induction n as [pid fam lo hi m s|v|z|b|s| |dd|mid ms IH|mid c ln rn l r IHl IHr|mid c pn a IHa
                 |mid lbl cls cargs attrs IH|mid k attrs IH|c cargs ex attrs IH|c fs attrs IH] using node_ind';
    try (destruct fam; reflexivity); try reflexivity.
  (* (the prior case: "id" is not one of the declared fields) *)
  - cbn [erase reify]. rewrite !erase_go, !reify_go, !strip_inst. f_equal.
    change (sel_of info_mo) with SAll. rewrite !strip_entries_cons. cbn [selected is_fields].
    rewrite id_invisible. cbn [app]. apply (strip_entries_reify_erase SAll). exact IH.
  - cbn [erase reify]. destruct compound_idf as [fs|].
    + rewrite !strip_inst. f_equal. rewrite !strip_entries_cons, IHl, IHr, id_invisible. reflexivity.
    + rewrite !strip_inst. f_equal.
      change (sel_of info_mo) with SAll.
      destruct (String.eqb ln rn); rewrite !strip_entries_cons; cbn [selected is_fields];
        rewrite id_invisible; cbn [app]; rewrite ?IHl, ?IHr; reflexivity.
  - cbn [erase reify]. destruct modified_idf as [fs|].
    + rewrite !strip_inst. f_equal. rewrite !strip_entries_cons, IHa, id_invisible. reflexivity.
    + rewrite !strip_inst. f_equal.
      change (sel_of info_mo) with SAll. rewrite !strip_entries_cons. cbn [selected is_fields].
      rewrite id_invisible. cbn [app]. rewrite IHa. reflexivity.
  - cbn [erase reify]. rewrite !erase_go, !reify_go, !strip_inst. f_equal.
    change (sel_of info_mo) with SAll. rewrite !strip_entries_cons. cbn [selected is_fields].
    rewrite id_invisible, label_invisible. cbn [app].
    f_equal. apply (strip_entries_reify_erase SAll). exact IH.
  - cbn [erase reify]. rewrite !erase_go, !reify_go, !strip_inst. f_equal.
    change (sel_of info_mo) with SAll. rewrite !strip_entries_cons. cbn [selected is_fields].
    rewrite id_invisible. cbn [app].
    f_equal. apply (strip_entries_reify_erase SAll). exact IH.
  - cbn [erase reify]. rewrite !erase_go, !reify_go, !strip_inst. f_equal.
    apply strip_entries_reify_erase. exact IH.
  - cbn [erase reify]. rewrite !erase_go, !reify_go, !strip_inst. f_equal.
    apply strip_entries_reify_erase. exact IH.
Qed.

Lemma stable_node (ps : float -> string) (t t' : node) :
  erase t = erase t' -> tokens ps (reify t) = tokens ps (reify t') /\ raises (reify t) = raises (reify t').
Proof.
  intro H. apply stable_obj.
  rewrite <- (strip_reify_erase t), <- (strip_reify_erase t'), H. reflexivity.
Qed.

Lemma stable_fit (md5 : string -> string) (ps : float -> string) (s s' m m' : node) (tag : option string) :
  erase s = erase s' -> erase m = erase m' ->
  ident md5 ps (fit_obj s m tag) = ident md5 ps (fit_obj s' m' tag).
Proof.
  intros Hs Hm. apply stable_ident. unfold fit_obj. rewrite !strip_seq. f_equal. cbn [map].
  rewrite <- (strip_reify_erase s), <- (strip_reify_erase s'), Hs.
  rewrite <- (strip_reify_erase m), <- (strip_reify_erase m'), Hm. reflexivity.
Qed.

(* the identifier computed by SearchOutput (tag passed even when None) is the same *)
Lemma fit_output_same (ps : float -> string) (s m : node) (tag : option string) :
  tokens ps (fit_obj_output s m tag) = tokens ps (fit_obj s m tag).
Proof.
  unfold fit_obj_output, fit_obj. rewrite !tokens_seq. destruct tag; cbn [flat_map]; rewrite ?app_nil_r; reflexivity.
Qed.

Lemma fit_tokens_eq (ps : float -> string) (s m : node) (tag : option string) :
  tokens ps (fit_obj s m tag) =
  tokens ps (reify s) ++ tokens ps (reify m) ++ match tag with Some t => [t] | None => [] end.
Proof. unfold fit_obj. rewrite tokens_seq. cbn [flat_map]. destruct tag; reflexivity. Qed.
