(* C07 model: the identifier walk (autofit/mapper/identifier.py), the shape of the objects it
   walks (Model / Collection / priors / arithmetic priors / searches) and the JSON reload of a
   model (ModelObject.dict / from_dict), over the GENERATED constants and rounding formula of
   Gen.v.  Executable definitions only; proofs are in Proofs*.v. *)
From Coq Require Import ZArith List Bool String Ascii.
From Coq Require Import Floats.PrimFloat.
From Coq Require DecimalString.
From PAFCommon Require Import PyFloat.
From PAFC07 Require Import Gen.
Import ListNotations.
Open Scope string_scope.
Open Scope list_scope.

(* ------------------------------------------------------------------------------------ *)
(* Python str() of int / bool                                                            *)
(* ------------------------------------------------------------------------------------ *)
Definition str_of_Z (z : Z) : string := DecimalString.NilZero.string_of_int (Z.to_int z).
Definition str_of_bool (b : bool) : string := if b then "True" else "False".

(* ------------------------------------------------------------------------------------ *)
(* float branch: `try: value = RESOLUTION * round(value / RESOLUTION) except OverflowError: pass`
   round(nan) raises ValueError (not caught); round(+-inf) raises OverflowError (caught, the
   value stays unrounded).  For |value / RESOLUTION| >= 2^62 the quotient is an integral float,
   round() is the identity on it and int -> float conversion is exact, so the generated
   formula (whose Z2F is exact only below 2^63) is by-passed there. *)
(* ------------------------------------------------------------------------------------ *)
Definition big62 : float := 0x1p62%float.
Definition round8 (v : float) : float :=
  let q := (v / resolution_F)%float in
  if is_nan q then v
  else if is_infinity q then v
  else if PrimFloat.ltb (abs q) big62 then round8_F resolution_F v
  else (resolution_F * q)%float.
Definition float_raises (v : float) : bool := is_nan (v / resolution_F)%float.

(* ------------------------------------------------------------------------------------ *)
(* dictionary-key filter of the walk (data generated from the source)                    *)
(* ------------------------------------------------------------------------------------ *)
Definition mem (k : string) (l : list string) : bool := existsb (String.eqb k) l.
Definition has_skip_prefix (k : string) : bool :=
  match k with String c _ => Ascii.eqb c skip_prefix | EmptyString => false end.
Definition visible (k : string) : bool := negb (has_skip_prefix k || mem k skip_names).

(* ------------------------------------------------------------------------------------ *)
(* abstract Python values as the walk sees them                                          *)
(* ------------------------------------------------------------------------------------ *)
(* facts about an object with a __dict__ that decide which attributes are walked *)
Record info := mkinfo {
  idf : option (list string);    (* __identifier_fields__ when present *)
  is_mo : bool;                  (* isinstance(value, ModelObject) *)
  ctor : list string;            (* inspect.getfullargspec(type(value)).args (includes "self") *)
  excl : option (list string)    (* __exclude_identifier_fields__ when present *)
}.

Inductive obj :=
| OClass (path : string)                        (* a class: get_class_path *)
| OExc                                          (* an Exception instance: re-raised *)
| OInst (cname : string) (i : info) (d : list (string * obj))
    (* d = the getattr view of the identifier fields when idf = Some _, else __dict__ in order *)
| ODict (items : list (string * obj))           (* keys already str()'ed *)
| OFloat (f : float)
| OStr (s : string)
| OInt (z : Z)
| OBool (b : bool)
| OSeq (items : list obj)                       (* any other Iterable *)
| ONone                                         (* None *)
| OSet (items : list string)                    (* a set / frozenset of strings, in the iteration order of THIS process *)
| OOther (descr : string) (iter_raises : bool). (* any other value: no branch applies and nothing is appended
                                                   (numpy integer / float32 / bool scalars, complex, ...); an
                                                   Iterable whose iteration raises (0-d array) raises *)

(* sorted(value, key=str) on strings: insertion sort by code point order *)
Fixpoint sinsert (x : string) (l : list string) : list string :=
  match l with [] => [x] | y :: r => if String.leb x y then x :: l else y :: sinsert x r end.
Fixpoint ssort (l : list string) : list string := match l with [] => [] | x :: r => sinsert x (ssort r) end.

Inductive sel := SFields (fs : list string) | SAll | SCtor (args excl : list string).

Definition sel_of (i : info) : sel :=
  match idf i with
  | Some fs => SFields fs
  | None => if is_mo i then SAll
            else SCtor (ctor i) (match excl i with Some e => e | None => [] end)
  end.

Section Assoc.
  Context {A : Type}.
  Fixpoint lookup (k : string) (d : list (string * A)) : option A :=
    match d with
    | [] => None
    | (k', v) :: r => if String.eqb k k' then Some v else lookup k r
    end.
  (* dict comprehension over a sequence of keys: position of the first occurrence *)
  Fixpoint dedupe (seen fs : list string) : list string :=
    match fs with
    | [] => []
    | f :: r => if mem f seen then dedupe seen r else f :: dedupe (f :: seen) r
    end.
  Definition select (s : sel) (dflt : A) (d : list (string * A)) : list (string * A) :=
    match s with
    | SAll => d
    | SCtor args ex => filter (fun kv => mem (fst kv) args && negb (mem (fst kv) ex)) d
    | SFields fs => map (fun k => (k, match lookup k d with Some v => v | None => dflt end)) (dedupe [] fs)
    end.
End Assoc.

Definition emit_dict (dt : list (string * list string)) : list string :=
  flat_map (fun kv => if visible (fst kv) then fst kv :: snd kv else []) dt.

Section Walk.
  Variable py_str : float -> string.            (* Python str(float): oracle *)

  Definition float_token (f : float) : string := py_str (round8 f).

  (* Identifier._add_value_to_hash_list: the tokens appended (when nothing raises) *)
  Fixpoint tokens (o : obj) : list string :=
    match o with
    | OClass p => [p]
    | OExc => []
    | OInst c i d =>
        c :: emit_dict (select (sel_of i) []
               ((fix go (l : list (string * obj)) : list (string * list string) :=
                   match l with [] => [] | kv :: r => match kv with (k, v) => (k, tokens v) :: go r end end) d))
    | ODict items =>
        emit_dict ((fix go (l : list (string * obj)) : list (string * list string) :=
                      match l with [] => [] | kv :: r => match kv with (k, v) => (k, tokens v) :: go r end end) items)
    | OFloat f => [float_token f]
    | OStr s => [s]
    | OInt z => [str_of_Z z]
    | OBool b => [str_of_bool b]
    | OSeq l => (fix go (l : list obj) : list string :=
                   match l with [] => [] | x :: r => tokens x ++ go r end) l
    | ONone => []
    | OSet l => if sets_sorted then ssort l else l
    | OOther _ _ => []
    end.
End Walk.

(* does the walk raise?  (Exception value, nan float, missing identifier field) *)
Definition any_visible (dr : list (string * bool)) : bool :=
  existsb (fun kv => visible (fst kv) && snd kv) dr.
Fixpoint raises (o : obj) : bool :=
  match o with
  | OExc => true
  | OFloat f => float_raises f
  | OInst c i d =>
      let dr := (fix go (l : list (string * obj)) : list (string * bool) :=
                   match l with [] => [] | kv :: r => match kv with (k, v) => (k, raises v) :: go r end end) d in
      (match idf i with
       | Some fs => existsb (fun k => match lookup k dr with None => true | Some _ => false end) fs
       | None => false
       end) || any_visible (select (sel_of i) false dr)
  | ODict items =>
      any_visible ((fix go (l : list (string * obj)) : list (string * bool) :=
                      match l with [] => [] | kv :: r => match kv with (k, v) => (k, raises v) :: go r end end) items)
  | OSeq l => (fix go (l : list obj) : bool := match l with [] => false | x :: r => raises x || go r end) l
  | OOther _ r => r
  | _ => false
  end.

(* what the walk can see of an object: attributes that are not selected or sit below a key the
   walk does not descend into are removed; for declared identifier fields only the *presence* of
   a field with a skipped name is kept (its absence raises) *)
Definition selected (s : sel) (k : string) : bool :=
  match s with
  | SAll => true
  | SCtor args ex => mem k args && negb (mem k ex)
  | SFields fs => mem k fs
  end.
Definition is_fields (s : sel) : bool := match s with SFields _ => true | _ => false end.

Fixpoint strip (o : obj) : obj :=
  match o with
  | OInst c i d =>
      OInst c i ((fix go (l : list (string * obj)) : list (string * obj) :=
                    match l with
                    | [] => []
                    | kv :: r =>
                        match kv with
                        | (k, v) =>
                            if selected (sel_of i) k
                            then (if visible k then (k, strip v) :: go r
                                  else if is_fields (sel_of i) then (k, ONone) :: go r else go r)
                            else go r
                        end
                    end) d)
  | ODict items =>
      ODict ((fix go (l : list (string * obj)) : list (string * obj) :=
                match l with
                | [] => []
                | kv :: r => match kv with (k, v) => if visible k then (k, strip v) :: go r else go r end
                end) items)
  | OSeq l => OSeq ((fix go (l : list obj) : list obj := match l with [] => [] | x :: r => strip x :: go r end) l)
  | _ => o
  end.

(* only the keys with the private prefix are removed (ids stay): used to compare shapes *)
Fixpoint strip_us (o : obj) : obj :=
  match o with
  | OInst c i d =>
      OInst c i ((fix go (l : list (string * obj)) : list (string * obj) :=
                    match l with
                    | [] => []
                    | kv :: r => match kv with (k, v) => if has_skip_prefix k then go r else (k, strip_us v) :: go r end
                    end) d)
  | ODict items =>
      ODict ((fix go (l : list (string * obj)) : list (string * obj) :=
                match l with
                | [] => []
                | kv :: r => match kv with (k, v) => if has_skip_prefix k then go r else (k, strip_us v) :: go r end
                end) items)
  | OSeq l => OSeq ((fix go (l : list obj) : list obj := match l with [] => [] | x :: r => strip_us x :: go r end) l)
  | _ => o
  end.

(* the identifier: md5 of the joined tokens (md5 is a parameter everywhere) *)
Definition joined (py_str : float -> string) (o : obj) : string := String.concat join_sep (tokens py_str o).
Definition ident (md5 : string -> string) (py_str : float -> string) (o : obj) : string := md5 (joined py_str o).

(* ------------------------------------------------------------------------------------ *)
(* boolean equality of abstract values (floats by bit pattern)                           *)
(* ------------------------------------------------------------------------------------ *)
Fixpoint slist_eqb (a b : list string) : bool :=
  match a, b with
  | [], [] => true
  | x :: a', y :: b' => String.eqb x y && slist_eqb a' b'
  | _, _ => false
  end.
Definition oslist_eqb (a b : option (list string)) : bool :=
  match a, b with Some x, Some y => slist_eqb x y | None, None => true | _, _ => false end.
Definition info_eqb (a b : info) : bool :=
  oslist_eqb (idf a) (idf b) && Bool.eqb (is_mo a) (is_mo b) && slist_eqb (ctor a) (ctor b) && oslist_eqb (excl a) (excl b).

Fixpoint obj_eqb (a b : obj) : bool :=
  match a, b with
  | OClass p, OClass q => String.eqb p q
  | OExc, OExc => true
  | OInst c i d, OInst c' i' d' =>
      String.eqb c c' && info_eqb i i' &&
      (fix go (l : list (string * obj)) (m : list (string * obj)) : bool :=
         match l, m with
         | [], [] => true
         | kv :: l', kv' :: m' =>
             match kv, kv' with (k, v), (k', v') => String.eqb k k' && obj_eqb v v' && go l' m' end
         | _, _ => false
         end) d d'
  | ODict d, ODict d' =>
      (fix go (l : list (string * obj)) (m : list (string * obj)) : bool :=
         match l, m with
         | [], [] => true
         | kv :: l', kv' :: m' =>
             match kv, kv' with (k, v), (k', v') => String.eqb k k' && obj_eqb v v' && go l' m' end
         | _, _ => false
         end) d d'
  | OFloat f, OFloat g => fbits_eqb f g
  | OStr s, OStr t => String.eqb s t
  | OInt z, OInt w => Z.eqb z w
  | OBool x, OBool y => Bool.eqb x y
  | OSeq l, OSeq m =>
      (fix go (l : list obj) (m : list obj) : bool :=
         match l, m with
         | [], [] => true
         | x :: l', y :: m' => obj_eqb x y && go l' m'
         | _, _ => false
         end) l m
  | ONone, ONone => true
  | OSet l, OSet m => slist_eqb l m
  | OOther d r, OOther d' r' => String.eqb d d' && Bool.eqb r r'
  | _, _ => false
  end.

(* ------------------------------------------------------------------------------------ *)
(* what is fitted: composition trees                                                     *)
(* ------------------------------------------------------------------------------------ *)
Inductive family := FUniform | FLogUniform | FGaussian | FLogGaussian.

Inductive node :=
| NPrior (pid : Z) (fam : family) (lo hi mean sigma : float)    (* identity = pid; mean/sigma unused for (Log)Uniform *)
| NFloat (v : float)
| NInt (z : Z)
| NBool (b : bool)
| NStr (s : string)
| NNone
| NOther (descr : string)                                       (* a fixed value no branch of the walk applies to *)
| NTuple (mid : Z) (members : list (string * node))             (* TuplePrior *)
| NBinop (mid : Z) (cname ln rn : string) (l r : node)          (* CompoundPrior; ln/rn = attribute names taken from caller frames *)
| NUnop (mid : Z) (cname pn : string) (a : node)                (* ModifiedPrior *)
| NModel (mid : Z) (lbl cls : string) (cargs : list string) (attrs : list (string * node))
| NColl (mid : Z) (item_number : Z) (attrs : list (string * node))
| NInst (cname : string) (cargs : list string) (ex : option (list string)) (attrs : list (string * node))   (* plain instance *)
| NSearch (cname : string) (fields : list string) (attrs : list (string * node)). (* search: getattr view of its fields *)

Definition fam_name (f : family) : string :=
  match f with
  | FUniform => "UniformPrior" | FLogUniform => "LogUniformPrior"
  | FGaussian => "GaussianPrior" | FLogGaussian => "LogGaussianPrior"
  end.
Definition fam_fields (f : family) : list string :=
  match f with
  | FUniform | FLogUniform => ["lower_limit"; "upper_limit"]
  | FGaussian | FLogGaussian => ["lower_limit"; "upper_limit"; "mean"; "sigma"]
  end.
Definition fam_has_ms (f : family) : bool :=
  match f with FUniform | FLogUniform => false | _ => true end.

Definition info_fields (fs : list string) (mo : bool) : info := mkinfo (Some fs) mo [] None.
Definition info_mo : info := mkinfo None true [] None.
Definition info_plain (cargs : list string) (ex : option (list string)) : info := mkinfo None false ("self" :: cargs) ex.

(* the object graph the walk sees for a composition tree (public attributes, ids, labels) *)
Fixpoint reify (n : node) : obj :=
  match n with
  | NPrior pid fam lo hi mean sigma =>
      OInst (fam_name fam) (info_fields (fam_fields fam) true)
        (("id", OInt pid) :: ("lower_limit", OFloat lo) :: ("upper_limit", OFloat hi) ::
         (if fam_has_ms fam then [("mean", OFloat mean); ("sigma", OFloat sigma)] else []))
  | NFloat v => OFloat v
  | NInt z => OInt z
  | NBool b => OBool b
  | NStr s => OStr s
  | NNone => ONone
  | NOther d => OOther d false
  | NTuple mid members =>
      OInst "TuplePrior" info_mo
        (("id", OInt mid) ::
         (fix go (l : list (string * node)) : list (string * obj) :=
            match l with [] => [] | kv :: r => match kv with (k, v) => (k, reify v) :: go r end end) members)
  | NBinop mid cname ln rn l r =>
      match compound_idf with
      | Some fs =>
          (* declared identifier fields: the getattr view through the properties left / right *)
          OInst cname (info_fields fs true) [("id", OInt mid); ("left", reify l); ("right", reify r)]
      | None =>
          (* setattr(self, ln, left); setattr(self, rn, right): one entry when the names coincide *)
          OInst cname info_mo
            (("id", OInt mid) ::
             (if String.eqb ln rn then [(ln, reify r)] else [(ln, reify l); (rn, reify r)]))
      end
  | NUnop mid cname pn a =>
      match modified_idf with
      | Some fs => OInst cname (info_fields fs true) [("id", OInt mid); ("prior", reify a)]
      | None => OInst cname info_mo [("id", OInt mid); (pn, reify a)]
      end
  | NModel mid lbl cls cargs attrs =>
      OInst "Model" info_mo
        (("id", OInt mid) :: ("_label", OStr lbl) :: ("cls", OClass cls) ::
         (fix go (l : list (string * node)) : list (string * obj) :=
            match l with [] => [] | kv :: r => match kv with (k, v) => (k, reify v) :: go r end end) attrs)
  | NColl mid item_number attrs =>
      OInst "Collection" info_mo
        (("id", OInt mid) :: ("item_number", OInt item_number) ::
         (fix go (l : list (string * node)) : list (string * obj) :=
            match l with [] => [] | kv :: r => match kv with (k, v) => (k, reify v) :: go r end end) attrs)
  | NInst cname cargs ex attrs =>
      OInst cname (info_plain cargs ex)
        ((fix go (l : list (string * node)) : list (string * obj) :=
            match l with [] => [] | kv :: r => match kv with (k, v) => (k, reify v) :: go r end end) attrs)
  | NSearch cname fields attrs =>
      OInst cname (info_fields fields false)
        ((fix go (l : list (string * node)) : list (string * obj) :=
            match l with [] => [] | kv :: r => match kv with (k, v) => (k, reify v) :: go r end end) attrs)
  end.

(* Identifier([search, model] + [tag]) ; SearchOutput.id passes the tag even when None *)
Definition fit_obj (search model : node) (tag : option string) : obj :=
  OSeq (reify search :: reify model :: match tag with Some t => [OStr t] | None => [] end).
Definition fit_obj_output (search model : node) (tag : option string) : obj :=
  OSeq [reify search; reify model; match tag with Some t => OStr t | None => ONone end].

(* ------------------------------------------------------------------------------------ *)
(* reload from model.json / search.json (to_dict, json, from_dict); None = an exception  *)
(* ------------------------------------------------------------------------------------ *)
Fixpoint has_prior (n : node) : bool :=
  match n with
  | NPrior _ _ _ _ _ _ => true
  | NTuple _ ms => (fix go (l : list (string * node)) : bool :=
                      match l with [] => false | kv :: r => match kv with (_, v) => has_prior v || go r end end) ms
  | NBinop _ _ _ _ l r => has_prior l || has_prior r
  | NUnop _ _ _ a => has_prior a
  | NModel _ _ _ _ attrs | NColl _ _ attrs | NInst _ _ _ attrs | NSearch _ _ attrs =>
      (fix go (l : list (string * node)) : bool :=
         match l with [] => false | kv :: r => match kv with (_, v) => has_prior v || go r end end) attrs
  | _ => false
  end.

Definition is_log_gaussian (f : family) : bool := match f with FLogGaussian => true | _ => false end.

(* str.isdigit() on ASCII keys; the positional items of a Collection are stored under "0", "1", ... *)
Definition is_digit (c : ascii) : bool := (48 <=? nat_of_ascii c)%nat && (nat_of_ascii c <=? 57)%nat.
Fixpoint all_digits (s : string) : bool :=
  match s with EmptyString => true | String c r => is_digit c && all_digits r end.
Definition isdigit (s : string) : bool := match s with EmptyString => false | _ => all_digits s end.
Definition count_digit_keys {A} (d : list (string * A)) : Z :=
  Z.of_nat (List.length (filter (fun kv => isdigit (fst kv)) d)).

(* _instance_is_exact: can calling the class with the arguments as keywords rebuild a parameter-free Model?  every attribute a constructor
   argument, no tuple prior, every model object it holds a Model that is exact itself (no Collection) *)
Fixpoint inst_exact (n : node) : bool :=
  match n with
  | NModel _ _ _ cargs attrs =>
      (fix go (l : list (string * node)) : bool :=
         match l with
         | [] => true
         | kv :: r =>
             match kv with
             | (k, v) =>
                 mem k cargs &&
                 (match v with
                  | NTuple _ _ | NColl _ _ _ | NPrior _ _ _ _ _ _ | NBinop _ _ _ _ _ _ | NUnop _ _ _ _ => false
                  | NModel _ _ _ _ _ => inst_exact v
                  | _ => true
                  end) && go r
             end
         end) attrs
  | _ => true
  end.

Fixpoint basename_aux (s acc : string) : string :=
  match s with
  | EmptyString => acc
  | String c r => if Ascii.eqb c "."%char then basename_aux r EmptyString else basename_aux r (acc ++ String c EmptyString)
  end.
Definition basename (s : string) : string := basename_aux s EmptyString.

Fixpoint all_some {A} (l : list (string * option A)) : option (list (string * A)) :=
  match l with
  | [] => Some []
  | (k, None) :: _ => None
  | (k, Some v) :: r => match all_some r with Some r' => Some ((k, v) :: r') | None => None end
  end.

(* keyword arguments handed to a constructor that stores each argument under its own name *)
Definition by_ctor {A} (cargs : list string) (d : list (string * A)) : option (list (string * A)) :=
  if forallb (fun kv => mem (fst kv) cargs) d
  then all_some (map (fun a => (a, lookup a d)) cargs)
  else None.

Definition is_prior (n : node) : bool := match n with NPrior _ _ _ _ _ _ => true | _ => false end.
(* both operands are one object (the same prior): every name lookup finds the name bound last *)
Definition same_prior (l r : node) : bool :=
  match l, r with NPrior p _ _ _ _ _, NPrior q _ _ _ _ _ => Z.eqb p q | _, _ => false end.

Fixpoint reload (n : node) : option node :=
  match n with
  | NPrior pid fam lo hi mean sigma =>
      (* without its own dict(), Prior.dict() writes no mean/sigma and the constructor call fails *)
      if is_log_gaussian fam && negb log_gaussian_dict then None else Some n
  | NFloat _ | NInt _ | NBool _ | NStr _ | NNone | NOther _ => Some n
  | NTuple mid ms =>
      match all_some ((fix go (l : list (string * node)) : list (string * option node) :=
                         match l with [] => [] | kv :: r => match kv with (k, v) => (k, reload v) :: go r end end) ms) with
      | Some ms' => Some (NTuple mid ms')
      | None => None
      end
  | NBinop mid cname ln rn l r =>
      (* CompoundPrior.from_dict calls cls(left, right): the names found in its frames are left/right
         (both `right` when the two operands are one object: the left operand is then routed through the
         `right` property and only the attribute right_ remains) *)
      match reload l, reload r with
      | Some l', Some r' => Some (NBinop mid cname (if same_prior l r then "right_" else "left_") "right_" l' r')
      | _, _ => None
      end
  | NUnop mid cname pn a =>
      (* ModifiedPrior.dict() stores its name and its operand; from_dict rebuilds it under the same name.
         (Before 8d274ac a ModifiedPrior never survived: a bare Prior operand was left unserialised, any other
         operand was silently dropped by a swallowed KeyError.) *)
      if modified_prior_storable
      then match reload a with Some a' => Some (NUnop mid cname pn a') | None => None end
      else None
  | NModel mid lbl cls cargs attrs =>
      match all_some ((fix go (l : list (string * node)) : list (string * option node) :=
                         match l with [] => [] | kv :: r => match kv with (k, v) => (k, reload v) :: go r end end) attrs) with
      | Some attrs' =>
          if has_prior n || (instance_only_when_exact && negb (inst_exact n)) then Some (NModel mid lbl cls cargs attrs')
          else (* type "instance": rebuilt by calling the class with the arguments as keywords *)
               match by_ctor cargs attrs' with
               | Some a => Some (NInst (basename cls) cargs None a)
               | None => None
               end
      | None => None
      end
  | NColl mid _ attrs =>
      match all_some ((fix go (l : list (string * node)) : list (string * option node) :=
                         match l with [] => [] | kv :: r => match kv with (k, v) => (k, reload v) :: go r end end) attrs) with
      | Some attrs' =>
          (* item_number is not serialised; from_dict either leaves 0 or recounts the positional keys *)
          Some (NColl mid (if reload_restores_item_number then count_digit_keys attrs' else 0) attrs')
      | None => None
      end
  | NInst cname cargs ex attrs =>
      (* instance_as_dict keeps the constructor arguments and the class is called again with them:
         the constructor is assumed to be a function of its arguments *)
      match all_some ((fix go (l : list (string * node)) : list (string * option node) :=
                         match l with [] => [] | kv :: r => match kv with (k, v) => (k, reload v) :: go r end end) attrs) with
      | Some attrs' => Some (NInst cname cargs ex attrs')
      | None => None
      end
  | NSearch cname fields attrs =>
      (* search.json of Drawer cannot be read back while its constructor passes number_of_cores twice *)
      if String.eqb cname "Drawer" && negb drawer_json_readable then None else Some n
  end.

(* ids and labels removed: what remains of a composition when creation order, internal ids and
   labels are forgotten (sharing is forgotten with them) *)
Fixpoint erase (n : node) : node :=
  match n with
  | NPrior _ fam lo hi mean sigma => NPrior 0 fam lo hi mean sigma
  | NTuple _ ms =>
      NTuple 0 ((fix go (l : list (string * node)) : list (string * node) :=
                   match l with [] => [] | kv :: r => match kv with (k, v) => (k, erase v) :: go r end end) ms)
  | NBinop _ c ln rn l r => NBinop 0 c ln rn (erase l) (erase r)
  | NUnop _ c pn a => NUnop 0 c pn (erase a)
  | NModel _ _ cls cargs attrs =>
      NModel 0 "" cls cargs ((fix go (l : list (string * node)) : list (string * node) :=
                   match l with [] => [] | kv :: r => match kv with (k, v) => (k, erase v) :: go r end end) attrs)
  | NColl _ n attrs =>
      NColl 0 n ((fix go (l : list (string * node)) : list (string * node) :=
                   match l with [] => [] | kv :: r => match kv with (k, v) => (k, erase v) :: go r end end) attrs)
  | NInst c cargs ex attrs =>
      NInst c cargs ex ((fix go (l : list (string * node)) : list (string * node) :=
                   match l with [] => [] | kv :: r => match kv with (k, v) => (k, erase v) :: go r end end) attrs)
  | NSearch c fs attrs =>
      NSearch c fs ((fix go (l : list (string * node)) : list (string * node) :=
                   match l with [] => [] | kv :: r => match kv with (k, v) => (k, erase v) :: go r end end) attrs)
  | _ => n
  end.

(* ------------------------------------------------------------------------------------ *)
(* models DERIVED by the library from a composed model (AbstractPriorModel.mapper_from_prior_arguments =
   gaussian_prior_model_for_arguments(arguments); every grid-search cell, prior passing through a Result, with_limits,
   mapper_from_prior_means / _uniform_floats go through it).  arguments : prior (by identity) -> the prior replacing it. *)
(* ------------------------------------------------------------------------------------ *)
Fixpoint lookupZ (k : Z) (l : list (Z * node)) : option node :=
  match l with [] => None | (k', v) :: r => if Z.eqb k k' then Some v else lookupZ k r end.

(* the same composition program run BY HAND with the new priors *)
Fixpoint subst (a : list (Z * node)) (n : node) : node :=
  match n with
  | NPrior pid _ _ _ _ _ => match lookupZ pid a with Some p => p | None => n end
  | NTuple mid ms =>
      NTuple mid ((fix go (l : list (string * node)) : list (string * node) :=
                     match l with [] => [] | kv :: r => match kv with (k, v) => (k, subst a v) :: go r end end) ms)
  | NModel mid lbl cls cargs attrs =>
      NModel mid lbl cls cargs ((fix go (l : list (string * node)) : list (string * node) :=
                     match l with [] => [] | kv :: r => match kv with (k, v) => (k, subst a v) :: go r end end) attrs)
  | NColl mid k attrs =>
      NColl mid k ((fix go (l : list (string * node)) : list (string * node) :=
                     match l with [] => [] | kv :: r => match kv with (k, v) => (k, subst a v) :: go r end end) attrs)
  | _ => n
  end.

(* what the library builds:
   Model:      a deep copy whose tuple priors, priors, fixed values and sub-models are re-assigned under their own names
               (attribute order, class and label are the copy's);
   TuplePrior: `tuple_prior = TuplePrior()` filled by THREE loops -- the members that are priors, then the fixed members,
               then the computed ones: unless `ord` (the members are set in one pass in their own order) the new tuple
               lists its priors first.  (Fixed members are taken in position order, the order Model.__init__ creates them in.)
   Collection: `collection = Collection()` (a NEW object: item_number 0), every item set under its key, and then --
               when `keep` -- `collection.item_number = self.item_number`.
   `keep` and `ord` are read from the source (Gen.derive_copies_item_number, Gen.tuple_derive_keeps_order).  The ids of
   the new objects are not modelled (the old ones are kept): an id is never described (C07_stable_ids_labels) and the
   correspondence compares shapes with ids erased. *)
Definition priors_first (l : list (string * node)) : list (string * node) :=
  filter (fun kv => is_prior (snd kv)) l ++ filter (fun kv => negb (is_prior (snd kv))) l.

Fixpoint derive_gen (keep ord : bool) (a : list (Z * node)) (n : node) : node :=
  match n with
  | NPrior pid _ _ _ _ _ => match lookupZ pid a with Some p => p | None => n end
  | NTuple mid ms =>
      let ms' := (fix go (l : list (string * node)) : list (string * node) :=
                    match l with [] => [] | kv :: r => match kv with (k, v) => (k, derive_gen keep ord a v) :: go r end end) ms in
      NTuple mid (if ord then ms' else priors_first ms')
  | NModel mid lbl cls cargs attrs =>
      NModel mid lbl cls cargs ((fix go (l : list (string * node)) : list (string * node) :=
                   match l with [] => [] | kv :: r => match kv with (k, v) => (k, derive_gen keep ord a v) :: go r end end) attrs)
  | NColl mid k attrs =>
      NColl mid (if keep then k else 0)
            ((fix go (l : list (string * node)) : list (string * node) :=
                match l with [] => [] | kv :: r => match kv with (k, v) => (k, derive_gen keep ord a v) :: go r end end) attrs)
  | _ => n
  end.
Definition derive := derive_gen derive_copies_item_number tuple_derive_keeps_order.
(* several derivations in a row (a grid-search cell of a model obtained by prior passing, ...) *)
Definition derive_all (steps : list (list (Z * node))) (n : node) : node := fold_left (fun m a => derive a m) steps n.
Definition subst_all (steps : list (list (Z * node))) (n : node) : node := fold_left (fun m a => subst a m) steps n.

(* ------------------------------------------------------------------------------------ *)
(* one search object used for several fits (NonLinearSearch.fit):
     self.paths.model = model ; self.paths.unique_tag = self.unique_tag
   both assignments go through IdentifierField.__set__, which drops the cached identifier.
   The state that survives between fits is the tag held by the paths object. *)
(* ------------------------------------------------------------------------------------ *)
Record paths_state := mkpaths { ptag : option string }.
(* the tag the paths hold after the assignment in fit (rule read from the source: Gen.fit_tag_from_search) *)
Definition fit_step (st : paths_state) (search_tag : option string) : paths_state :=
  if fit_tag_from_search then mkpaths search_tag
  else mkpaths (match ptag st with Some t => Some t | None => search_tag end).
(* what each fit of a history describes: (model, the search's unique_tag at that fit) *)
Fixpoint run_history (s : node) (st : paths_state) (h : list (node * option string)) : list obj :=
  match h with
  | [] => []
  | (m, t) :: r => let st' := fit_step st t in fit_obj s m (ptag st') :: run_history s st' r
  end.

(* ------------------------------------------------------------------------------------ *)
(* correspondence cases                                                                  *)
(* ------------------------------------------------------------------------------------ *)
Fixpoint str_table (t : list (float * string)) (f : float) : string :=
  match t with
  | [] => "<no-oracle-entry>"
  | (x, s) :: t' => if fbits_eqb x f then s else str_table t' f
  end.

Definition ofloat_eqb (a b : option float) : bool :=
  match a, b with Some x, Some y => fbits_eqb x y | None, None => true | _, _ => false end.

Inductive case :=
(* the walk on the abstraction of a live object: Identifier(x).hash_list, or an exception *)
| CWalk (tbl : list (float * string)) (live : obj) (raised : bool) (hash_list : list string)
(* a fit: the live search/model have the shape `reify` predicts (below visible keys) and
   Identifier([search, model, tag]).hash_list = tokens (fit_obj ...) *)
| CFit (tbl : list (float * string)) (search model : node) (tag : option string)
       (live_search live_model : obj) (hash_list : list string)
(* reload through JSON: raised, or the reloaded live object has the predicted shape *)
| CReload (t : node) (raised : bool) (live : obj)
(* the float branch alone: value -> rounded value (None = ValueError) *)
| CRound (v : float) (r : option float)
(* one search object fitted several times: what each fit's paths described, from the tag the paths held before *)
| CHistory (tbl : list (float * string)) (search : node) (initial_tag : option string)
           (steps : list (node * option string)) (hash_lists : list (list string))
(* a fit of a model DERIVED by the library from `base` in `steps` derivations: the live derived model has the shape the
   model of the derivation predicts AND the shape of the model composed by hand; its description is that of both *)
| CDerive (tbl : list (float * string)) (search base hand : node) (steps : list (list (Z * node))) (tag : option string)
          (as_by_hand : bool) (live_model : obj) (hash_list : list string).

Definition check_case (c : case) : bool :=
  match c with
  | CWalk tbl live raised hl =>
      Bool.eqb (raises live) raised && (raised || slist_eqb (tokens (str_table tbl) live) hl)
  | CFit tbl s m tag ls lm hl =>
      obj_eqb (strip_us (reify s)) (strip_us ls) && obj_eqb (strip_us (reify m)) (strip_us lm)
      && negb (raises (fit_obj s m tag))
      && slist_eqb (tokens (str_table tbl) (fit_obj s m tag)) hl
      && slist_eqb (tokens (str_table tbl) (fit_obj_output s m tag)) hl
  | CReload t raised live =>
      match reload t with
      | None => raised
      | Some t' => negb raised && obj_eqb (strip_us (reify (erase t'))) (strip_us live)
      end
  | CRound v r =>
      ofloat_eqb (if float_raises v then None else Some (round8 v)) r
  | CHistory tbl s t0 steps hls =>
      (fix go (l : list obj) (m : list (list string)) : bool :=
         match l, m with
         | [], [] => true
         | o :: l', hl :: m' => slist_eqb (tokens (str_table tbl) o) hl && go l' m'
         | _, _ => false
         end) (run_history s (mkpaths t0) steps) hls
  | CDerive tbl s base hand steps tag as_by_hand lm hl =>
      (* (as_by_hand = false: the case carries the label of the recorded finding on derived tuples) *)
      obj_eqb (strip_us (reify (erase (derive_all steps base)))) (strip_us lm)
      && slist_eqb (tokens (str_table tbl) (fit_obj s (derive_all steps base) tag)) hl
      && obj_eqb (strip_us (reify (erase hand))) (strip_us (reify (erase (subst_all steps base))))
      && (negb as_by_hand
          || (obj_eqb (strip_us (reify (erase hand))) (strip_us lm)
              && slist_eqb (tokens (str_table tbl) (fit_obj s hand tag)) hl))
  end.
