(* C07 lemmas, part 2: reload through JSON; sensitivity of the joined description. *)
From Coq Require Import ZArith List Bool String Ascii Lia.
From Coq Require Import Floats.PrimFloat.
From Coq Require DecimalString DecimalZ DecimalPos.
From PAFCommon Require Import PyFloat.
From PAFC07 Require Import Gen Model Proofs1.
Import ListNotations.
Open Scope string_scope.
Open Scope list_scope.

(* ====================================================================================== *)
(* reload                                                                                  *)
(* ====================================================================================== *)
(* the compositions whose own files the code reads back to the same description: everything except Models
   without a free parameter that the class constructor can rebuild exactly (refuted in Refute.v).
   Arithmetic priors are included whatever the caller-derived attribute names are. *)
Fixpoint reload_ok (n : node) : bool :=
  let all := (fix go (l : list (string * node)) : bool :=
                match l with [] => true | kv :: r => match kv with (_, v) => reload_ok v && go r end end) in
  match n with
  | NPrior _ fam _ _ _ _ => negb (is_log_gaussian fam) || log_gaussian_dict
  | NFloat _ | NInt _ | NBool _ | NStr _ | NNone | NOther _ => true
  | NTuple _ ms => all ms
  | NBinop _ _ _ _ l r => reload_ok l && reload_ok r
  | NUnop _ _ _ a => modified_prior_storable && reload_ok a
  | NModel _ _ _ _ attrs => (has_prior n || (instance_only_when_exact && negb (inst_exact n))) && all attrs
  | NColl _ k attrs => Z.eqb k (if reload_restores_item_number then count_digit_keys attrs else 0) && all attrs
  | NInst _ _ _ attrs => all attrs
  | NSearch c _ _ => negb (String.eqb c "Drawer") || drawer_json_readable
  end.

Definition all_reload_ok (l : list (string * node)) : bool := forallb (fun kv => reload_ok (snd kv)) l.

Lemma reload_ok_go l :
  (fix go (l : list (string * node)) : bool :=
     match l with [] => true | kv :: r => match kv with (_, v) => reload_ok v && go r end end) l = all_reload_ok l.
Proof. unfold all_reload_ok. induction l as [|[k v] r IH]; [reflexivity|]. cbn [forallb snd]. rewrite <- IH. reflexivity. Qed.

Definition reloads_same (n : node) : Prop :=
  reload_ok n = true -> exists n', reload n = Some n' /\ strip (reify n') = strip (reify n).

Lemma count_digit_keys_fst {A B} (l : list (string * A)) (l' : list (string * B)) :
  map fst l' = map fst l -> count_digit_keys l' = count_digit_keys l.
Proof.
  unfold count_digit_keys. intro H. f_equal.
  revert l' H. induction l as [|[k v] r IH]; intros [|[k' v'] r'] H; try discriminate; [reflexivity|].
  cbn [map fst] in H. inversion H; subst. cbn [filter fst].
  destruct (isdigit k); cbn [List.length]; rewrite (IH r') by assumption; reflexivity.
Qed.

Lemma entries_reload (l : list (string * node)) :
  Forall (fun kv => reloads_same (snd kv)) l -> all_reload_ok l = true ->
  exists l', all_some (reload_entries l) = Some l' /\ map fst l' = map fst l /\
             forall s, strip_entries s (reify_entries l') = strip_entries s (reify_entries l).
Proof.
  unfold all_reload_ok, reload_entries. induction l as [|[k v] r IH]; intros HF HA.
  - exists []. repeat split.
  - inversion HF as [|? ? Hv Hr]; subst. cbn [forallb snd] in HA. apply andb_true_iff in HA. destruct HA as [A1 A2].
    cbn [snd] in Hv, A1. destruct (Hv A1) as [v' [Rv Sv]]. destruct (IH Hr A2) as [r' [Rr [Kr Sr]]].
    exists ((k, v') :: r'). cbn [map fst snd all_some]. rewrite Rv, Rr. repeat split.
    + cbn [map fst]. rewrite Kr. reflexivity.
    + intro s. unfold reify_entries. cbn [map fst snd]. fold (reify_entries r'). fold (reify_entries r).
      rewrite !strip_entries_cons, Sv, Sr. reflexivity.
Qed.

Lemma compound_fields_declared : compound_idf = Some ["left"; "right"].
Proof. reflexivity. Qed.

Lemma modified_fields_declared : modified_idf = Some ["prior"].
Proof. reflexivity. Qed.

Lemma reload_same : forall n, reloads_same n.
Proof.
  induction n as [pid fam lo hi m s|v|z|b|s| |dd|mid ms IH|mid c ln rn l r IHl IHr|mid c pn a IHa
                 |mid lbl cls cargs attrs IH|mid k attrs IH|c cargs ex attrs IH|c fs attrs IH] using node_ind';
    intro H; try (eexists; split; reflexivity).
  - (* prior *)
    cbn [reload_ok] in H. cbn [reload].
    destruct (is_log_gaussian fam); [|eexists; split; reflexivity].
    cbn [negb orb] in H. rewrite H. eexists; split; reflexivity.
  - (* tuple *)
    cbn [reload_ok] in H. rewrite reload_ok_go in H.
    destruct (entries_reload ms IH H) as [ms' [R [_ S]]].
    cbn [reload]. rewrite reload_go, R. eexists. split; [reflexivity|].
    cbn [reify]. rewrite !reify_go, !strip_inst. f_equal. rewrite !strip_entries_cons, S. reflexivity.
  - (* arithmetic prior: the operands are read through the declared fields left / right *)
    cbn [reload_ok] in H. apply andb_true_iff in H. destruct H as [H1 H2].
    destruct (IHl H1) as [l' [Rl Sl]]. destruct (IHr H2) as [r' [Rr Sr]].
    cbn [reload]. rewrite Rl, Rr. eexists. split; [reflexivity|].
    cbn [reify]. rewrite compound_fields_declared. rewrite !strip_inst. f_equal.
    rewrite !strip_entries_cons, Sl, Sr. reflexivity.
  - (* negated / absolute-value prior: stored with its name and operand *)
    cbn [reload_ok] in H. apply andb_true_iff in H. destruct H as [H1 H2].
    destruct (IHa H2) as [a' [Ra Sa]].
    cbn [reload]. rewrite H1, Ra. eexists. split; [reflexivity|].
    cbn [reify]. rewrite modified_fields_declared. rewrite !strip_inst. f_equal.
    rewrite !strip_entries_cons, Sa. reflexivity.
  - (* model with a free parameter, or one the constructor cannot rebuild exactly *)
    change (reload_ok (NModel mid lbl cls cargs attrs))
      with ((has_prior (NModel mid lbl cls cargs attrs) ||
             (instance_only_when_exact && negb (inst_exact (NModel mid lbl cls cargs attrs)))) &&
            (fix go (l : list (string * node)) : bool :=
               match l with [] => true | kv :: r => match kv with (_, v) => reload_ok v && go r end end) attrs) in H.
    rewrite reload_ok_go in H. apply andb_true_iff in H. destruct H as [H1 H2].
    destruct (entries_reload attrs IH H2) as [attrs' [R [_ S]]].
    change (reload (NModel mid lbl cls cargs attrs))
      with (match all_some ((fix go (l : list (string * node)) : list (string * option node) :=
                               match l with [] => [] | kv :: r => match kv with (k, v) => (k, reload v) :: go r end end) attrs) with
            | Some attrs' =>
                if has_prior (NModel mid lbl cls cargs attrs) ||
                   (instance_only_when_exact && negb (inst_exact (NModel mid lbl cls cargs attrs)))
                then Some (NModel mid lbl cls cargs attrs')
                else match by_ctor cargs attrs' with
                     | Some a => Some (NInst (basename cls) cargs None a)
                     | None => None
                     end
            | None => None
            end).
    rewrite reload_go, R, H1. eexists. split; [reflexivity|].
    cbn [reify]. rewrite !reify_go, !strip_inst. f_equal. rewrite !strip_entries_cons, S. reflexivity.
  - (* collection: item_number is recounted from the positional keys *)
    cbn [reload_ok] in H. rewrite reload_ok_go in H. apply andb_true_iff in H. destruct H as [H1 H2].
    apply Z.eqb_eq in H1.
    destruct (entries_reload attrs IH H2) as [attrs' [R [K S]]].
    cbn [reload]. rewrite reload_go, R. eexists. split; [reflexivity|].
    cbn [reify]. rewrite !reify_go, !strip_inst. f_equal. rewrite !strip_entries_cons, S.
    rewrite (count_digit_keys_fst attrs attrs' K), <- H1. reflexivity.
  - (* plain instance *)
    cbn [reload_ok] in H. rewrite reload_ok_go in H.
    destruct (entries_reload attrs IH H) as [attrs' [R [_ S]]].
    cbn [reload]. rewrite reload_go, R. eexists. split; [reflexivity|].
    cbn [reify]. rewrite !reify_go, !strip_inst. f_equal. apply S.
  - (* search *)
    cbn [reload_ok] in H. cbn [reload].
    destruct (String.eqb c "Drawer"); [|eexists; split; reflexivity].
    cbn [negb orb] in H. rewrite H. eexists; split; reflexivity.
Qed.

Lemma roundtrip_partial (md5 : string -> string) (ps : float -> string) (s m : node) (tag : option string) :
  reload_ok s = true -> reload_ok m = true ->
  exists s' m', reload s = Some s' /\ reload m = Some m' /\
                ident md5 ps (fit_obj_output s' m' tag) = ident md5 ps (fit_obj s m tag).
Proof.
  intros Hs Hm. destruct (reload_same s Hs) as [s' [Rs Ss]]. destruct (reload_same m Hm) as [m' [Rm Sm]].
  exists s', m'. repeat split; try assumption.
  unfold ident, joined. rewrite fit_output_same. f_equal. f_equal.
  apply stable_obj. unfold fit_obj. rewrite !strip_seq. cbn [map]. rewrite Ss, Sm. reflexivity.
Qed.

(* ====================================================================================== *)
(* strings: the joined description                                                         *)
(* ====================================================================================== *)
Local Open Scope string_scope.
Lemma append_assoc (a b c : string) : (a ++ b) ++ c = a ++ (b ++ c).
Proof. induction a as [|x a IH]; cbn; [reflexivity | rewrite IH; reflexivity]. Qed.

Lemma append_nil_r (a : string) : a ++ "" = a.
Proof. induction a as [|x a IH]; cbn; [reflexivity | rewrite IH; reflexivity]. Qed.

Lemma append_inj_l (a x y : string) : a ++ x = a ++ y -> x = y.
Proof. induction a as [|c a IH]; cbn; intro H; [exact H|]. inversion H. apply IH. assumption. Qed.

Lemma length_append (a b : string) : String.length (a ++ b) = (String.length a + String.length b)%nat.
Proof. induction a as [|c a IH]; cbn; [reflexivity | rewrite IH; reflexivity]. Qed.

Lemma append_inj_r (a x y : string) : x ++ a = y ++ a -> x = y.
Proof.
  revert y. induction x as [|c x IH]; intros y H.
  - destruct y as [|d y]; [reflexivity|].
    apply (f_equal String.length) in H. cbn [append String.length] in H. rewrite length_append in H. lia.
  - destruct y as [|d y].
    + apply (f_equal String.length) in H. cbn [append String.length] in H. rewrite length_append in H. lia.
    + cbn [append] in H. inversion H. f_equal. apply IH. assumption.
Qed.

(* every token followed by the separator *)
Fixpoint cat_t (l : list string) : string :=
  match l with [] => "" | t :: r => t ++ join_sep ++ cat_t r end.

Lemma cat_t_app (a b : list string) : cat_t (a ++ b)%list = cat_t a ++ cat_t b.
Proof. induction a as [|t a IH]; cbn [cat_t app]; [reflexivity|]. rewrite IH, !append_assoc. reflexivity. Qed.

Lemma concat_cat_t (l : list string) : l <> [] -> String.concat join_sep l ++ join_sep = cat_t l.
Proof.
  induction l as [|t r IH]; intro H; [congruence|].
  destruct r as [|u r].
  - cbn [String.concat cat_t]. rewrite append_nil_r. reflexivity.
  - change (String.concat join_sep (t :: u :: r)) with (t ++ join_sep ++ String.concat join_sep (u :: r)).
    rewrite !append_assoc. rewrite IH by discriminate. reflexivity.
Qed.

Lemma concat_inj_cat_t (l l' : list string) :
  l <> [] -> l' <> [] -> String.concat join_sep l = String.concat join_sep l' -> cat_t l = cat_t l'.
Proof. intros H H' E. rewrite <- (concat_cat_t l H), <- (concat_cat_t l' H'), E. reflexivity. Qed.

(* a change of one token in place is visible in the joined description *)
Lemma cat_t_mid (pre post : list string) (a b : string) :
  cat_t (pre ++ a :: post)%list = cat_t (pre ++ b :: post)%list -> a = b.
Proof.
  rewrite !cat_t_app. cbn [cat_t]. intro H. apply append_inj_l in H.
  rewrite <- !append_assoc in H. apply append_inj_r in H. apply append_inj_r in H. exact H.
Qed.

Lemma cat_t_ctx (pre post x y : list string) :
  cat_t (pre ++ x ++ post)%list = cat_t (pre ++ y ++ post)%list -> cat_t x = cat_t y.
Proof.
  rewrite !cat_t_app. intro H. apply append_inj_l in H. apply append_inj_r in H. exact H.
Qed.

(* tokens without the separator character: a change of the first token is visible whatever follows *)
Fixpoint nodot (s : string) : bool :=
  match s with EmptyString => true | String c r => negb (Ascii.eqb c "."%char) && nodot r end.

Lemma sep_is_dot : join_sep = ".".
Proof. reflexivity. Qed.

Lemma prefix_dot_inj (a b x y : string) :
  nodot a = true -> nodot b = true -> a ++ String "."%char x = b ++ String "."%char y -> a = b.
Proof.
  revert b. induction a as [|c a IH]; intros b Ha Hb H.
  - destruct b as [|d b]; [reflexivity|]. cbn [append] in H. inversion H. subst d.
    cbn [nodot] in Hb. rewrite Ascii.eqb_refl in Hb. discriminate.
  - destruct b as [|d b].
    + cbn [append] in H. inversion H. subst c. cbn [nodot] in Ha. rewrite Ascii.eqb_refl in Ha. discriminate.
    + cbn [append] in H. inversion H. subst d. f_equal.
      cbn [nodot] in Ha, Hb. apply andb_true_iff in Ha. apply andb_true_iff in Hb.
      apply (IH b); tauto.
Qed.

Lemma cat_t_head (a b : string) (r r' : list string) :
  nodot a = true -> nodot b = true -> cat_t (a :: r) = cat_t (b :: r') -> a = b.
Proof.
  intros Ha Hb H. cbn [cat_t] in H. rewrite sep_is_dot in H.
  change ("." ++ cat_t r) with (String "."%char (cat_t r)) in H.
  change ("." ++ cat_t r') with (String "."%char (cat_t r')) in H.
  exact (prefix_dot_inj a b _ _ Ha Hb H).
Qed.

Lemma cat_t_nil_cons (b : string) (r : list string) : cat_t [] <> cat_t (b :: r).
Proof.
  cbn [cat_t]. rewrite sep_is_dot. intro H. apply (f_equal String.length) in H.
  rewrite length_append in H. cbn in H. lia.
Qed.

(* ====================================================================================== *)
(* contexts: where in a walked object a change happens                                     *)
(* ====================================================================================== *)
Local Open Scope list_scope.
Inductive frame : (obj -> obj) -> Prop :=
| FHole : frame (fun x => x)
| FInst c i d1 k d2 C :
    visible k = true -> selected (sel_of i) k = true ->
    (is_fields (sel_of i) = false \/ ~ In k (map fst d1)) ->
    frame C -> frame (fun x => OInst c i (d1 ++ (k, C x) :: d2))
| FDict d1 k d2 C : visible k = true -> frame C -> frame (fun x => ODict (d1 ++ (k, C x) :: d2))
| FSeq l1 l2 C : frame C -> frame (fun x => OSeq (l1 ++ C x :: l2)).

Lemma tok_entries_app ps a b : tok_entries ps (a ++ b) = tok_entries ps a ++ tok_entries ps b.
Proof. unfold tok_entries. apply map_app. Qed.

Lemma dedupe_in seen fs x : In x (dedupe seen fs) <-> In x fs /\ ~ In x seen.
Proof.
  revert seen. induction fs as [|f r IH]; intro seen; cbn [dedupe].
  - cbn. tauto.
  - destruct (mem f seen) eqn:E.
    + apply mem_true_iff in E. rewrite IH. cbn [In]. split.
      * intros [H1 H2]. tauto.
      * intros [[H1|H1] H2]; [subst; contradiction | tauto].
    + assert (N : ~ In f seen) by (intro Hc; apply mem_true_iff in Hc; congruence).
      cbn [In]. rewrite IH. cbn [In]. split.
      * intros [H|[H1 H2]]; [subst; tauto | tauto].
      * intros [[H|H] H2]; [left; exact H|].
        destruct (string_dec f x) as [e|ne]; [left; exact e | right; split; [exact H | intros [Hc|Hc]; [exact (ne Hc) | exact (H2 Hc)]]].
Qed.

Lemma dedupe_nodup seen fs : NoDup (dedupe seen fs).
Proof.
  revert seen. induction fs as [|f r IH]; intro seen; cbn [dedupe]; [constructor|].
  destruct (mem f seen); [apply IH|]. constructor; [|apply IH].
  rewrite dedupe_in. cbn [In]. tauto.
Qed.

Lemma lookup_app_other {A} (f k : string) (a b : list (string * A)) (t t' : A) :
  f <> k -> lookup f (a ++ (k, t) :: b) = lookup f (a ++ (k, t') :: b).
Proof.
  intro N. induction a as [|[k' v] r IH]; cbn [app lookup].
  - destruct (String.eqb f k) eqn:E; [apply String.eqb_eq in E; contradiction | reflexivity].
  - destruct (String.eqb f k'); [reflexivity | exact IH].
Qed.

Lemma lookup_app_here {A} (k : string) (a b : list (string * A)) (t : A) :
  ~ In k (map fst a) -> lookup k (a ++ (k, t) :: b) = Some t.
Proof.
  intro N. induction a as [|[k' v] r IH]; cbn [app lookup].
  - rewrite String.eqb_refl. reflexivity.
  - cbn [map fst In] in N. destruct (String.eqb k k') eqn:E.
    + apply String.eqb_eq in E. subst. tauto.
    + apply IH. tauto.
Qed.

Ltac assoc_solve := cbn [app]; rewrite <- ?app_assoc; cbn [app]; rewrite <- ?app_assoc; cbn [app]; reflexivity.

Section Frames.
  Variable ps : float -> string.

  Lemma frame_tokens : forall C, frame C ->
    exists pre post, forall x, tokens ps (C x) = pre ++ tokens ps x ++ post.
  Proof.
    intros C HC. induction HC as [|c i d1 k d2 C Hv Hs Hu HC IH|d1 k d2 C Hv HC IH|l1 l2 C HC IH].
    - exists [], []. intro x. rewrite app_nil_r. reflexivity.
    - destruct IH as [pre [post IH]].
      destruct (sel_of i) as [fs| |args ex] eqn:Es.
      + (* declared fields *)
        destruct Hu as [Hu|Hu]; [discriminate Hu|].
        cbn [selected] in Hs. apply mem_true_iff in Hs.
        assert (Hk : In k (dedupe [] fs)) by (apply dedupe_in; split; [exact Hs | intros []]).
        destruct (in_split _ _ Hk) as [f1 [f2 Ef]].
        pose proof (dedupe_nodup [] fs) as ND. rewrite Ef in ND.
        apply NoDup_remove_2 in ND.
        set (g := fun (x : obj) (f : string) =>
                    (f, match lookup f (tok_entries ps (d1 ++ (k, C x) :: d2)) with Some v => v | None => [] end)).
        exists (c :: emit_dict (map (g ONone) f1) ++ k :: pre), (post ++ emit_dict (map (g ONone) f2)).
        intro x. rewrite tokens_inst, Es. cbn [select]. fold (g x). rewrite Ef, map_app. cbn [map].
        assert (Gk : g x k = (k, tokens ps (C x))).
        { unfold g. f_equal. rewrite tok_entries_app. cbn [tok_entries map fst snd].
          rewrite lookup_app_here; [reflexivity|].
          unfold tok_entries. rewrite map_map. cbn [fst]. exact Hu. }
        rewrite Gk, emit_dict_app, emit_dict_cons, Hv, IH.
        assert (G : forall l, ~ In k l -> map (g x) l = map (g ONone) l).
        { intros l Hl. apply map_ext_in. intros f Hf. unfold g. f_equal.
          rewrite !tok_entries_app. cbn [tok_entries map fst snd].
          rewrite (lookup_app_other f k _ _ (tokens ps (C x)) (tokens ps (C ONone))); [reflexivity|].
          intro e. subst f. exact (Hl Hf). }
        rewrite (G f1), (G f2) by (intro Hc; apply ND; apply in_or_app; tauto).
        assoc_solve.
      + (* whole __dict__ *)
        exists (c :: emit_dict (tok_entries ps d1) ++ k :: pre), (post ++ emit_dict (tok_entries ps d2)).
        intro x. rewrite tokens_inst, Es. cbn [select]. rewrite tok_entries_app. cbn [tok_entries map fst snd].
        rewrite emit_dict_app, emit_dict_cons, Hv, IH.
        assoc_solve.
      + (* constructor arguments *)
        cbn [selected] in Hs.
        set (fl := fun kv : string * list string => mem (fst kv) args && negb (mem (fst kv) ex)).
        exists (c :: emit_dict (filter fl (tok_entries ps d1)) ++ k :: pre), (post ++ emit_dict (filter fl (tok_entries ps d2))).
        intro x. rewrite tokens_inst, Es. cbn [select]. fold fl. rewrite tok_entries_app. cbn [tok_entries map fst snd].
        rewrite filter_app. cbn [filter]. unfold fl at 2. cbn [fst]. rewrite Hs.
        rewrite emit_dict_app, emit_dict_cons, Hv, IH.
        assoc_solve.
    - destruct IH as [pre [post IH]].
      exists (emit_dict (tok_entries ps d1) ++ k :: pre), (post ++ emit_dict (tok_entries ps d2)).
      intro x. rewrite tokens_dict, tok_entries_app. cbn [tok_entries map fst snd].
      rewrite emit_dict_app, emit_dict_cons, Hv, IH.
      assoc_solve.
    - destruct IH as [pre [post IH]].
      exists (flat_map (tokens ps) l1 ++ pre), (post ++ flat_map (tokens ps) l2).
      intro x. rewrite tokens_seq, flat_map_app. cbn [flat_map]. rewrite IH.
      assoc_solve.
  Qed.

  (* the general sensitivity statement: in any context, a change whose own description changes
     is a change of the joined description of the whole *)
  Lemma frame_sensitive (C : obj -> obj) (x y : obj) :
    frame C -> tokens ps (C x) <> [] -> tokens ps (C y) <> [] ->
    cat_t (tokens ps x) <> cat_t (tokens ps y) -> joined ps (C x) <> joined ps (C y).
  Proof.
    intros HC Nx Ny D E. apply D. unfold joined in E.
    apply (concat_inj_cat_t _ _ Nx Ny) in E.
    destruct (frame_tokens C HC) as [pre [post T]]. rewrite !T in E.
    exact (cat_t_ctx pre post _ _ E).
  Qed.

  Lemma frame_nonempty (C : obj -> obj) (x : obj) : frame C -> tokens ps x <> [] -> tokens ps (C x) <> [].
  Proof.
    intros HC N. destruct (frame_tokens C HC) as [pre [post T]]. rewrite T.
    intro E. apply app_eq_nil in E. destruct E as [_ E]. apply app_eq_nil in E. tauto.
  Qed.

  (* three shapes of a local change *)
  Lemma sensitive_token (C : obj -> obj) (x y : obj) (pre post : list string) (a b : string) :
    frame C -> tokens ps x = pre ++ a :: post -> tokens ps y = pre ++ b :: post -> a <> b ->
    joined ps (C x) <> joined ps (C y).
  Proof.
    intros HC Tx Ty N. apply frame_sensitive; try assumption.
    - apply frame_nonempty; [assumption|]. rewrite Tx. intro E. apply app_eq_nil in E. destruct E; discriminate.
    - apply frame_nonempty; [assumption|]. rewrite Ty. intro E. apply app_eq_nil in E. destruct E; discriminate.
    - rewrite Tx, Ty. intro E. apply N. exact (cat_t_mid pre post a b E).
  Qed.

  Lemma sensitive_head (C : obj -> obj) (x y : obj) (a b : string) (r r' : list string) :
    frame C -> tokens ps x = a :: r -> tokens ps y = b :: r' -> nodot a = true -> nodot b = true -> a <> b ->
    joined ps (C x) <> joined ps (C y).
  Proof.
    intros HC Tx Ty Ha Hb N. apply frame_sensitive; try assumption.
    - apply frame_nonempty; [assumption|]. rewrite Tx. discriminate.
    - apply frame_nonempty; [assumption|]. rewrite Ty. discriminate.
    - rewrite Tx, Ty. intro E. apply N. exact (cat_t_head a b r r' Ha Hb E).
  Qed.

  Lemma sensitive_appears (C : obj -> obj) (x y : obj) (b : string) (r : list string) :
    frame C -> tokens ps x = [] -> tokens ps y = b :: r -> tokens ps (C x) <> [] ->
    joined ps (C x) <> joined ps (C y).
  Proof.
    intros HC Tx Ty Nx. apply frame_sensitive; try assumption.
    - apply frame_nonempty; [assumption|]. rewrite Ty. discriminate.
    - rewrite Tx, Ty. apply cat_t_nil_cons.
  Qed.
End Frames.

(* ====================================================================================== *)
(* leaves                                                                                  *)
(* ====================================================================================== *)
Lemma str_of_Z_inj (a b : Z) : str_of_Z a = str_of_Z b -> a = b.
Proof.
  unfold str_of_Z. intro H.
  assert (N : forall z, Z.to_int z <> Decimal.Pos Decimal.Nil /\ Z.to_int z <> Decimal.Neg Decimal.Nil).
  { intro z. destruct z as [|p|p]; cbn [Z.to_int]; split; try discriminate.
    - intro E. inversion E as [E']. exact (DecimalPos.Unsigned.to_uint_nonnil p E').
    - intro E. inversion E as [E']. exact (DecimalPos.Unsigned.to_uint_nonnil p E'). }
  pose proof (DecimalString.NilZero.isi (Z.to_int a) (proj1 (N a)) (proj2 (N a))) as Ia.
  pose proof (DecimalString.NilZero.isi (Z.to_int b) (proj1 (N b)) (proj2 (N b))) as Ib.
  rewrite H in Ia. rewrite Ia in Ib. inversion Ib as [E].
  apply (f_equal Z.of_int) in E. rewrite !DecimalZ.of_to in E. exact E.
Qed.

Lemma str_of_bool_inj (a b : bool) : str_of_bool a = str_of_bool b -> a = b.
Proof. destruct a, b; cbn; intro H; try reflexivity; discriminate H. Qed.

Lemma fam_name_inj (f g : family) : fam_name f = fam_name g -> f = g.
Proof. destruct f, g; cbn; intro H; try reflexivity; discriminate H. Qed.

Lemma fam_name_nodot (f : family) : nodot (fam_name f) = true.
Proof. destruct f; reflexivity. Qed.

(* description of a prior *)
Lemma tokens_prior ps pid fam lo hi m s :
  tokens ps (reify (NPrior pid fam lo hi m s)) =
  fam_name fam :: "lower_limit" :: float_token ps lo :: "upper_limit" :: float_token ps hi ::
  (if fam_has_ms fam then ["mean"; float_token ps m; "sigma"; float_token ps s] else []).
Proof. destruct fam; reflexivity. Qed.
