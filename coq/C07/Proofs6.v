(* C07 lemmas, part 6: the binary64 rounding itself, on bounded ranges stated in the theorems
   (kernel-checked sweeps over the generated formula through Model.round8). *)
From Coq Require Import ZArith List Bool Lia.
From Coq Require Import Floats.PrimFloat.
From PAFCommon Require Import PyFloat Lists.
From PAFC07 Require Import Gen Model.

(* the n-th point of the 1e-8 grid, and values a quarter / three quarters of a step above it *)
Definition grid (n : Z) : float := (resolution_F * Z2F n)%float.
Definition above (n : Z) (frac : float) : float := (resolution_F * (Z2F n + frac))%float.

Definition grid_ok (n : Z) : bool :=
  fbits_eqb (round8 (grid n)) (grid n)                               (* grid points are fixed points *)
  && negb (fbits_eqb (grid n) (grid (n + 1)))                        (* neighbouring grid points differ *)
  && fbits_eqb (round8 (above n 0x1p-2)) (grid n)                    (* +0.25 step: identified with n *)
  && fbits_eqb (round8 (above n 0x1.8p-1)) (grid (n + 1))            (* +0.75 step: identified with n+1 *)
  && negb (fbits_eqb (round8 (above n 0x1p-2)) (round8 (above (n + 1) 0x1.8p-1))). (* 1.5 steps apart: separated *)

Lemma sweep_small : pow2_forall grid_ok 12 0 = true.
Proof. vm_compute. reflexivity. Qed.
Lemma sweep_unit : pow2_forall grid_ok 12 100000000 = true.
Proof. vm_compute. reflexivity. Qed.
Lemma sweep_thousand : pow2_forall grid_ok 12 100000000000 = true.
Proof. vm_compute. reflexivity. Qed.

Definition in_swept_range (n : Z) : Prop :=
  (0 <= n < 4096 \/ 100000000 <= n < 100004096 \/ 100000000000 <= n < 100000004096)%Z.

Lemma grid_rounding_F (n : Z) : in_swept_range n -> grid_ok n = true.
Proof.
  intros [H|[H|H]].
  - apply (pow2_forall_spec grid_ok 12 0 sweep_small). change (2 ^ Z.of_nat 12)%Z with 4096%Z. lia.
  - apply (pow2_forall_spec grid_ok 12 100000000 sweep_unit). change (2 ^ Z.of_nat 12)%Z with 4096%Z. lia.
  - apply (pow2_forall_spec grid_ok 12 100000000000 sweep_thousand). change (2 ^ Z.of_nat 12)%Z with 4096%Z. lia.
Qed.
