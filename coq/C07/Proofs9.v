(* C07 lemmas, part 9: models derived by the library (gaussian_prior_model_for_arguments: grid-search cells, prior
   passing, with_limits, ...) are described exactly like the same composition written by hand with the new priors. *)
From Coq Require Import ZArith List Bool String.
From Coq Require Import Floats.PrimFloat.
From PAFC07 Require Import Gen Model Proofs1 Proofs2.
Import ListNotations.

Definition subst_entries (a : list (Z * node)) (l : list (string * node)) : list (string * node) :=
  map (fun kv => (fst kv, subst a (snd kv))) l.
Definition derive_entries (keep : bool) (a : list (Z * node)) (l : list (string * node)) : list (string * node) :=
  map (fun kv => (fst kv, derive_gen keep a (snd kv))) l.

Lemma subst_go a l :
  (fix go (l : list (string * node)) : list (string * node) :=
     match l with [] => [] | kv :: r => match kv with (k, v) => (k, subst a v) :: go r end end) l = subst_entries a l.
Proof. unfold subst_entries. induction l as [|[k v] r IH]; [reflexivity|]. cbn [map fst snd]. rewrite <- IH. reflexivity. Qed.

Lemma derive_go keep a l :
  (fix go (l : list (string * node)) : list (string * node) :=
     match l with [] => [] | kv :: r => match kv with (k, v) => (k, derive_gen keep a v) :: go r end end) l = derive_entries keep a l.
Proof. unfold derive_entries. induction l as [|[k v] r IH]; [reflexivity|]. cbn [map fst snd]. rewrite <- IH. reflexivity. Qed.

Lemma entries_derive a l :
  Forall (fun kv => derive_gen true a (snd kv) = subst a (snd kv)) l -> derive_entries true a l = subst_entries a l.
Proof.
  unfold derive_entries, subst_entries. induction 1 as [|[k v] r Hv Hr IH]; [reflexivity|].
  cbn [map fst snd] in *. rewrite Hv, IH. reflexivity.
Qed.

(* when item_number is taken over, the derived model IS the model composed by hand with the new priors *)
Lemma derive_is_subst (a : list (Z * node)) : forall n, derive_gen true a n = subst a n.
Proof.
  induction n as [pid fam lo hi m s|v|z|b|s| |d|mid ms IH|mid c ln rn l IHl r IHr|mid c pn x IHx
                 |mid lbl cls cargs attrs IH|mid k attrs IH|c cargs ex attrs IH|c fs attrs IH] using node_ind';
    try reflexivity.
  - cbn [derive_gen subst]. rewrite derive_go, subst_go. f_equal. apply entries_derive. exact IH.
  - cbn [derive_gen subst]. rewrite derive_go, subst_go. f_equal. apply entries_derive. exact IH.
  - cbn [derive_gen subst]. rewrite derive_go, subst_go. f_equal. apply entries_derive. exact IH.
Qed.

(* the fact read from the source, as it is now *)
Lemma derive_fact : derive_copies_item_number = true.
Proof. reflexivity. Qed.

Lemma derive_all_is_subst (steps : list (list (Z * node))) : forall n, derive_all steps n = subst_all steps n.
Proof.
  unfold derive_all, subst_all. induction steps as [|a r IH]; intro n; [reflexivity|].
  cbn [fold_left]. unfold derive at 2. rewrite derive_fact, derive_is_subst. apply IH.
Qed.

Lemma derived_same_identifier (md5 : string -> string) (ps : float -> string) (s : node) (steps : list (list (Z * node)))
      (n : node) (tag : option string) :
  ident md5 ps (fit_obj s (derive_all steps n) tag) = ident md5 ps (fit_obj s (subst_all steps n) tag).
Proof. rewrite derive_all_is_subst. reflexivity. Qed.

(* no prior replaced (every prior mapped to itself): the original model *)
Lemma subst_entries_nil l :
  Forall (fun kv => subst [] (snd kv) = snd kv) l -> subst_entries [] l = l.
Proof.
  unfold subst_entries. induction 1 as [|[k v] r Hv Hr IH]; [reflexivity|]. cbn [map fst snd] in *. rewrite Hv, IH. reflexivity.
Qed.

Lemma subst_nil : forall n, subst [] n = n.
Proof.
  induction n as [pid fam lo hi m s|v|z|b|s| |d|mid ms IH|mid c ln rn l IHl r IHr|mid c pn x IHx
                 |mid lbl cls cargs attrs IH|mid k attrs IH|c cargs ex attrs IH|c fs attrs IH] using node_ind';
    try reflexivity.
  - cbn [subst]. rewrite subst_go, subst_entries_nil by exact IH. reflexivity.
  - cbn [subst]. rewrite subst_go, subst_entries_nil by exact IH. reflexivity.
  - cbn [subst]. rewrite subst_go, subst_entries_nil by exact IH. reflexivity.
Qed.

Lemma derived_copy_same_identifier (md5 : string -> string) (ps : float -> string) (s n : node) (tag : option string) :
  ident md5 ps (fit_obj s (derive [] n) tag) = ident md5 ps (fit_obj s n tag).
Proof. unfold derive. rewrite derive_fact, derive_is_subst, subst_nil. reflexivity. Qed.

(* a fit of the derived model: the identifier recomputed from the model.json / search.json it wrote (SearchOutput.id) is
   the identifier of the model composed by hand -- the folder it wrote to *)
Lemma derived_roundtrip (md5 : string -> string) (ps : float -> string) (s : node) (steps : list (list (Z * node)))
      (n : node) (tag : option string) :
  reload_ok s = true -> reload_ok (subst_all steps n) = true ->
  exists s' m', reload s = Some s' /\ reload (derive_all steps n) = Some m' /\
                ident md5 ps (fit_obj_output s' m' tag) = ident md5 ps (fit_obj s (subst_all steps n) tag) /\
                ident md5 ps (fit_obj_output s' m' tag) = ident md5 ps (fit_obj s (derive_all steps n) tag).
Proof.
  intros Hs Hm. rewrite derive_all_is_subst.
  destruct (roundtrip_partial md5 ps s (subst_all steps n) tag Hs Hm) as [s' [m' [R1 [R2 E]]]].
  exists s', m'. repeat split; assumption.
Qed.
