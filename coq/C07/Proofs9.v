(* C07 lemmas, part 9: models derived by the library (gaussian_prior_model_for_arguments: grid-search cells, prior
   passing, with_limits, ...) are described exactly like the same composition written by hand with the new priors --
   for the code with both code facts true; for the code as it is inside the guard `tuples_ok`. *)
From Coq Require Import ZArith List Bool String.
From Coq Require Import Floats.PrimFloat.
From PAFC07 Require Import Gen Model Proofs1 Proofs2 Refute.
Import ListNotations.

Definition subst_entries (a : list (Z * node)) (l : list (string * node)) : list (string * node) :=
  map (fun kv => (fst kv, subst a (snd kv))) l.
Definition derive_entries (keep ord : bool) (a : list (Z * node)) (l : list (string * node)) : list (string * node) :=
  map (fun kv => (fst kv, derive_gen keep ord a (snd kv))) l.

Lemma subst_go a l :
  (fix go (l : list (string * node)) : list (string * node) :=
     match l with [] => [] | kv :: r => match kv with (k, v) => (k, subst a v) :: go r end end) l = subst_entries a l.
Proof. unfold subst_entries. induction l as [|[k v] r IH]; [reflexivity|]. cbn [map fst snd]. rewrite <- IH. reflexivity. Qed.

Lemma derive_go keep ord a l :
  (fix go (l : list (string * node)) : list (string * node) :=
     match l with [] => [] | kv :: r => match kv with (k, v) => (k, derive_gen keep ord a v) :: go r end end) l
  = derive_entries keep ord a l.
Proof. unfold derive_entries. induction l as [|[k v] r IH]; [reflexivity|]. cbn [map fst snd]. rewrite <- IH. reflexivity. Qed.

(* ---------- the guard: every tuple lists its priors before its fixed members; arguments map priors to priors ---------- *)
Definition isp (kv : string * node) : bool := is_prior (snd kv).
Fixpoint prior_first (l : list (string * node)) : bool :=
  match l with
  | [] => true
  | kv :: r => if isp kv then prior_first r else forallb (fun x => negb (isp x)) r
  end.
Fixpoint tuples_ok (n : node) : bool :=
  let all := (fix go (l : list (string * node)) : bool :=
                match l with [] => true | kv :: r => match kv with (_, v) => tuples_ok v && go r end end) in
  match n with
  | NTuple _ ms => prior_first ms && all ms
  | NModel _ _ _ _ attrs | NColl _ _ attrs => all attrs
  | _ => true
  end.
Definition all_tuples_ok (l : list (string * node)) : bool := forallb (fun kv => tuples_ok (snd kv)) l.
Lemma tuples_ok_go l :
  (fix go (l : list (string * node)) : bool :=
     match l with [] => true | kv :: r => match kv with (_, v) => tuples_ok v && go r end end) l = all_tuples_ok l.
Proof. unfold all_tuples_ok. induction l as [|[k v] r IH]; [reflexivity|]. cbn [forallb snd]. rewrite <- IH. reflexivity. Qed.

Definition priors_only (a : list (Z * node)) : bool := forallb (fun kv => is_prior (snd kv)) a.

Lemma lookupZ_prior a : priors_only a = true -> forall k p, lookupZ k a = Some p -> is_prior p = true.
Proof.
  unfold priors_only. induction a as [|[k' v] r IH]; intros H k p L; [discriminate L|].
  cbn [forallb snd] in H. apply andb_true_iff in H. destruct H as [H1 H2]. cbn [lookupZ] in L.
  destruct (Z.eqb k k'); [inversion L; subst; exact H1 | exact (IH H2 k p L)].
Qed.

Lemma subst_is_prior a : priors_only a = true -> forall v, is_prior (subst a v) = is_prior v.
Proof.
  intros H v. destruct v; try reflexivity. cbn [subst].
  destruct (lookupZ pid a) as [p|] eqn:L; [|reflexivity]. rewrite (lookupZ_prior a H _ _ L). reflexivity.
Qed.

Lemma filter_none (l : list (string * node)) :
  forallb (fun x => negb (isp x)) l = true -> filter isp l = [] /\ filter (fun x => negb (isp x)) l = l.
Proof.
  induction l as [|kv r IH]; intro H; [split; reflexivity|]. cbn [forallb] in H. apply andb_true_iff in H. destruct H as [H1 H2].
  destruct (IH H2) as [E1 E2]. cbn [filter]. rewrite H1. apply negb_true_iff in H1. rewrite H1, E1, E2. split; reflexivity.
Qed.

Lemma priors_first_fix (l : list (string * node)) : prior_first l = true -> priors_first l = l.
Proof.
  unfold priors_first. fold isp. change (fun kv : string * node => negb (is_prior (snd kv))) with (fun x => negb (isp x)).
  induction l as [|kv r IH]; intro H; [reflexivity|]. cbn [prior_first] in H. cbn [filter].
  destruct (isp kv) eqn:P; cbn [negb].
  - cbn [app]. rewrite (IH H). reflexivity.
  - destruct (filter_none r H) as [E1 E2]. rewrite E1, E2. reflexivity.
Qed.

Lemma no_prior_subst a l : priors_only a = true ->
  forallb (fun x => negb (isp x)) (map (fun kv : string * node => (fst kv, subst a (snd kv))) l) = forallb (fun x => negb (isp x)) l.
Proof.
  intro H. induction l as [|[k v] r IH]; [reflexivity|]. cbn [map forallb fst snd]. unfold isp at 1 3. cbn [snd].
  rewrite (subst_is_prior a H v), IH. reflexivity.
Qed.

Lemma prior_first_subst a l : priors_only a = true -> prior_first (subst_entries a l) = prior_first l.
Proof.
  intro H. unfold subst_entries. induction l as [|[k v] r IH]; [reflexivity|]. cbn [map fst snd prior_first].
  unfold isp at 1 3. cbn [snd]. rewrite (subst_is_prior a H v). rewrite IH.
  destruct (is_prior v); [reflexivity|]. apply (no_prior_subst a r H).
Qed.

Lemma entries_derive keep ord a l :
  Forall (fun kv => tuples_ok (snd kv) = true -> derive_gen keep ord a (snd kv) = subst a (snd kv)) l ->
  all_tuples_ok l = true -> derive_entries keep ord a l = subst_entries a l.
Proof.
  unfold derive_entries, subst_entries, all_tuples_ok. induction 1 as [|[k v] r Hv Hr IH]; intro HA; [reflexivity|].
  cbn [forallb snd] in HA. apply andb_true_iff in HA. destruct HA as [A1 A2].
  cbn [map fst snd] in *. rewrite (Hv A1), (IH A2). reflexivity.
Qed.

(* when item_number is taken over, inside the guard (or when tuples keep their order: any model) the derived model IS
   the model composed by hand with the new priors *)
Lemma derive_is_subst (ord : bool) (a : list (Z * node)) : priors_only a = true ->
  forall n, (ord = true \/ tuples_ok n = true) -> derive_gen true ord a n = subst a n.
Proof.
  intros Ha n [Ho | Hn].
  - subst ord. clear Ha.
    induction n as [pid fam lo hi m s|v|z|b|s| |d|mid ms IH|mid c ln rn l IHl r IHr|mid c pn x IHx
                   |mid lbl cls cargs attrs IH|mid k attrs IH|c cargs ex attrs IH|c fs attrs IH] using node_ind';
      try reflexivity.
    + cbn [derive_gen subst]. rewrite derive_go, subst_go. f_equal. unfold derive_entries, subst_entries.
      induction IH as [|[k v] r Hv Hr IHr]; [reflexivity|]. cbn [map fst snd] in *. rewrite Hv, IHr. reflexivity.
    + cbn [derive_gen subst]. rewrite derive_go, subst_go. f_equal. unfold derive_entries, subst_entries.
      induction IH as [|[k v] r Hv Hr IHr]; [reflexivity|]. cbn [map fst snd] in *. rewrite Hv, IHr. reflexivity.
    + cbn [derive_gen subst]. rewrite derive_go, subst_go. f_equal. unfold derive_entries, subst_entries.
      induction IH as [|[k' v] r Hv Hr IHr]; [reflexivity|]. cbn [map fst snd] in *. rewrite Hv, IHr. reflexivity.
  - revert Hn.
    induction n as [pid fam lo hi m s|v|z|b|s| |d|mid ms IH|mid c ln rn l IHl r IHr|mid c pn x IHx
                   |mid lbl cls cargs attrs IH|mid k attrs IH|c cargs ex attrs IH|c fs attrs IH] using node_ind';
      intro Hn; try reflexivity.
    + cbn [tuples_ok] in Hn. rewrite tuples_ok_go in Hn. apply andb_true_iff in Hn. destruct Hn as [H1 H2].
      cbn [derive_gen subst]. rewrite derive_go, subst_go. rewrite (entries_derive true ord a ms IH H2).
      f_equal. destruct ord; [reflexivity|]. apply priors_first_fix. rewrite (prior_first_subst a ms Ha). exact H1.
    + cbn [tuples_ok] in Hn. rewrite tuples_ok_go in Hn.
      cbn [derive_gen subst]. rewrite derive_go, subst_go. rewrite (entries_derive true ord a attrs IH Hn). reflexivity.
    + cbn [tuples_ok] in Hn. rewrite tuples_ok_go in Hn.
      cbn [derive_gen subst]. rewrite derive_go, subst_go. rewrite (entries_derive true ord a attrs IH Hn). reflexivity.
Qed.

(* ---------- the code with both facts true: every model, any number of derivations ---------- *)
Definition derive_all_gen (keep ord : bool) (steps : list (list (Z * node))) (n : node) : node :=
  fold_left (fun m a => derive_gen keep ord a m) steps n.

Lemma derive_all_is_subst (steps : list (list (Z * node))) :
  forallb priors_only steps = true -> forall n, derive_all_gen true true steps n = subst_all steps n.
Proof.
  unfold derive_all_gen, subst_all. induction steps as [|a r IH]; intros H n; [reflexivity|].
  cbn [forallb] in H. apply andb_true_iff in H. destruct H as [H1 H2].
  cbn [fold_left]. rewrite (derive_is_subst true a H1 n (or_introl eq_refl)). apply IH. exact H2.
Qed.

Lemma derived_same_identifier (md5 : string -> string) (ps : float -> string) (s : node) (steps : list (list (Z * node)))
      (n : node) (tag : option string) :
  forallb priors_only steps = true ->
  ident md5 ps (fit_obj s (derive_all_gen true true steps n) tag) = ident md5 ps (fit_obj s (subst_all steps n) tag).
Proof. intro H. rewrite (derive_all_is_subst steps H). reflexivity. Qed.

(* ---------- the code as it is ---------- *)
(* the fact read from the source, as it is now *)
Lemma derive_fact : derive_copies_item_number = true.
Proof. reflexivity. Qed.

Lemma derived_same_identifier_partial (md5 : string -> string) (ps : float -> string) (s : node) (a : list (Z * node))
      (n : node) (tag : option string) :
  priors_only a = true -> tuples_ok n = true ->
  ident md5 ps (fit_obj s (derive a n) tag) = ident md5 ps (fit_obj s (subst a n) tag).
Proof. intros Ha Hn. unfold derive. rewrite derive_fact, (derive_is_subst _ a Ha n (or_intror Hn)). reflexivity. Qed.

(* no prior replaced (every prior mapped to itself): the original model *)
Lemma subst_entries_nil l :
  Forall (fun kv => subst [] (snd kv) = snd kv) l -> subst_entries [] l = l.
Proof.
  unfold subst_entries. induction 1 as [|[k v] r Hv Hr IH]; [reflexivity|]. cbn [map fst snd] in *. rewrite Hv, IH. reflexivity.
Qed.

Lemma subst_nil : forall n, subst [] n = n.
Proof.
  induction n as [pid fam lo hi m s|v|z|b|s| |d|mid ms IH|mid c ln rn l IHl r IHr|mid c pn x IHx
                 |mid lbl cls cargs attrs IH|mid k attrs IH|c cargs ex attrs IH|c fs attrs IH] using node_ind';
    try reflexivity.
  - cbn [subst]. rewrite subst_go, subst_entries_nil by exact IH. reflexivity.
  - cbn [subst]. rewrite subst_go, subst_entries_nil by exact IH. reflexivity.
  - cbn [subst]. rewrite subst_go, subst_entries_nil by exact IH. reflexivity.
Qed.

Lemma derived_copy_same_identifier (md5 : string -> string) (ps : float -> string) (s n : node) (tag : option string) :
  tuples_ok n = true -> ident md5 ps (fit_obj s (derive [] n) tag) = ident md5 ps (fit_obj s n tag).
Proof. intro Hn. rewrite (derived_same_identifier_partial md5 ps s [] n tag eq_refl Hn), subst_nil. reflexivity. Qed.

(* a fit of the derived model: the identifier recomputed from the model.json / search.json it wrote (SearchOutput.id) is
   the identifier of the model composed by hand -- the folder it wrote to *)
Lemma derived_roundtrip (md5 : string -> string) (ps : float -> string) (s : node) (a : list (Z * node))
      (n : node) (tag : option string) :
  priors_only a = true -> tuples_ok n = true -> reload_ok s = true -> reload_ok (subst a n) = true ->
  exists s' m', reload s = Some s' /\ reload (derive a n) = Some m' /\
                ident md5 ps (fit_obj_output s' m' tag) = ident md5 ps (fit_obj s (subst a n) tag) /\
                ident md5 ps (fit_obj s (derive a n) tag) = ident md5 ps (fit_obj s (subst a n) tag).
Proof.
  intros Ha Hn Hs Hm. unfold derive. rewrite derive_fact, (derive_is_subst _ a Ha n (or_intror Hn)).
  destruct (roundtrip_partial md5 ps s (subst a n) tag Hs Hm) as [s' [m' [R1 [R2 E]]]].
  exists s', m'. repeat split; assumption.
Qed.

(* ---------- outside the guard the code as it is violates the full statement ---------- *)
(* a tuple whose first member is fixed and whose second is free: the derived tuple lists the prior first *)
Definition mixed_tuple : node :=
  NModel 3 "" "c07_classes.P2" ["c"; "pos"] [("c", NFloat 1); ("pos", NTuple 2 [("pos_0", NFloat 2); ("pos_1", u01 1)])].

Lemma derived_tuple_witness :
  exists (ps : float -> string) (s : node) (a : list (Z * node)) (n : node) (tag : option string),
    priors_only a = true /\ tuples_ok n = false /\
    tokens ps (fit_obj s (derive a n) tag) <> tokens ps (fit_obj s (subst a n) tag).
Proof.
  exists ps0, emcee, [], mixed_tuple, None. split; [reflexivity|]. split; [reflexivity|]. vm_compute. discriminate.
Qed.
