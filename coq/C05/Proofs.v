From Coq Require Import ZArith List Bool Arith Lia.
From PAFC05 Require Import Model.
Import ListNotations.

Lemma from_lists_nil_rows : forall V paths (lls lps ws : list V), from_lists V paths [] lls lps ws = [].
Proof. reflexivity. Qed.
