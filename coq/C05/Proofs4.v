(* C05 lemmas, part 4: model.unique_prior_paths / model.all_paths -- the columns of a sample are
   keyed by one path per prior, in prior-id order, and the vector rebuilt through all_paths from
   such kwargs is the parameter row itself. *)
From Coq Require Import ZArith List Bool Arith Lia Sorting.Sorted Permutation.
From PAFC05 Require Import Model Proofs1 Proofs3.
Import ListNotations.

Section Dicts.
  Context {A : Type}.

  (* ---- keys of dict_upd ---- *)
  Lemma dict_upd_keys (f : option A -> A) d k k' :
    In k' (map fst (dict_upd f d k)) <-> k' = k \/ In k' (map fst d).
  Proof.
    induction d as [|[k0 v] d IH]; simpl.
    - intuition.
    - destruct (Nat.eqb_spec k k0) as [->|Hne]; simpl.
      + intuition.
      + rewrite IH. intuition.
  Qed.

  Lemma dict_upd_nodup (f : option A -> A) d k : NoDup (map fst d) -> NoDup (map fst (dict_upd f d k)).
  Proof.
    induction d as [|[k0 v] d IH]; simpl; intros H.
    - constructor; [intros []|constructor].
    - destruct (Nat.eqb_spec k k0) as [->|Hne]; simpl; auto.
      inversion H as [|? ? Hk Hd]; subst. constructor; auto.
      rewrite dict_upd_keys. intros [->|Hin]; [congruence | contradiction].
  Qed.

  (* ---- insertion sort by key ---- *)
  Lemma insert_keys (x : nat * A) l k : In k (map fst (insert_by_id x l)) <-> k = fst x \/ In k (map fst l).
  Proof.
    induction l as [|y l IH]; simpl; [intuition|].
    destruct (Nat.ltb (fst x) (fst y)); simpl; [intuition|]. rewrite IH. intuition.
  Qed.

  Lemma sort_keys (l : list (nat * A)) k : In k (map fst (sort_by_id l)) <-> In k (map fst l).
  Proof.
    induction l as [|x l IH]; simpl; [tauto|]. rewrite insert_keys, IH. intuition.
  Qed.

  Lemma insert_sorted (x : nat * A) l :
    StronglySorted lt (map fst l) -> ~ In (fst x) (map fst l) ->
    StronglySorted lt (map fst (insert_by_id x l)).
  Proof.
    induction l as [|y l IH]; simpl; intros Hs Hn.
    - constructor; constructor.
    - inversion Hs as [|? ? Hs' Hall]; subst.
      destruct (Nat.ltb_spec (fst x) (fst y)) as [Hlt|Hge]; simpl.
      + constructor; [constructor; auto|]. constructor; auto.
        rewrite Forall_forall in *. intros z Hz. specialize (Hall z Hz). lia.
      + constructor.
        * apply IH; auto.
        * rewrite Forall_forall in *. intros z Hz. apply insert_keys in Hz. destruct Hz as [->|Hz]; auto.
          assert (fst x <> fst y) by (intros E; apply Hn; left; auto). lia.
  Qed.

  Lemma sort_sorted (l : list (nat * A)) : NoDup (map fst l) -> StronglySorted lt (map fst (sort_by_id l)).
  Proof.
    induction l as [|x l IH]; simpl; intros H; [constructor|].
    inversion H as [|? ? Hx Hl]; subst. apply insert_sorted; auto. rewrite sort_keys. exact Hx.
  Qed.
End Dicts.

(* ---- two dicts with the same keys, related values, stay related under sorting ---- *)
Section Related.
  Context {A B : Type}.
  Variable P : A -> B -> Prop.
  Definition rel (d : list (nat * A)) (e : list (nat * B)) : Prop :=
    Forall2 (fun u v => fst u = fst v /\ P (snd u) (snd v)) d e.

  Lemma insert_rel x y d e : fst x = fst y -> P (snd x) (snd y) -> rel d e -> rel (insert_by_id x d) (insert_by_id y e).
  Proof.
    intros Hk Hp H; induction H as [|u v d e [Huv Hpuv] H IH]; simpl.
    - repeat constructor; auto.
    - rewrite Hk, Huv. destruct (Nat.ltb (fst y) (fst v)).
      + repeat (constructor; auto).
      + constructor; auto.
  Qed.

  Lemma sort_rel d e : rel d e -> rel (sort_by_id d) (sort_by_id e).
  Proof. induction 1 as [|u v d e [Huv Hp] H IH]; simpl; [constructor|]. apply insert_rel; auto. Qed.

  Lemma upd_rel (f : option A -> A) (g : option B -> B) d e k :
    P (f None) (g None) -> (forall a b, P (f (Some a)) (g (Some b))) ->
    rel d e -> rel (dict_upd f d k) (dict_upd g e k).
  Proof.
    intros H0 H1 H; induction H as [|[ku a] [kv b] d e [Huv Hp] H IH]; simpl in *.
    - constructor; [split; auto | constructor].
    - subst kv. destruct (Nat.eqb k ku); constructor; simpl; auto.
  Qed.
End Related.

(* ---- unique_prior_paths vs all_paths ---- *)
Definition app_path (p : path) (o : option (list path)) : list path :=
  match o with None => [p] | Some l => l ++ [p] end.

Lemma dicts_related_from (pp : list (path * nat)) du da :
  rel (fun p l => In p l) du da ->
  rel (fun p l => In p l)
      (fold_left (fun d (it : path * nat) => dict_upd (fun _ => fst it) d (snd it)) pp du)
      (fold_left (fun d (it : path * nat) => dict_upd (app_path (fst it)) d (snd it)) pp da).
Proof.
  revert du da; induction pp as [|[p k] pp IH]; intros du da H; simpl; auto.
  apply IH. apply upd_rel; auto; simpl.
  - left; reflexivity.
  - intros a b. apply in_or_app; right; left; reflexivity.
Qed.

Lemma all_dict_alt pp :
  all_dict pp = fold_left (fun d (it : path * nat) => dict_upd (app_path (fst it)) d (snd it)) pp [].
Proof. reflexivity. Qed.

(* the k-th column's path is one of the paths to the k-th prior *)
Lemma paths_aligned pp : Forall2 (fun p g => In p g) (unique_prior_paths pp) (all_paths pp).
Proof.
  unfold unique_prior_paths, all_paths, unique_dict. rewrite all_dict_alt.
  pose proof (sort_rel _ _ _ (dicts_related_from pp [] [] (Forall2_nil _))) as H.
  induction H as [|u v d e [_ Hp] H IH]; simpl; constructor; auto.
Qed.

(* ---- every path occurs in exactly one group ---- *)
Definition flat (d : list (nat * list path)) : list path := concat (map snd d).

Lemma flat_upd d p k : Permutation (flat (dict_upd (app_path p) d k)) (p :: flat d).
Proof.
  induction d as [|[k0 l] d IH]; unfold flat in *; simpl.
  - reflexivity.
  - destruct (Nat.eqb k k0); simpl.
    + rewrite <- app_assoc. simpl. symmetry. apply Permutation_middle.
    + rewrite IH. symmetry. apply Permutation_middle.
Qed.

Lemma flat_fold pp : forall d,
  Permutation (flat (fold_left (fun d (it : path * nat) => dict_upd (app_path (fst it)) d (snd it)) pp d))
              (map fst pp ++ flat d).
Proof.
  induction pp as [|[p k] pp IH]; intros d; simpl; [reflexivity|].
  rewrite IH. rewrite flat_upd. symmetry. apply Permutation_middle.
Qed.

Lemma flat_insert (x : nat * list path) l : Permutation (flat (insert_by_id x l)) (snd x ++ flat l).
Proof.
  induction l as [|y l IH]; unfold flat in *; simpl; [reflexivity|].
  destruct (Nat.ltb (fst x) (fst y)); simpl; [reflexivity|].
  rewrite IH. rewrite !app_assoc. apply Permutation_app_tail. apply Permutation_app_comm.
Qed.

Lemma flat_sort l : Permutation (flat (sort_by_id l)) (flat l).
Proof.
  induction l as [|x l IH]; simpl; [reflexivity|]. rewrite flat_insert.
  unfold flat at 2; simpl. apply Permutation_app_head. exact IH.
Qed.

Lemma all_paths_perm pp : Permutation (concat (all_paths pp)) (map fst pp).
Proof.
  unfold all_paths. fold (flat (sort_by_id (all_dict pp))). rewrite flat_sort, all_dict_alt, flat_fold.
  unfold flat; simpl. rewrite app_nil_r. reflexivity.
Qed.

Lemma all_paths_nodup pp : NoDup (map fst pp) -> NoDup (concat (all_paths pp)).
Proof. intros H. eapply Permutation_NoDup; [symmetry; apply all_paths_perm | exact H]. Qed.

(* ---- columns are in strictly increasing prior-id order, one per prior of the model ---- *)
Lemma unique_dict_keys_from pp : forall d k,
  In k (map fst (fold_left (fun d (it : path * nat) => dict_upd (fun _ => fst it) d (snd it)) pp d))
  <-> In k (map snd pp) \/ In k (map fst d).
Proof.
  induction pp as [|[p k0] pp IH]; intros d k; simpl; [tauto|].
  rewrite IH, dict_upd_keys. intuition.
Qed.

Lemma unique_dict_nodup_from pp : forall d,
  NoDup (map fst d) ->
  NoDup (map fst (fold_left (fun d (it : path * nat) => dict_upd (fun _ => fst it) d (snd it)) pp d)).
Proof.
  induction pp as [|[p k0] pp IH]; intros d H; simpl; auto. apply IH. apply dict_upd_nodup; auto.
Qed.

Lemma column_ids_sorted pp : StronglySorted lt (column_ids pp).
Proof. unfold column_ids. apply sort_sorted. apply unique_dict_nodup_from. constructor. Qed.

Lemma column_ids_complete pp k : In k (column_ids pp) <-> In k (map snd pp).
Proof.
  unfold column_ids. rewrite sort_keys. unfold unique_dict. rewrite unique_dict_keys_from. simpl; tauto.
Qed.

Lemma paths_length pp : length (unique_prior_paths pp) = length (column_ids pp).
Proof. unfold unique_prior_paths, column_ids. rewrite !map_length. reflexivity. Qed.

(* ---- the vector handed to instance_from_vector ---- *)
Lemma best_vector_is_row (V : Type) pp (rows : list (list V)) lls lps ws s :
  NoDup (map fst pp) ->
  rows_ok V (unique_prior_paths pp) rows ->
  In s (from_lists V (unique_prior_paths pp) rows lls lps ws) ->
  vector_for V (all_paths pp) (s_kw s) = Some (s_vec V s) /\ In (s_vec V s) rows.
Proof.
  intros Hnd Hok Hin.
  destruct (from_lists_keys V _ rows lls lps ws s Hok Hin) as [r [Hr [Hkw _]]].
  assert (Hlen : length r = length (unique_prior_paths pp)).
  { unfold rows_ok in Hok. rewrite Forall_forall in Hok. auto. }
  assert (Hv : s_vec V s = r) by (unfold s_vec; rewrite Hkw; apply combine_snd; auto).
  rewrite Hv, Hkw. split; auto.
  apply vector_for_spec; auto.
  - apply paths_aligned.
  - apply all_paths_nodup; auto.
Qed.
